// Internal test injected into sigs.k8s.io/cli-utils/pkg/kstatus/watcher with
// `go test -overlay` (nothing is written into the repository).  It executes op
// scripts against the real, unexported eventFunnel and writes what it observed.
//
// Input  (env VERIF_FUNNEL_IN):  one script per line:  <id>|<op> <op> ...
//   new          make an (unbuffered) input channel; channels are numbered 0,1,..
//   add:K        funnel.AddInputChannel(channel K)            -> ok | err | hang
//   send:K:E     producer K is told to send event E (asynchronous, FIFO per K)
//   close:K      producer K is told to close its channel after its sends
//   cancel       cancel the funnel context
//   recv         receive from OutputChannel()                 -> e:<E> | closed | hang
//   waitdone     wait for Done()                              -> done | hang
//   yield/pause  runtime.Gosched() x8 / sleep 300us (shake the schedule)
// Output (env VERIF_FUNNEL_OUT): BEGIN <id> before a script runs, then
//   END <id>|<result per op, "-" when none>|cleanup=<ok|hang>|leak=<n>
// After more than 6 hangs/leaks (5 s / 2 s each) the remaining scripts are skipped (line "ABORT ...").
// A Go panic in a funnel goroutine kills the test binary; the script whose BEGIN
// has no END is the culprit.
package watcher

import (
	"bufio"
	"context"
	"fmt"
	"os"
	"runtime"
	"strconv"
	"strings"
	"testing"
	"time"

	"sigs.k8s.io/cli-utils/pkg/kstatus/polling/event"
)

const verifWatchdog = 5 * time.Second

type verifCmd struct {
	send  bool
	ev    int
	close bool
}

type verifProducer struct {
	ch     chan event.Event
	cmds   chan verifCmd
	abort  chan struct{}
	exited chan struct{}
}

func newVerifProducer() *verifProducer {
	p := &verifProducer{
		ch:     make(chan event.Event),
		cmds:   make(chan verifCmd, 256),
		abort:  make(chan struct{}),
		exited: make(chan struct{}),
	}
	go func() {
		defer close(p.exited)
		closed := false
		defer func() {
			if !closed {
				close(p.ch)
			}
		}()
		for {
			select {
			case <-p.abort:
				return
			case c := <-p.cmds:
				if c.close {
					close(p.ch)
					closed = true
					// nothing may follow a close
					<-p.abort
					return
				}
				select {
				case p.ch <- event.Event{
					Type:     event.ResourceUpdateEvent,
					Resource: &event.ResourceStatus{Message: strconv.Itoa(c.ev)},
				}:
				case <-p.abort:
					return
				}
			}
		}
	}()
	return p
}

func verifSettle(baseline int) int {
	deadline := time.Now().Add(2 * time.Second)
	for {
		n := runtime.NumGoroutine()
		if n <= baseline || time.Now().After(deadline) {
			return n - baseline
		}
		runtime.Gosched()
		time.Sleep(200 * time.Microsecond)
	}
}

func verifRunScript(ops []string) (results []string, cleanup string, leak int) {
	baseline := runtime.NumGoroutine()
	ctx, cancel := context.WithCancel(context.Background())
	funnel := newEventFunnel(ctx)
	out := funnel.OutputChannel()
	var prods []*verifProducer
	outClosed := false
	timer := time.NewTimer(verifWatchdog)
	defer timer.Stop()
	resetTimer := func() {
		if !timer.Stop() {
			select {
			case <-timer.C:
			default:
			}
		}
		timer.Reset(verifWatchdog)
	}

	for _, op := range ops {
		f := strings.Split(op, ":")
		res := "-"
		switch f[0] {
		case "new":
			prods = append(prods, newVerifProducer())
		case "add":
			k, _ := strconv.Atoi(f[1])
			done := make(chan error, 1)
			go func() { done <- funnel.AddInputChannel(prods[k].ch) }()
			resetTimer()
			select {
			case err := <-done:
				if err == nil {
					res = "ok"
				} else {
					res = "err"
				}
			case <-timer.C:
				res = "hang"
			}
		case "send":
			k, _ := strconv.Atoi(f[1])
			e, _ := strconv.Atoi(f[2])
			prods[k].cmds <- verifCmd{send: true, ev: e}
		case "close":
			k, _ := strconv.Atoi(f[1])
			prods[k].cmds <- verifCmd{close: true}
		case "cancel":
			cancel()
		case "recv":
			resetTimer()
			select {
			case e, ok := <-out:
				if !ok {
					res = "closed"
					outClosed = true
				} else if e.Resource != nil {
					res = "e:" + e.Resource.Message
				} else {
					res = "e:?"
				}
			case <-timer.C:
				res = "hang"
			}
		case "waitdone":
			resetTimer()
			select {
			case <-funnel.Done():
				res = "done"
			case <-timer.C:
				res = "hang"
			}
		case "yield":
			for i := 0; i < 8; i++ {
				runtime.Gosched()
			}
		case "pause":
			time.Sleep(300 * time.Microsecond)
		}
		results = append(results, res)
	}

	// shut everything down: cancel, stop the producers (each closes its
	// channel), drain the output until it is closed.
	cancel()
	for _, p := range prods {
		close(p.abort)
	}
	cleanup = "ok"
	if !outClosed {
		resetTimer()
	loop:
		for {
			select {
			case _, ok := <-out:
				if !ok {
					break loop
				}
			case <-timer.C:
				cleanup = "hang"
				break loop
			}
		}
	}
	if cleanup == "ok" {
		resetTimer()
		select {
		case <-funnel.Done():
		case <-timer.C:
			cleanup = "hang"
		}
	}
	for _, p := range prods {
		resetTimer()
		select {
		case <-p.exited:
		case <-timer.C:
			cleanup = "hang"
		}
	}
	leak = verifSettle(baseline)
	return results, cleanup, leak
}

func TestVerifFunnel(t *testing.T) {
	inPath, outPath := os.Getenv("VERIF_FUNNEL_IN"), os.Getenv("VERIF_FUNNEL_OUT")
	if inPath == "" || outPath == "" {
		t.Skip("VERIF_FUNNEL_IN / VERIF_FUNNEL_OUT not set")
	}
	in, err := os.Open(inPath)
	if err != nil {
		t.Fatal(err)
	}
	defer in.Close()
	outF, err := os.Create(outPath)
	if err != nil {
		t.Fatal(err)
	}
	defer outF.Close()
	sc := bufio.NewScanner(in)
	sc.Buffer(make([]byte, 1<<20), 1<<20)
	hangs := 0
	for sc.Scan() {
		line := strings.TrimSpace(sc.Text())
		if line == "" {
			continue
		}
		parts := strings.SplitN(line, "|", 2)
		id := parts[0]
		var ops []string
		if len(parts) == 2 {
			ops = strings.Fields(parts[1])
		}
		fmt.Fprintf(outF, "BEGIN %s\n", id)
		results, cleanup, leak := verifRunScript(ops)
		fmt.Fprintf(outF, "END %s|%s|cleanup=%s|leak=%d\n", id, strings.Join(results, " "), cleanup, leak)
		// every hang costs a 5 s watchdog: a handful of them is evidence enough
		if cleanup == "hang" || leak > 0 {
			hangs++
		}
		for _, r := range results {
			if r == "hang" {
				hangs++
			}
		}
		if hangs > 6 {
			fmt.Fprintf(outF, "ABORT too many hangs\n")
			return
		}
	}
}
