// Package c16 drives the real event funnel (through an overlaid internal test)
// and the real DefaultStatusWatcher (over client-go's fake dynamic client) and
// writes the observations as Coq cases.
package c16

import (
	"math/rand"

	"verifharness/emit"
)

func Run(seed int64, tier, outDir string) (*emit.Summary, error) {
	sum := emit.NewSummary("C16", seed, tier)
	r := rand.New(rand.NewSource(seed))
	sum.Rule = "funnel: the observed result of every op is one the model can produce under some schedule (state-set simulation) and the monitor (no loss, FIFO per input, close only after cancel with all inputs closed, AddInput refused after close, no hang/leak/panic) holds; " +
		"watcher: ids with events, last status per id, one sync, error count, closure and goroutine baseline equal the model's and satisfy the monitor"
	if err := runFunnel(r, tier, outDir, sum); err != nil {
		return nil, err
	}
	if err := runReporter(r, tier, outDir, sum); err != nil {
		return nil, err
	}
	return sum, nil
}
