// Package c16 drives the real event funnel (through an overlaid internal test)
// and the real DefaultStatusWatcher (over client-go's fake dynamic client) and
// writes the observations as Coq cases.
package c16

import (
	"math/rand"

	"verifharness/emit"
)

func Run(seed int64, tier, outDir string) (*emit.Summary, error) {
	sum := emit.NewSummary("C16", seed, tier)
	r := rand.New(rand.NewSource(seed))
	sum.Rule = "funnel: the observed result of every op is one the model can produce under some schedule (state-set simulation) and the monitor (no loss, FIFO per input, close only after cancel with all inputs closed, AddInput refused after close, no hang/leak/panic) holds; " +
		"watcher: ids with events, last status per id, one sync, error count, closure and goroutine baseline equal the model's and satisfy the monitor"
	if err := runFunnel(r, tier, outDir, sum); err != nil {
		return nil, err
	}
	if err := runReporter(r, tier, outDir, sum); err != nil {
		return nil, err
	}
	return sum, nil
}

// AddUnschedulable runs only the scripts that wait out status.ScheduleWindow (a Pod that
// stays unschedulable must be reported Failed by the watcher's delayed re-check) and appends
// them to another property's summary as one more case file (used by the C08 check: the
// "unschedulable beyond the grace window" clause seen through the real status watcher).
func AddUnschedulable(sum *emit.Summary, prop, tier, outDir string) error {
	scripts := unschedulableScripts(tier)
	if tier != "thorough" && len(scripts) > 4 {
		scripts = scripts[:4]
	}
	obs := make([]*robs, len(scripts))
	done := make(chan int, len(scripts))
	for i := range scripts {
		go func(i int) {
			obs[i] = runReporterScript(scripts[i])
			done <- i
		}(i)
	}
	for range scripts {
		<-done
	}
	cf := &emit.CaseFile{Name: "Cases_" + prop + "_watcher_unschedulable",
		Imports: "From CliUtils Require Import Model.Reporter Corr.CorrC16.", Check: "check_reporter"}
	var terms []string
	var nontr []bool
	for i, sc := range scripts {
		o := obs[i]
		term, text := sc.caseTerm(o)
		if o.panicMsg != "" {
			sum.ImplFailures = append(sum.ImplFailures, "watcher: panic: "+o.panicMsg+" in "+text)
			continue
		}
		if !o.closed {
			sum.ImplFailures = append(sum.ImplFailures, "watcher: event channel not closed 5s after cancel: "+text)
		}
		cf.Add(term, text)
		terms = append(terms, term)
		nontr = append(nontr, true)
		sum.Count("watcher-unschedulable:" + sc.label)
	}
	sum.Evaluations += len(terms)
	sum.DistinctNontrivial += emit.Distinct(terms, nontr)
	return cf.Write(outDir, sum)
}
