package c16

import (
	"bufio"
	"encoding/json"
	"fmt"
	"math/rand"
	"os"
	"os/exec"
	"path/filepath"
	"strconv"
	"strings"
	"time"

	"verifharness/emit"
)

// ---- funnel scripts ---------------------------------------------------------

type fscript struct {
	id   string
	kind string
	ops  []string
}

// fixed corpus: one script per branch of event_funnel.go plus the shapes that
// distinguish the close condition (ctx done AND no open input) from its two
// halves.
func funnelCorpus() []fscript {
	mk := func(kind, s string) fscript { return fscript{kind: kind, ops: strings.Fields(s)} }
	return []fscript{
		mk("basic", "new add:0 send:0:1 recv close:0 cancel recv waitdone"),
		mk("cancel-first", "cancel pause new add:0 recv waitdone"),
		mk("cancel-add-race", "cancel new add:0 close:0 recv waitdone"),
		// counter reaches 0 while the context is live: the funnel must stay open
		mk("zero-inputs-not-cancelled", "new add:0 close:0 pause new add:1 send:1:5 recv send:1:6 recv close:1 cancel recv waitdone"),
		mk("zero-inputs-not-cancelled", "new add:0 send:0:1 recv close:0 pause pause new add:1 send:1:2 recv close:1 pause new add:2 send:2:3 recv close:2 cancel recv waitdone"),
		// context done while an input is open: the funnel must stay open
		mk("cancelled-inputs-open", "new add:0 send:0:1 cancel pause recv send:0:2 recv close:0 recv waitdone"),
		mk("cancelled-inputs-open", "new new add:0 add:1 cancel pause send:0:1 send:1:2 recv recv close:0 pause send:1:3 recv close:1 recv waitdone"),
		// AddInputChannel while cancelled but with a live input: both select cases ready
		mk("add-after-cancel-live", "new add:0 send:0:1 cancel pause new add:1 recv close:0 close:1 recv waitdone"),
		mk("add-after-cancel-live", "new new add:0 add:1 cancel pause pause new add:2 close:0 new add:3 close:1 close:2 close:3 recv waitdone new add:4"),
		mk("two-inputs", "new new add:0 add:1 send:0:1 send:1:2 recv recv send:0:3 send:0:4 recv recv close:0 close:1 cancel recv waitdone"),
		mk("send-before-add", "new send:0:1 send:0:2 add:0 recv recv close:0 cancel recv waitdone"),
		mk("never-added", "new new add:0 send:1:9 send:0:1 recv close:0 cancel recv waitdone"),
		mk("add-after-close", "new add:0 close:0 cancel recv waitdone new add:1 new add:2"),
		mk("add-after-close", "cancel recv new add:0 waitdone new add:1"),
		mk("close-then-cancel-race", "new add:0 cancel close:0 new add:1 close:1 recv waitdone"),
		mk("close-then-cancel-race", "new new add:0 add:1 close:0 cancel close:1 new add:2 close:2 recv waitdone"),
		mk("empty", ""),
		mk("no-shutdown", "new add:0 send:0:1 recv send:0:2"),
	}
}

// random scripts.  The generator keeps only enough bookkeeping to avoid ops
// that would block for ever (recv with nothing outstanding); it does not know
// the outcome of racy ops.
func genFunnelScript(r *rand.Rand) fscript {
	var ops []string
	nIn := 0
	added := map[int]bool{}     // add issued while not cancelled (certainly ok)
	addIssued := map[int]bool{} // any add issued
	closeCmd := map[int]bool{}
	sentOn := map[int]int{} // events sent per input
	outstanding := 0        // events that will certainly arrive
	cancelled := false
	nextEv := 1
	n := 3 + r.Intn(14)
	shake := func() {
		switch r.Intn(6) {
		case 0:
			ops = append(ops, "yield")
		case 1:
			ops = append(ops, "pause")
		}
	}
	for i := 0; i < n; i++ {
		switch x := r.Intn(100); {
		case x < 14 && nIn < 4:
			ops = append(ops, "new")
			nIn++
		case x < 32 && nIn > 0:
			k := r.Intn(nIn)
			if addIssued[k] || (cancelled && sentOn[k] > 0) {
				continue
			}
			addIssued[k] = true
			if cancelled && r.Intn(10) < 7 {
				ops = append(ops, "pause")
			}
			ops = append(ops, fmt.Sprintf("add:%d", k))
			if !cancelled {
				added[k] = true
				outstanding += sentOn[k]
			}
		case x < 58 && nIn > 0:
			k := r.Intn(nIn)
			if closeCmd[k] || (addIssued[k] && !added[k]) || (cancelled && !added[k]) {
				continue
			}
			ops = append(ops, fmt.Sprintf("send:%d:%d", k, nextEv))
			nextEv++
			sentOn[k]++
			if added[k] {
				outstanding++
			}
		case x < 68 && nIn > 0:
			k := r.Intn(nIn)
			if closeCmd[k] {
				continue
			}
			closeCmd[k] = true
			ops = append(ops, fmt.Sprintf("close:%d", k))
		case x < 72:
			if !cancelled {
				cancelled = true
				ops = append(ops, "cancel")
			}
		case x < 96:
			if outstanding > 0 {
				ops = append(ops, "recv")
				outstanding--
			}
		default:
			shake()
		}
		if r.Intn(5) == 0 {
			shake()
		}
	}
	kind := "random-open"
	if r.Intn(10) < 7 {
		kind = "random-shutdown"
		// full shutdown in a random order of its three ingredients
		var tail []string
		if !cancelled {
			tail = append(tail, "cancel")
		}
		for k := 0; k < nIn; k++ {
			if !closeCmd[k] {
				tail = append(tail, fmt.Sprintf("close:%d", k))
			}
		}
		for i := 0; i < outstanding; i++ {
			tail = append(tail, "recv")
		}
		r.Shuffle(len(tail), func(i, j int) { tail[i], tail[j] = tail[j], tail[i] })
		ops = append(ops, tail...)
		ops = append(ops, "recv")
		if r.Intn(2) == 0 {
			ops = append(ops, "waitdone")
		}
		// AddInputChannel after the shutdown must be refused
		if r.Intn(2) == 0 {
			ops = append(ops, "new", fmt.Sprintf("add:%d", nIn))
		}
	}
	return fscript{kind: kind, ops: ops}
}

func repoDir() string {
	if d := os.Getenv("VERIF_REPO"); d != "" {
		return d
	}
	return "/repo"
}

func overlaySource() (string, error) {
	// the harness binary runs with cwd = /verif/harness
	cands := []string{"overlay/zz_verif_funnel_test.go", "/verif/harness/overlay/zz_verif_funnel_test.go"}
	for _, c := range cands {
		if abs, err := filepath.Abs(c); err == nil {
			if _, err := os.Stat(abs); err == nil {
				return abs, nil
			}
		}
	}
	return "", fmt.Errorf("overlay test file not found")
}

type fobs struct {
	results []string
	cleanup string
	leak    int
	done    bool
}

// runFunnelScripts executes the scripts against the real funnel through
// `go test -overlay`.  crashed = id of the script during which the test binary
// died ("" if it did not), tail = end of the go test output.
func runFunnelScripts(scripts []fscript, outDir string, race bool) (map[string]*fobs, string, string, error) {
	repo := repoDir()
	src, err := overlaySource()
	if err != nil {
		return nil, "", "", err
	}
	inPath := filepath.Join(outDir, "funnel_scripts.txt")
	outPath := filepath.Join(outDir, "funnel_obs.txt")
	ovPath := filepath.Join(outDir, "funnel_overlay.json")
	var b strings.Builder
	for _, s := range scripts {
		fmt.Fprintf(&b, "%s|%s\n", s.id, strings.Join(s.ops, " "))
	}
	if err := os.WriteFile(inPath, []byte(b.String()), 0o644); err != nil {
		return nil, "", "", err
	}
	os.Remove(outPath)
	ov := map[string]map[string]string{"Replace": {
		filepath.Join(repo, "pkg/kstatus/watcher/zz_verif_funnel_test.go"): src,
	}}
	ovb, _ := json.Marshal(ov)
	if err := os.WriteFile(ovPath, ovb, 0o644); err != nil {
		return nil, "", "", err
	}
	args := []string{"test", "-vet=off", "-overlay=" + ovPath, "-run", "TestVerifFunnel", "-count=1", "-timeout", "900s"}
	if race {
		args = append(args, "-race")
	}
	args = append(args, "./pkg/kstatus/watcher")
	cmd := exec.Command("go", args...)
	cmd.Dir = repo
	env := os.Environ()
	env = append(env, "GOFLAGS=-mod=mod", "GOPROXY=off", "GOSUMDB=off", "GOTOOLCHAIN=local",
		"VERIF_FUNNEL_IN="+inPath, "VERIF_FUNNEL_OUT="+outPath)
	if race {
		env = append(env, "CGO_ENABLED=1")
	}
	cmd.Env = env
	done := make(chan struct{})
	var out []byte
	var runErr error
	go func() { out, runErr = cmd.CombinedOutput(); close(done) }()
	select {
	case <-done:
	case <-time.After(20 * time.Minute):
		if cmd.Process != nil {
			cmd.Process.Kill()
		}
		<-done
		runErr = fmt.Errorf("go test timed out")
	}
	tail := string(out)
	if len(tail) > 400000 {
		tail = tail[:200000] + tail[len(tail)-200000:]
	}
	obs := map[string]*fobs{}
	f, err := os.Open(outPath)
	if err != nil {
		return nil, "", tail, fmt.Errorf("go test produced no observations (%v): %s", runErr, lastLines(tail, 30))
	}
	defer f.Close()
	sc := bufio.NewScanner(f)
	sc.Buffer(make([]byte, 1<<20), 1<<20)
	last := ""
	aborted := false
	for sc.Scan() {
		line := sc.Text()
		switch {
		case strings.HasPrefix(line, "BEGIN "):
			last = strings.TrimPrefix(line, "BEGIN ")
			obs[last] = &fobs{}
		case strings.HasPrefix(line, "ABORT"):
			aborted = true
		case strings.HasPrefix(line, "END "):
			p := strings.Split(strings.TrimPrefix(line, "END "), "|")
			if len(p) != 4 {
				return nil, "", tail, fmt.Errorf("bad observation line %q", line)
			}
			o := obs[p[0]]
			if o == nil {
				return nil, "", tail, fmt.Errorf("END without BEGIN: %q", line)
			}
			o.results = strings.Fields(p[1])
			o.cleanup = strings.TrimPrefix(p[2], "cleanup=")
			o.leak, _ = strconv.Atoi(strings.TrimPrefix(p[3], "leak="))
			o.done = true
		}
	}
	crashed := ""
	if last != "" && !obs[last].done {
		crashed = last
	}
	if aborted {
		crashed = "-aborted-"
	}
	if runErr != nil && crashed == "" && len(obs) < len(scripts) {
		return obs, "", tail, fmt.Errorf("go test failed before finishing the scripts: %v: %s", runErr, lastLines(tail, 30))
	}
	return obs, crashed, tail, nil
}

func fopTerm(op, res string) (string, error) {
	f := strings.Split(op, ":")
	var o string
	switch f[0] {
	case "new":
		o = "ONew"
	case "add":
		o = "(OAdd " + f[1] + ")"
	case "send":
		o = "(OSend " + f[1] + " " + f[2] + ")"
	case "close":
		o = "(OClose " + f[1] + ")"
	case "cancel":
		o = "OCancel"
	case "recv":
		o = "ORecv"
	case "waitdone":
		o = "OWaitDone"
	case "yield", "pause":
		o = "ONop"
	default:
		return "", fmt.Errorf("unknown op %q", op)
	}
	var r string
	switch {
	case res == "-":
		r = "RNone"
	case res == "ok":
		r = "ROk"
	case res == "err":
		r = "RErr"
	case res == "closed":
		r = "RClosed"
	case res == "done":
		r = "RDone"
	case res == "hang":
		r = "RHang"
	case strings.HasPrefix(res, "e:"):
		n, err := strconv.Atoi(res[2:])
		if err != nil {
			// an event the harness never sent
			n = 999999
		}
		r = "(REv " + strconv.Itoa(n) + ")"
	default:
		return "", fmt.Errorf("unknown result %q", res)
	}
	return "(" + o + ", " + r + ")", nil
}

func runFunnel(r *rand.Rand, tier, outDir string, sum *emit.Summary) error {
	nRandom, reps := 1200, 12
	if tier == "thorough" {
		nRandom, reps = 6000, 60
	}
	var scripts []fscript
	for rep := 0; rep < reps; rep++ {
		for _, s := range funnelCorpus() {
			scripts = append(scripts, s)
		}
	}
	for i := 0; i < nRandom; i++ {
		scripts = append(scripts, genFunnelScript(r))
	}
	for i := range scripts {
		scripts[i].id = fmt.Sprintf("f%d", i)
	}
	race := tier == "thorough" && os.Getenv("VERIF_NO_RACE") != "1"
	obs, crashed, tail, err := runFunnelScripts(scripts, outDir, race)
	if err != nil && race {
		// no C toolchain: fall back to the plain build and say so
		sum.Extra["funnel_race_detector"] = "unavailable: " + firstLine(err.Error())
		obs, crashed, tail, err = runFunnelScripts(scripts, outDir, false)
	} else {
		sum.Extra["funnel_race_detector"] = race
	}
	if err != nil {
		return err
	}
	if strings.Contains(tail, "WARNING: DATA RACE") {
		sum.ImplFailures = append(sum.ImplFailures, "funnel: data race reported by the race detector: "+lastLines(tail, 25))
	}
	cf := &emit.CaseFile{Name: "Cases_C16_funnel", Imports: "From CliUtils Require Import Model.Funnel Corr.CorrC16.", Check: "check_funnel"}
	var terms []string
	var nontr []bool
	for _, s := range scripts {
		o := obs[s.id]
		line := strings.Join(s.ops, " ")
		if o == nil {
			if crashed != "" {
				continue // not executed: the binary died earlier
			}
			return fmt.Errorf("no observation for script %s", s.id)
		}
		if !o.done {
			sum.ImplFailures = append(sum.ImplFailures,
				fmt.Sprintf("funnel: test binary died (Go panic) during script [%s]: %s", line, panicLine(tail)))
			sum.Count("funnel:crash")
			continue
		}
		if len(o.results) != len(s.ops) {
			return fmt.Errorf("script %s: %d ops, %d results", s.id, len(s.ops), len(o.results))
		}
		items := make([]string, len(s.ops))
		var txt []string
		for i, op := range s.ops {
			t, err := fopTerm(op, o.results[i])
			if err != nil {
				return err
			}
			items[i] = t
			if o.results[i] == "-" {
				txt = append(txt, op)
			} else {
				txt = append(txt, op+"="+o.results[i])
				sum.Count("funnel-result:" + strings.SplitN(op, ":", 2)[0] + "=" + strings.SplitN(o.results[i], ":", 2)[0])
			}
		}
		term := emit.App("mkFCase", emit.List(items), emit.Bool(o.cleanup == "ok"), emit.Nat(o.leak))
		cf.Add(term, fmt.Sprintf("funnel[%s] %s | cleanup=%s leak=%d", s.kind, strings.Join(txt, " "), o.cleanup, o.leak))
		terms = append(terms, term)
		nontr = append(nontr, len(s.ops) > 2)
		sum.Count("funnel:" + s.kind)
		if o.cleanup != "ok" {
			sum.ImplFailures = append(sum.ImplFailures, fmt.Sprintf("funnel: shutdown did not complete within 5s after script [%s]", line))
		}
		if o.leak > 0 {
			sum.ImplFailures = append(sum.ImplFailures, fmt.Sprintf("funnel: %d goroutines above the baseline after script [%s]", o.leak, line))
		}
	}
	sum.Evaluations += len(terms)
	sum.DistinctNontrivial += emit.Distinct(terms, nontr)
	if len(terms) > 0 {
		sum.Samples = append(sum.Samples, cf.Text[0])
		sum.Samples = append(sum.Samples, cf.Text[len(cf.Text)-1])
	}
	return cf.Write(outDir, sum)
}

func firstLine(s string) string {
	if i := strings.IndexByte(s, '\n'); i >= 0 {
		return s[:i]
	}
	return s
}

func lastLines(s string, n int) string {
	l := strings.Split(strings.TrimSpace(s), "\n")
	if len(l) > n {
		l = l[len(l)-n:]
	}
	return strings.Join(l, " / ")
}

func panicLine(tail string) string {
	for _, l := range strings.Split(tail, "\n") {
		if strings.HasPrefix(l, "panic:") || strings.HasPrefix(l, "fatal error:") {
			return l
		}
	}
	return lastLines(tail, 3)
}
