package c16

import (
	"context"
	"fmt"
	"math/rand"
	"runtime"
	"runtime/pprof"
	"sort"
	"strings"
	"sync"
	"sync/atomic"
	"time"

	apierrors "k8s.io/apimachinery/pkg/api/errors"
	"k8s.io/apimachinery/pkg/api/meta"
	"k8s.io/apimachinery/pkg/fields"
	"k8s.io/apimachinery/pkg/labels"
	metav1 "k8s.io/apimachinery/pkg/apis/meta/v1"
	"k8s.io/apimachinery/pkg/apis/meta/v1/unstructured"
	k8sruntime "k8s.io/apimachinery/pkg/runtime"
	"k8s.io/apimachinery/pkg/runtime/schema"
	"k8s.io/apimachinery/pkg/types"
	utilruntime "k8s.io/apimachinery/pkg/util/runtime"
	"k8s.io/apimachinery/pkg/watch"
	"k8s.io/client-go/dynamic"
	dynamicfake "k8s.io/client-go/dynamic/fake"
	clienttesting "k8s.io/client-go/testing"
	"sigs.k8s.io/cli-utils/pkg/kstatus/polling/engine"
	"sigs.k8s.io/cli-utils/pkg/kstatus/polling/event"
	"sigs.k8s.io/cli-utils/pkg/kstatus/polling/statusreaders"
	"sigs.k8s.io/cli-utils/pkg/kstatus/status"
	"sigs.k8s.io/cli-utils/pkg/kstatus/watcher"
	"sigs.k8s.io/cli-utils/pkg/object"
	"verifharness/emit"
)

// ---- universe -------------------------------------------------------------------

type kindInfo struct {
	gvk        schema.GroupVersionKind
	resource   string
	namespaced bool
	builtin    bool
}

// index = kind number of the Coq model (0 = Namespace, 1 = CRD)
var kinds = []kindInfo{
	{schema.GroupVersionKind{Group: "", Version: "v1", Kind: "Namespace"}, "namespaces", false, true},
	{schema.GroupVersionKind{Group: "apiextensions.k8s.io", Version: "v1", Kind: "CustomResourceDefinition"}, "customresourcedefinitions", false, true},
	{schema.GroupVersionKind{Group: "", Version: "v1", Kind: "ConfigMap"}, "configmaps", true, true},
	{schema.GroupVersionKind{Group: "", Version: "v1", Kind: "Secret"}, "secrets", true, true},
	{schema.GroupVersionKind{Group: "example.com", Version: "v1", Kind: "Widget"}, "widgets", true, false},
	{schema.GroupVersionKind{Group: "rbac.authorization.k8s.io", Version: "v1", Kind: "ClusterRole"}, "clusterroles", false, true},
	{schema.GroupVersionKind{Group: "", Version: "v1", Kind: "Pod"}, "pods", true, true},
	// workloads whose status readers look up GENERATED objects (Deployment > ReplicaSet > Pod)
	// through the cluster reader: only used by the unschedulable:generated scripts
	{schema.GroupVersionKind{Group: "apps", Version: "v1", Kind: "Deployment"}, "deployments", true, true},
	{schema.GroupVersionKind{Group: "apps", Version: "v1", Kind: "ReplicaSet"}, "replicasets", true, true},
}

const (
	kNS     = 0
	kCRD    = 1
	kWidget = 4
	kPod    = 6
	kDeploy = 7
	kRS     = 8
)

// ---- a dynamic client that honours request contexts -------------------------------
//
// client-go's fake dynamic client ignores the context of a request; every real
// client fails a request whose context is already done.  All scripts run the
// watcher over this wrapper: correct code never issues a request on a dead
// context except after cancellation, where the error is expected and ignored.
type ctxClient struct {
	dynamic.Interface
	dead *int64 // requests refused because their context was done
}

func (c *ctxClient) Resource(gvr schema.GroupVersionResource) dynamic.NamespaceableResourceInterface {
	return &ctxResource{NamespaceableResourceInterface: c.Interface.Resource(gvr), ri: c.Interface.Resource(gvr), dead: c.dead}
}

type ctxResource struct {
	dynamic.NamespaceableResourceInterface
	ri   dynamic.ResourceInterface
	dead *int64
}

func (r *ctxResource) Namespace(ns string) dynamic.ResourceInterface {
	return &ctxResource{NamespaceableResourceInterface: r.NamespaceableResourceInterface,
		ri: r.NamespaceableResourceInterface.Namespace(ns), dead: r.dead}
}

func (r *ctxResource) refuse(ctx context.Context) error {
	if err := ctx.Err(); err != nil {
		atomic.AddInt64(r.dead, 1)
		return err
	}
	return nil
}

func (r *ctxResource) Get(ctx context.Context, name string, o metav1.GetOptions, sub ...string) (*unstructured.Unstructured, error) {
	if err := r.refuse(ctx); err != nil {
		return nil, err
	}
	return r.ri.Get(ctx, name, o, sub...)
}

func (r *ctxResource) List(ctx context.Context, o metav1.ListOptions) (*unstructured.UnstructuredList, error) {
	if err := r.refuse(ctx); err != nil {
		return nil, err
	}
	return r.ri.List(ctx, o)
}

func (r *ctxResource) Watch(ctx context.Context, o metav1.ListOptions) (watch.Interface, error) {
	if err := r.refuse(ctx); err != nil {
		return nil, err
	}
	return r.ri.Watch(ctx, o)
}

func (k kindInfo) gvr() schema.GroupVersionResource {
	return schema.GroupVersionResource{Group: k.gvk.Group, Version: k.gvk.Version, Resource: k.resource}
}

// oid mirrors Reporter.oid: kind number, namespace number (0 = none), name number
type oid struct{ gk, ns, name int }

func nsName(n int) string {
	if n == 0 {
		return ""
	}
	return fmt.Sprintf("ns%d", n)
}

func (o oid) objName() string {
	switch o.gk {
	case kNS:
		return nsName(o.name)
	case kCRD:
		return "widgets.example.com"
	}
	return string(rune('a' + o.name - 1))
}

func (o oid) meta() object.ObjMetadata {
	return object.ObjMetadata{Namespace: nsName(o.ns), Name: o.objName(), GroupKind: kinds[o.gk].gvk.GroupKind()}
}

func (o oid) term() string { return fmt.Sprintf("(mkOid %d %d %d)", o.gk, o.ns, o.name) }
func (o oid) String() string {
	return fmt.Sprintf("%s/%s/%s", kinds[o.gk].gvk.Kind, nsName(o.ns), o.objName())
}

// payload variants: what the status rules look at
const nVariants = 6

// variantSlow: like variant 0, but the status computation of this version blocks
// until its context is cancelled and then returns the context error (what the
// built-in readers do when a cluster lookup is interrupted)
const variantSlow = 6

// Pod versions: variantUnsched = Pending, PodScheduled=False/Unschedulable, created
// just now (InProgress inside status.ScheduleWindow, Failed beyond it);
// variantPodReady = Running and Ready (Current)
const variantUnsched = 7
const variantPodReady = 8

// variantPodPending = Pending without any condition yet (InProgress, but not unschedulable)
const variantPodPending = 10

// variantPodGated = Pending, PodScheduled=False with another reason (SchedulingGated);
// variantPodStarting = Pending, PodScheduled=True: both InProgress and NOT unschedulable
const variantPodGated = 11
const variantPodStarting = 12

// variantPodOtherCond = Pending; a condition OTHER than PodScheduled is False with reason Unschedulable
const variantPodOtherCond = 13
const slowAnnotation = "verif.c16/slow-status-read"

// variantErr: like variant 0, but the status computation of this version FAILS
// with an ordinary (non-context) error, as a built-in reader does when a cluster
// lookup is refused.  The handlers must turn that into the one fatal error event
// and stop; the version itself is never reported (model: a payload without an
// event, followed by the SFail step the script places right after it).
const variantErr = 9
const errAnnotation = "verif.c16/failing-status-read"

// slowStatusReader wraps the default reader; see variantSlow.
type slowStatusReader struct {
	engine.StatusReader
	act *int64
}

func (r *slowStatusReader) ReadStatusForObject(ctx context.Context, reader engine.ClusterReader, obj *unstructured.Unstructured) (*event.ResourceStatus, error) {
	if obj.GetAnnotations()[slowAnnotation] == "true" {
		atomic.AddInt64(r.act, 1)
		<-ctx.Done()
		atomic.AddInt64(r.act, 1)
		return nil, ctx.Err()
	}
	if obj.GetAnnotations()[errAnnotation] == "true" {
		atomic.AddInt64(r.act, 1)
		return nil, fmt.Errorf("status read of %s refused", obj.GetName())
	}
	return r.StatusReader.ReadStatusForObject(ctx, reader, obj)
}

// recheckFailName: the delayed re-read (StatusReader.ReadStatus) of the Pod with this
// name fails with an ordinary error -- a custom StatusReader may; the built-in readers
// only fail with the context error
const recheckFailName = "g"

func (r *slowStatusReader) ReadStatus(ctx context.Context, reader engine.ClusterReader, id object.ObjMetadata) (*event.ResourceStatus, error) {
	if id.GroupKind.Kind == "Pod" && id.Name == recheckFailName {
		atomic.AddInt64(r.act, 1)
		return nil, fmt.Errorf("re-read of %s refused", id.Name)
	}
	return r.StatusReader.ReadStatus(ctx, reader, id)
}

func buildObject(o oid, variant int) *unstructured.Unstructured {
	u := &unstructured.Unstructured{Object: map[string]interface{}{}}
	u.SetGroupVersionKind(kinds[o.gk].gvk)
	u.SetName(o.objName())
	if o.ns != 0 {
		u.SetNamespace(nsName(o.ns))
	}
	u.SetGeneration(1)
	if variant == variantSlow {
		u.SetAnnotations(map[string]string{slowAnnotation: "true"})
	}
	if variant == variantErr {
		u.SetAnnotations(map[string]string{errAnnotation: "true"})
	}
	cond := func(t, s string) {
		_ = unstructured.SetNestedSlice(u.Object, []interface{}{
			map[string]interface{}{"type": t, "status": s, "reason": "r", "message": "m"},
		}, "status", "conditions")
	}
	if o.gk == kDeploy || o.gk == kRS {
		// one desired replica, no status yet (InProgress); selects the pods / replica
		// sets labelled app=x of its namespace
		u.SetLabels(map[string]string{"app": "x"})
		_ = unstructured.SetNestedField(u.Object, int64(1), "spec", "replicas")
		_ = unstructured.SetNestedStringMap(u.Object, map[string]string{"app": "x"}, "spec", "selector", "matchLabels")
		return u
	}
	if o.gk == kPod {
		u.SetLabels(map[string]string{"app": "x"})
		u.SetCreationTimestamp(metav1.NewTime(time.Now()))
		_ = unstructured.SetNestedSlice(u.Object, []interface{}{
			map[string]interface{}{"name": "c", "image": "nginx"}}, "spec", "containers")
		if variant == variantPodReady {
			_ = unstructured.SetNestedField(u.Object, "Running", "status", "phase")
			cond("Ready", "True")
		} else if variant == variantPodPending {
			_ = unstructured.SetNestedField(u.Object, "Pending", "status", "phase")
		} else if variant == variantPodGated || variant == variantPodStarting || variant == variantPodOtherCond {
			_ = unstructured.SetNestedField(u.Object, "Pending", "status", "phase")
			c := map[string]interface{}{"type": "PodScheduled", "status": "False", "reason": "SchedulingGated", "message": "gated"}
			if variant == variantPodStarting {
				c = map[string]interface{}{"type": "PodScheduled", "status": "True"}
			}
			if variant == variantPodOtherCond {
				c = map[string]interface{}{"type": "PodReadyToStartContainers", "status": "False", "reason": "Unschedulable"}
			}
			_ = unstructured.SetNestedSlice(u.Object, []interface{}{c}, "status", "conditions")
		} else {
			_ = unstructured.SetNestedField(u.Object, "Pending", "status", "phase")
			_ = unstructured.SetNestedSlice(u.Object, []interface{}{
				map[string]interface{}{"type": "PodScheduled", "status": "False", "reason": "Unschedulable",
					"message": "0/3 nodes are available"}}, "status", "conditions")
		}
		return u
	}
	if o.gk == kCRD {
		_ = unstructured.SetNestedField(u.Object, "example.com", "spec", "group")
		if variant != 5 { // variant 5: kind missing -> not a usable CRD
			_ = unstructured.SetNestedField(u.Object, "Widget", "spec", "names", "kind")
		}
		switch variant {
		case 0, 2:
			cond("Established", "True")
		case 1:
			cond("Established", "False")
		case 3:
			cond("NamesAccepted", "False")
		}
		return u
	}
	switch variant {
	case 1:
		cond("Ready", "False")
	case 2:
		cond("Stalled", "True")
	case 3:
		u.SetGeneration(2)
		_ = unstructured.SetNestedField(u.Object, int64(1), "status", "observedGeneration")
	case 4:
		cond("Reconciling", "True")
	case 5:
		cond("Ready", "True")
	}
	return u
}

func statusTerm(s status.Status) string {
	switch s {
	case status.InProgressStatus:
		return "SInProgress"
	case status.FailedStatus:
		return "SFailed"
	case status.CurrentStatus:
		return "SCurrent"
	case status.TerminatingStatus:
		return "STerminating"
	case status.NotFoundStatus:
		return "SNotFound"
	}
	return "SUnknown"
}

// payloadTerm: the status the LIBRARY computes for this version, and what the CRD defines
func payloadTerm(o oid, variant int) string {
	u := buildObject(o, variant)
	st := "SUnknown"
	if res, err := status.Compute(u); err == nil {
		st = statusTerm(res.Status)
	}
	def := "None"
	if o.gk == kCRD {
		if _, ok := object.GetCRDGroupKind(u); ok {
			def = fmt.Sprintf("(Some %d)", kWidget)
		}
	}
	return fmt.Sprintf("(mkPayload %s %s %s)", st, def, emit.Bool(variant == variantSlow || variant == variantErr))
}

// ---- RESTMapper with a resettable cache -------------------------------------------

type dynMapper struct {
	mu    sync.Mutex
	truth map[int]bool // kinds the "API server" serves now
	cache *meta.DefaultRESTMapper
	// kinds whose RESTMapping lookup fails with an ordinary error (discovery is
	// unreachable): not a NoMatch, so the informer cannot be started -> fatal
	failKinds map[int]bool
}

func newDynMapper(truth map[int]bool) *dynMapper {
	m := &dynMapper{truth: map[int]bool{}}
	for k, v := range truth {
		m.truth[k] = v
	}
	m.Reset()
	return m
}

func (m *dynMapper) setServed(k int, v bool) {
	m.mu.Lock()
	defer m.mu.Unlock()
	m.truth[k] = v
}

func (m *dynMapper) Reset() {
	m.mu.Lock()
	defer m.mu.Unlock()
	var gvs []schema.GroupVersion
	for k, v := range m.truth {
		if v {
			gvs = append(gvs, kinds[k].gvk.GroupVersion())
		}
	}
	c := meta.NewDefaultRESTMapper(gvs)
	for k, v := range m.truth {
		if v {
			sc := meta.RESTScopeRoot
			if kinds[k].namespaced {
				sc = meta.RESTScopeNamespace
			}
			c.AddSpecific(kinds[k].gvk, kinds[k].gvr(), kinds[k].gvr(), sc)
		}
	}
	m.cache = c
}

func (m *dynMapper) cur() *meta.DefaultRESTMapper {
	m.mu.Lock()
	defer m.mu.Unlock()
	return m.cache
}

func (m *dynMapper) KindFor(r schema.GroupVersionResource) (schema.GroupVersionKind, error) {
	return m.cur().KindFor(r)
}
func (m *dynMapper) KindsFor(r schema.GroupVersionResource) ([]schema.GroupVersionKind, error) {
	return m.cur().KindsFor(r)
}
func (m *dynMapper) ResourceFor(r schema.GroupVersionResource) (schema.GroupVersionResource, error) {
	return m.cur().ResourceFor(r)
}
func (m *dynMapper) ResourcesFor(r schema.GroupVersionResource) ([]schema.GroupVersionResource, error) {
	return m.cur().ResourcesFor(r)
}
func (m *dynMapper) RESTMapping(gk schema.GroupKind, versions ...string) (*meta.RESTMapping, error) {
	for k, on := range m.failKinds {
		if on && kinds[k].gvk.GroupKind() == gk {
			return nil, fmt.Errorf("discovery of %s failed: connection refused", gk)
		}
	}
	return m.cur().RESTMapping(gk, versions...)
}
func (m *dynMapper) RESTMappings(gk schema.GroupKind, versions ...string) ([]*meta.RESTMapping, error) {
	return m.cur().RESTMappings(gk, versions...)
}
func (m *dynMapper) ResourceSingularizer(resource string) (string, error) {
	return m.cur().ResourceSingularizer(resource)
}

var _ meta.ResettableRESTMapper = &dynMapper{}

// ---- test-controlled watch connections ---------------------------------------------
//
// Every watch the informers open goes through a proxy in front of the tracker's
// watch.  `break K`: the proxies of kind K stop forwarding (the connection is
// dead, the events are lost).  `relist K`: they answer with a 410 Gone/Expired
// status error, as an apiserver does for a too old resourceVersion; the
// reflector then RE-LISTS (after its 0.8-1.6 s backoff) and opens a new watch.
type proxyWatch struct {
	kind    int
	ns      string
	inner   watch.Interface
	out     chan watch.Event
	stopCh  chan struct{}
	once    sync.Once
	drop    *int32 // shared per kind: 1 = connection dead
	stopped int32
}

func newProxyWatch(kind int, inner watch.Interface, drop *int32) *proxyWatch {
	p := &proxyWatch{kind: kind, inner: inner, out: make(chan watch.Event), stopCh: make(chan struct{}), drop: drop}
	go func() {
		for ev := range inner.ResultChan() {
			if atomic.LoadInt32(p.drop) == 1 {
				continue
			}
			select {
			case p.out <- ev:
			case <-p.stopCh:
				return
			}
		}
	}()
	return p
}

func (p *proxyWatch) Stop() {
	p.once.Do(func() {
		atomic.StoreInt32(&p.stopped, 1)
		close(p.stopCh)
		p.inner.Stop()
	})
}
func (p *proxyWatch) ResultChan() <-chan watch.Event { return p.out }

// expire answers the watch with 410 Expired; false if nobody was listening.
func (p *proxyWatch) expire() bool {
	if atomic.LoadInt32(&p.stopped) == 1 {
		return false
	}
	ev := watch.Event{Type: watch.Error, Object: &metav1.Status{
		Status: metav1.StatusFailure, Code: 410, Reason: metav1.StatusReasonExpired,
		Message: "too old resource version: 1 (2)"}}
	select {
	case p.out <- ev:
		return true
	case <-p.stopCh:
		return false
	case <-time.After(2 * time.Second):
		return false
	}
}

// ---- scripts -------------------------------------------------------------------------

type rstep struct {
	kind    string // break / relist (watch gap of kind id.gk, see proxyWatch) | add | update | delete | cancel | forbid (LIST of id.gk becomes Forbidden) | fail (a fatal error is due: wait for it)
	id      oid
	variant int
}

type rscript struct {
	label   string
	root    bool
	watched []oid
	pre     []struct {
		id      oid
		variant int
	}
	forbid map[int]bool // kinds whose LIST is Forbidden
	// kinds whose RESTMapping lookup fails with an ordinary error (not NoMatch)
	mapperErr map[int]bool
	steps  []rstep
	// statuses the DELAYED re-check (status.ScheduleWindow after an unschedulable
	// pod was seen) must report after the "tick" step, per object
	late map[oid][]string
	// filters: DefaultStatusWatcher.Filters is set (bit 0: a label selector that every object
	// of the script satisfies, bit 1: a field selector that every object satisfies), so the
	// events must be those of an unfiltered watch, and every LIST and WATCH request the
	// informers issue must carry the configured selectors (observed at the fake API server)
	filters int
}

const filterLabelKey, filterLabelValue = "verif.c16/selected", "yes"
const filterFieldSelector = "metadata.name!=excluded-by-field-selector"

// preReadErrors: watched objects that exist when Watch is called and whose status
// read fails: the initial listing reports the fatal error before any sync (the
// generators only put such objects under kinds that are served and not gated by
// a watched Namespace / CRD object).
func (sc *rscript) preReadErrors() int {
	n := 0
	for _, p := range sc.pre {
		if p.variant != variantErr {
			continue
		}
		for _, w := range sc.watched {
			if w == p.id {
				n++
			}
		}
	}
	return n
}

type revent struct {
	typ string // sync | error | update
	id  oid
	st  string
}

type robs struct {
	events     []revent
	closed     bool
	synced     bool
	panicMsg   string
	unknown    int   // update events for ids outside the universe
	selfClosed bool  // channel closed before the harness cancelled
	marks      []int // number of events received when each step began
	tickMark   int   // events received when the wait for the delayed re-check began (-1: no such wait)
	deadCtx    int64 // requests the client refused because their context was done
	badSel     int64 // LIST / WATCH requests that did not carry the configured selectors
	badSelMsg  string
}

func idOf(m object.ObjMetadata) (oid, bool) {
	for gk, k := range kinds {
		if k.gvk.GroupKind() != m.GroupKind {
			continue
		}
		ns := 0
		if m.Namespace != "" {
			if _, err := fmt.Sscanf(m.Namespace, "ns%d", &ns); err != nil {
				return oid{}, false
			}
		}
		switch gk {
		case kNS:
			n := 0
			if _, err := fmt.Sscanf(m.Name, "ns%d", &n); err != nil {
				return oid{}, false
			}
			return oid{gk, ns, n}, true
		case kCRD:
			return oid{gk, ns, 1}, true
		}
		if len(m.Name) != 1 {
			return oid{}, false
		}
		return oid{gk, ns, int(m.Name[0]-'a') + 1}, true
	}
	return oid{}, false
}

// waitQuiet returns once the activity counter has not moved for `quiet`.
func waitQuiet(act *int64, quiet, max time.Duration) {
	deadline := time.Now().Add(max)
	last := atomic.LoadInt64(act)
	lastChange := time.Now()
	for time.Now().Before(deadline) {
		time.Sleep(2 * time.Millisecond)
		cur := atomic.LoadInt64(act)
		if cur != last {
			last, lastChange = cur, time.Now()
		} else if time.Since(lastChange) >= quiet {
			return
		}
	}
}

func runReporterScript(sc *rscript) (obs *robs) {
	obs = &robs{tickMark: -1}
	defer func() {
		if e := recover(); e != nil {
			obs.panicMsg = fmt.Sprint(e)
		}
	}()
	listKinds := map[schema.GroupVersionResource]string{}
	for _, k := range kinds {
		listKinds[k.gvr()] = k.gvk.Kind + "List"
	}
	client := dynamicfake.NewSimpleDynamicClientWithCustomListKinds(k8sruntime.NewScheme(), listKinds)
	var act int64
	var forbidMu sync.Mutex
	forbid := map[int]bool{}
	for k, on := range sc.forbid {
		forbid[k] = on
	}
	var selMu sync.Mutex
	checkSel := func(verb string, a clienttesting.Action, r clienttesting.ListRestrictions) {
		if sc.filters == 0 {
			return
		}
		wantL, wantF := "", ""
		if sc.filters&1 != 0 {
			wantL = filterLabelKey + "=" + filterLabelValue
		}
		if sc.filters&2 != 0 {
			wantF = filterFieldSelector
		}
		gotL, gotF := "", ""
		if r.Labels != nil {
			gotL = r.Labels.String()
		}
		if r.Fields != nil {
			gotF = r.Fields.String()
		}
		if gotL != wantL || gotF != wantF {
			selMu.Lock()
			obs.badSel++
			if obs.badSelMsg == "" {
				obs.badSelMsg = fmt.Sprintf("%s %s labels=%q (want %q) fields=%q (want %q)", verb, a.GetResource().Resource, gotL, wantL, gotF, wantF)
			}
			selMu.Unlock()
		}
	}
	client.PrependReactor("*", "*", func(a clienttesting.Action) (bool, k8sruntime.Object, error) {
		atomic.AddInt64(&act, 1)
		if la, ok := a.(clienttesting.ListAction); ok && a.GetVerb() == "list" {
			checkSel("LIST", a, la.GetListRestrictions())
		}
		if a.GetVerb() == "list" {
			forbidMu.Lock()
			defer forbidMu.Unlock()
			for k, on := range forbid {
				if on && kinds[k].resource == a.GetResource().Resource {
					gr := a.GetResource().GroupResource()
					return true, nil, apierrors.NewForbidden(gr, "", fmt.Errorf("not allowed"))
				}
			}
		}
		return false, nil, nil
	})
	var proxyMu sync.Mutex
	var proxies []*proxyWatch
	dropFlag := make([]int32, len(kinds))
	// (kind, namespace) pairs whose next Watch call is answered 410 Gone, once each
	var goneMu sync.Mutex
	gonePending := map[string]bool{}
	watchCount := make([]int64, len(kinds))
	client.PrependWatchReactor("*", func(a clienttesting.Action) (bool, watch.Interface, error) {
		atomic.AddInt64(&act, 1)
		if wa, ok := a.(clienttesting.WatchAction); ok {
			wr := wa.GetWatchRestrictions()
			checkSel("WATCH", a, clienttesting.ListRestrictions{Labels: wr.Labels, Fields: wr.Fields})
		}
		kind := -1
		for k, ki := range kinds {
			if ki.resource == a.GetResource().Resource && ki.gvk.Group == a.GetResource().Group {
				kind = k
			}
		}
		if kind < 0 {
			return false, nil, nil
		}
		goneKey := fmt.Sprintf("%d/%s", kind, a.GetNamespace())
		goneMu.Lock()
		goneNow := gonePending[goneKey]
		delete(gonePending, goneKey)
		goneMu.Unlock()
		if goneNow {
			// an API server (or a proxy in front of it) that answers "resourceVersion too old" with reason
			// Gone instead of Expired: the reflector hands it to the watch error handler and retries (seed C16f)
			return true, nil, apierrors.NewGone("too old resource version")
		}
		inner, err := client.Tracker().Watch(a.GetResource(), a.GetNamespace())
		if err != nil {
			return true, nil, err
		}
		pw := newProxyWatch(kind, inner, &dropFlag[kind])
		pw.ns = a.GetNamespace()
		proxyMu.Lock()
		proxies = append(proxies, pw)
		proxyMu.Unlock()
		atomic.AddInt64(&watchCount[kind], 1)
		return true, pw, nil
	})
	// every version written gets a fresh resourceVersion (the informer tells
	// changed from unchanged objects by it at a re-list), every creation a new UID
	rv := 0
	uids := map[oid]string{}
	stamp := func(id oid, u *unstructured.Unstructured, create bool) {
		rv++
		u.SetResourceVersion(fmt.Sprint(rv))
		if create {
			uids[id] = fmt.Sprintf("uid-%d", rv)
		}
		u.SetUID(types.UID(uids[id]))
		if sc.filters&1 != 0 {
			l := u.GetLabels()
			if l == nil {
				l = map[string]string{}
			}
			l[filterLabelKey] = filterLabelValue
			u.SetLabels(l)
		}
	}

	truth := map[int]bool{}
	for k, ki := range kinds {
		truth[k] = ki.builtin
	}
	for _, p := range sc.pre {
		u := buildObject(p.id, p.variant)
		stamp(p.id, u, true)
		if err := client.Tracker().Create(kinds[p.id.gk].gvr(), u, u.GetNamespace()); err != nil {
			panic(err)
		}
		if p.id.gk == kCRD {
			if _, ok := object.GetCRDGroupKind(u); ok {
				truth[kWidget] = true
			}
		}
	}
	mapper := newDynMapper(truth)
	mapper.failKinds = sc.mapperErr

	ids := object.ObjMetadataSet{}
	for _, w := range sc.watched {
		ids = append(ids, w.meta())
	}
	strategy := watcher.RESTScopeNamespace
	if sc.root {
		strategy = watcher.RESTScopeRoot
	}
	ctx, cancel := context.WithCancel(context.Background())
	defer cancel()
	var dead int64
	defer func() { obs.deadCtx = atomic.LoadInt64(&dead) }()
	w := watcher.NewDefaultStatusWatcher(&ctxClient{Interface: client, dead: &dead}, mapper)
	w.StatusReader = &slowStatusReader{StatusReader: statusreaders.NewDefaultStatusReader(mapper), act: &act}
	if sc.filters != 0 {
		w.Filters = &watcher.Filters{}
		if sc.filters&1 != 0 {
			w.Filters.Labels = labels.SelectorFromSet(labels.Set{filterLabelKey: filterLabelValue})
		}
		if sc.filters&2 != 0 {
			fs, err := fields.ParseSelector(filterFieldSelector)
			if err != nil {
				panic(err)
			}
			w.Filters.Fields = fs
		}
	}
	ch := w.Watch(ctx, ids, watcher.Options{RESTScopeStrategy: strategy})

	var mu sync.Mutex
	closedCh := make(chan struct{})
	firstCh := make(chan struct{}) // sync or error seen
	var firstOnce sync.Once
	perID := map[oid]int{}
	go func() {
		defer close(closedCh)
		for e := range ch {
			mu.Lock()
			switch e.Type {
			case event.SyncEvent:
				obs.events = append(obs.events, revent{typ: "sync"})
				obs.synced = true
				firstOnce.Do(func() { close(firstCh) })
			case event.ErrorEvent:
				obs.events = append(obs.events, revent{typ: "error"})
				firstOnce.Do(func() { close(firstCh) })
			case event.ResourceUpdateEvent:
				if e.Resource == nil {
					obs.unknown++
				} else if id, ok := idOf(e.Resource.Identifier); ok {
					obs.events = append(obs.events, revent{typ: "update", id: id, st: statusTerm(e.Resource.Status)})
					perID[id]++
				} else {
					obs.unknown++
				}
			}
			mu.Unlock()
			atomic.AddInt64(&act, 1)
		}
	}()
	seen := func(id oid) int {
		mu.Lock()
		defer mu.Unlock()
		return perID[id]
	}
	isWatched := func(id oid) bool {
		for _, w := range sc.watched {
			if w == id {
				return true
			}
		}
		return false
	}

	select {
	case <-firstCh:
	case <-closedCh:
	case <-time.After(5 * time.Second):
	}
	waitQuiet(&act, 40*time.Millisecond, 3*time.Second)

	cancelled := false
	expectFail, gaveUp := false, false
	for _, on := range sc.forbid {
		expectFail = expectFail || on
	}
	expectFail = expectFail || sc.preReadErrors() > 0
	for _, on := range sc.mapperErr {
		expectFail = expectFail || on
	}
	for _, s := range sc.steps {
		if s.kind == "forbid" {
			forbidMu.Lock()
			forbid[s.id.gk] = true
			forbidMu.Unlock()
			continue
		}
		if s.kind != "tick" { // a tick has no model step
			mu.Lock()
			obs.marks = append(obs.marks, len(obs.events))
			mu.Unlock()
		}
		if s.kind == "fail" {
			// a fatal error is due: the watcher must report it and stop by itself
			expectFail = true
			select {
			case <-closedCh:
			case <-time.After(20*time.Second + status.ScheduleWindow):
				gaveUp = true
			}
			continue
		}
		if s.kind == "cancel" {
			cancel()
			cancelled = true
			waitQuiet(&act, 30*time.Millisecond, 2*time.Second)
			continue
		}
		if s.kind == "break" {
			atomic.StoreInt32(&dropFlag[s.id.gk], 1)
			continue
		}
		if s.kind == "tick" {
			// let status.ScheduleWindow elapse: the re-check scheduled for an
			// unschedulable pod fires (if it is still due)
			mu.Lock()
			obs.tickMark = len(obs.events)
			mu.Unlock()
			want := 0
			for _, l := range sc.late {
				want += len(l)
			}
			deadline := time.Now().Add(status.ScheduleWindow + 3*time.Second)
			minimum := time.Now().Add(status.ScheduleWindow + 1500*time.Millisecond)
			for time.Now().Before(deadline) {
				mu.Lock()
				got := len(obs.events) - obs.tickMark
				mu.Unlock()
				if want > 0 && got >= want && time.Now().After(minimum.Add(-1400*time.Millisecond)) {
					break
				}
				if want == 0 && time.Now().After(minimum) {
					break
				}
				time.Sleep(20 * time.Millisecond)
			}
			waitQuiet(&act, 100*time.Millisecond, 2*time.Second)
			continue
		}
		if s.kind == "relist" {
			k := s.id.gk
			atomic.StoreInt32(&dropFlag[k], 0)
			proxyMu.Lock()
			cur := append([]*proxyWatch(nil), proxies...)
			proxyMu.Unlock()
			if s.variant == 1 {
				goneMu.Lock()
				for _, pw := range cur {
					if pw.kind == k && atomic.LoadInt32(&pw.stopped) == 0 {
						gonePending[fmt.Sprintf("%d/%s", k, pw.ns)] = true
					}
				}
				goneMu.Unlock()
			}
			before := atomic.LoadInt64(&watchCount[k])
			n := int64(0)
			for _, pw := range cur {
				if pw.kind != k {
					continue
				}
				if pw.expire() {
					n++
				} else if s.variant == 1 {
					// nobody took the 410: no re-list follows, so no Watch call may be refused for it
					goneMu.Lock()
					delete(gonePending, fmt.Sprintf("%d/%s", k, pw.ns))
					goneMu.Unlock()
				}
			}
			atomic.AddInt64(&act, 1)
			// the reflectors re-list after their backoff and open new watches (on a loaded machine the
			// backoff after a refused Watch plus the second list can take many seconds)
			deadline := time.Now().Add(40 * time.Second)
			for !cancelled && atomic.LoadInt64(&watchCount[k]) < before+n && time.Now().Before(deadline) {
				time.Sleep(5 * time.Millisecond)
			}
			waitQuiet(&act, 60*time.Millisecond, 3*time.Second)
			continue
		}
		before := seen(s.id)
		gvr := kinds[s.id.gk].gvr()
		u := buildObject(s.id, s.variant)
		stamp(s.id, u, s.kind == "add")
		inGap := atomic.LoadInt32(&dropFlag[s.id.gk]) == 1
		var err error
		switch s.kind {
		case "add":
			if s.id.gk == kCRD {
				if _, ok := object.GetCRDGroupKind(u); ok {
					mapper.setServed(kWidget, true)
				}
			}
			err = client.Tracker().Create(gvr, u, u.GetNamespace())
		case "update":
			if s.id.gk == kCRD {
				_, ok := object.GetCRDGroupKind(u)
				mapper.setServed(kWidget, ok)
			}
			err = client.Tracker().Update(gvr, u, u.GetNamespace())
		case "delete":
			if s.id.gk == kCRD {
				mapper.setServed(kWidget, false)
			}
			err = client.Tracker().Delete(gvr, u.GetNamespace(), u.GetName())
		}
		if err != nil {
			panic(fmt.Sprintf("script step %v: %v", s, err))
		}
		atomic.AddInt64(&act, 1)
		// barrier: the event for this mutation (if the id is watched), then quiet
		if isWatched(s.id) && !cancelled && !inGap {
			deadline := time.Now().Add(400 * time.Millisecond)
			for seen(s.id) == before && time.Now().Before(deadline) {
				time.Sleep(time.Millisecond)
			}
		}
		quiet := 25 * time.Millisecond
		if s.id.gk == kNS || s.id.gk == kCRD {
			quiet = 60 * time.Millisecond
		}
		waitQuiet(&act, quiet, 3*time.Second)
	}
	if expectFail {
		wait := 20 * time.Second
		if gaveUp {
			wait = 10 * time.Millisecond
		}
		select {
		case <-closedCh:
			obs.selfClosed = true
		case <-time.After(wait):
		}
	}
	cancel()
	select {
	case <-closedCh:
		obs.closed = true
	case <-time.After(30 * time.Second):
	}
	return obs
}

// ---- generators ------------------------------------------------------------------------

func allIDs() []oid {
	var l []oid
	l = append(l, oid{kNS, 0, 1}, oid{kNS, 0, 2}, oid{kCRD, 0, 1})
	for _, gk := range []int{2, 3, kWidget} {
		for ns := 1; ns <= 2; ns++ {
			for n := 1; n <= 2; n++ {
				l = append(l, oid{gk, ns, n})
			}
		}
	}
	l = append(l, oid{5, 0, 1}, oid{5, 0, 2})
	return l
}

type preObj = struct {
	id      oid
	variant int
}

func reporterCorpus() []*rscript {
	cm := func(ns, n int) oid { return oid{2, ns, n} }
	sec := func(ns, n int) oid { return oid{3, ns, n} }
	wid := func(ns, n int) oid { return oid{kWidget, ns, n} }
	ns1, ns2, crd := oid{kNS, 0, 1}, oid{kNS, 0, 2}, oid{kCRD, 0, 1}
	var l []*rscript
	// the former defect: several targets all Forbidden -> exactly one error event
	for round := 0; round < 20; round++ {
		l = append(l, &rscript{label: "all-forbidden", root: round%2 == 0,
			watched: []oid{cm(1, 1), sec(1, 1), {5, 0, 1}, cm(2, 1), sec(2, 2), ns1},
			forbid:  map[int]bool{kNS: true, 2: true, 3: true, 5: true}})
	}
	// a benign context error first (status read cancelled because its watch is
	// stopped by a Namespace / CRD deletion), then a genuine fatal error when the
	// watch is restarted and its LIST is Forbidden: exactly one error event, closes
	for rep := 0; rep < 3; rep++ {
		l = append(l,
			&rscript{label: "benign-then-fatal:namespace", root: false, watched: []oid{ns1, sec(1, 1), cm(2, 1)},
				pre: []preObj{{ns1, 0}, {sec(1, 1), 0}},
				steps: []rstep{{"update", sec(1, 1), variantSlow}, {"delete", ns1, 0}, {"delete", sec(1, 1), 0}, {"add", cm(2, 1), 0},
					{"forbid", sec(1, 1), 0}, {"add", ns1, 0}, {"fail", oid{}, 0}, {"update", cm(2, 1), 1}}},
			&rscript{label: "benign-then-fatal:namespace-root", root: true, watched: []oid{ns1, sec(1, 1), cm(2, 1)},
				pre:   []preObj{{ns1, 0}, {sec(1, 1), 0}},
				steps: []rstep{{"add", cm(2, 1), 0}, {"delete", sec(1, 1), 0}, {"delete", ns1, 0}, {"forbid", sec(1, 1), 0}, {"add", ns1, 0}}},
		)
		for _, root := range []bool{true, false} {
			l = append(l, &rscript{label: "benign-then-fatal:crd", root: root, watched: []oid{crd, wid(1, 1), cm(2, 1)},
				pre: []preObj{{crd, 0}, {wid(1, 1), 0}},
				steps: []rstep{{"update", wid(1, 1), variantSlow}, {"delete", crd, 0}, {"delete", wid(1, 1), 0}, {"add", cm(2, 1), 0},
					{"forbid", wid(1, 1), 0}, {"add", crd, 0}, {"fail", oid{}, 0}, {"update", cm(2, 1), 1}}})
		}
	}
	// watch gaps: the change is learnt from the RE-LIST after a 410 Expired, not
	// from a watch event (tombstone deletes, synthetic adds/updates)
	for _, root := range []bool{true, false} {
		brk, rel := rstep{"break", sec(1, 1), 0}, rstep{"relist", sec(1, 1), b2i(root)}
		l = append(l,
			&rscript{label: "gap:delete", root: root, watched: []oid{sec(1, 1), sec(1, 2), cm(1, 1)},
				pre: []preObj{{sec(1, 1), 0}, {sec(1, 2), 1}, {sec(2, 2), 0}},
				steps: []rstep{{"update", sec(1, 1), 2}, brk, {"delete", sec(1, 1), 0}, {"delete", sec(2, 2), 0}, {"add", cm(1, 1), 0}, rel,
					{"update", sec(1, 2), 0}, {"add", sec(1, 1), 1}}},
			&rscript{label: "gap:update", root: root, watched: []oid{sec(1, 1), sec(2, 1)},
				pre: []preObj{{sec(1, 1), 0}, {sec(2, 1), 0}, {sec(1, 2), 0}},
				steps: []rstep{brk, {"update", sec(1, 1), 1}, {"update", sec(1, 1), 2}, {"update", sec(1, 2), 1}, rel,
					{"update", sec(2, 1), 3}, {"delete", sec(1, 1), 0}}},
			&rscript{label: "gap:create", root: root, watched: []oid{sec(1, 1), sec(2, 1), sec(2, 2)},
				pre: []preObj{{sec(2, 2), 0}},
				steps: []rstep{brk, {"add", sec(1, 1), 1}, {"add", sec(1, 2), 0}, {"add", sec(2, 1), 0}, {"delete", sec(2, 1), 0}, rel,
					{"update", sec(1, 1), 0}, {"add", sec(2, 1), 2}}},
			&rscript{label: "gap:delete-recreate", root: root, watched: []oid{sec(1, 1), sec(1, 2)},
				pre: []preObj{{sec(1, 1), 0}, {sec(1, 2), 0}},
				steps: []rstep{brk, {"delete", sec(1, 1), 0}, {"add", sec(1, 1), 2}, {"delete", sec(1, 2), 0}, {"add", sec(1, 2), 1},
					{"delete", sec(1, 2), 0}, rel, {"update", sec(1, 1), 0}}},
			&rscript{label: "gap:nothing-changed", root: root, watched: []oid{sec(1, 1), cm(1, 1)},
				pre:   []preObj{{sec(1, 1), 1}},
				steps: []rstep{brk, {"add", cm(1, 1), 0}, rel, {"update", sec(1, 1), 0}}},
			&rscript{label: "gap:cluster-scoped", root: root, watched: []oid{{5, 0, 1}, {5, 0, 2}},
				pre: []preObj{{oid{5, 0, 1}, 0}},
				steps: []rstep{{"break", oid{5, 0, 1}, 0}, {"delete", oid{5, 0, 1}, 0}, {"add", oid{5, 0, 2}, 1},
					{"relist", oid{5, 0, 1}, 0}, {"update", oid{5, 0, 2}, 0}}},
			&rscript{label: "gap:widget", root: root, watched: []oid{crd, wid(1, 1), wid(2, 1)},
				pre: []preObj{{crd, 0}, {wid(1, 1), 0}, {wid(2, 1), 1}},
				steps: []rstep{{"break", wid(1, 1), 0}, {"delete", wid(1, 1), 0}, {"update", wid(2, 1), 0},
					{"relist", wid(1, 1), 0}, {"add", wid(1, 1), 1}}},
			&rscript{label: "gap:namespace-kind", root: root, watched: []oid{ns1, sec(1, 1)},
				pre:   []preObj{{ns1, 0}, {sec(1, 1), 0}},
				steps: []rstep{{"break", ns1, 0}, {"delete", ns1, 0}, {"relist", ns1, 0}, {"update", sec(1, 1), 1}}},
		)
	}
	// a status read that fails with an ordinary error (not a cancellation) is fatal:
	// one error event, then the stop -- from AddFunc (new object, initial listing)
	// and from UpdateFunc; a failing read of an UNWATCHED object is never attempted
	for _, root := range []bool{true, false} {
		l = append(l,
			&rscript{label: "read-error:update", root: root, watched: []oid{sec(1, 1), cm(1, 1)},
				pre: []preObj{{sec(1, 1), 1}, {sec(1, 2), 0}},
				steps: []rstep{{"add", cm(1, 1), 0}, {"update", sec(1, 2), variantErr}, {"update", sec(1, 1), 0},
					{"update", sec(1, 1), variantErr}, {"fail", oid{}, 0}, {"update", cm(1, 1), 1}, {"update", sec(1, 1), 2}}},
			&rscript{label: "read-error:add", root: root, watched: []oid{sec(1, 1), sec(2, 1)},
				steps: []rstep{{"add", sec(2, 1), 2}, {"add", sec(2, 2), variantErr}, {"add", sec(1, 1), variantErr}, {"fail", oid{}, 0},
					{"delete", sec(2, 1), 0}}},
			&rscript{label: "read-error:listing", root: root, watched: []oid{sec(1, 1), cm(1, 1)},
				pre:   []preObj{{sec(1, 2), variantErr}, {sec(1, 1), variantErr}},
				steps: []rstep{{"add", cm(1, 1), 1}}},
		)
	}
	// the RESTMapper cannot resolve a watched kind for a reason other than NoMatch
	// (discovery unreachable): the informer cannot be built -> one error event, stop
	for _, root := range []bool{true, false} {
		l = append(l,
			&rscript{label: "mapper-error:one", root: root, watched: []oid{cm(1, 1), sec(1, 1)}, mapperErr: map[int]bool{3: true},
				steps: []rstep{{"add", cm(1, 1), 0}}},
			&rscript{label: "mapper-error:several", root: root, watched: []oid{cm(1, 1), sec(1, 1), sec(2, 1), {5, 0, 1}, wid(1, 1)},
				mapperErr: map[int]bool{3: true, 5: true, kWidget: true}, steps: []rstep{{"add", sec(1, 1), 0}}},
		)
	}
	for _, root := range []bool{true, false} {
		l = append(l,
			&rscript{label: "one-forbidden", root: root, watched: []oid{cm(1, 1), sec(1, 1)}, forbid: map[int]bool{3: true},
				steps: []rstep{{"add", cm(1, 1), 0}}},
			&rscript{label: "create-update-delete", root: root, watched: []oid{cm(1, 1), sec(2, 1)},
				steps: []rstep{{"add", cm(1, 1), 0}, {"update", cm(1, 1), 1}, {"add", cm(1, 2), 0}, {"add", sec(2, 1), 2},
					{"update", cm(1, 1), 5}, {"delete", cm(1, 1), 0}, {"add", sec(1, 1), 0}, {"delete", cm(1, 2), 0}, {"update", sec(2, 1), 3}}},
			&rscript{label: "pre-existing", root: root, watched: []oid{cm(1, 1), cm(1, 2), sec(2, 1)},
				pre:   []preObj{{cm(1, 1), 1}, {cm(2, 1), 0}, {sec(2, 1), 0}},
				steps: []rstep{{"update", cm(1, 1), 0}, {"delete", sec(2, 1), 0}, {"add", cm(1, 2), 4}}},
			&rscript{label: "namespace-delete-recreate", root: root, watched: []oid{ns1, cm(1, 1), cm(2, 1)},
				pre: []preObj{{ns1, 0}, {ns2, 0}},
				steps: []rstep{{"add", cm(1, 1), 0}, {"add", cm(2, 1), 1}, {"delete", cm(1, 1), 0}, {"delete", ns1, 0},
					{"update", cm(2, 1), 0}, {"add", ns1, 0}, {"add", cm(1, 1), 2}, {"update", ns1, 0}, {"update", cm(1, 1), 0}}},
			// mutations while the namespace / CRD is gone must not be reported, and the
			// restarted watch must list the survivors
			&rscript{label: "namespace-stop-start", root: root, watched: []oid{ns1, sec(1, 1), sec(2, 1), sec(1, 2)},
				pre: []preObj{{ns1, 0}},
				steps: []rstep{{"add", sec(1, 1), 0}, {"delete", ns1, 0}, {"update", sec(1, 1), 1}, {"update", sec(1, 1), 2},
					{"add", sec(1, 2), 1}, {"add", sec(2, 1), 0}, {"add", ns1, 0}, {"update", sec(1, 1), 0},
					{"delete", sec(1, 1), 0}, {"update", sec(1, 2), 0}}},
			&rscript{label: "crd-stop-start", root: root, watched: []oid{crd, wid(1, 1), wid(2, 1)},
				pre: []preObj{{crd, 0}, {wid(1, 1), 0}},
				steps: []rstep{{"update", wid(1, 1), 1}, {"delete", crd, 0}, {"update", wid(1, 1), 2}, {"update", wid(1, 1), 4},
					{"add", wid(2, 1), 0}, {"add", crd, 0}, {"update", wid(1, 1), 0}, {"delete", wid(2, 1), 0}}},
			&rscript{label: "namespace-late", root: root, watched: []oid{ns1, cm(1, 1)},
				steps: []rstep{{"add", ns1, 0}, {"add", cm(1, 1), 0}, {"update", cm(1, 1), 1}, {"delete", cm(1, 1), 0}, {"delete", ns1, 0}}},
			&rscript{label: "crd-late", root: root, watched: []oid{crd, wid(1, 1), cm(1, 1)},
				steps: []rstep{{"add", cm(1, 1), 0}, {"add", crd, 0}, {"add", wid(1, 1), 1}, {"update", wid(1, 1), 0},
					{"update", crd, 2}, {"delete", wid(1, 1), 0}, {"delete", crd, 0}, {"update", cm(1, 1), 1}}},
			&rscript{label: "crd-present", root: root, watched: []oid{crd, wid(1, 1), wid(2, 2)},
				pre:   []preObj{{crd, 0}, {wid(1, 1), 0}},
				steps: []rstep{{"update", wid(1, 1), 1}, {"add", wid(2, 2), 0}, {"add", wid(2, 1), 0}, {"delete", wid(1, 1), 0}}},
			&rscript{label: "crd-invalid", root: root, watched: []oid{crd, wid(1, 1)},
				steps: []rstep{{"add", crd, 5}, {"update", crd, 0}, {"add", wid(1, 1), 0}, {"delete", wid(1, 1), 0}}},
			&rscript{label: "crd-unwatched", root: root, watched: []oid{wid(1, 1), cm(1, 1)},
				steps: []rstep{{"add", crd, 0}, {"add", cm(1, 1), 0}}},
			&rscript{label: "cancel-midway", root: root, watched: []oid{cm(1, 1), sec(1, 1)},
				steps: []rstep{{"add", cm(1, 1), 0}, {"cancel", oid{}, 0}, {"update", cm(1, 1), 1}, {"add", sec(1, 1), 0}}},
			&rscript{label: "unwatched-only", root: root, watched: []oid{cm(1, 1)},
				steps: []rstep{{"add", cm(1, 2), 0}, {"add", cm(2, 1), 0}, {"add", sec(1, 1), 0}, {"update", cm(1, 2), 1}, {"delete", cm(2, 1), 0}}},
			&rscript{label: "empty-watch-set", root: root, watched: nil,
				steps: []rstep{{"add", cm(1, 1), 0}}},
		)
	}
	return l
}

func genReporterScript(r *rand.Rand) *rscript {
	sc := &rscript{label: "random", root: r.Intn(2) == 0}
	ids := allIDs()
	// watched set: mostly plain objects; sometimes namespaces / the CRD
	for _, id := range ids {
		p := 35
		if id.gk == kNS || id.gk == kCRD {
			p = 30
		}
		if r.Intn(100) < p {
			sc.watched = append(sc.watched, id)
		}
	}
	exists := map[oid]bool{}
	// the cluster respects containment: objects live in existing namespaces when
	// the namespace is itself an object of the scenario; widgets need the CRD
	nsTracked := map[int]bool{}
	for _, id := range ids {
		if id.gk == kNS && r.Intn(2) == 0 {
			nsTracked[id.name] = true
		}
	}
	crdValid := false
	usable := func(id oid) bool {
		if id.gk == kWidget && !crdValid {
			return false
		}
		if id.ns != 0 && nsTracked[id.ns] && !exists[oid{kNS, 0, id.ns}] {
			return false
		}
		return true
	}
	for _, id := range ids {
		if (id.gk == kNS && nsTracked[id.name] && r.Intn(100) < 70) || (id.gk == kCRD && r.Intn(100) < 50) {
			v := 0
			sc.pre = append(sc.pre, preObj{id, v})
			exists[id] = true
			if id.gk == kCRD {
				crdValid = true
			}
		}
	}
	for _, id := range ids {
		if id.gk != kNS && id.gk != kCRD && usable(id) && r.Intn(100) < 20 {
			sc.pre = append(sc.pre, preObj{id, r.Intn(nVariants)})
			exists[id] = true
		}
	}
	n := 3 + r.Intn(10)
	cancelled := false
	for i := 0; i < n; i++ {
		if !cancelled && r.Intn(40) == 0 {
			sc.steps = append(sc.steps, rstep{kind: "cancel"})
			cancelled = true
			continue
		}
		id := ids[r.Intn(len(ids))]
		// bias towards watched ids
		if len(sc.watched) > 0 && r.Intn(100) < 55 {
			id = sc.watched[r.Intn(len(sc.watched))]
		}
		switch {
		case id.gk == kNS:
			if !nsTracked[id.name] {
				continue
			}
			if exists[id] {
				if r.Intn(3) == 0 {
					sc.steps = append(sc.steps, rstep{"update", id, 0})
				} else {
					// a namespace goes away only after its contents
					for _, o := range ids {
						if o.ns == id.name && exists[o] {
							sc.steps = append(sc.steps, rstep{"delete", o, 0})
							exists[o] = false
						}
					}
					sc.steps = append(sc.steps, rstep{"delete", id, 0})
					exists[id] = false
				}
			} else {
				sc.steps = append(sc.steps, rstep{"add", id, 0})
				exists[id] = true
			}
		case id.gk == kCRD:
			if exists[id] {
				if r.Intn(2) == 0 {
					sc.steps = append(sc.steps, rstep{"update", id, []int{0, 1, 2, 3}[r.Intn(4)]})
				} else {
					for _, o := range ids {
						if o.gk == kWidget && exists[o] {
							sc.steps = append(sc.steps, rstep{"delete", o, 0})
							exists[o] = false
						}
					}
					sc.steps = append(sc.steps, rstep{"delete", id, 0})
					exists[id] = false
					crdValid = false
				}
			} else {
				sc.steps = append(sc.steps, rstep{"add", id, []int{0, 1, 2, 3}[r.Intn(4)]})
				exists[id] = true
				crdValid = true
			}
		default:
			if !usable(id) {
				continue
			}
			if exists[id] {
				if r.Intn(3) == 0 {
					sc.steps = append(sc.steps, rstep{"delete", id, 0})
					exists[id] = false
				} else {
					sc.steps = append(sc.steps, rstep{"update", id, r.Intn(nVariants)})
				}
			} else {
				sc.steps = append(sc.steps, rstep{"add", id, r.Intn(nVariants)})
				exists[id] = true
			}
		}
	}
	return sc
}

// genBenignThenFatal: k >= 1 status reads cancelled by Namespace (namespace scope)
// or CRD (both scopes) deletions while the watcher keeps running, unrelated
// mutations in between, then a restart whose LIST is Forbidden.
func genBenignThenFatal(r *rand.Rand) *rscript {
	root := r.Intn(2) == 0
	viaCRD := root || r.Intn(2) == 0
	ns1, crd := oid{kNS, 0, 1}, oid{kCRD, 0, 1}
	var gate, obj oid // the object whose deletion stops the watch; the watched object
	if viaCRD {
		gate, obj = crd, oid{kWidget, 1 + r.Intn(2), 1 + r.Intn(2)}
	} else {
		gate, obj = ns1, oid{[]int{2, 3}[r.Intn(2)], 1, 1 + r.Intn(2)}
	}
	other := []oid{{5, 0, 1}, {3, 2, 1}, {2, 2, 2}}
	sc := &rscript{label: "benign-then-fatal:generated", root: root, watched: []oid{gate, obj, other[0], other[1]}}
	sc.pre = []preObj{{gate, 0}, {obj, r.Intn(nVariants)}}
	exists := map[oid]bool{}
	noise := func() {
		for i := r.Intn(3); i > 0; i-- {
			o := other[r.Intn(len(other))]
			switch {
			case !exists[o]:
				sc.steps = append(sc.steps, rstep{"add", o, r.Intn(nVariants)})
				exists[o] = true
			case r.Intn(3) == 0:
				sc.steps = append(sc.steps, rstep{"delete", o, 0})
				exists[o] = false
			default:
				sc.steps = append(sc.steps, rstep{"update", o, r.Intn(nVariants)})
			}
		}
	}
	cycles := 1 + r.Intn(2)
	for i := 0; i < cycles; i++ {
		noise()
		sc.steps = append(sc.steps, rstep{"update", obj, variantSlow}) // read in flight
		noise2 := r.Intn(2) == 0
		sc.steps = append(sc.steps, rstep{"delete", gate, 0}) // watch stopped, read cancelled
		sc.steps = append(sc.steps, rstep{"delete", obj, 0})  // unobserved
		if noise2 {
			noise()
		}
		if i < cycles-1 {
			// the watch comes back healthy, the object is re-created and reported
			sc.steps = append(sc.steps, rstep{"add", gate, 0}, rstep{"add", obj, r.Intn(nVariants)})
		}
	}
	sc.steps = append(sc.steps, rstep{"forbid", obj, 0}, rstep{"add", gate, 0}, rstep{"fail", oid{}, 0})
	if r.Intn(2) == 0 { // after the stop: nothing is reported
		if exists[other[0]] {
			sc.steps = append(sc.steps, rstep{"update", other[0], 0})
		} else {
			sc.steps = append(sc.steps, rstep{"add", other[0], 0})
		}
	}
	return sc
}

// genReadError: plain objects of kinds served without a CRD, in namespaces whose
// Namespace object is not watched (so every watch runs throughout); ordinary
// mutations, failing reads of unwatched objects (never attempted), then ONE failing
// read of a watched object through an add or an update: the fatal error is due.
// Afterwards nothing is reported.
func genReadError(r *rand.Rand) *rscript {
	sc := &rscript{label: "read-error:generated", root: r.Intn(2) == 0}
	pool := []oid{{2, 1, 1}, {3, 1, 1}, {3, 1, 2}, {3, 2, 1}, {5, 0, 1}, {2, 2, 2}}
	r.Shuffle(len(pool), func(i, j int) { pool[i], pool[j] = pool[j], pool[i] })
	nw := 2 + r.Intn(2)
	sc.watched = append(sc.watched, pool[:nw]...)
	exists := map[oid]bool{}
	for _, id := range pool {
		if r.Intn(3) == 0 {
			sc.pre = append(sc.pre, preObj{id, r.Intn(nVariants)})
			exists[id] = true
		}
	}
	mut := func(id oid, v int) {
		if exists[id] {
			sc.steps = append(sc.steps, rstep{"update", id, v})
		} else {
			sc.steps = append(sc.steps, rstep{"add", id, v})
			exists[id] = true
		}
	}
	noise := func(n int) {
		for ; n > 0; n-- {
			id := pool[r.Intn(len(pool))]
			switch {
			case exists[id] && r.Intn(4) == 0:
				sc.steps = append(sc.steps, rstep{"delete", id, 0})
				exists[id] = false
			case r.Intn(5) == 0 && id != pool[0] && id != pool[1] && (nw < 3 || id != pool[2]):
				mut(id, variantErr) // unwatched: filtered before the read
			default:
				mut(id, r.Intn(nVariants))
			}
		}
	}
	noise(r.Intn(5))
	mut(sc.watched[r.Intn(nw)], variantErr)
	sc.steps = append(sc.steps, rstep{"fail", oid{}, 0})
	noise(r.Intn(3))
	return sc
}

// genGapScript: mutations of watched and unwatched objects of one kind while the
// watch connections of that kind are broken, then a 410 re-list, then more
// mutations; other kinds keep being observed normally.
func genGapScript(r *rand.Rand) *rscript {
	sc := &rscript{label: "gap:generated", root: r.Intn(2) == 0}
	k := []int{2, 3, 3, 5, kWidget}[r.Intn(5)]
	var objs []oid
	if kinds[k].namespaced {
		for ns := 1; ns <= 2; ns++ {
			for n := 1; n <= 2; n++ {
				objs = append(objs, oid{k, ns, n})
			}
		}
	} else {
		objs = []oid{{k, 0, 1}, {k, 0, 2}}
	}
	otherK := 2
	if k == 2 {
		otherK = 3
	}
	other := []oid{{otherK, 1, 1}, {otherK, 2, 2}}
	exists := map[oid]bool{}
	if k == kWidget {
		crd := oid{kCRD, 0, 1}
		sc.pre = append(sc.pre, preObj{crd, 0})
		if r.Intn(2) == 0 {
			sc.watched = append(sc.watched, crd)
		}
	}
	for _, o := range objs {
		if r.Intn(100) < 65 {
			sc.watched = append(sc.watched, o)
		}
		if r.Intn(100) < 60 {
			sc.pre = append(sc.pre, preObj{o, r.Intn(nVariants)})
			exists[o] = true
		}
	}
	if len(sc.watched) == 0 {
		sc.watched = append(sc.watched, objs[0])
	}
	sc.watched = append(sc.watched, other[0])
	mutate := func(o oid) {
		switch {
		case !exists[o]:
			sc.steps = append(sc.steps, rstep{"add", o, r.Intn(nVariants)})
			exists[o] = true
		case r.Intn(5) < 2:
			sc.steps = append(sc.steps, rstep{"delete", o, 0})
			exists[o] = false
		default:
			sc.steps = append(sc.steps, rstep{"update", o, r.Intn(nVariants)})
		}
	}
	some := func(n int) {
		for i := 0; i < n; i++ {
			if r.Intn(4) == 0 {
				mutate(other[r.Intn(len(other))])
			} else {
				mutate(objs[r.Intn(len(objs))])
			}
		}
	}
	some(r.Intn(3))
	sc.steps = append(sc.steps, rstep{"break", objs[0], 0})
	some(1 + r.Intn(6))
	if r.Intn(3) == 0 { // delete + re-create (new UID) of something that exists
		for _, o := range objs {
			if exists[o] {
				sc.steps = append(sc.steps, rstep{"delete", o, 0}, rstep{"add", o, r.Intn(nVariants)})
				break
			}
		}
	}
	sc.steps = append(sc.steps, rstep{"relist", objs[0], r.Intn(2)})
	some(r.Intn(4))
	return sc
}

// unschedulableScripts: a Pod created Pending/Unschedulable and then left alone;
// only the re-check the reporter schedules status.ScheduleWindow later can report
// that it turned Failed.  Each script waits out the window (about 17 s): they run
// concurrently with the rest of the stream.
func unschedulableScripts(tier string) []*rscript {
	var l []*rscript
	n := 1
	if tier == "thorough" {
		n = 3
	}
	for rep := 0; rep < n; rep++ {
		for _, root := range []bool{true, false} {
			pod := oid{kPod, 1, 1 + rep%2}
			other := oid{kPod, 2, 1}
			tick := rstep{kind: "tick"}
			l = append(l,
				// (a watched object that is merely InProgress -- Secret b, Reconciling -- gets no re-check)
				// and neither does a pod that is Pending without an Unschedulable condition -- Pod c)
				// nor one whose PodScheduled condition is False for another reason (Pod d) or True (Pod e)
				&rscript{label: "unschedulable:stays", root: root,
					watched: []oid{pod, {3, 1, 1}, {3, 1, 2}, {kPod, 1, 3}, {kPod, 1, 4}, {kPod, 1, 5}, {kPod, 1, 6}},
					steps: []rstep{{"add", pod, variantUnsched}, {"add", other, variantUnsched}, {"add", oid{3, 1, 1}, 0},
						{"add", oid{3, 1, 2}, 4}, {"add", oid{kPod, 1, 3}, variantPodPending},
						{"add", oid{kPod, 1, 4}, variantPodGated}, {"add", oid{kPod, 1, 5}, variantPodStarting},
						{"add", oid{kPod, 1, 6}, variantPodOtherCond}, tick},
					late: map[oid][]string{pod: {"SFailed"}}},
				&rscript{label: "unschedulable:scheduled-in-time", root: root, watched: []oid{pod},
					steps: []rstep{{"add", pod, variantUnsched}, {"update", pod, variantPodReady}, tick}},
				&rscript{label: "unschedulable:deleted-in-time", root: root, watched: []oid{pod},
					steps: []rstep{{"add", pod, variantUnsched}, {"delete", pod, 0}, tick}},
				&rscript{label: "unschedulable:cancelled-in-time", root: root, watched: []oid{pod},
					steps: []rstep{{"add", pod, variantUnsched}, {"cancel", oid{}, 0}, tick}},
			)
		}
	}
	// "Gives unschedulable Pods (and objects that generate them) a grace period": a watched
	// Deployment / ReplicaSet whose GENERATED pod (found by the status reader through the
	// cluster reader, not watched itself) is unschedulable is re-read after the window and
	// reported once more (its own status is still InProgress); with a scheduled pod there is
	// no re-check.  After the four Pod families, so that the C08 side keeps its quick set.
	for rep := 0; rep < n; rep++ {
		for _, root := range []bool{true, false} {
			pod, rs, dep := oid{kPod, 1, 1}, oid{kRS, 1, 1}, oid{kDeploy, 1, 1}
			tick := rstep{kind: "tick"}
			top := []oid{dep, rs}[(rep+b2i(root))%2]
			l = append(l,
				&rscript{label: "unschedulable:generated", root: root, watched: []oid{top},
					steps: []rstep{{"add", pod, variantUnsched}, {"add", rs, 0}, {"add", dep, 0}, tick},
					// the ReplicaSet reader folds a Failed pod into the ReplicaSet's own status; the
					// Deployment's status is computed from the Deployment alone (observed on the real code)
					late: map[oid][]string{top: {map[oid]string{dep: "SInProgress", rs: "SFailed"}[top]}}},
				&rscript{label: "unschedulable:generated-scheduled", root: root, watched: []oid{top},
					steps: []rstep{{"add", pod, variantPodReady}, {"add", rs, 0}, {"add", dep, 0}, tick}},
				// a pod that BECOMES unschedulable through an update (UpdateFunc schedules the re-check)
				// the re-check itself fails (ordinary error from the StatusReader): fatal -- one
				// error event and the stop, about ScheduleWindow after the pod was seen
				&rscript{label: "unschedulable:recheck-fails", root: root, watched: []oid{{kPod, 1, 7}, {3, 1, 1}},
					steps: []rstep{{"add", oid{3, 1, 1}, 0}, {"add", oid{kPod, 1, 7}, variantUnsched}, {"fail", oid{}, 0}}},
				&rscript{label: "unschedulable:by-update", root: root, watched: []oid{pod},
					steps: []rstep{{"add", pod, variantPodReady}, {"update", pod, variantUnsched}, tick},
					late:  map[oid][]string{pod: {"SFailed"}}},
			)
		}
	}
	return l
}

// ---- emission ----------------------------------------------------------------------------

func (sc *rscript) caseTerm(o *robs) (string, string) {
	scope := "ScopeNamespace"
	if sc.root {
		scope = "ScopeRoot"
	}
	var watched, pre, steps, evs, txt []string
	for _, w := range sc.watched {
		watched = append(watched, w.term())
	}
	var builtin []int
	for k, ki := range kinds {
		if ki.builtin {
			builtin = append(builtin, k)
		}
	}
	for _, p := range sc.pre {
		pre = append(pre, fmt.Sprintf("(%s, %s)", p.id.term(), payloadTerm(p.id, p.variant)))
	}
	// failing informers: one per target whose kind is forbidden
	nFail := 0
	seenT := map[[2]int]bool{}
	for _, w := range sc.watched {
		t := [2]int{w.gk, w.ns}
		if sc.root {
			t[1] = 0
		}
		if !seenT[t] {
			seenT[t] = true
			if sc.forbid[w.gk] || sc.mapperErr[w.gk] {
				nFail++
			}
		}
	}
	nFail += sc.preReadErrors()
	for i := 0; i < nFail; i++ {
		steps = append(steps, "SFail")
	}
	steps = append(steps, "SSync")
	for _, s := range sc.steps {
		switch s.kind {
		case "cancel":
			steps = append(steps, "SCancel")
			txt = append(txt, "cancel")
		case "tick":
			txt = append(txt, "WAIT ScheduleWindow")
		case "break":
			steps = append(steps, fmt.Sprintf("(SBreak %d)", s.id.gk))
			txt = append(txt, "BREAK-WATCH "+kinds[s.id.gk].gvk.Kind)
		case "relist":
			steps = append(steps, fmt.Sprintf("(SRelist %d)", s.id.gk))
			if s.variant == 1 {
				// the Watch call after the re-list is answered Gone: the reflector backs off and lists
				// once more (nothing can be missed in between: the script is sequential), so every
				// listed object is reported a second time
				steps = append(steps, fmt.Sprintf("(SBreak %d)", s.id.gk), fmt.Sprintf("(SRelist %d)", s.id.gk))
			}
			if s.variant == 1 {
				txt = append(txt, "410-RELIST(next watch answered Gone) "+kinds[s.id.gk].gvk.Kind)
			} else {
				txt = append(txt, "410-RELIST "+kinds[s.id.gk].gvk.Kind)
			}
		case "forbid":
			txt = append(txt, "forbid-list "+kinds[s.id.gk].gvk.Kind)
		case "fail":
			steps = append(steps, "SFail")
			txt = append(txt, "(fatal error due)")
		case "add":
			steps = append(steps, fmt.Sprintf("(SMut (MAdd %s %s))", s.id.term(), payloadTerm(s.id, s.variant)))
			txt = append(txt, fmt.Sprintf("add %s v%d", s.id, s.variant))
		case "update":
			steps = append(steps, fmt.Sprintf("(SMut (MUpdate %s %s))", s.id.term(), payloadTerm(s.id, s.variant)))
			txt = append(txt, fmt.Sprintf("update %s v%d", s.id, s.variant))
		case "delete":
			steps = append(steps, fmt.Sprintf("(SMut (MDelete %s))", s.id.term()))
			txt = append(txt, fmt.Sprintf("delete %s", s.id))
		}
	}
	steps = append(steps, "SCancel")
	var etxt []string
	for _, e := range o.events {
		switch e.typ {
		case "sync":
			evs = append(evs, "ESync")
			etxt = append(etxt, "sync")
		case "error":
			evs = append(evs, "EError")
			etxt = append(etxt, "ERROR")
		default:
			evs = append(evs, fmt.Sprintf("(EUpdate %s %s)", e.id.term(), e.st))
			etxt = append(etxt, fmt.Sprintf("%s=%s", e.id, strings.TrimPrefix(e.st, "S")))
		}
	}
	var wtxt, ptxt, ftxt []string
	for _, w := range sc.watched {
		wtxt = append(wtxt, w.String())
	}
	for _, p := range sc.pre {
		ptxt = append(ptxt, fmt.Sprintf("%s v%d", p.id, p.variant))
	}
	for k, on := range sc.forbid {
		if on {
			ftxt = append(ftxt, kinds[k].gvk.Kind)
		}
	}
	for k, on := range sc.mapperErr {
		if on {
			ftxt = append(ftxt, "(RESTMapping fails: "+kinds[k].gvk.Kind+")")
		}
	}
	sort.Strings(ftxt)
	tick := len(o.events)
	if o.tickMark >= 0 {
		tick = o.tickMark
	}
	var late []string
	var lateIDs []oid
	for id := range sc.late {
		lateIDs = append(lateIDs, id)
	}
	sort.Slice(lateIDs, func(i, j int) bool { return lateIDs[i].String() < lateIDs[j].String() })
	for _, id := range lateIDs {
		late = append(late, fmt.Sprintf("(%s, %s)", id.term(), emit.List(sc.late[id])))
	}
	term := fmt.Sprintf("(mkRCase (mkConfig %s %s %s) %s %s %s %s %d %s %s %d %s)", scope, emit.List(watched), emit.NatList(builtin),
		emit.List(pre), emit.List(steps), emit.List(evs), emit.Bool(o.closed), o.unknown, emit.NatList(o.marks), emit.Bool(o.selfClosed),
		tick, emit.List(late))
	if sc.filters != 0 {
		ftxt = append(ftxt, fmt.Sprintf("(Filters: %s)", []string{"", "labels", "fields", "labels+fields"}[sc.filters]))
	}
	text := fmt.Sprintf("watcher[%s] scope=%s watched=[%s] pre=[%s] forbidden=[%s] steps=[%s] -> events=[%s] closed=%v",
		sc.label, strings.TrimPrefix(scope, "Scope"), strings.Join(wtxt, ","), strings.Join(ptxt, ","), strings.Join(ftxt, ","),
		strings.Join(txt, "; "), strings.Join(etxt, " "), fmt.Sprintf("%v self-closed=%v events-before-wait=%d", o.closed, o.selfClosed, tick))
	return term, text
}

func goroutineSummary() string {
	var b strings.Builder
	_ = pprof.Lookup("goroutine").WriteTo(&b, 1)
	var keep []string
	for _, blk := range strings.Split(b.String(), "\n\n") {
		if strings.Contains(blk, "cli-utils") || strings.Contains(blk, "client-go") {
			lines := strings.Split(blk, "\n")
			if len(lines) > 4 {
				lines = lines[:4]
			}
			keep = append(keep, strings.Join(lines, " | "))
		}
		if len(keep) >= 4 {
			break
		}
	}
	return strings.Join(keep, " || ")
}

func runReporter(r *rand.Rand, tier, outDir string, sum *emit.Summary) error {
	nRandom := 240
	if tier == "thorough" {
		nRandom = 1500
	}
	scripts := reporterCorpus()
	for i := 0; i < nRandom; i++ {
		scripts = append(scripts, genReporterScript(r))
	}
	for i := 0; i < nRandom/8; i++ {
		scripts = append(scripts, genBenignThenFatal(r))
	}
	for i := 0; i < nRandom/6; i++ {
		scripts = append(scripts, genGapScript(r))
	}
	for i := 0; i < nRandom/10; i++ {
		scripts = append(scripts, genReadError(r))
	}
	// every fourth script runs with DefaultStatusWatcher.Filters set (selectors that all its
	// objects satisfy): same events, and the requests must carry the selectors
	for i, sc := range scripts {
		if i%4 == 1 {
			sc.filters = 1 + (i/4)%3
		}
	}
	// A panic in an informer goroutine normally kills the process (client-go's
	// HandleCrash re-panics).  Keep the process alive so that the script gets its
	// case (the event of the panicking handler is missing there) and report every
	// recovered panic as an implementation failure.
	utilruntime.ReallyCrash = false
	var panicMu sync.Mutex
	var panics []string
	utilruntime.PanicHandlers = append(utilruntime.PanicHandlers, func(_ context.Context, r interface{}) {
		panicMu.Lock()
		defer panicMu.Unlock()
		panics = append(panics, fmt.Sprint(r))
	})
	// warm-up (starts process-wide helper goroutines), then take the baseline
	_ = runReporterScript(&rscript{label: "warmup", root: true, watched: []oid{{2, 1, 1}}})
	time.Sleep(50 * time.Millisecond)
	baseline := runtime.NumGoroutine()

	// the scripts that wait out status.ScheduleWindow run beside the others
	slow := unschedulableScripts(tier)
	nFast := len(scripts)
	scripts = append(scripts, slow...)
	obs := make([]*robs, len(scripts))
	var wg sync.WaitGroup
	for i := nFast; i < len(scripts); i++ {
		wg.Add(1)
		go func(i int) {
			defer wg.Done()
			obs[i] = runReporterScript(scripts[i])
		}(i)
	}
	sem := make(chan struct{}, 8)
	for i := 0; i < nFast; i++ {
		wg.Add(1)
		sem <- struct{}{}
		go func(i int) {
			defer wg.Done()
			defer func() { <-sem }()
			obs[i] = runReporterScript(scripts[i])
		}(i)
	}
	wg.Wait()
	// goroutines back to the baseline?
	deadline := time.Now().Add(45 * time.Second)
	leak := 0
	for {
		leak = runtime.NumGoroutine() - baseline
		if leak <= 0 || time.Now().After(deadline) {
			break
		}
		time.Sleep(10 * time.Millisecond)
	}
	panicMu.Lock()
	sum.Extra["watcher_informer_panics"] = len(panics)
	if len(panics) > 0 {
		sum.ImplFailures = append(sum.ImplFailures, fmt.Sprintf(
			"watcher: %d panic(s) in informer goroutines (each would crash the process): %s", len(panics), panics[0]))
	}
	panicMu.Unlock()
	sum.Extra["watcher_goroutines_above_baseline"] = leak
	if leak > 0 {
		sum.ImplFailures = append(sum.ImplFailures, fmt.Sprintf("watcher: %d goroutines above the baseline 45s after all watches were cancelled: %s", leak, goroutineSummary()))
	}

	cf := &emit.CaseFile{Name: "Cases_C16_watcher", Imports: "From CliUtils Require Import Model.Reporter Corr.CorrC16.", Check: "check_reporter"}
	var terms []string
	var nontr []bool
	for i, sc := range scripts {
		o := obs[i]
		term, text := sc.caseTerm(o)
		if o.panicMsg != "" {
			sum.ImplFailures = append(sum.ImplFailures, "watcher: panic: "+o.panicMsg+" in "+text)
			continue
		}
		if !o.closed {
			sum.ImplFailures = append(sum.ImplFailures, "watcher: event channel not closed 30s after cancel: "+text)
		}
		if o.badSel > 0 {
			sum.ImplFailures = append(sum.ImplFailures, fmt.Sprintf(
				"watcher: %d LIST/WATCH requests of the informers did not carry the selectors of DefaultStatusWatcher.Filters (first: %s) in %s",
				o.badSel, o.badSelMsg, text))
		}
		cf.Add(term, text)
		terms = append(terms, term)
		nontr = append(nontr, len(sc.steps) > 0)
		scope := "namespace"
		if sc.root {
			scope = "root"
		}
		sum.Count("watcher:" + sc.label + ":" + scope)
		for _, e := range o.events {
			if e.typ == "update" {
				sum.Count("watcher-event:" + strings.TrimPrefix(e.st, "S"))
			} else {
				sum.Count("watcher-event:" + e.typ)
			}
		}
	}
	sum.Evaluations += len(terms)
	sum.DistinctNontrivial += emit.Distinct(terms, nontr)
	if len(cf.Text) > 0 {
		sum.Samples = append(sum.Samples, cf.Text[0], cf.Text[len(cf.Text)-1])
	}
	return cf.Write(outDir, sum)
}

func b2i(b bool) int {
	if b {
		return 1
	}
	return 0
}
