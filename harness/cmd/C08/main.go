package main

import (
	"verifharness/emit"
	"verifharness/kstatus"
)

func main() { emit.Main("C08", kstatus.RunC08) }
