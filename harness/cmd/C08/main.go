package main

import (
	"verifharness/c16"
	"verifharness/emit"
	"verifharness/kstatus"
)

func main() {
	emit.Main("C08", func(seed int64, tier, outDir string) (*emit.Summary, error) {
		// the watcher scripts wait out the 15 s schedule window: run them beside the main stream
		type res struct {
			sum *emit.Summary
			err error
		}
		ch := make(chan res, 1)
		go func() {
			s, err := kstatus.RunC08(seed, tier, outDir)
			ch <- res{s, err}
		}()
		side := emit.NewSummary("C08", seed, tier)
		if err := c16.AddUnschedulable(side, "C08", tier, outDir); err != nil {
			return nil, err
		}
		r := <-ch
		if r.err != nil {
			return nil, r.err
		}
		emit.Merge(r.sum, side)
		return r.sum, nil
	})
}
