package main

import (
	"verifharness/emit"
	"verifharness/pipeline"
)

func main() { emit.Main("C04", pipeline.RunFor("C04")) }
