// gentables regenerates coq/theories/Generated/SourceTables.v from the Go
// sources of the repository under test (go/parser only, no type checking):
// the kind-order tables of pkg/ordering, the legacyTypes dispatch table of
// pkg/kstatus/status, the RBAC kind set and separators of pkg/object, the
// depends-on separators, annotation keys.  The Coq development proves that the
// hand-written models use exactly these tables (Proofs/SourceTablesAgree.v),
// so a change of a table in the source breaks a proof obligation.
package main

import (
	"fmt"
	"go/ast"
	"go/parser"
	"go/printer"
	"go/token"
	"os"
	"path/filepath"
	"sort"
	"strconv"
	"strings"
)

// selector expressions that stand for imported constants (checked against the
// module cache is out of scope for a parser-only tool; an unknown selector is
// emitted as "?<expr>" and makes the agreement lemma fail loudly)
var knownSelectors = map[string]string{
	"rbacv1.GroupName": "rbac.authorization.k8s.io",
}

func coqStr(s string) string { return "\"" + strings.ReplaceAll(s, "\"", "\"\"") + "\"" }

func strOf(e ast.Expr) string {
	switch v := e.(type) {
	case *ast.BasicLit:
		if v.Kind == token.STRING {
			s, err := strconv.Unquote(v.Value)
			if err == nil {
				return s
			}
		}
		return "?" + v.Value
	case *ast.SelectorExpr:
		if x, ok := v.X.(*ast.Ident); ok {
			k := x.Name + "." + v.Sel.Name
			if s, ok := knownSelectors[k]; ok {
				return s
			}
			return "?" + k
		}
	case *ast.Ident:
		return "?" + v.Name
	}
	return "?expr"
}

// group/kind pairs of a []schema.GroupKind or map[schema.GroupKind]… composite literal
func groupKinds(cl *ast.CompositeLit) [][2]string {
	var out [][2]string
	for _, el := range cl.Elts {
		if kv, ok := el.(*ast.KeyValueExpr); ok { // map literal: key is the GroupKind
			el = kv.Key
		}
		gk, ok := el.(*ast.CompositeLit)
		if !ok {
			continue
		}
		var g, k string
		for _, f := range gk.Elts {
			kv, ok := f.(*ast.KeyValueExpr)
			if !ok {
				continue
			}
			name := kv.Key.(*ast.Ident).Name
			if name == "Group" {
				g = strOf(kv.Value)
			} else if name == "Kind" {
				k = strOf(kv.Value)
			}
		}
		out = append(out, [2]string{g, k})
	}
	return out
}

func parse(path string) *ast.File {
	f, err := parser.ParseFile(token.NewFileSet(), path, nil, 0)
	if err != nil {
		fmt.Fprintln(os.Stderr, "gentables:", err)
		os.Exit(3)
	}
	return f
}

// find the composite literal assigned to / declared as `name` anywhere in the file
func findLit(f *ast.File, name string) *ast.CompositeLit {
	var res *ast.CompositeLit
	ast.Inspect(f, func(n ast.Node) bool {
		switch v := n.(type) {
		case *ast.AssignStmt:
			for i, l := range v.Lhs {
				if id, ok := l.(*ast.Ident); ok && id.Name == name && i < len(v.Rhs) {
					if cl, ok := v.Rhs[i].(*ast.CompositeLit); ok {
						res = cl
					}
				}
			}
		case *ast.ValueSpec:
			for i, id := range v.Names {
				if id.Name == name && i < len(v.Values) {
					if cl, ok := v.Values[i].(*ast.CompositeLit); ok {
						res = cl
					}
				}
			}
		}
		return true
	})
	return res
}

func constStr(f *ast.File, name string) string {
	res := "?missing:" + name
	ast.Inspect(f, func(n ast.Node) bool {
		if v, ok := n.(*ast.ValueSpec); ok {
			for i, id := range v.Names {
				if id.Name == name && i < len(v.Values) {
					res = strOf(v.Values[i])
				}
			}
		}
		return true
	})
	return res
}

func pairs(l [][2]string) string {
	var s []string
	for _, p := range l {
		s = append(s, "("+coqStr(p[0])+", "+coqStr(p[1])+")")
	}
	return "[" + strings.Join(s, ";\n   ") + "]"
}

// ---- pkg/inventory/policy.go: the decision functions CanApply / CanPrune / IDMatch ----------------
// Translated statement by statement into a small table language (Inductive pexp in the generated
// file).  Any statement the translator does not recognise is emitted as a label starting with "?",
// which makes the agreement lemmas of Proofs/PolicySrcAgree.v fail.

func render(n ast.Node) string {
	var b strings.Builder
	_ = printer.Fprint(&b, token.NewFileSet(), n)
	return b.String()
}

func findFunc(f *ast.File, name string) *ast.FuncDecl {
	for _, d := range f.Decls {
		if fd, ok := d.(*ast.FuncDecl); ok && fd.Recv == nil && fd.Name.Name == name {
			return fd
		}
	}
	return nil
}

// names of a `const ( A T = iota; B; C )` block whose first spec has type typ
func iotaNames(f *ast.File, typ string) []string {
	for _, d := range f.Decls {
		gd, ok := d.(*ast.GenDecl)
		if !ok || gd.Tok != token.CONST || len(gd.Specs) == 0 {
			continue
		}
		first := gd.Specs[0].(*ast.ValueSpec)
		id, ok := first.Type.(*ast.Ident)
		if !ok || id.Name != typ {
			continue
		}
		if len(first.Values) != 1 || render(first.Values[0]) != "iota" {
			return []string{"?not-iota:" + render(first)}
		}
		var out []string
		for i, s := range gd.Specs {
			vs := s.(*ast.ValueSpec)
			if len(vs.Names) != 1 || (i > 0 && (vs.Type != nil || len(vs.Values) != 0)) {
				return []string{"?spec:" + render(vs)}
			}
			out = append(out, vs.Names[0].Name)
		}
		return out
	}
	return []string{"?missing:" + typ}
}

// condition over the parameter `policy`
func pexp(e ast.Expr) string {
	switch v := e.(type) {
	case *ast.ParenExpr:
		return pexp(v.X)
	case *ast.BinaryExpr:
		switch v.Op {
		case token.LOR:
			return "(POr " + pexp(v.X) + " " + pexp(v.Y) + ")"
		case token.LAND:
			return "(PAnd " + pexp(v.X) + " " + pexp(v.Y) + ")"
		case token.EQL, token.NEQ:
			x, okx := v.X.(*ast.Ident)
			y, oky := v.Y.(*ast.Ident)
			if okx && oky && y.Name == "policy" { // constant on the left
				x, y = y, x
			}
			if okx && oky && x.Name == "policy" {
				if v.Op == token.EQL {
					return "(PEq " + coqStr(y.Name) + ")"
				}
				return "(PNe " + coqStr(y.Name) + ")"
			}
		}
	}
	return "(PEq " + coqStr("?cond:"+render(e)) + ")"
}

// `return <true|false>, <nil|expr>` -> (result, error is nil)
func retPair(s ast.Stmt) (string, bool) {
	r, ok := s.(*ast.ReturnStmt)
	if !ok || len(r.Results) != 2 {
		return "", false
	}
	b, ok := r.Results[0].(*ast.Ident)
	if !ok || (b.Name != "true" && b.Name != "false") {
		return "", false
	}
	errnil := "false"
	if id, ok := r.Results[1].(*ast.Ident); ok && id.Name == "nil" {
		errnil = "true"
	}
	return "(" + b.Name + ", " + errnil + ")", true
}

func bad(what string, n ast.Node) string {
	return "(" + coqStr("?"+what+":"+render(n)) + ", None, (false, false))"
}

// func F(inv Info, obj *unstructured.Unstructured, policy Policy) (bool, error) {
//   matchStatus := IDMatch(inv, obj); switch matchStatus { case X: [if cond {] return b, e [}] ... }; return b, e }
func policyFn(f *ast.File, name string) string {
	fd := findFunc(f, name)
	if fd == nil {
		return "([" + bad("missing", ast.NewIdent(name)) + "], (false, false))"
	}
	var params []string
	for _, fl := range fd.Type.Params.List {
		for _, n := range fl.Names {
			params = append(params, n.Name)
		}
	}
	st := fd.Body.List
	if strings.Join(params, ",") != "inv,obj,policy" || len(st) != 3 {
		return "([" + bad("shape", fd.Type) + "], (false, false))"
	}
	if render(st[0]) != "matchStatus := IDMatch(inv, obj)" {
		return "([" + bad("tag", st[0]) + "], (false, false))"
	}
	sw, ok := st[1].(*ast.SwitchStmt)
	if !ok || sw.Init != nil || sw.Tag == nil || render(sw.Tag) != "matchStatus" {
		return "([" + bad("switch", st[1]) + "], (false, false))"
	}
	tail, ok := retPair(st[2])
	if !ok {
		return "([" + bad("tail", st[2]) + "], (false, false))"
	}
	var cls []string
	for _, c := range sw.Body.List {
		cc := c.(*ast.CaseClause)
		label := "default"
		if cc.List != nil {
			id, ok := cc.List[0].(*ast.Ident)
			if !ok || len(cc.List) != 1 {
				cls = append(cls, bad("label", cc))
				continue
			}
			label = id.Name
		}
		if len(cc.Body) != 1 {
			cls = append(cls, bad("body", cc))
			continue
		}
		if r, ok := retPair(cc.Body[0]); ok {
			cls = append(cls, "("+coqStr(label)+", None, "+r+")")
			continue
		}
		is, ok := cc.Body[0].(*ast.IfStmt)
		if !ok || is.Init != nil || is.Else != nil || len(is.Body.List) != 1 {
			cls = append(cls, bad("stmt", cc.Body[0]))
			continue
		}
		r, ok := retPair(is.Body.List[0])
		if !ok {
			cls = append(cls, bad("ret", is.Body.List[0]))
			continue
		}
		cls = append(cls, "("+coqStr(label)+", Some "+pexp(is.Cond)+", "+r+")")
	}
	return "([" + strings.Join(cls, ";\n    ") + "],\n   " + tail + ")"
}

// IDMatch: a chain of `if cond { return X }` closed by `return X`, after the two lookups
func idMatch(f *ast.File) string {
	fd := findFunc(f, "IDMatch")
	if fd == nil {
		return "[(" + coqStr("?missing") + ", " + coqStr("") + ")]"
	}
	var out []string
	for _, s := range fd.Body.List {
		switch v := s.(type) {
		case *ast.AssignStmt:
			out = append(out, "("+coqStr("let")+", "+coqStr(render(v))+")")
		case *ast.IfStmt:
			if v.Init == nil && v.Else == nil && len(v.Body.List) == 1 {
				if r, ok := v.Body.List[0].(*ast.ReturnStmt); ok && len(r.Results) == 1 {
					out = append(out, "("+coqStr(render(v.Cond))+", "+coqStr(render(r.Results[0]))+")")
					continue
				}
			}
			out = append(out, "("+coqStr("?if")+", "+coqStr(render(v))+")")
		case *ast.ReturnStmt:
			if len(v.Results) == 1 {
				out = append(out, "("+coqStr("")+", "+coqStr(render(v.Results[0]))+")")
				continue
			}
			out = append(out, "("+coqStr("?return")+", "+coqStr(render(v))+")")
		default:
			out = append(out, "("+coqStr("?stmt")+", "+coqStr(render(s))+")")
		}
	}
	return "[" + strings.Join(out, ";\n   ") + "]"
}

func strList(l []string) string {
	var s []string
	for _, x := range l {
		s = append(s, coqStr(x))
	}
	return "[" + strings.Join(s, "; ") + "]"
}

// ---- the two inventory-policy filters (pkg/apply/filter) as guarded statement lists ----------------------------
// A method body is emitted as a statement tree (Inductive fstmt in the generated file): assignments and returned
// expressions as rendered text, if / else and tagless switch as SIf; anything else is SBad, on which the interpreter
// of Proofs/PolicySrcAgree.v is stuck.
func findMethod(f *ast.File, recv, name string) *ast.FuncDecl {
	for _, d := range f.Decls {
		fd, ok := d.(*ast.FuncDecl)
		if !ok || fd.Recv == nil || fd.Name.Name != name || len(fd.Recv.List) != 1 {
			continue
		}
		if id, ok := fd.Recv.List[0].Type.(*ast.Ident); ok && id.Name == recv {
			return fd
		}
	}
	return nil
}

func retText(e ast.Expr) string {
	if c, ok := e.(*ast.CallExpr); ok { // a constructor call: the callee names the error class
		return render(c.Fun)
	}
	return render(e)
}

// statement tree: SAssign text | SRet text | SIf cond then else | SBad text
func stmts(l []ast.Stmt) string {
	var out []string
	for _, s := range l {
		out = append(out, stmt(s))
	}
	return "[" + strings.Join(out, "; ") + "]"
}

func stmt(s ast.Stmt) string {
	switch v := s.(type) {
	case *ast.AssignStmt:
		return "SAssign " + coqStr(render(v))
	case *ast.ReturnStmt:
		if len(v.Results) != 1 {
			return "SBad " + coqStr("return: "+render(v))
		}
		return "SRet " + coqStr(retText(v.Results[0]))
	case *ast.BlockStmt:
		return "SIf " + coqStr("true") + " " + stmts(v.List) + " []"
	case *ast.IfStmt:
		if v.Init != nil {
			return "SBad " + coqStr("if with init: "+render(v.Cond))
		}
		els := "[]"
		if v.Else != nil {
			els = "[" + stmt(v.Else) + "]"
		}
		return "SIf " + coqStr(render(v.Cond)) + " " + stmts(v.Body.List) + " " + els
	case *ast.SwitchStmt:
		// tagless switch without init, fallthrough or break = an if / else-if chain (default last in effect)
		if v.Init != nil || v.Tag != nil {
			return "SBad " + coqStr("tagged switch")
		}
		var dflt *ast.CaseClause
		var cases []*ast.CaseClause
		for _, c := range v.Body.List {
			cc := c.(*ast.CaseClause)
			for _, b := range cc.Body {
				if _, ok := b.(*ast.BranchStmt); ok {
					return "SBad " + coqStr("branch statement in switch")
				}
			}
			if cc.List == nil {
				dflt = cc
			} else if len(cc.List) == 1 {
				cases = append(cases, cc)
			} else {
				return "SBad " + coqStr("multi-expression case")
			}
		}
		res := "[]"
		if dflt != nil {
			res = stmts(dflt.Body)
		}
		for i := len(cases) - 1; i >= 0; i-- {
			res = "[SIf " + coqStr(render(cases[i].List[0])) + " " + stmts(cases[i].Body) + " " + res + "]"
		}
		return "SIf " + coqStr("true") + " " + res + " []"
	}
	return "SBad " + coqStr("stmt: "+render(s))
}

func filterBody(f *ast.File, recv string) string {
	fd := findMethod(f, recv, "Filter")
	if fd == nil {
		return "[SBad " + coqStr("missing "+recv+".Filter") + "]"
	}
	return stmts(fd.Body.List)
}

func main() {
	repo := os.Getenv("VERIF_REPO")
	if repo == "" {
		repo = "/repo"
	}
	out := os.Args[1]
	var b strings.Builder
	b.WriteString("(* GENERATED by harness/cmd/gentables from the Go sources of the repository under test; do not edit, not committed *)\n")
	b.WriteString("From Coq Require Import List String.\nImport ListNotations.\nLocal Open Scope string_scope.\n\n")

	ord := parse(filepath.Join(repo, "pkg/ordering/sort.go"))
	of, ol := findLit(ord, "orderFirst"), findLit(ord, "orderLast")
	if of == nil || ol == nil {
		fmt.Fprintln(os.Stderr, "gentables: orderFirst/orderLast not found")
		os.Exit(3)
	}
	b.WriteString("(* pkg/ordering/sort.go computeGroupKind2index *)\n")
	b.WriteString("Definition src_order_first : list (string * string) :=\n  " + pairs(groupKinds(of)) + ".\n")
	b.WriteString("Definition src_order_last : list (string * string) :=\n  " + pairs(groupKinds(ol)) + ".\n\n")

	core := parse(filepath.Join(repo, "pkg/kstatus/status/core.go"))
	lt := findLit(core, "legacyTypes")
	if lt == nil {
		fmt.Fprintln(os.Stderr, "gentables: legacyTypes not found")
		os.Exit(3)
	}
	var lts [][2]string
	for _, el := range lt.Elts {
		kv := el.(*ast.KeyValueExpr)
		fn := "?"
		if id, ok := kv.Value.(*ast.Ident); ok {
			fn = id.Name
		}
		lts = append(lts, [2]string{strOf(kv.Key), fn})
	}
	sort.Slice(lts, func(i, j int) bool { return lts[i][0] < lts[j][0] }) // a Go map: order is irrelevant
	b.WriteString("(* pkg/kstatus/status/core.go legacyTypes: key -> name of the rule function, sorted by key *)\n")
	b.WriteString("Definition src_legacy_types : list (string * string) :=\n  " + pairs(lts) + ".\n\n")

	om := parse(filepath.Join(repo, "pkg/object/objmetadata.go"))
	rb := findLit(om, "RBACGroupKind")
	if rb == nil {
		fmt.Fprintln(os.Stderr, "gentables: RBACGroupKind not found")
		os.Exit(3)
	}
	rbs := groupKinds(rb)
	sort.Slice(rbs, func(i, j int) bool { return rbs[i][1] < rbs[j][1] })
	b.WriteString("(* pkg/object/objmetadata.go *)\n")
	b.WriteString("Definition src_rbac_group_kinds : list (string * string) :=\n  " + pairs(rbs) + ".\n")
	b.WriteString("Definition src_field_separator : string := " + coqStr(constStr(om, "fieldSeparator")) + ".\n")
	b.WriteString("Definition src_colon_transcoded : string := " + coqStr(constStr(om, "colonTranscoded")) + ".\n\n")

	ds := parse(filepath.Join(repo, "pkg/object/dependson/strings.go"))
	b.WriteString("(* pkg/object/dependson/strings.go *)\n")
	for _, c := range []string{"annotationSeparator", "fieldSeparator", "namespacesField"} {
		b.WriteString("Definition src_dep_" + c + " : string := " + coqStr(constStr(ds, c)) + ".\n")
	}
	pol := parse(filepath.Join(repo, "pkg/inventory/policy.go"))
	b.WriteString("\n(* pkg/inventory/policy.go: Policy / IDMatchStatus constants in iota order, IDMatch, CanApply, CanPrune *)\n")
	b.WriteString("Inductive pexp := PEq (c : string) | PNe (c : string) | POr (a b : pexp) | PAnd (a b : pexp).\n")
	b.WriteString("Definition src_policy_iota : list string := " + strList(iotaNames(pol, "Policy")) + ".\n")
	b.WriteString("Definition src_idmatch_iota : list string := " + strList(iotaNames(pol, "IDMatchStatus")) + ".\n")
	b.WriteString("Definition src_owning_inventory_key : string := " + coqStr(constStr(pol, "OwningInventoryKey")) + ".\n")
	b.WriteString("Definition src_idmatch : list (string * string) :=\n  " + idMatch(pol) + ".\n")
	b.WriteString("(* clause = (case label, guard over `policy`, (result, error is nil)); second component = the return after the switch *)\n")
	b.WriteString("Definition src_can_apply : list (string * option pexp * (bool * bool)) * (bool * bool) :=\n  " + policyFn(pol, "CanApply") + ".\n")
	b.WriteString("Definition src_can_prune : list (string * option pexp * (bool * bool)) * (bool * bool) :=\n  " + policyFn(pol, "CanPrune") + ".\n")
	af := parse(filepath.Join(repo, "pkg/apply/filter/inventory-policy-apply-filter.go"))
	pf := parse(filepath.Join(repo, "pkg/apply/filter/inventory-policy-prune-filter.go"))
	b.WriteString("\n(* pkg/apply/filter: the Filter methods of the two inventory-policy filters as statement trees *)\n")
	b.WriteString("Inductive fstmt := SAssign (t : string) | SRet (t : string) | SIf (c : string) (th el : list fstmt) | SBad (t : string).\n")
	b.WriteString("Definition src_policy_apply_filter : list fstmt :=\n  " + filterBody(af, "InventoryPolicyApplyFilter") + ".\n")
	b.WriteString("Definition src_policy_prune_filter : list fstmt :=\n  " + filterBody(pf, "InventoryPolicyPruneFilter") + ".\n")
	cm := parse(filepath.Join(repo, "pkg/common/common.go"))
	b.WriteString("\n(* pkg/common/common.go: lifecycle annotation keys/values and the key -> value map of NoDeletion (identifier names, sorted) *)\n")
	var cs [][2]string
	for _, n := range []string{"OnRemoveAnnotation", "OnRemoveKeep", "LifecycleDeleteAnnotation", "PreventDeletion", "InventoryLabel"} {
		cs = append(cs, [2]string{n, constStr(cm, n)})
	}
	b.WriteString("Definition src_common_consts : list (string * string) :=\n  " + pairs(cs) + ".\n")
	var nd [][2]string
	if fd := findFunc(cm, "NoDeletion"); fd != nil {
		ast.Inspect(fd, func(n ast.Node) bool {
			if cl, ok := n.(*ast.CompositeLit); ok {
				for _, el := range cl.Elts {
					if kv, ok := el.(*ast.KeyValueExpr); ok {
						nd = append(nd, [2]string{render(kv.Key), render(kv.Value)})
					}
				}
				return false
			}
			return true
		})
		// the decision after the lookup, as text: `if val, found := m[key]; found { return val == value }; return false`
		var tail []string
		for _, st := range fd.Body.List[1:] {
			tail = append(tail, strings.Join(strings.Fields(render(st)), " "))
		}
		sort.Slice(nd, func(i, j int) bool { return nd[i][0] < nd[j][0] })
		b.WriteString("Definition src_no_deletion_map : list (string * string) :=\n  " + pairs(nd) + ".\n")
		b.WriteString("Definition src_no_deletion_tail : list string := " + strList(tail) + ".\n")
	} else {
		b.WriteString("Definition src_no_deletion_map : list (string * string) := [(\"?missing\", \"\")].\nDefinition src_no_deletion_tail : list string := [].\n")
	}
	da := parse(filepath.Join(repo, "pkg/object/dependson/annotation.go"))
	ma := parse(filepath.Join(repo, "pkg/object/mutation/annotation.go"))
	b.WriteString("Definition src_depends_on_annotation : string := " + coqStr(constStr(da, "Annotation")) + ".\n")
	b.WriteString("Definition src_mutation_annotation : string := " + coqStr(constStr(ma, "Annotation")) + ".\n")
	if err := os.MkdirAll(filepath.Dir(out), 0o755); err != nil {
		fmt.Fprintln(os.Stderr, err)
		os.Exit(3)
	}
	// only rewrite when the content changed, to keep make incremental
	if old, err := os.ReadFile(out); err == nil && string(old) == b.String() {
		return
	}
	if err := os.WriteFile(out, []byte(b.String()), 0o644); err != nil {
		fmt.Fprintln(os.Stderr, err)
		os.Exit(3)
	}
}
