package main

import (
	"verifharness/c18"
	"verifharness/emit"
)

func main() { emit.Main("C18", c18.Run) }
