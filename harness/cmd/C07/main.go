package main

import (
	"verifharness/emit"
	"verifharness/kstatus"
)

func main() { emit.Main("C07", kstatus.RunC07) }
