package main

import (
	"verifharness/c19"
	"verifharness/emit"
)

func main() { emit.Main("C19", c19.Run) }
