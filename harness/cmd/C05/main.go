package main

import (
	"verifharness/emit"
	"verifharness/pipeline"
)

func main() { emit.Main("C05", pipeline.RunFor("C05")) }
