package main

import (
	"verifharness/c20"
	"verifharness/emit"
)

func main() { emit.Main("C20", c20.Run) }
