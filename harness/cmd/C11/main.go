package main

import (
	"verifharness/c11plan"
	"verifharness/emit"
	"verifharness/pipeline"
)

func main() {
	if pipeline.ChildMain() {
		return
	}
	emit.Main("C11", func(seed int64, tier, outDir string) (*emit.Summary, error) {
		sum, err := pipeline.Supervised("C11")(seed, tier, outDir)
		if err != nil {
			return nil, err
		}
		// supplementary plan-level stream: both kinds of dependency annotations
		if err := c11plan.AddCases(sum, seed, tier, outDir); err != nil {
			return nil, err
		}
		return sum, nil
	})
}
