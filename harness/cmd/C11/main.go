package main

import (
	"verifharness/emit"
	"verifharness/pipeline"
)

func main() { emit.Main("C11", pipeline.RunFor("C11")) }
