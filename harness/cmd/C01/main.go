package main

import (
	"verifharness/emit"
	"verifharness/pipeline"
)

func main() { emit.Main("C01", pipeline.RunFor("C01")) }
