package main

import (
	"verifharness/emit"
	"verifharness/kstatus"
)

func main() { emit.Main("C09", kstatus.RunC09) }
