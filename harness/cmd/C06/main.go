package main

import (
	"verifharness/c06"
	"verifharness/emit"
	"verifharness/pipeline"
)

func main() {
	if pipeline.ChildMain() {
		return
	}
	emit.Main("C06", func(seed int64, tier, outDir string) (*emit.Summary, error) {
		sum, err := c06.Run(seed, tier, outDir)
		if err != nil {
			return nil, err
		}
		// the wait verdicts seen through the whole pipeline (profile C06p, check_C06p)
		if err := pipeline.AddCases(sum, "C06p", seed, tier, outDir); err != nil {
			return nil, err
		}
		return sum, nil
	})
}
