package main

import (
	"verifharness/c06"
	"verifharness/emit"
)

func main() { emit.Main("C06", c06.Run) }
