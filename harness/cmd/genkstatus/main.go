// genkstatus translates the status computation of pkg/kstatus/status
// (core.go, generic.go, status.go, util.go of the repository under test) into
// Gallina: coq/theories/Generated/KStatusSrc.v, one Definition per Go function
// reachable from Compute.  go/parser + go/ast only (no type checker, no
// network).  The translation is syntax-directed: statements are translated in
// continuation-passing style, so an `if` is an `if`, a `switch` an if-chain, a
// for-range loop an application of KStatusSrcLib.range_loop to a function of
// (element, loop-carried variables), a local variable a `let`.  The Coq
// development proves the result equal to the hand-written model
// (Proofs/KStatusSrcAgree.v).
//
// What is dropped: text that is no observable of the model.  The Message field
// of Result, the Reason and Message fields of Condition, and - by liveness -
// every local variable and every function argument whose value reaches nothing
// else (fmt.Sprintf results, reason constants, counters used only in
// messages).  An expression is dropped only if it is pure and total (see
// droppable); anything else is translated or is an error.
//
// Everything outside the supported subset is an error: non-zero exit, no
// output file.  Nothing is skipped silently.
package main

import (
	"bytes"
	"fmt"
	"go/ast"
	"go/parser"
	"go/printer"
	"go/token"
	"os"
	"path/filepath"
	"regexp"
	"sort"
	"strconv"
	"strings"
)

const (
	unstructuredPath = "k8s.io/apimachinery/pkg/apis/meta/v1/unstructured"
	corev1Path       = "k8s.io/api/core/v1"
	lib              = "KStatusSrcLib."
	clockName        = "clock_w"
	dispatcher       = "call_GetConditionsFn"
)

// the Go functions the hand-written model has a counterpart for; every other
// translated function is put into the unfold database ksrc_extra, so that the
// agreement proofs see through helpers introduced by a refactoring
var modelled = map[string]bool{
	"Compute": true, "checkGenericProperties": true, "checkGeneration": true, "checkReadyCondition": true,
	"GetLegacyConditionsFn": true, "alwaysReady": true, "stsConditions": true, "deploymentConditions": true,
	"replicasetConditions": true, "daemonsetConditions": true, "checkGenerationSet": true, "pvcConditions": true,
	"podConditions": true, "getCrashLoopingContainers": true, "pdbConditions": true, "jobConditions": true,
	"serviceConditions": true, "crdConditions": true, "hasConditionWithStatus": true, "getConditionWithStatus": true,
}

// in-package functions that are not translated but mapped to the accessors of Base/Json.v
var inPackageWhitelist = map[string]bool{"GetIntField": true, "GetStringField": true, "GetObjectWithConditions": true}

// ---------------------------------------------------------------- types -----

type kind int

const (
	kString kind = iota
	kInt
	kBool
	kErr
	kJV     // interface{}, map[string]interface{}, *unstructured.Unstructured: a JSON tree
	kResult // *Result
	kCond   // Condition
	kBCond  // BasicCondition
	kOWC    // *ObjWithConditions (represented by .Status.Conditions)
	kOWCS   // ObjWithConditions.Status
	kList   // []T
	kFn     // GetConditionsFn
	kGVK    // schema.GroupVersionKind
	kStatus // Status
	kOpaque // value of an expression that is not translated (message text)
)

type typ struct {
	k    kind
	elem *typ
	sub  string // kJV: "unstr" | "map" | "any"
}

func (t typ) coq() string {
	switch t.k {
	case kString:
		return "string"
	case kInt:
		return "Z"
	case kBool, kErr:
		return "bool"
	case kJV:
		return "Json.jv"
	case kResult:
		return lib + "gres"
	case kCond:
		return "KStatus.rcond"
	case kBCond:
		return "Json.bcond"
	case kOWC, kOWCS:
		return "(list Json.bcond)"
	case kList:
		return "(list " + t.elem.coq() + ")"
	case kFn:
		return "(option string)"
	case kGVK:
		return "(string * string)"
	case kStatus:
		return "KStatus.status"
	}
	panic(bug("no Coq type for an untranslated value"))
}

func (t typ) String() string {
	names := []string{"string", "int", "bool", "error", "tree", "*Result", "Condition", "BasicCondition",
		"*ObjWithConditions", "ConditionStatus", "slice", "GetConditionsFn", "GroupVersionKind", "Status", "untranslated"}
	s := names[t.k]
	if t.k == kList {
		s = "[]" + t.elem.String()
	}
	return s
}

func sameType(a, b typ) bool {
	if a.k != b.k {
		return false
	}
	if a.k == kList {
		return sameType(*a.elem, *b.elem)
	}
	return true
}

func listOf(t typ) typ { return typ{k: kList, elem: &t} }

var statusCtor = map[string]string{
	"InProgress": "KStatus.InProgress", "Failed": "KStatus.Failed", "Current": "KStatus.Current",
	"Terminating": "KStatus.Terminating", "NotFound": "KStatus.NotFound", "Unknown": "KStatus.Unknown",
}

// constants of imported packages
type extConst struct {
	code string
	t    typ
}

var extConsts = map[string]extConst{
	corev1Path + ".ConditionTrue":    {`"True"`, typ{k: kString}},
	corev1Path + ".ConditionFalse":   {`"False"`, typ{k: kString}},
	corev1Path + ".ConditionUnknown": {`"Unknown"`, typ{k: kString}},
	"math.MaxInt32":                  {"2147483647%Z", typ{k: kInt}},
	"math.MinInt32":                  {"(-2147483648)%Z", typ{k: kInt}},
	"math.MaxInt64":                  {"9223372036854775807%Z", typ{k: kInt}},
}

// ---------------------------------------------------------------- errors ----

type transErr struct{ msg string }

func bug(s string) transErr { return transErr{"internal: " + s} }

type gen struct {
	fset            *token.FileSet
	funcs           map[string]*funcInfo
	consts          map[string]*constInfo
	structs         map[string]*ast.StructType
	pkgVars         map[string]bool
	order           []string // emitted definitions, callees first
	defs            map[string]string
	valueFns        []string // functions used as GetConditionsFn values
	dispatcherDone  bool
	dispatcherBusy  bool
	dispatcherClock bool
}

type constInfo struct {
	val ast.Expr
	typ ast.Expr
}

type param struct {
	goName, coq string
	t           typ
	keep        bool
}

type funcInfo struct {
	name      string
	decl      *ast.FuncDecl
	imports   map[string]string
	params    []param
	results   []typ
	state     int // 0 untouched, 1 in progress, 2 done
	usesClock bool
	isValue   bool
	sigDone   bool
}

func (g *gen) pos(n ast.Node) string {
	p := g.fset.Position(n.Pos())
	return fmt.Sprintf("%s:%d:%d", filepath.Base(p.Filename), p.Line, p.Column)
}

func (g *gen) fail(n ast.Node, format string, a ...interface{}) {
	panic(transErr{g.pos(n) + ": " + fmt.Sprintf(format, a...) + "\n    " + g.src(n)})
}

func (g *gen) src(n ast.Node) string {
	var b bytes.Buffer
	if err := printer.Fprint(&b, g.fset, n); err != nil {
		return "?"
	}
	s := b.String()
	if i := strings.Index(s, "\n"); i >= 0 {
		s = s[:i] + " ..."
	}
	return s
}

func (g *gen) srcFlat(n ast.Node) string {
	var b bytes.Buffer
	if err := printer.Fprint(&b, g.fset, n); err != nil {
		return "?"
	}
	return strings.Join(strings.Fields(b.String()), "")
}

// ---------------------------------------------------------------- env -------

type local struct {
	coq string
	t   typ
	seq int
}

type env struct {
	parent *env
	vars   map[string]*local
}

func (e *env) lookup(name string) *local {
	for s := e; s != nil; s = s.parent {
		if l, ok := s.vars[name]; ok {
			return l
		}
	}
	return nil
}

func (e *env) inTop(name string) *local { return e.vars[name] }

func (e *env) push() *env { return &env{parent: e, vars: map[string]*local{}} }

// declare returns a new environment; environments are never mutated because
// the continuation of a statement is translated once per branch that reaches it
func (e *env) declare(name string, l *local) *env {
	m := make(map[string]*local, len(e.vars)+1)
	for k, v := range e.vars {
		m[k] = v
	}
	m[name] = l
	return &env{parent: e.parent, vars: m}
}

// per function translation context
type cx struct {
	g    *gen
	fn   *funcInfo
	used map[string]bool
	seq  int
}

type flow struct {
	ret  func(string) string // how a `return v` leaves the current construct
	cont func() string       // `continue`; nil outside a loop
}

func (c *cx) fresh(goName string) string {
	base := "v_" + sanitize(goName)
	n := base
	for i := 1; c.used[n]; i++ {
		n = base + strconv.Itoa(i)
	}
	c.used[n] = true
	return n
}

func sanitize(s string) string {
	var b strings.Builder
	for _, r := range s {
		if r < 128 && (r == '_' || r >= '0' && r <= '9' || r >= 'a' && r <= 'z' || r >= 'A' && r <= 'Z') {
			b.WriteRune(r)
		} else {
			b.WriteString("_u")
		}
	}
	return b.String()
}

func (c *cx) newLocal(goName string, t typ) *local {
	c.seq++
	return &local{coq: c.fresh(goName), t: t, seq: c.seq}
}

func uses(code, name string) bool {
	for i := 0; ; {
		j := strings.Index(code[i:], name)
		if j < 0 {
			return false
		}
		j += i
		before := j == 0 || !isWord(code[j-1])
		after := j+len(name) == len(code) || !isWord(code[j+len(name)])
		if before && after {
			return true
		}
		i = j + 1
	}
}

func isWord(b byte) bool {
	return b == '_' || b == '\'' || b >= '0' && b <= '9' || b >= 'a' && b <= 'z' || b >= 'A' && b <= 'Z'
}

func coqStr(s string) string { return "\"" + strings.ReplaceAll(s, "\"", "\"\"") + "\"" }

func coqInt(s string, neg bool) string {
	if neg {
		return "(-" + s + ")%Z"
	}
	return s + "%Z"
}

// ---------------------------------------------------------------- Go types --

func (g *gen) typeOf(e ast.Expr, imports map[string]string) typ {
	switch v := e.(type) {
	case *ast.Ident:
		switch v.Name {
		case "string", "ConditionType":
			return typ{k: kString}
		case "int", "int64":
			return typ{k: kInt}
		case "bool":
			return typ{k: kBool}
		case "error":
			return typ{k: kErr}
		case "any":
			return typ{k: kJV, sub: "any"}
		case "Status":
			return typ{k: kStatus}
		case "Condition":
			return typ{k: kCond}
		case "BasicCondition":
			return typ{k: kBCond}
		case "GetConditionsFn":
			return typ{k: kFn}
		}
	case *ast.StarExpr:
		switch x := v.X.(type) {
		case *ast.Ident:
			if x.Name == "Result" {
				return typ{k: kResult}
			}
			if x.Name == "ObjWithConditions" {
				return typ{k: kOWC}
			}
		case *ast.SelectorExpr:
			if id, ok := x.X.(*ast.Ident); ok && imports[id.Name] == unstructuredPath && x.Sel.Name == "Unstructured" {
				return typ{k: kJV, sub: "unstr"}
			}
		}
	case *ast.SelectorExpr:
		if id, ok := v.X.(*ast.Ident); ok {
			switch imports[id.Name] + "." + v.Sel.Name {
			case corev1Path + ".ConditionStatus":
				return typ{k: kString}
			case "k8s.io/apimachinery/pkg/runtime/schema.GroupVersionKind":
				return typ{k: kGVK}
			}
		}
	case *ast.ArrayType:
		if v.Len == nil {
			return listOf(g.typeOf(v.Elt, imports))
		}
	case *ast.MapType:
		if k, ok := v.Key.(*ast.Ident); ok && k.Name == "string" && isEmptyInterface(v.Value) {
			return typ{k: kJV, sub: "map"}
		}
	case *ast.InterfaceType:
		if isEmptyInterface(v) {
			return typ{k: kJV, sub: "any"}
		}
	}
	g.fail(e, "unsupported type")
	panic("unreachable")
}

func isEmptyInterface(e ast.Expr) bool {
	if it, ok := e.(*ast.InterfaceType); ok {
		return it.Methods == nil || len(it.Methods.List) == 0
	}
	if id, ok := e.(*ast.Ident); ok {
		return id.Name == "any"
	}
	return false
}

func (c *cx) zero(t typ, at ast.Node) string {
	switch t.k {
	case kString:
		return `""`
	case kInt:
		return "0%Z"
	case kBool, kErr:
		return "false"
	case kJV:
		return "Json.JNull"
	case kResult, kFn:
		return "None"
	case kList, kOWC, kOWCS:
		return "[]"
	case kBCond:
		return `(Json.mkCond "" "" "" "")`
	case kCond:
		return `("", "")`
	}
	c.g.fail(at, "no zero value for type %s in the supported subset", t)
	panic("unreachable")
}

// ---------------------------------------------------------------- droppable -

// pure and total expressions: not evaluating them changes nothing
func (c *cx) droppable(e ast.Expr, en *env) bool {
	switch v := e.(type) {
	case nil:
		return true
	case *ast.BasicLit, *ast.Ident:
		return true
	case *ast.ParenExpr:
		return c.droppable(v.X, en)
	case *ast.SelectorExpr:
		id, ok := v.X.(*ast.Ident)
		if !ok {
			return false
		}
		if l := en.lookup(id.Name); l != nil {
			return l.t.k == kBCond || l.t.k == kGVK // value structs: a field read cannot fail
		}
		_, isImport := c.fn.imports[id.Name]
		return isImport
	case *ast.BinaryExpr:
		switch v.Op {
		case token.QUO, token.REM, token.SHL, token.SHR:
			return false
		}
		return c.droppable(v.X, en) && c.droppable(v.Y, en)
	case *ast.UnaryExpr:
		switch v.Op {
		case token.SUB, token.ADD, token.NOT:
			return c.droppable(v.X, en)
		}
		return false
	case *ast.CallExpr:
		if v.Ellipsis != token.NoPos {
			return false
		}
		ok := false
		switch f := v.Fun.(type) {
		case *ast.Ident:
			if en.lookup(f.Name) == nil {
				switch f.Name {
				case "len", "string", "int", "int64", "GetIntField", "GetStringField":
					ok = true
				}
			}
		case *ast.SelectorExpr:
			if id, isId := f.X.(*ast.Ident); isId {
				if l := en.lookup(id.Name); l != nil {
					if l.t.k == kJV && l.t.sub == "unstr" {
						switch f.Sel.Name {
						case "GetKind", "GetName", "GetNamespace", "GetAPIVersion":
							ok = true
						}
					}
				} else {
					switch c.fn.imports[id.Name] + "." + f.Sel.Name {
					case "fmt.Sprintf", "fmt.Sprint", "fmt.Errorf", "errors.New", "strings.Join":
						ok = true
					}
				}
			}
		}
		if !ok {
			return false
		}
		for _, a := range v.Args {
			if !c.droppable(a, en) {
				return false
			}
		}
		return true
	}
	return false
}

// ---------------------------------------------------------------- exprs -----

func isNilIdent(e ast.Expr) bool {
	id, ok := e.(*ast.Ident)
	return ok && id.Name == "nil"
}

func (c *cx) expr(e ast.Expr, en *env, want *typ) (string, typ) {
	g := c.g
	switch v := e.(type) {
	case *ast.ParenExpr:
		return c.expr(v.X, en, want)
	case *ast.BasicLit:
		switch v.Kind {
		case token.STRING:
			s, err := strconv.Unquote(v.Value)
			if err != nil {
				g.fail(e, "string literal")
			}
			return coqStr(s), typ{k: kString}
		case token.INT:
			if _, err := strconv.ParseUint(v.Value, 10, 63); err != nil {
				g.fail(e, "integer literal outside the supported subset (decimal, < 2^63)")
			}
			return coqInt(v.Value, false), typ{k: kInt}
		}
		g.fail(e, "unsupported literal")
	case *ast.Ident:
		return c.ident(v, en, want)
	case *ast.UnaryExpr:
		switch v.Op {
		case token.NOT:
			return "(negb " + c.boolean(v.X, en) + ")", typ{k: kBool}
		case token.SUB:
			if bl, ok := v.X.(*ast.BasicLit); ok && bl.Kind == token.INT {
				if _, err := strconv.ParseUint(bl.Value, 10, 63); err != nil {
					g.fail(e, "integer literal outside the supported subset")
				}
				return coqInt(bl.Value, true), typ{k: kInt}
			}
			x, t := c.expr(v.X, en, nil)
			if t.k != kInt {
				g.fail(e, "unary minus on %s", t)
			}
			return "(" + lib + "neg64 " + x + ")", t
		case token.AND:
			if cl, ok := v.X.(*ast.CompositeLit); ok {
				if id, ok := cl.Type.(*ast.Ident); ok && id.Name == "Result" {
					return c.resultLit(cl, en), typ{k: kResult}
				}
			}
		}
		g.fail(e, "unsupported unary expression")
	case *ast.BinaryExpr:
		return c.binary(v, en)
	case *ast.CallExpr:
		code, ts := c.call(v, en, 1)
		return code, ts[0]
	case *ast.SelectorExpr:
		return c.selector(v, en)
	case *ast.CompositeLit:
		return c.composite(v, en, want)
	case *ast.IndexExpr:
		code, ts := c.index(v, en, 1)
		return code, ts[0]
	case *ast.TypeAssertExpr:
		g.fail(e, "unchecked type assertion (can panic): outside the supported subset")
	}
	g.fail(e, "unsupported expression (%T)", e)
	panic("unreachable")
}

func (c *cx) boolean(e ast.Expr, en *env) string {
	code, t := c.expr(e, en, &typ{k: kBool})
	if t.k != kBool {
		c.g.fail(e, "condition of type %s, bool expected", t)
	}
	return code
}

func (c *cx) ident(v *ast.Ident, en *env, want *typ) (string, typ) {
	g := c.g
	if v.Name == "_" {
		g.fail(v, "blank identifier as a value")
	}
	if l := en.lookup(v.Name); l != nil {
		return l.coq, l.t
	}
	switch v.Name {
	case "nil":
		if want == nil {
			g.fail(v, "nil in a position whose type the translator cannot determine")
		}
		switch want.k {
		case kErr:
			return "false", *want
		case kResult, kFn:
			return "None", *want
		case kList:
			return "[]", *want
		case kJV:
			return "Json.JNull", *want
		}
		g.fail(v, "nil of type %s", *want)
	case "true", "false":
		return v.Name, typ{k: kBool}
	}
	if ci, ok := g.consts[v.Name]; ok {
		return c.constant(v, ci, 0)
	}
	if fi, ok := g.funcs[v.Name]; ok && !inPackageWhitelist[v.Name] {
		g.sig(fi)
		if !isGetConditionsFn(fi) {
			g.fail(v, "function value of a signature other than GetConditionsFn")
		}
		g.markValue(v.Name)
		return "(Some " + coqStr(v.Name) + ")", typ{k: kFn}
	}
	g.fail(v, "unknown identifier %s", v.Name)
	panic("unreachable")
}

func (c *cx) constant(at ast.Node, ci *constInfo, depth int) (string, typ) {
	g := c.g
	if depth > 10 {
		g.fail(at, "constant definition too deep")
	}
	tname := ""
	if ci.typ != nil {
		id, ok := ci.typ.(*ast.Ident)
		if !ok {
			g.fail(at, "constant of an unsupported type")
		}
		tname = id.Name
	}
	switch val := ci.val.(type) {
	case *ast.BasicLit:
		switch val.Kind {
		case token.STRING:
			s, err := strconv.Unquote(val.Value)
			if err != nil {
				g.fail(val, "string literal")
			}
			switch tname {
			case "Status":
				ctor, ok := statusCtor[s]
				if !ok {
					g.fail(val, "status constant %q is not a status of the model", s)
				}
				return ctor, typ{k: kStatus}
			case "", "string", "ConditionType":
				return coqStr(s), typ{k: kString}
			}
			g.fail(at, "string constant of unsupported type %s", tname)
		case token.INT:
			if tname != "" && tname != "int" && tname != "int64" {
				g.fail(at, "integer constant of unsupported type %s", tname)
			}
			if _, err := strconv.ParseUint(val.Value, 10, 63); err != nil {
				g.fail(val, "integer literal outside the supported subset")
			}
			return coqInt(val.Value, false), typ{k: kInt}
		}
	case *ast.Ident:
		if ci2, ok := g.consts[val.Name]; ok && tname == "" {
			return c.constant(at, ci2, depth+1)
		}
	}
	g.fail(at, "constant with an unsupported definition")
	panic("unreachable")
}

func (c *cx) binary(v *ast.BinaryExpr, en *env) (string, typ) {
	g := c.g
	tb := typ{k: kBool}
	switch v.Op {
	case token.LAND:
		return "(andb " + c.boolean(v.X, en) + " " + c.boolean(v.Y, en) + ")", tb
	case token.LOR:
		return "(orb " + c.boolean(v.X, en) + " " + c.boolean(v.Y, en) + ")", tb
	}
	if isNilIdent(v.X) || isNilIdent(v.Y) {
		o := v.X
		if isNilIdent(v.X) {
			o = v.Y
		}
		if v.Op != token.EQL && v.Op != token.NEQ {
			g.fail(v, "unsupported comparison with nil")
		}
		x, t := c.expr(o, en, nil)
		var isNil string
		switch {
		case t.k == kErr:
			isNil = "(negb " + x + ")"
		case t.k == kResult || t.k == kFn:
			isNil = "(negb (" + lib + "is_some " + x + "))"
		case t.k == kJV && t.sub == "any":
			isNil = "(" + lib + "go_is_nil " + x + ")"
		default:
			g.fail(v, "comparison of %s with nil: outside the supported subset (nil and empty are not distinguished for slices and maps)", t)
		}
		if v.Op == token.EQL {
			return isNil, tb
		}
		// x != nil
		switch {
		case t.k == kErr:
			return x, tb
		case t.k == kResult || t.k == kFn:
			return "(" + lib + "is_some " + x + ")", tb
		}
		return "(negb " + isNil + ")", tb
	}
	x, tx := c.expr(v.X, en, nil)
	y, ty := c.expr(v.Y, en, &tx)
	if !sameType(tx, ty) {
		g.fail(v, "operands of different types (%s, %s)", tx, ty)
	}
	ap := func(f string) string { return "(" + f + " " + x + " " + y + ")" }
	neg := func(s string) string { return "(negb " + s + ")" }
	switch tx.k {
	case kString:
		switch v.Op {
		case token.EQL:
			return ap("String.eqb"), tb
		case token.NEQ:
			return neg(ap("String.eqb")), tb
		case token.ADD:
			return ap("String.append"), tx
		}
	case kInt:
		switch v.Op {
		case token.EQL:
			return ap("Z.eqb"), tb
		case token.NEQ:
			return neg(ap("Z.eqb")), tb
		case token.LSS:
			return ap("Z.ltb"), tb
		case token.GTR:
			return ap("Z.gtb"), tb
		case token.LEQ:
			return ap("Z.leb"), tb
		case token.GEQ:
			return ap("Z.geb"), tb
		case token.ADD:
			return ap(lib + "add64"), tx
		case token.SUB:
			return ap("Json.sub64"), tx
		case token.MUL:
			return ap(lib + "mul64"), tx
		}
	case kBool:
		switch v.Op {
		case token.EQL:
			return ap("Bool.eqb"), tb
		case token.NEQ:
			return neg(ap("Bool.eqb")), tb
		}
	case kStatus:
		switch v.Op {
		case token.EQL:
			return ap(lib + "status_eqb"), tb
		case token.NEQ:
			return neg(ap(lib + "status_eqb")), tb
		}
	}
	g.fail(v, "operator %s on %s: outside the supported subset", v.Op, tx)
	panic("unreachable")
}

func (c *cx) selector(v *ast.SelectorExpr, en *env) (string, typ) {
	g := c.g
	if id, ok := v.X.(*ast.Ident); ok && en.lookup(id.Name) == nil {
		if path, ok := c.fn.imports[id.Name]; ok {
			if ec, ok := extConsts[path+"."+v.Sel.Name]; ok {
				return ec.code, ec.t
			}
			g.fail(v, "%s.%s is not in the table of known imported constants", path, v.Sel.Name)
		}
	}
	x, t := c.expr(v.X, en, nil)
	ts := typ{k: kString}
	switch t.k {
	case kBCond:
		switch v.Sel.Name {
		case "Type":
			return "(Json.c_type " + x + ")", ts
		case "Status":
			return "(Json.c_status " + x + ")", ts
		case "Reason":
			return "(Json.c_reason " + x + ")", ts
		case "Message":
			return "(Json.c_message " + x + ")", ts
		}
	case kGVK:
		switch v.Sel.Name {
		case "Group":
			return "(fst " + x + ")", ts
		case "Kind":
			return "(snd " + x + ")", ts
		}
	case kJV:
		if t.sub == "unstr" && v.Sel.Name == "Object" {
			return x, typ{k: kJV, sub: "map"}
		}
	case kOWC:
		if v.Sel.Name == "Status" {
			return x, typ{k: kOWCS}
		}
	case kOWCS:
		if v.Sel.Name == "Conditions" {
			return x, listOf(typ{k: kBCond})
		}
	}
	g.fail(v, "field %s of %s: outside the supported subset", v.Sel.Name, t)
	panic("unreachable")
}

// fields of a struct literal, by name (keyed, or positional via the struct declaration)
func (c *cx) fields(cl *ast.CompositeLit, structName string) map[string]ast.Expr {
	g := c.g
	out := map[string]ast.Expr{}
	st, ok := g.structs[structName]
	if !ok {
		g.fail(cl, "struct %s is not declared in the package", structName)
	}
	var names []string
	for _, f := range st.Fields.List {
		for _, n := range f.Names {
			names = append(names, n.Name)
		}
	}
	known := map[string]bool{}
	for _, n := range names {
		known[n] = true
	}
	for i, el := range cl.Elts {
		if kv, ok := el.(*ast.KeyValueExpr); ok {
			k, ok := kv.Key.(*ast.Ident)
			if !ok || !known[k.Name] {
				g.fail(el, "unknown field in %s literal", structName)
			}
			out[k.Name] = kv.Value
			continue
		}
		if len(cl.Elts) != len(names) {
			g.fail(cl, "positional %s literal with %d of %d fields", structName, len(cl.Elts), len(names))
		}
		out[names[i]] = el
	}
	return out
}

func (c *cx) dropField(f map[string]ast.Expr, name string, en *env) {
	if e, ok := f[name]; ok && !c.droppable(e, en) {
		c.g.fail(e, "the %s field is not part of the model and its expression is not pure: cannot be dropped", name)
	}
}

func (c *cx) resultLit(cl *ast.CompositeLit, en *env) string {
	f := c.fields(cl, "Result")
	se, ok := f["Status"]
	if !ok {
		c.g.fail(cl, "Result literal without Status")
	}
	s, t := c.expr(se, en, &typ{k: kStatus})
	if t.k != kStatus {
		c.g.fail(se, "Status field of type %s", t)
	}
	conds := "[]"
	if ce, ok := f["Conditions"]; ok {
		want := listOf(typ{k: kCond})
		var ct typ
		conds, ct = c.expr(ce, en, &want)
		if !sameType(ct, want) {
			c.g.fail(ce, "Conditions field of type %s", ct)
		}
	}
	c.dropField(f, "Message", en)
	return "(Some (" + s + ", " + conds + "))"
}

func (c *cx) condLit(cl *ast.CompositeLit, en *env) string {
	f := c.fields(cl, "Condition")
	get := func(name string) string {
		e, ok := f[name]
		if !ok {
			return `""`
		}
		code, t := c.expr(e, en, &typ{k: kString})
		if t.k != kString {
			c.g.fail(e, "%s field of type %s", name, t)
		}
		return code
	}
	c.dropField(f, "Reason", en)
	c.dropField(f, "Message", en)
	return "(" + get("Type") + ", " + get("Status") + ")"
}

func (c *cx) composite(v *ast.CompositeLit, en *env, want *typ) (string, typ) {
	g := c.g
	var t typ
	if v.Type == nil {
		if want == nil {
			g.fail(v, "composite literal with elided type in an untyped position")
		}
		t = *want
	} else {
		t = g.typeOf(v.Type, c.fn.imports)
	}
	switch t.k {
	case kCond:
		return c.condLit(v, en), t
	case kBCond:
		f := c.fields(v, "BasicCondition")
		get := func(name string) string {
			e, ok := f[name]
			if !ok {
				return `""`
			}
			code, ft := c.expr(e, en, &typ{k: kString})
			if ft.k != kString {
				g.fail(e, "%s field of type %s", name, ft)
			}
			return code
		}
		return "(Json.mkCond " + get("Type") + " " + get("Status") + " " + get("Reason") + " " + get("Message") + ")", t
	case kList:
		var items []string
		for _, el := range v.Elts {
			if _, ok := el.(*ast.KeyValueExpr); ok {
				g.fail(el, "keyed slice literal")
			}
			code, et := c.expr(el, en, t.elem)
			if !sameType(et, *t.elem) {
				g.fail(el, "slice element of type %s, %s expected", et, *t.elem)
			}
			items = append(items, code)
		}
		return "[" + strings.Join(items, "; ") + "]", t
	}
	g.fail(v, "composite literal of type %s: outside the supported subset", t)
	panic("unreachable")
}

// m[k]; n = 2 for the comma-ok form
func (c *cx) index(v *ast.IndexExpr, en *env, n int) (string, []typ) {
	g := c.g
	if id, ok := v.X.(*ast.Ident); ok && en.lookup(id.Name) == nil && g.pkgVars[id.Name] {
		if id.Name != "legacyTypes" {
			g.fail(v, "package variable %s: only legacyTypes is known", id.Name)
		}
		k, kt := c.expr(v.Index, en, &typ{k: kString})
		if kt.k != kString {
			g.fail(v.Index, "key of type %s", kt)
		}
		g.markTableValues()
		look := "(" + lib + "assoc " + k + " SourceTables.src_legacy_types)"
		if n == 2 {
			return "(let fn := " + look + " in (fn, " + lib + "is_some fn))", []typ{{k: kFn}, {k: kBool}}
		}
		return look, []typ{{k: kFn}}
	}
	x, t := c.expr(v.X, en, nil)
	if t.k != kJV || t.sub != "map" {
		g.fail(v, "index expression on %s: only map[string]interface{} values are indexed in the supported subset", t)
	}
	k, kt := c.expr(v.Index, en, &typ{k: kString})
	if kt.k != kString {
		g.fail(v.Index, "key of type %s", kt)
	}
	code := "(" + lib + "go_map_get " + x + " " + k + ")"
	if n == 2 {
		return code, []typ{{k: kJV, sub: "any"}, {k: kBool}}
	}
	return "(fst " + code + ")", []typ{{k: kJV, sub: "any"}}
}

func (c *cx) typeAssert(v *ast.TypeAssertExpr, en *env) (string, []typ) {
	g := c.g
	if v.Type == nil {
		g.fail(v, "type switch guard")
	}
	x, t := c.expr(v.X, en, nil)
	if t.k != kJV || t.sub != "any" {
		g.fail(v, "type assertion on %s", t)
	}
	tb := typ{k: kBool}
	switch tt := v.Type.(type) {
	case *ast.Ident:
		switch tt.Name {
		case "string":
			return "(" + lib + "go_as_string " + x + ")", []typ{{k: kString}, tb}
		case "int64":
			return "(" + lib + "go_as_int64 " + x + ")", []typ{{k: kInt}, tb}
		case "bool":
			return "(" + lib + "go_as_bool " + x + ")", []typ{{k: kBool}, tb}
		}
	case *ast.MapType:
		if g.typeOf(tt, c.fn.imports).k == kJV {
			return "(" + lib + "go_as_map " + x + ")", []typ{{k: kJV, sub: "map"}, tb}
		}
	case *ast.ArrayType:
		if tt.Len == nil && isEmptyInterface(tt.Elt) {
			return "(" + lib + "go_as_slice " + x + ")", []typ{listOf(typ{k: kJV, sub: "any"}), tb}
		}
	}
	g.fail(v, "type assertion to this type: outside the supported subset")
	panic("unreachable")
}

// an expression producing n values
func (c *cx) multi(e ast.Expr, en *env, n int) (string, []typ) {
	switch v := e.(type) {
	case *ast.ParenExpr:
		return c.multi(v.X, en, n)
	case *ast.CallExpr:
		return c.call(v, en, n)
	case *ast.TypeAssertExpr:
		if n == 2 {
			return c.typeAssert(v, en)
		}
	case *ast.IndexExpr:
		if n == 2 {
			return c.index(v, en, 2)
		}
	}
	c.g.fail(e, "expression does not produce %d values in the supported subset", n)
	panic("unreachable")
}

var clockRe = regexp.MustCompile(`^time\.Now\(\)\.Add\(-ScheduleWindow\)\.Before\(([A-Za-z_][A-Za-z0-9_]*)\.GetCreationTimestamp\(\)\.Time\)$`)

func (c *cx) stringPath(args []ast.Expr, en *env, call *ast.CallExpr) string {
	if call.Ellipsis != token.NoPos {
		c.g.fail(call, "spread argument for a field path")
	}
	var parts []string
	for _, a := range args {
		s, ok := c.constString(a, en)
		if !ok {
			c.g.fail(a, "field path component is not a string constant")
		}
		parts = append(parts, coqStr(s))
	}
	return "[" + strings.Join(parts, "; ") + "]"
}

func (c *cx) constString(e ast.Expr, en *env) (string, bool) {
	switch v := e.(type) {
	case *ast.ParenExpr:
		return c.constString(v.X, en)
	case *ast.BasicLit:
		if v.Kind == token.STRING {
			s, err := strconv.Unquote(v.Value)
			return s, err == nil
		}
	case *ast.Ident:
		if en.lookup(v.Name) == nil {
			if ci, ok := c.g.consts[v.Name]; ok && ci.typ == nil {
				return c.constString(ci.val, &env{vars: map[string]*local{}})
			}
		}
	}
	return "", false
}

func (c *cx) args(call *ast.CallExpr, en *env, want []typ, what string) []string {
	g := c.g
	if call.Ellipsis != token.NoPos {
		g.fail(call, "spread argument")
	}
	if len(call.Args) != len(want) {
		g.fail(call, "%s takes %d arguments", what, len(want))
	}
	var out []string
	for i, a := range call.Args {
		code, t := c.expr(a, en, &want[i])
		ok := sameType(t, want[i])
		if !ok {
			g.fail(a, "argument of type %s, %s expected", t, want[i])
		}
		out = append(out, code)
	}
	return out
}

func (c *cx) call(v *ast.CallExpr, en *env, n int) (string, []typ) {
	g := c.g
	flat := g.srcFlat(v)
	if m := clockRe.FindStringSubmatch(flat); m != nil {
		l := en.lookup(m[1])
		if l == nil || l.t.k != kJV || l.t.sub != "unstr" {
			g.fail(v, "clock comparison on something that is not the object")
		}
		if n != 1 {
			g.fail(v, "clock comparison in a multi-value position")
		}
		return clockName, []typ{{k: kBool}}
	}
	jv := typ{k: kJV, sub: "map"}
	need := func(k int) {
		if n != k {
			g.fail(v, "call produces %d values, %d wanted", k, n)
		}
	}
	switch f := v.Fun.(type) {
	case *ast.Ident:
		if l := en.lookup(f.Name); l != nil {
			if l.t.k != kFn {
				g.fail(v, "call of a local of type %s", l.t)
			}
			need(2)
			a := c.args(v, en, []typ{{k: kJV, sub: "unstr"}}, "a GetConditionsFn")
			clock := g.ensureDispatcher(v)
			code := "(" + dispatcher + " " + l.coq + " " + a[0]
			if clock {
				code += " " + clockName
			}
			return code + ")", []typ{{k: kResult}, {k: kErr}}
		}
		switch f.Name {
		case "len":
			need(1)
			if len(v.Args) != 1 {
				g.fail(v, "len")
			}
			x, t := c.expr(v.Args[0], en, nil)
			switch t.k {
			case kList, kOWCS:
				return "(Z.of_nat (List.length " + x + "))", []typ{{k: kInt}}
			case kString:
				return "(Z.of_nat (String.length " + x + "))", []typ{{k: kInt}}
			}
			g.fail(v, "len of %s", t)
		case "append":
			need(1)
			if len(v.Args) < 1 {
				g.fail(v, "append")
			}
			x, t := c.expr(v.Args[0], en, nil)
			if t.k != kList {
				g.fail(v, "append to %s", t)
			}
			if v.Ellipsis != token.NoPos {
				if len(v.Args) != 2 {
					g.fail(v, "append")
				}
				y, ty := c.expr(v.Args[1], en, &t)
				if !sameType(t, ty) {
					g.fail(v, "append of %s to %s", ty, t)
				}
				return "(List.app " + x + " " + y + ")", []typ{t}
			}
			var items []string
			for _, a := range v.Args[1:] {
				y, ty := c.expr(a, en, t.elem)
				if !sameType(*t.elem, ty) {
					g.fail(a, "append of %s to %s", ty, t)
				}
				items = append(items, y)
			}
			return "(List.app " + x + " [" + strings.Join(items, "; ") + "])", []typ{t}
		case "string", "int", "int64":
			need(1)
			if len(v.Args) != 1 || v.Ellipsis != token.NoPos {
				g.fail(v, "conversion")
			}
			x, t := c.expr(v.Args[0], en, nil)
			if f.Name == "string" && t.k == kString || f.Name != "string" && t.k == kInt {
				return x, []typ{t}
			}
			g.fail(v, "conversion of %s to %s: outside the supported subset", t, f.Name)
		case "GetIntField", "GetStringField":
			need(1)
			if len(v.Args) != 3 || v.Ellipsis != token.NoPos {
				g.fail(v, "%s takes 3 arguments", f.Name)
			}
			obj, ot := c.expr(v.Args[0], en, &jv)
			if ot.k != kJV {
				g.fail(v.Args[0], "object of type %s", ot)
			}
			p, ok := c.constString(v.Args[1], en)
			if !ok {
				g.fail(v.Args[1], "field path is not a string constant")
			}
			// util.go: strings.Split(fieldPath, "."), a leading empty component is removed
			comps := strings.Split(p, ".")
			if comps[0] == "" {
				comps = comps[1:]
			}
			var parts []string
			for _, s := range comps {
				parts = append(parts, coqStr(s))
			}
			path := "[" + strings.Join(parts, "; ") + "]"
			rt, fn := typ{k: kInt}, "Json.get_int_field"
			if f.Name == "GetStringField" {
				rt, fn = typ{k: kString}, "Json.get_string_field"
			}
			d, dt := c.expr(v.Args[2], en, &rt)
			if !sameType(dt, rt) {
				g.fail(v.Args[2], "default of type %s", dt)
			}
			return "(" + fn + " " + obj + " " + path + " " + d + ")", []typ{rt}
		case "GetObjectWithConditions":
			need(2)
			a := c.args(v, en, []typ{jv}, f.Name)
			return "(" + lib + "go_get_object_with_conditions " + a[0] + ")", []typ{{k: kOWC}, {k: kErr}}
		}
		if fi, ok := g.funcs[f.Name]; ok {
			g.ensure(fi, v)
			need(len(fi.results))
			if v.Ellipsis != token.NoPos || len(v.Args) != len(fi.params) {
				g.fail(v, "%s takes %d arguments", fi.name, len(fi.params))
			}
			code := "(" + fi.name
			for i, p := range fi.params {
				if !p.keep {
					if !c.droppable(v.Args[i], en) {
						g.fail(v.Args[i], "argument %d of %s reaches no observable and would be dropped, but its expression is not pure", i+1, fi.name)
					}
					continue
				}
				a, t := c.expr(v.Args[i], en, &fi.params[i].t)
				if !sameType(t, p.t) {
					g.fail(v.Args[i], "argument of type %s, %s expected", t, p.t)
				}
				code += " " + a
			}
			if fi.usesClock {
				code += " " + clockName
			}
			return code + ")", fi.results
		}
		g.fail(v, "call of unknown function %s (not in the package, not in the table of known callees)", f.Name)
	case *ast.SelectorExpr:
		if id, ok := f.X.(*ast.Ident); ok {
			if l := en.lookup(id.Name); l != nil {
				if l.t.k == kJV && l.t.sub == "unstr" {
					if len(v.Args) != 0 {
						g.fail(v, "method with arguments")
					}
					need(1)
					switch f.Sel.Name {
					case "UnstructuredContent":
						return l.coq, []typ{jv}
					case "GroupVersionKind":
						return "(KStatus.group_kind " + l.coq + ")", []typ{{k: kGVK}}
					case "GetKind":
						return "(Json.get_nested_string " + l.coq + ` ["kind"])`, []typ{{k: kString}}
					case "GetAPIVersion":
						return "(Json.get_nested_string " + l.coq + ` ["apiVersion"])`, []typ{{k: kString}}
					}
				}
				g.fail(v, "method %s on %s: not in the table of known callees", f.Sel.Name, l.t)
			}
			if path, ok := c.fn.imports[id.Name]; ok {
				key := path + "." + f.Sel.Name
				nested := func(fn string, t typ) (string, []typ) {
					need(3)
					if len(v.Args) < 1 {
						g.fail(v, "%s", key)
					}
					obj, ot := c.expr(v.Args[0], en, &jv)
					if ot.k != kJV {
						g.fail(v.Args[0], "object of type %s", ot)
					}
					return "(" + lib + fn + " " + obj + " " + c.stringPath(v.Args[1:], en, v) + ")", []typ{t, {k: kBool}, {k: kErr}}
				}
				switch key {
				case unstructuredPath + ".NestedString":
					return nested("go_nested_string", typ{k: kString})
				case unstructuredPath + ".NestedInt64":
					return nested("go_nested_int64", typ{k: kInt})
				case unstructuredPath + ".NestedSlice":
					return nested("go_nested_slice", listOf(typ{k: kJV, sub: "any"}))
				case unstructuredPath + ".NestedMap":
					return nested("go_nested_map", jv)
				case unstructuredPath + ".NestedFieldNoCopy":
					return nested("go_nested_field", typ{k: kJV, sub: "any"})
				case "fmt.Errorf", "errors.New":
					need(1)
					for _, a := range v.Args {
						if !c.droppable(a, en) {
							g.fail(a, "argument of an error constructor is not pure")
						}
					}
					return "true", []typ{{k: kErr}}
				case "fmt.Sprintf", "fmt.Sprint", "strings.Join":
					g.fail(v, "the value of %s (message text) reaches an observable: outside the supported subset", key)
				}
				g.fail(v, "%s: not in the table of known callees", key)
			}
		}
	}
	g.fail(v, "unsupported call")
	panic("unreachable")
}

// ---------------------------------------------------------------- stmts -----

func canExit(list []ast.Stmt) bool {
	found := false
	for _, s := range list {
		ast.Inspect(s, func(n ast.Node) bool {
			switch n.(type) {
			case *ast.ReturnStmt, *ast.BranchStmt:
				found = true
			case *ast.FuncLit:
				return false
			}
			return !found
		})
	}
	return found
}

// variables of the enclosing scopes that the statements may assign, in
// declaration order
func (c *cx) assignedOuter(list []ast.Stmt, en *env) []*local {
	seen := map[*local]bool{}
	var out []*local
	add := func(e ast.Expr) {
		if id, ok := e.(*ast.Ident); ok {
			if l := en.lookup(id.Name); l != nil && !seen[l] {
				seen[l] = true
				out = append(out, l)
			}
		}
	}
	for _, s := range list {
		ast.Inspect(s, func(n ast.Node) bool {
			switch v := n.(type) {
			case *ast.AssignStmt:
				if v.Tok != token.DEFINE {
					for _, l := range v.Lhs {
						add(l)
					}
				}
			case *ast.IncDecStmt:
				add(v.X)
			case *ast.FuncLit:
				return false
			}
			return true
		})
	}
	sort.Slice(out, func(i, j int) bool { return out[i].seq < out[j].seq })
	return out
}

func tupleOf(ls []*local) string {
	if len(ls) == 0 {
		return "tt"
	}
	var n []string
	for _, l := range ls {
		n = append(n, l.coq)
	}
	if len(n) == 1 {
		return n[0]
	}
	return "(" + strings.Join(n, ", ") + ")"
}

func tupleType(ls []*local) string {
	if len(ls) == 0 {
		return "unit"
	}
	var n []string
	for _, l := range ls {
		n = append(n, l.t.coq())
	}
	if len(n) == 1 {
		return n[0]
	}
	return "(" + strings.Join(n, " * ") + ")"
}

// `let <pattern> := ` for a list of names ("_" for unused ones)
func letPat(names []string) string {
	if len(names) == 1 {
		return names[0]
	}
	return "'(" + strings.Join(names, ", ") + ")"
}

func elseList(s *ast.IfStmt) []ast.Stmt {
	switch e := s.Else.(type) {
	case nil:
		return nil
	case *ast.BlockStmt:
		return e.List
	default:
		return []ast.Stmt{e}
	}
}

func (c *cx) stmts(list []ast.Stmt, en *env, fl flow, k func(*env) string) string {
	g := c.g
	if len(list) == 0 {
		return k(en)
	}
	rest := list[1:]
	switch s := list[0].(type) {
	case *ast.EmptyStmt:
		return c.stmts(rest, en, fl, k)

	case *ast.ReturnStmt:
		if len(rest) > 0 {
			g.fail(rest[0], "statement after return")
		}
		return fl.ret(c.returned(s, en))

	case *ast.BranchStmt:
		if s.Tok == token.CONTINUE && s.Label == nil && fl.cont != nil {
			if len(rest) > 0 {
				g.fail(rest[0], "statement after continue")
			}
			return fl.cont()
		}
		g.fail(s, "%s: outside the supported subset", s.Tok)

	case *ast.BlockStmt:
		return c.stmts(s.List, en.push(), fl, func(*env) string { return c.stmts(rest, en, fl, k) })

	case *ast.DeclStmt:
		gd, ok := s.Decl.(*ast.GenDecl)
		if !ok || gd.Tok != token.VAR {
			g.fail(s, "local declaration other than var")
		}
		// rewrite into one definition per name, then continue
		var defs []ast.Stmt
		for _, sp := range gd.Specs {
			vs := sp.(*ast.ValueSpec)
			if len(vs.Values) != 0 && len(vs.Values) != len(vs.Names) {
				g.fail(vs, "var with a multi-value initialiser")
			}
			for i, name := range vs.Names {
				d := &varDef{name: name, typ: vs.Type}
				if len(vs.Values) > 0 {
					d.val = vs.Values[i]
				}
				defs = append(defs, d)
			}
		}
		return c.stmts(append(defs, rest...), en, fl, k)

	case *varDef:
		var code string
		var t typ
		if s.val != nil {
			var want *typ
			if s.typ != nil {
				wt := g.typeOf(s.typ, c.fn.imports)
				want = &wt
			}
			code, t = c.expr(s.val, en, want)
			if want != nil && !sameType(*want, t) {
				g.fail(s.name, "initialiser of type %s for a variable of type %s", t, *want)
			}
		} else {
			t = g.typeOf(s.typ, c.fn.imports)
			code = c.zero(t, s.name)
		}
		if s.name.Name == "_" {
			return c.stmts(rest, en, fl, k)
		}
		if en.inTop(s.name.Name) != nil {
			g.fail(s.name, "redeclared in this block")
		}
		l := c.newLocal(s.name.Name, t)
		r := c.stmts(rest, en.declare(s.name.Name, l), fl, k)
		if !uses(r, l.coq) {
			return r
		}
		return "let " + l.coq + " := " + code + " in\n" + r

	case *ast.IncDecStmt:
		op := token.ADD
		if s.Tok == token.DEC {
			op = token.SUB
		}
		as := &ast.AssignStmt{Lhs: []ast.Expr{s.X}, TokPos: s.TokPos, Tok: token.ASSIGN,
			Rhs: []ast.Expr{&ast.BinaryExpr{X: s.X, OpPos: s.TokPos, Op: op, Y: &ast.BasicLit{ValuePos: s.TokPos, Kind: token.INT, Value: "1"}}}}
		return c.stmts(append([]ast.Stmt{as}, rest...), en, fl, k)

	case *ast.AssignStmt:
		return c.assign(s, rest, en, fl, k)

	case *ast.IfStmt:
		if s.Init != nil {
			inner := &ast.IfStmt{If: s.If, Cond: s.Cond, Body: s.Body, Else: s.Else}
			blk := &ast.BlockStmt{Lbrace: s.If, List: []ast.Stmt{s.Init, inner}}
			return c.stmts(append([]ast.Stmt{blk}, rest...), en, fl, k)
		}
		cond := c.boolean(s.Cond, en)
		el := elseList(s)
		restK := func(*env) string { return c.stmts(rest, en, fl, k) }
		if !canExit(s.Body.List) && !canExit(el) {
			// both branches fall through: the assigned variables are joined
			// (only those that are used afterwards)
			r := restK(en)
			var av []*local
			for _, l := range c.assignedOuter(append(append([]ast.Stmt{}, s.Body.List...), el...), en) {
				if uses(r, l.coq) {
					av = append(av, l)
				}
			}
			tup := tupleOf(av)
			th := c.stmts(s.Body.List, en.push(), fl, func(*env) string { return tup })
			ec := tup
			if el != nil {
				ec = c.stmts(el, en.push(), fl, func(*env) string { return tup })
			}
			if len(av) == 0 {
				return r // the branches were translated (so they are in the subset) and change nothing that is used
			}
			var names []string
			for _, l := range av {
				names = append(names, l.coq)
			}
			return "let " + letPat(names) + " := (if " + cond + " then (" + th + ") else (" + ec + ")) in\n" + r
		}
		th := c.stmts(s.Body.List, en.push(), fl, restK)
		var ec string
		if el != nil {
			ec = c.stmts(el, en.push(), fl, restK)
		} else {
			ec = restK(en)
		}
		return "if " + cond + " then (" + th + ")\nelse (" + ec + ")"

	case *ast.SwitchStmt:
		return c.stmts(append([]ast.Stmt{c.desugarSwitch(s, en)}, rest...), en, fl, k)

	case *ast.RangeStmt:
		if s.Tok != token.DEFINE && !(s.Key == nil && s.Value == nil) {
			g.fail(s, "range with assignment to existing variables")
		}
		if s.Key != nil {
			if id, ok := s.Key.(*ast.Ident); !ok || id.Name != "_" {
				g.fail(s, "range with an index variable: outside the supported subset")
			}
		}
		xs, xt := c.expr(s.X, en, nil)
		if xt.k != kList {
			g.fail(s.X, "range over %s: only slices are ranged over in the supported subset", xt)
		}
		after := c.stmts(rest, en, fl, k)
		cand := c.assignedOuter(s.Body.List, en)
		inner := en.push()
		elemName := "_"
		if s.Value != nil {
			id, ok := s.Value.(*ast.Ident)
			if !ok {
				g.fail(s.Value, "range value")
			}
			if id.Name != "_" {
				l := c.newLocal(id.Name, *xt.elem)
				inner = inner.declare(id.Name, l)
				elemName = l.coq
			}
		}
		// loop-carried variables: assigned in the body and used after the loop
		// or read in the body (least fixpoint)
		live := map[*local]bool{}
		for _, l := range cand {
			live[l] = uses(after, l.coq)
		}
		var sv []*local
		var tup, body string
		for {
			sv = nil
			for _, l := range cand {
				if live[l] {
					sv = append(sv, l)
				}
			}
			tup = tupleOf(sv)
			innerFl := flow{
				ret:  func(v string) string { return "inl (" + v + ")" },
				cont: func() string { return "inr " + tup },
			}
			body = c.stmts(s.Body.List, inner, innerFl, func(*env) string { return "inr " + tup })
			grown := false
			for _, l := range cand {
				if !live[l] && uses(body, l.coq) {
					live[l], grown = true, true
				}
			}
			if !grown {
				break
			}
		}
		stPat, stBind := "st", ""
		switch len(sv) {
		case 0:
			stPat = "_"
		case 1:
			stPat = sv[0].coq
		default:
			stBind = "let '" + tup + " := st in\n"
		}
		return "match " + lib + "range_loop (fun (" + elemName + " : " + xt.elem.coq() + ") (" + stPat + " : " + tupleType(sv) + ") =>\n" +
			stBind + body + ")\n" + xs + " " + tup + " with\n| inl r => " + fl.ret("r") + "\n| inr " + stPat + " =>\n" + stBind + after + "\nend"
	}
	g.fail(list[0], "statement outside the supported subset (%T)", list[0])
	panic("unreachable")
}

// var x T = e, one name at a time (internal statement)
type varDef struct {
	ast.EmptyStmt
	name *ast.Ident
	typ  ast.Expr
	val  ast.Expr
}

func (v *varDef) Pos() token.Pos { return v.name.Pos() }
func (v *varDef) End() token.Pos { return v.name.End() }

func (c *cx) returned(s *ast.ReturnStmt, en *env) string {
	g := c.g
	res := c.fn.results
	if len(s.Results) == 0 {
		if len(res) == 0 {
			g.fail(s, "function without result")
		}
		g.fail(s, "bare return (named results): outside the supported subset")
	}
	if len(s.Results) == 1 && len(res) > 1 {
		code, ts := c.multi(s.Results[0], en, len(res))
		for i := range ts {
			if !sameType(ts[i], res[i]) {
				g.fail(s, "returned value %d of type %s, %s expected", i+1, ts[i], res[i])
			}
		}
		return code
	}
	if len(s.Results) != len(res) {
		g.fail(s, "return of %d values, %d expected", len(s.Results), len(res))
	}
	var parts []string
	for i, e := range s.Results {
		code, t := c.expr(e, en, &res[i])
		if !sameType(t, res[i]) {
			g.fail(e, "returned value of type %s, %s expected", t, res[i])
		}
		parts = append(parts, code)
	}
	if len(parts) == 1 {
		return parts[0]
	}
	return "(" + strings.Join(parts, ", ") + ")"
}

func (c *cx) try(f func()) (err *transErr) {
	defer func() {
		if r := recover(); r != nil {
			if te, ok := r.(transErr); ok {
				err = &te
				return
			}
			panic(r)
		}
	}()
	f()
	return nil
}

func (c *cx) assign(s *ast.AssignStmt, rest []ast.Stmt, en *env, fl flow, k func(*env) string) string {
	g := c.g
	switch s.Tok {
	case token.DEFINE, token.ASSIGN:
	case token.ADD_ASSIGN, token.SUB_ASSIGN, token.MUL_ASSIGN:
		if len(s.Lhs) != 1 || len(s.Rhs) != 1 {
			g.fail(s, "compound assignment")
		}
		op := map[token.Token]token.Token{token.ADD_ASSIGN: token.ADD, token.SUB_ASSIGN: token.SUB, token.MUL_ASSIGN: token.MUL}[s.Tok]
		as := &ast.AssignStmt{Lhs: s.Lhs, TokPos: s.TokPos, Tok: token.ASSIGN,
			Rhs: []ast.Expr{&ast.BinaryExpr{X: s.Lhs[0], OpPos: s.TokPos, Op: op, Y: s.Rhs[0]}}}
		return c.assign(as, rest, en, fl, k)
	default:
		g.fail(s, "assignment operator %s: outside the supported subset", s.Tok)
	}
	var ids []*ast.Ident
	for _, l := range s.Lhs {
		id, ok := l.(*ast.Ident)
		if !ok {
			g.fail(l, "assignment to something that is not a local variable: outside the supported subset")
		}
		ids = append(ids, id)
	}
	// right-hand side: its code and types, or the reason it cannot be translated
	var code string
	var types []typ
	dropOK := true
	for _, r := range s.Rhs {
		dropOK = dropOK && c.droppable(r, en)
	}
	// the declared type of a variable that is assigned, as the expected type (for nil)
	wantOf := func(i int) *typ {
		if s.Tok == token.ASSIGN || en.inTop(ids[i].Name) != nil {
			if l := en.lookup(ids[i].Name); l != nil && ids[i].Name != "_" {
				return &l.t
			}
		}
		return nil
	}
	terr := c.try(func() {
		if len(s.Rhs) == len(s.Lhs) {
			var parts []string
			for i, r := range s.Rhs {
				pc, pt := c.expr(r, en, wantOf(i))
				parts = append(parts, pc)
				types = append(types, pt)
			}
			code = parts[0]
			if len(parts) > 1 {
				code = "(" + strings.Join(parts, ", ") + ")"
			}
		} else if len(s.Rhs) == 1 {
			code, types = c.multi(s.Rhs[0], en, len(s.Lhs))
		} else {
			g.fail(s, "assignment count mismatch")
		}
	})
	if terr != nil && !dropOK {
		panic(*terr)
	}
	if terr != nil {
		types = make([]typ, len(ids))
		for i := range types {
			types[i] = typ{k: kOpaque}
		}
	}
	en2 := en
	var locals []*local
	fresh := false
	for i, id := range ids {
		if id.Name == "_" {
			locals = append(locals, nil)
			continue
		}
		var l *local
		if s.Tok == token.DEFINE {
			l = en2.inTop(id.Name)
			if l == nil {
				l = c.newLocal(id.Name, types[i])
				en2 = en2.declare(id.Name, l)
				fresh = true
			}
		} else {
			l = en2.lookup(id.Name)
			if l == nil {
				g.fail(id, "assignment to an undeclared variable")
			}
		}
		if terr == nil && !sameType(l.t, types[i]) {
			if l.t.k == kOpaque {
				g.fail(id, "variable that held untranslated text is assigned a value: outside the supported subset")
			}
			g.fail(id, "assignment of %s to a variable of type %s", types[i], l.t)
		}
		locals = append(locals, l)
	}
	if s.Tok == token.DEFINE && !fresh {
		g.fail(s, "no new variable on the left of :=")
	}
	r := c.stmts(rest, en2, fl, k)
	var names []string
	any := false
	for _, l := range locals {
		if l != nil && uses(r, l.coq) {
			names = append(names, l.coq)
			any = true
		} else {
			names = append(names, "_")
		}
	}
	if !any && dropOK {
		return r
	}
	if terr != nil {
		panic(transErr{terr.msg + "\n  (the value is used: it cannot be dropped)"})
	}
	return "let " + letPat(names) + " := " + code + " in\n" + r
}

func (c *cx) desugarSwitch(s *ast.SwitchStmt, en *env) ast.Stmt {
	g := c.g
	var pre []ast.Stmt
	if s.Init != nil {
		pre = append(pre, s.Init)
	}
	var tag ast.Expr
	if s.Tag != nil {
		if id, ok := s.Tag.(*ast.Ident); ok {
			tag = id
		} else {
			c.seq++
			id := &ast.Ident{NamePos: s.Tag.Pos(), Name: "switch tag " + strconv.Itoa(c.seq)} // not a Go identifier: cannot clash
			pre = append(pre, &ast.AssignStmt{Lhs: []ast.Expr{id}, TokPos: s.Tag.Pos(), Tok: token.DEFINE, Rhs: []ast.Expr{s.Tag}})
			tag = id
		}
	}
	var def *ast.CaseClause
	var clauses []*ast.CaseClause
	for _, st := range s.Body.List {
		cc := st.(*ast.CaseClause)
		for _, b := range cc.Body {
			ast.Inspect(b, func(n ast.Node) bool {
				switch v := n.(type) {
				case *ast.BranchStmt:
					if v.Tok == token.FALLTHROUGH || v.Tok == token.BREAK {
						g.fail(v, "%s in a switch: outside the supported subset", v.Tok)
					}
				case *ast.ForStmt, *ast.RangeStmt, *ast.FuncLit:
					return false
				}
				return true
			})
		}
		if cc.List == nil {
			if def != nil {
				g.fail(cc, "two default clauses")
			}
			def = cc
			continue
		}
		clauses = append(clauses, cc)
	}
	var chain ast.Stmt
	if def != nil {
		chain = &ast.BlockStmt{Lbrace: def.Pos(), List: def.Body}
	}
	for i := len(clauses) - 1; i >= 0; i-- {
		cc := clauses[i]
		var cond ast.Expr
		for _, e := range cc.List {
			var one ast.Expr = e
			if tag != nil {
				one = &ast.BinaryExpr{X: tag, OpPos: e.Pos(), Op: token.EQL, Y: e}
			}
			if cond == nil {
				cond = one
			} else {
				cond = &ast.BinaryExpr{X: cond, OpPos: e.Pos(), Op: token.LOR, Y: one}
			}
		}
		chain = &ast.IfStmt{If: cc.Pos(), Cond: cond, Body: &ast.BlockStmt{Lbrace: cc.Pos(), List: cc.Body}, Else: chain}
	}
	if chain == nil {
		chain = &ast.EmptyStmt{Semicolon: s.Pos()}
	}
	return &ast.BlockStmt{Lbrace: s.Pos(), List: append(pre, chain)}
}

// ---------------------------------------------------------------- functions -

func isGetConditionsFn(fi *funcInfo) bool {
	return len(fi.params) == 1 && fi.params[0].t.k == kJV && fi.params[0].t.sub == "unstr" &&
		len(fi.results) == 2 && fi.results[0].k == kResult && fi.results[1].k == kErr
}

func (g *gen) markValue(name string) {
	for _, n := range g.valueFns {
		if n == name {
			return
		}
	}
	if g.dispatcherDone {
		panic(transErr{"function value " + name + " appears after the dispatcher was emitted"})
	}
	g.valueFns = append(g.valueFns, name)
	g.funcs[name].isValue = true
}

var tableValues []string

func (g *gen) markTableValues() {
	for _, n := range tableValues {
		g.markValue(n)
	}
}

// emit `call_GetConditionsFn`: the call of a function value, by name
func (g *gen) ensureDispatcher(at ast.Node) bool {
	if g.dispatcherDone {
		return g.dispatcherClock
	}
	if g.dispatcherBusy {
		g.fail(at, "a function that is itself used as a GetConditionsFn value calls a function value (recursion)")
	}
	g.dispatcherBusy = true
	g.markTableValues()
	names := append([]string{}, g.valueFns...)
	sort.Strings(names)
	clock := false
	for _, n := range names {
		fi := g.funcs[n]
		g.ensure(fi, at)
		clock = clock || fi.usesClock
	}
	var b strings.Builder
	b.WriteString("(* fn(u) for a function value fn: GetConditionsFn values are represented by the function's name *)\n")
	b.WriteString("Definition " + dispatcher + " (fn : option string) (u : Json.jv)")
	if clock {
		b.WriteString(" (" + clockName + " : bool)")
	}
	b.WriteString(" : (" + lib + "gres * bool) :=\n  match fn with\n  | None => (None, true)\n  | Some n =>\n")
	for _, n := range names {
		call := n + " u"
		if g.funcs[n].usesClock {
			call += " " + clockName
		}
		b.WriteString("      if String.eqb n " + coqStr(n) + " then " + call + " else\n")
	}
	b.WriteString("      (None, true)\n  end.\n")
	g.defs[dispatcher] = b.String()
	g.order = append(g.order, dispatcher)
	g.dispatcherDone, g.dispatcherClock = true, clock
	return clock
}

// the signature of a function of the package; outside the subset it is an
// error (raised when the function is reached)
func (g *gen) sig(fi *funcInfo) {
	if fi.sigDone {
		return
	}
	for _, f := range fi.decl.Type.Params.List {
		t := g.typeOf(f.Type, fi.imports)
		if len(f.Names) == 0 {
			fi.params = append(fi.params, param{goName: "_", t: t})
		}
		for _, n := range f.Names {
			fi.params = append(fi.params, param{goName: n.Name, t: t})
		}
	}
	if fi.decl.Type.Results != nil {
		for _, f := range fi.decl.Type.Results.List {
			if len(f.Names) > 0 {
				g.fail(f, "named results: outside the supported subset")
			}
			fi.results = append(fi.results, g.typeOf(f.Type, fi.imports))
		}
	}
	fi.sigDone = true
}

func (g *gen) ensure(fi *funcInfo, at ast.Node) {
	switch fi.state {
	case 2:
		return
	case 1:
		g.fail(at, "recursive call of %s: outside the supported subset", fi.name)
	}
	fi.state = 1
	if fi.decl.Recv != nil {
		g.fail(fi.decl, "method")
	}
	g.sig(fi)
	if fi.decl.Body == nil {
		g.fail(fi.decl, "function without body")
	}
	if fi.decl.Recv != nil {
		g.fail(fi.decl, "method")
	}
	if fi.decl.Type.TypeParams != nil {
		g.fail(fi.decl, "generic function")
	}
	c := &cx{g: g, fn: fi, used: map[string]bool{clockName: true, "st": true, "r": true, "fn": true, "u": true, "n": true}}
	en := &env{vars: map[string]*local{}}
	for i := range fi.params {
		p := &fi.params[i]
		l := c.newLocal(p.goName, p.t)
		p.coq = l.coq
		if p.goName != "_" && p.goName != "" {
			en = en.declare(p.goName, l)
		}
	}
	top := flow{ret: func(v string) string { return v }}
	body := c.stmts(fi.decl.Body.List, en.push(), top, func(*env) string {
		g.fail(fi.decl, "control reaches the end of the function without return")
		return ""
	})
	fi.usesClock = uses(body, clockName)
	var b strings.Builder
	pos := g.fset.Position(fi.decl.Pos())
	fmt.Fprintf(&b, "(* %s: func %s *)\n", filepath.Base(pos.Filename), fi.name)
	b.WriteString("Definition " + fi.name)
	for i := range fi.params {
		p := &fi.params[i]
		p.keep = fi.isValue || isGetConditionsFn(fi) || uses(body, p.coq)
		if p.keep {
			b.WriteString(" (" + p.coq + " : " + p.t.coq() + ")")
		}
	}
	if fi.usesClock {
		b.WriteString(" (" + clockName + " : bool)")
	}
	var rts []string
	for _, r := range fi.results {
		rts = append(rts, r.coq())
	}
	if len(rts) == 0 {
		g.fail(fi.decl, "function without result")
	}
	b.WriteString(" : (" + strings.Join(rts, " * ") + ") :=\n" + indent(body) + ".\n")
	g.defs[fi.name] = b.String()
	g.order = append(g.order, fi.name)
	fi.state = 2
}

func indent(s string) string {
	lines := strings.Split(s, "\n")
	depth := 1
	var out []string
	for _, l := range lines {
		out = append(out, strings.Repeat("  ", depth)+l)
	}
	return strings.Join(out, "\n")
}

// ---------------------------------------------------------------- main ------

func importsOf(f *ast.File) map[string]string {
	m := map[string]string{}
	for _, im := range f.Imports {
		p, _ := strconv.Unquote(im.Path.Value)
		name := p[strings.LastIndex(p, "/")+1:]
		if im.Name != nil {
			name = im.Name.Name
		}
		m[name] = p
	}
	return m
}

func run(repo, out string) {
	g := &gen{fset: token.NewFileSet(), funcs: map[string]*funcInfo{}, consts: map[string]*constInfo{},
		structs: map[string]*ast.StructType{}, pkgVars: map[string]bool{}, defs: map[string]string{}}
	dir := filepath.Join(repo, "pkg/kstatus/status")
	var window string
	for _, name := range []string{"core.go", "generic.go", "status.go", "util.go"} {
		f, err := parser.ParseFile(g.fset, filepath.Join(dir, name), nil, parser.SkipObjectResolution)
		if err != nil {
			panic(transErr{err.Error()})
		}
		imports := importsOf(f)
		for _, d := range f.Decls {
			switch v := d.(type) {
			case *ast.FuncDecl:
				if v.Recv != nil {
					continue // String() methods: not part of the computation
				}
				if _, dup := g.funcs[v.Name.Name]; dup {
					g.fail(v, "function declared twice")
				}
				g.funcs[v.Name.Name] = &funcInfo{name: v.Name.Name, decl: v, imports: imports}
			case *ast.GenDecl:
				for _, sp := range v.Specs {
					switch s := sp.(type) {
					case *ast.ValueSpec:
						for i, n := range s.Names {
							if v.Tok == token.VAR {
								g.pkgVars[n.Name] = true
								if n.Name == "legacyTypes" {
									if i >= len(s.Values) {
										g.fail(s, "legacyTypes without a literal")
									}
									cl, ok := s.Values[i].(*ast.CompositeLit)
									if !ok {
										g.fail(s, "legacyTypes is not a map literal")
									}
									for _, el := range cl.Elts {
										kv, ok := el.(*ast.KeyValueExpr)
										if !ok {
											g.fail(el, "legacyTypes entry")
										}
										id, ok := kv.Value.(*ast.Ident)
										if !ok {
											g.fail(kv.Value, "legacyTypes value is not a function name")
										}
										tableValues = append(tableValues, id.Name)
									}
								}
								continue
							}
							if i >= len(s.Values) {
								g.fail(s, "constant without a value (iota / repetition): outside the supported subset")
							}
							g.consts[n.Name] = &constInfo{val: s.Values[i], typ: s.Type}
							if n.Name == "ScheduleWindow" {
								window = g.srcFlat(s.Values[i])
							}
						}
					case *ast.TypeSpec:
						if st, ok := s.Type.(*ast.StructType); ok {
							g.structs[s.Name.Name] = st
						}
					}
				}
			}
		}
	}
	for _, n := range tableValues {
		fi, ok := g.funcs[n]
		if !ok || inPackageWhitelist[n] {
			panic(transErr{"legacyTypes value " + n + " is not a function of the package"})
		}
		g.sig(fi)
		if !isGetConditionsFn(fi) {
			g.fail(fi.decl, "legacyTypes value %s does not have the GetConditionsFn signature", n)
		}
	}
	root, ok := g.funcs["Compute"]
	if !ok {
		panic(transErr{"func Compute not found"})
	}
	g.ensure(root, root.decl)
	// every function of the dispatch table is part of the computation even if
	// Compute were changed not to reach it
	g.markTableValues()
	for _, n := range tableValues {
		g.ensure(g.funcs[n], g.funcs[n].decl)
	}
	if !g.dispatcherDone {
		g.ensureDispatcher(root.decl)
	}

	var b strings.Builder
	b.WriteString("(* GENERATED by harness/cmd/genkstatus from pkg/kstatus/status/{core,generic,status,util}.go of the\n   repository under test; do not edit, not committed.  One Definition per Go function reachable from\n   Compute; see notes/kstatus-translator.md for the translation scheme. *)\n")
	b.WriteString("From Coq Require Import List Bool ZArith String.\n")
	b.WriteString("From CliUtils Require Import Base.Json Model.KStatus Model.KStatusSrcLib Generated.SourceTables.\n")
	b.WriteString("Import ListNotations.\nLocal Open Scope string_scope.\n\n")
	b.WriteString("Create HintDb ksrc.\nCreate HintDb ksrc_modelled.\nCreate HintDb ksrc_extra.\n\n")
	b.WriteString("(* core.go: const ScheduleWindow, as written *)\nDefinition src_schedule_window : string := " + coqStr(window) + ".\n\n")
	for _, n := range g.order {
		b.WriteString(g.defs[n])
		db := "ksrc_extra"
		if modelled[n] || n == dispatcher {
			db = "ksrc_modelled"
		}
		b.WriteString("#[global] Hint Unfold " + n + " : ksrc " + db + ".\n\n")
	}
	var names []string
	for _, n := range g.order {
		names = append(names, coqStr(n))
	}
	b.WriteString("(* the translated functions, callees first *)\nDefinition src_functions : list string :=\n  [" + strings.Join(names, "; ") + "].\n")
	if b.Len() > 400000 {
		panic(transErr{"generated file too large (continuation duplicated too often)"})
	}
	if err := os.MkdirAll(filepath.Dir(out), 0o755); err != nil {
		panic(transErr{err.Error()})
	}
	if old, err := os.ReadFile(out); err == nil && string(old) == b.String() {
		return // keep make incremental
	}
	if err := os.WriteFile(out, []byte(b.String()), 0o644); err != nil {
		panic(transErr{err.Error()})
	}
}

func main() {
	repo := os.Getenv("VERIF_REPO")
	if repo == "" {
		repo = "/repo"
	}
	if len(os.Args) != 2 {
		fmt.Fprintln(os.Stderr, "usage: genkstatus <output.v>")
		os.Exit(2)
	}
	out := os.Args[1]
	defer func() {
		if r := recover(); r != nil {
			os.Remove(out)
			if te, ok := r.(transErr); ok {
				fmt.Fprintln(os.Stderr, "genkstatus: cannot translate: "+te.msg)
				os.Exit(3)
			}
			fmt.Fprintln(os.Stderr, "genkstatus: internal error:", r)
			os.Exit(4)
		}
	}()
	run(repo, out)
}
