package main

import (
	"verifharness/emit"
	"verifharness/pipeline"
)

func main() { emit.Main("C02", pipeline.RunFor("C02")) }
