package main

import (
	"verifharness/emit"
	"verifharness/pipeline"
)

func main() {
	// the dynmap stream re-executes this binary for every history
	if pipeline.ChildMain() {
		return
	}
	emit.Main("C13", func(seed int64, tier, outDir string) (*emit.Summary, error) {
		sum, err := pipeline.RunFor("C13")(seed, tier, outDir)
		if err != nil {
			return nil, err
		}
		if err := pipeline.AddDynmap(sum, seed, tier, outDir); err != nil {
			return nil, err
		}
		return sum, nil
	})
}
