package main

import (
	"verifharness/emit"
	"verifharness/pipeline"
)

func main() { emit.Main("C13", pipeline.RunFor("C13")) }
