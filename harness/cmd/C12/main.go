package main

import (
	"verifharness/emit"
	"verifharness/pipeline"
)

func main() { emit.Main("C12", pipeline.RunFor("C12")) }
