package main

import (
	"verifharness/emit"
	"verifharness/pipeline"
)

func main() { emit.Main("C03", pipeline.RunFor("C03")) }
