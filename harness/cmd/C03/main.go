package main

import (
	"verifharness/emit"
	"verifharness/pipeline"
)

func main() {
	// the profile runs in a worker process (a crash of the pipeline becomes a finding)
	if pipeline.ChildMain() {
		return
	}
	emit.Main("C03", pipeline.Supervised("C03"))
}
