package main

import (
	"verifharness/c14"
	"verifharness/emit"
)

func main() { emit.Main("C14", c14.Run) }
