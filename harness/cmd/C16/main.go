package main

import (
	"verifharness/c16"
	"verifharness/emit"
)

func main() { emit.Main("C16", c16.Run) }
