package main

import (
	"verifharness/c17"
	"verifharness/emit"
)

func main() { emit.Main("C17", c17.Run) }
