package main

import (
	"verifharness/emit"
	"verifharness/pipeline"
)

func main() { emit.Main("C10", pipeline.RunFor("C10")) }
