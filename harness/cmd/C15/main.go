package main

import (
	"verifharness/c15"
	"verifharness/emit"
)

func main() { emit.Main("C15", c15.Run) }
