// corr runs the implementation side of a correspondence check and writes the
// Coq case files plus a JSON summary into the output directory.
package main

import (
	"flag"
	"fmt"
	"os"

	"verifharness/c19"
	"verifharness/emit"
)

type runner func(seed int64, tier, outDir string) (*emit.Summary, error)

var runners = map[string]runner{
	"C19": c19.Run,
}

func main() {
	seed := flag.Int64("seed", 1, "PRNG seed")
	tier := flag.String("tier", "quick", "quick|thorough")
	out := flag.String("out", ".", "output directory")
	flag.Parse()
	if flag.NArg() != 1 {
		fmt.Fprintln(os.Stderr, "usage: corr [-seed n] [-tier t] [-out dir] <property>")
		os.Exit(2)
	}
	prop := flag.Arg(0)
	run, ok := runners[prop]
	if !ok {
		fmt.Fprintln(os.Stderr, "unknown property", prop)
		os.Exit(2)
	}
	sum, err := run(*seed, *tier, *out)
	if err != nil {
		fmt.Fprintln(os.Stderr, "corr:", err)
		os.Exit(3)
	}
	if err := sum.Write(*out); err != nil {
		fmt.Fprintln(os.Stderr, "corr:", err)
		os.Exit(3)
	}
	fmt.Printf("corr %s: %d evaluations, %d distinct non-trivial, files %v\n", prop, sum.Evaluations, sum.DistinctNontrivial, sum.CaseFiles)
}
