// dynmap.go: a monitor-only stream in which the RESTMapper knows the custom
// kind only while its CRD object exists (knowledge taken at the last Reset),
// and every history runs in a child process so that a crash of the pipeline
// becomes a reported failure with the scenario and the trace observed so far.
//
// The model has no notion of type knowledge (DESIGN.md, stated limitation):
// the cases of this stream are evaluated by check_C13_monly, i.e. the trace
// monitors only, on the implementation's own trace.
package pipeline

import (
	"bufio"
	"context"
	"encoding/json"
	"fmt"
	"os"
	"os/exec"
	"path/filepath"
	"sort"
	"strings"
	"sync"
	"time"

	"k8s.io/apimachinery/pkg/api/meta"
	"k8s.io/apimachinery/pkg/runtime/schema"
	"verifharness/emit"
)

// ---- journal: trace items are also written out as they are logged (child processes) ----------

var (
	journalMu sync.Mutex
	journalW  *os.File
)

func journaled(it Item) Item {
	journalMu.Lock()
	if journalW != nil {
		b, _ := json.Marshal(dynLine{Item: &it})
		journalW.Write(append(b, '\n'))
	}
	journalMu.Unlock()
	return it
}

// ---- the mapper ---------------------------------------------------------------------------------

// dynMapper hides the custom group until its CRD object is in the cluster at the time of the
// last Reset (what a discovery-backed mapper does); the first use counts as a reset.
type dynMapper struct {
	meta.RESTMapper
	present func() bool
	mu      sync.Mutex
	inited  bool
	known   bool
}

var _ meta.ResettableRESTMapper = &dynMapper{}

func (m *dynMapper) Reset() {
	m.mu.Lock()
	m.known, m.inited = m.present(), true
	m.mu.Unlock()
	meta.MaybeResetRESTMapper(m.RESTMapper)
}

func (m *dynMapper) hidden(group string) bool {
	if group != barGK.Group {
		return false
	}
	m.mu.Lock()
	defer m.mu.Unlock()
	if !m.inited {
		m.known, m.inited = m.present(), true
	}
	return !m.known
}

func (m *dynMapper) RESTMapping(gk schema.GroupKind, versions ...string) (*meta.RESTMapping, error) {
	if m.hidden(gk.Group) {
		return nil, &meta.NoKindMatchError{GroupKind: gk, SearchedVersions: versions}
	}
	return m.RESTMapper.RESTMapping(gk, versions...)
}

func (m *dynMapper) RESTMappings(gk schema.GroupKind, versions ...string) ([]*meta.RESTMapping, error) {
	if m.hidden(gk.Group) {
		return nil, &meta.NoKindMatchError{GroupKind: gk, SearchedVersions: versions}
	}
	return m.RESTMapper.RESTMappings(gk, versions...)
}

func (m *dynMapper) KindFor(r schema.GroupVersionResource) (schema.GroupVersionKind, error) {
	if m.hidden(r.Group) {
		return schema.GroupVersionKind{}, &meta.NoResourceMatchError{PartialResource: r}
	}
	return m.RESTMapper.KindFor(r)
}

func (m *dynMapper) KindsFor(r schema.GroupVersionResource) ([]schema.GroupVersionKind, error) {
	if m.hidden(r.Group) {
		return nil, &meta.NoResourceMatchError{PartialResource: r}
	}
	return m.RESTMapper.KindsFor(r)
}

func (m *dynMapper) ResourceFor(r schema.GroupVersionResource) (schema.GroupVersionResource, error) {
	if m.hidden(r.Group) {
		return schema.GroupVersionResource{}, &meta.NoResourceMatchError{PartialResource: r}
	}
	return m.RESTMapper.ResourceFor(r)
}

func (m *dynMapper) ResourcesFor(r schema.GroupVersionResource) ([]schema.GroupVersionResource, error) {
	if m.hidden(r.Group) {
		return nil, &meta.NoResourceMatchError{PartialResource: r}
	}
	return m.RESTMapper.ResourcesFor(r)
}

// newDynSession: a session (fresh Applier / Destroyer) whose mapper is a dynMapper.
func newDynSession() (*Session, error) {
	s, err := NewSession()
	if err != nil {
		return nil, err
	}
	crd := kindByName("CustomResourceDefinition").GVR()
	s.f.mapper = &dynMapper{RESTMapper: s.f.mapper, present: func() bool {
		srv := s.server()
		return srv != nil && srv.st.get(crd, "", crdMeta.Name) != nil
	}}
	return s, nil
}

func execRunDyn(st *Store, sc Scenario, auto bool) RunResult {
	s, err := newDynSession()
	if err != nil {
		return RunResult{Failures: []string{"harness: " + err.Error()}, Out: Outcome{Final: st.Observe()}}
	}
	defer s.Close()
	return execRun(st, sc, auto, s)
}

// ---- parent / child protocol ----------------------------------------------------------------------

type dynRun struct {
	Local  []LObj
	Opts   Opts
	Faults []FAddr
	Stall  []int // ids that get no status; their wait ends by its timeout (or cancellation)
	Failed []int // ids reported Failed instead of reconciled
}

type dynHist struct {
	Univ    Universe
	Initial Cluster
	Runs    []dynRun
}

// dynLine is one line of the child's output file.
type dynLine struct {
	Probe    *int      `json:",omitempty"` // about to probe run k
	Start    *int      `json:",omitempty"` // about to execute run k, with this scenario
	Scenario *Scenario `json:",omitempty"`
	Item     *Item     `json:",omitempty"` // a trace item of the run in progress
	Done     *int      `json:",omitempty"` // run k completed
	Trace    []Item    `json:",omitempty"`
	Final    *Cluster  `json:",omitempty"`
	Failures []string  `json:",omitempty"`
	Hung     bool      `json:",omitempty"`
}

const childFlag = "-pipeline-child"

// ChildMain: when the binary was started as a child of the dynmap stream, runs the history
// given in the input file, reports into the output file and returns true.
func ChildMain() bool {
	if len(os.Args) != 4 || os.Args[1] != childFlag {
		return false
	}
	quietKlog()
	var h dynHist
	b, err := os.ReadFile(os.Args[2])
	if err == nil {
		err = json.Unmarshal(b, &h)
	}
	if err != nil {
		fmt.Fprintln(os.Stderr, "pipeline child:", err)
		os.Exit(3)
	}
	out, err := os.OpenFile(os.Args[3], os.O_CREATE|os.O_WRONLY|os.O_TRUNC, 0o644)
	if err != nil {
		fmt.Fprintln(os.Stderr, "pipeline child:", err)
		os.Exit(3)
	}
	put := func(l dynLine) {
		b, _ := json.Marshal(l)
		journalMu.Lock()
		out.Write(append(b, '\n'))
		journalMu.Unlock()
	}
	st := NewStore(h.Univ, h.Initial)
	for k := range h.Runs {
		k := k
		r := h.Runs[k]
		sc := Scenario{Univ: h.Univ, Local: r.Local, Opts: r.Opts}
		put(dynLine{Probe: &k, Scenario: &sc})
		probeSc := sc
		probeSc.Env = Env{WatchErrAt: -1}
		pr := execRunDyn(st.Clone(), probeSc, true)
		sc.Env = Env{WatchErrAt: -1, Faults: r.Faults, Waits: endsForPlain(pr, sc.Opts)}
		for i := range sc.Env.Waits {
			w := &sc.Env.Waits[i]
			var ds []SObs
			for _, d := range w.Deliv {
				switch {
				case containsInt(r.Stall, d.ID):
					w.End = WCancel
					if (d.St == SNotFound && sc.Opts.PruneTimeout) || (d.St != SNotFound && sc.Opts.RecTimeout) {
						w.End = WTimeout
					}
				case containsInt(r.Failed, d.ID):
					ds = append(ds, SObs{ID: d.ID, St: SFailed, Body: true, UID: d.UID, Gen: objGen})
				default:
					ds = append(ds, d)
				}
			}
			w.Deliv = ds
		}
		put(dynLine{Start: &k, Scenario: &sc})
		journalMu.Lock()
		journalW = out
		journalMu.Unlock()
		res := execRunDyn(st, sc, false)
		journalMu.Lock()
		journalW = nil
		journalMu.Unlock()
		fin := res.Out.Final
		put(dynLine{Done: &k, Trace: res.Out.Trace, Final: &fin, Failures: res.Failures, Hung: res.Hung})
		if res.Hung {
			break
		}
	}
	out.Close()
	return true
}

// endsForPlain: the probe's reconciling deliveries; a wait the probe had to time out ends by
// the scenario's own timeout when it has one, by cancellation otherwise.
func endsForPlain(pr RunResult, o Opts) []WSched {
	kinds := waitKinds(pr.Plan)
	ws := append([]WSched(nil), pr.Waits...)
	for k := range ws {
		on := (kinds[k] && o.PruneTimeout) || (!kinds[k] && o.RecTimeout)
		if ws[k].End == WTimeout && !on {
			ws[k].End = WCancel
		}
	}
	return ws
}

// runChild executes one history in a child process and reconstructs what happened.
func runChild(dir string, n int, h dynHist) (hist History, failures []string) {
	hist = History{Univ: h.Univ, Initial: h.Initial}
	in := filepath.Join(dir, fmt.Sprintf("dynmap_%d.in.json", n))
	out := filepath.Join(dir, fmt.Sprintf("dynmap_%d.out.jsonl", n))
	b, _ := json.Marshal(h)
	if err := os.WriteFile(in, b, 0o644); err != nil {
		return hist, []string{"harness: " + err.Error()}
	}
	os.Remove(out)
	ctx, cancel := context.WithTimeout(context.Background(), 90*time.Second)
	defer cancel()
	cmd := exec.CommandContext(ctx, os.Args[0], childFlag, in, out)
	var stderr strings.Builder
	cmd.Stderr = &stderr
	runErr := cmd.Run()

	var cur *Scenario
	var items []Item
	phase := ""
	prev := h.Initial
	if f, err := os.Open(out); err == nil {
		sc := bufio.NewScanner(f)
		sc.Buffer(make([]byte, 1<<20), 1<<26)
		for sc.Scan() {
			var l dynLine
			if json.Unmarshal(sc.Bytes(), &l) != nil {
				continue // a line cut short by the crash
			}
			switch {
			case l.Probe != nil:
				cur, items, phase = l.Scenario, nil, "probe"
			case l.Start != nil:
				cur, items, phase = l.Scenario, nil, "run"
			case l.Item != nil:
				items = append(items, *l.Item)
			case l.Done != nil:
				hist.Runs = append(hist.Runs, *cur)
				hist.Outs = append(hist.Outs, Outcome{Trace: l.Trace, Final: *l.Final})
				for _, x := range l.Failures {
					failures = append(failures, x+" [in: "+cur.Text()+"]")
				}
				prev, cur, items, phase = *l.Final, nil, nil, ""
			}
		}
		f.Close()
	}
	if runErr != nil {
		// the child died: the run in progress is reported with what was observed of it
		line := "exit: " + runErr.Error()
		for _, l := range strings.Split(stderr.String(), "\n") {
			if strings.HasPrefix(l, "panic:") || strings.HasPrefix(l, "fatal error:") {
				line = strings.TrimSpace(l)
				break
			}
		}
		if cur == nil {
			failures = append(failures, "run crashed: "+line+" (between runs)")
			return hist, failures
		}
		cur.Univ = h.Univ
		sort.SliceStable(items, func(i, j int) bool { return items[i].Seq < items[j].Seq })
		hist.Runs = append(hist.Runs, *cur)
		hist.Outs = append(hist.Outs, Outcome{Trace: items, Final: prev})
		failures = append(failures, fmt.Sprintf("run crashed: %s in %s [%s; child process of the dynmap stream]", line, cur.Text(), phase))
	}
	for i := range hist.Runs {
		hist.Runs[i].Univ = h.Univ
	}
	return hist, failures
}

// ---- scenarios --------------------------------------------------------------------------------------

func dynHistories(tier string) []dynHist {
	u := NewUniverse([]UEntry{Entry("CustomResourceDefinition", "", crdMeta.Name), Entry("ConfigMap", invNS, "cm-a"), Entry("Bar", invNS, "bar-a")})
	crd, cm, bar := u.Index(crdMeta), u.Index(Entry("ConfigMap", invNS, "cm-a").Meta), u.Index(Entry("Bar", invNS, "bar-a").Meta)
	all := []LObj{{ID: crd, Ver: 1}, {ID: cm, Ver: 1}, {ID: bar, Ver: 1}}
	only := func(ids ...int) []LObj {
		var l []LObj
		for _, i := range ids {
			l = append(l, LObj{ID: i, Ver: 1})
		}
		return l
	}
	empty := Cluster{NextUID: 100}
	live := func(ids ...int) Cluster {
		c := Cluster{NextUID: 100, HasInv: true}
		for k, i := range ids {
			c.Objs = append(c.Objs, CObj{ID: i, UID: uint64(k + 1), Owner: OOurs, Ver: 1}.Applied())
			c.Inv = append(c.Inv, i)
		}
		sort.Slice(c.Objs, func(a, b int) bool { return c.Objs[a].ID < c.Objs[b].ID })
		sort.Ints(c.Inv)
		return c
	}
	ap := func(o Opts) Opts { o.Prune = true; return o }
	plain := ap(Opts{Policy: PMustMatch})
	timed := ap(Opts{Policy: PMustMatch, RecTimeout: true, PruneTimeout: true})
	destroy := Opts{Destroy: true, Prune: true, Policy: PMustMatch}
	var hs []dynHist
	add := func(init Cluster, runs ...dynRun) { hs = append(hs, dynHist{Univ: u, Initial: init, Runs: runs}) }
	// all fine: apply, apply again, custom resource alone, destroy
	add(empty, dynRun{Local: all, Opts: plain}, dynRun{Local: all, Opts: plain}, dynRun{Local: only(cm, bar), Opts: plain}, dynRun{Opts: destroy})
	add(empty, dynRun{Local: all, Opts: ap(Opts{Policy: PAdoptAll, SSA: true, StatusEvents: true})}, dynRun{Opts: destroy})
	// the CRD's apply is rejected (every kind of read / write), skip-invalid and exit-early
	for k := range faultErrs {
		if faultErrs[k] != 409 {
			add(empty, dynRun{Local: all, Opts: plain, Faults: []FAddr{{Kind: "FApply", I: crd, Err: k}}}, dynRun{Local: all, Opts: plain})
		}
		add(empty, dynRun{Local: all, Opts: plain, Faults: []FAddr{{Kind: "FGet", I: crd, N: k % 2, Err: k}}})
	}
	add(empty, dynRun{Local: all, Opts: ap(Opts{Policy: PAdoptAll, SSA: true}), Faults: []FAddr{{Kind: "FApply", I: crd}}})
	// the CRD's reconcile fails / times out / the run is cancelled while waiting for it
	add(empty, dynRun{Local: all, Opts: plain, Failed: []int{crd}}, dynRun{Local: all, Opts: plain})
	add(empty, dynRun{Local: all, Opts: timed, Stall: []int{crd}}, dynRun{Local: all, Opts: timed})
	add(empty, dynRun{Local: all, Opts: plain, Stall: []int{crd}})
	// the CRD is there already; only the custom resource is applied; then it fails
	add(live(crd), dynRun{Local: only(bar, cm), Opts: plain}, dynRun{Opts: destroy})
	add(live(crd), dynRun{Local: only(crd, bar), Opts: plain, Faults: []FAddr{{Kind: "FApply", I: bar}}})
	// the CRD is pruned while a custom resource is applied; the custom resource is pruned, the CRD stays
	add(live(crd, bar, cm), dynRun{Local: only(bar, cm), Opts: timed}, dynRun{Local: only(cm), Opts: timed})
	add(live(crd, bar, cm), dynRun{Local: only(crd, cm), Opts: timed}, dynRun{Local: only(cm), Opts: timed})
	// destroy over CRD + custom resource, plain / delete of the custom resource rejected / it lingers
	add(live(crd, bar, cm), dynRun{Opts: destroy}, dynRun{Opts: destroy})
	add(live(crd, bar, cm), dynRun{Opts: destroy, Faults: []FAddr{{Kind: "FDelete", I: bar, Err: 1}}}, dynRun{Opts: destroy})
	add(live(crd, bar, cm), dynRun{Opts: Opts{Destroy: true, Prune: true, Policy: PMustMatch, PruneTimeout: true}, Stall: []int{bar}})
	// dry-run (client and server) of the first apply, and over an existing CRD
	for _, d := range []Dry{DClient, DServer} {
		add(empty, dynRun{Local: all, Opts: ap(Opts{Policy: PMustMatch, Dry: d})}, dynRun{Local: all, Opts: plain})
		add(live(crd), dynRun{Local: all, Opts: ap(Opts{Policy: PMustMatch, Dry: d})})
		add(live(crd, bar, cm), dynRun{Opts: Opts{Destroy: true, Prune: true, Policy: PMustMatch, Dry: d}})
	}
	// a custom resource without its CRD anywhere (unknown type), skip-invalid and exit-early
	add(empty, dynRun{Local: only(cm, bar), Opts: ap(Opts{Policy: PMustMatch, ValPol: VSkipInvalid})})
	add(empty, dynRun{Local: only(cm, bar), Opts: plain})
	// the inventory tracks a custom resource whose CRD is gone
	add(live(bar, cm), dynRun{Local: only(cm), Opts: plain}, dynRun{Opts: destroy})
	add(live(bar, cm), dynRun{Local: all, Opts: plain}, dynRun{Opts: destroy})
	if tier == "thorough" {
		// the same with the other policies and server-side apply
		base := append([]dynHist(nil), hs...)
		for _, pol := range []Policy{PAdoptIfNoInventory, PAdoptAll} {
			for _, h := range base {
				var runs []dynRun
				for _, r := range h.Runs {
					r.Opts.Policy = pol
					r.Opts.SSA = !r.Opts.Destroy && pol == PAdoptAll
					runs = append(runs, r)
				}
				hs = append(hs, dynHist{Univ: h.Univ, Initial: h.Initial, Runs: runs})
			}
		}
	}
	return hs
}

// AddDynmap runs the dynmap stream (every history in a child process) and adds its cases
// (check_C13_monly) and failures to the summary of the C13 check.
func AddDynmap(sum *emit.Summary, seed int64, tier, outDir string) error {
	cf := &emit.CaseFile{Name: "Cases_C13_dynmap",
		Imports: "From CliUtils Require Import Model.PipelineTypes Corr.CorrPipeline.", Check: "check_C13_monly"}
	runs := 0
	for n, h := range dynHistories(tier) {
		hist, fails := runChild(outDir, n, h)
		sum.ImplFailures = append(sum.ImplFailures, fails...)
		if len(hist.Runs) == 0 {
			continue
		}
		runs += len(hist.Runs)
		cf.Add(hist.Coq(), "dynmap "+hist.Text())
		sum.Count("dynmap:history")
		for _, o := range hist.Outs {
			for _, it := range o.Trace {
				if strings.Contains(it.Text, "unknown resource types") || strings.Contains(it.Text, "no matches for kind") {
					sum.Count("dynmap:run-with-unknown-type-outcome")
					break
				}
			}
		}
	}
	if err := cf.Write(outDir, sum); err != nil {
		return err
	}
	sum.Evaluations += runs
	sum.Count("dynmap:runs")
	sum.Distribution["dynmap:runs"] = runs
	sum.Rule += " | dynmap: monitor-only stream (check_C13_monly) over a RESTMapper that knows the custom kind only while its CRD object exists " +
		"(knowledge taken at the last Reset); every history runs in a child process, a crash is reported with the scenario and the trace observed so far"
	return nil
}
