// dynmap.go: the RESTMapper of every session knows the custom kind only while
// its CRD object exists (knowledge taken at the last Reset; Pipeline.v r_known),
// and the supervisor: every profile runs in a worker process that journals the
// scenario and the trace items of the run in progress, so that a crash of the
// pipeline becomes a reported failure with a failing input instead of a dead check.
package pipeline

import (
	"bufio"
	"context"
	"encoding/json"
	"fmt"
	"os"
	"os/exec"
	"path/filepath"
	"sort"
	"strings"
	"sync"
	"time"

	"k8s.io/apimachinery/pkg/api/meta"
	"k8s.io/apimachinery/pkg/runtime/schema"
	"verifharness/emit"
)

// ---- journal: trace items are also written out as they are logged (child processes) ----------

var (
	journalMu sync.Mutex
	journalW  *os.File
)

func journaled(it Item) Item {
	journalMu.Lock()
	if journalW != nil {
		b, _ := json.Marshal(journalLine{Item: &it})
		journalW.Write(append(b, '\n'))
	}
	journalMu.Unlock()
	return it
}

// ---- the mapper ---------------------------------------------------------------------------------

// dynMapper hides the custom group until its CRD object is in the cluster at the time of the
// last Reset (what a discovery-backed mapper does); the first use counts as a reset.
type dynMapper struct {
	meta.RESTMapper
	present func() bool
	mu      sync.Mutex
	inited  bool
	known   bool
}

var _ meta.ResettableRESTMapper = &dynMapper{}

func (m *dynMapper) Reset() {
	m.mu.Lock()
	m.known, m.inited = m.present(), true
	m.mu.Unlock()
	meta.MaybeResetRESTMapper(m.RESTMapper)
}

func (m *dynMapper) hidden(group string) bool {
	if group != barGK.Group {
		return false
	}
	m.mu.Lock()
	defer m.mu.Unlock()
	if !m.inited {
		m.known, m.inited = m.present(), true
	}
	return !m.known
}

func (m *dynMapper) RESTMapping(gk schema.GroupKind, versions ...string) (*meta.RESTMapping, error) {
	if m.hidden(gk.Group) {
		return nil, &meta.NoKindMatchError{GroupKind: gk, SearchedVersions: versions}
	}
	return m.RESTMapper.RESTMapping(gk, versions...)
}

func (m *dynMapper) RESTMappings(gk schema.GroupKind, versions ...string) ([]*meta.RESTMapping, error) {
	if m.hidden(gk.Group) {
		return nil, &meta.NoKindMatchError{GroupKind: gk, SearchedVersions: versions}
	}
	return m.RESTMapper.RESTMappings(gk, versions...)
}

func (m *dynMapper) KindFor(r schema.GroupVersionResource) (schema.GroupVersionKind, error) {
	if m.hidden(r.Group) {
		return schema.GroupVersionKind{}, &meta.NoResourceMatchError{PartialResource: r}
	}
	return m.RESTMapper.KindFor(r)
}

func (m *dynMapper) KindsFor(r schema.GroupVersionResource) ([]schema.GroupVersionKind, error) {
	if m.hidden(r.Group) {
		return nil, &meta.NoResourceMatchError{PartialResource: r}
	}
	return m.RESTMapper.KindsFor(r)
}

func (m *dynMapper) ResourceFor(r schema.GroupVersionResource) (schema.GroupVersionResource, error) {
	if m.hidden(r.Group) {
		return schema.GroupVersionResource{}, &meta.NoResourceMatchError{PartialResource: r}
	}
	return m.RESTMapper.ResourceFor(r)
}

func (m *dynMapper) ResourcesFor(r schema.GroupVersionResource) ([]schema.GroupVersionResource, error) {
	if m.hidden(r.Group) {
		return nil, &meta.NoResourceMatchError{PartialResource: r}
	}
	return m.RESTMapper.ResourcesFor(r)
}

// ---- supervisor ------------------------------------------------------------------------------------

// journalLine is one line of the worker's journal. The journal is truncated at every mark: it
// describes the execution in progress only.
type journalLine struct {
	Mark *journalMark `json:",omitempty"`
	Item *Item        `json:",omitempty"`
}

type journalMark struct {
	Phase    string // "probe" or "run"
	Prev     Cluster
	Scenario Scenario
}

// markRun is called at the start of every execution (worker processes only).
func markRun(st *Store, sc Scenario, probe bool) {
	journalMu.Lock()
	w := journalW
	journalMu.Unlock()
	if w == nil {
		return
	}
	prev := st.Observe()
	st.takeNotes()
	m := journalMark{Phase: "run", Prev: prev, Scenario: sc}
	if probe {
		m.Phase = "probe"
	}
	b, _ := json.Marshal(journalLine{Mark: &m})
	journalMu.Lock()
	w.Truncate(0)
	w.Seek(0, 0)
	w.Write(append(b, '\n'))
	journalMu.Unlock()
}

const workerFlag = "-pipeline-worker"

// ChildMain: when the binary was started as the worker of a supervised profile, does the work
// and returns true. Every cmd main of a pipeline property calls it first.
func ChildMain() bool {
	if len(os.Args) != 6 || os.Args[1] != workerFlag {
		return false
	}
	prop, tier, outDir := os.Args[2], os.Args[4], os.Args[5]
	var seed int64
	fmt.Sscan(os.Args[3], &seed)
	j, err := os.OpenFile(filepath.Join(outDir, prop+".journal.jsonl"), os.O_CREATE|os.O_RDWR|os.O_TRUNC, 0o644)
	if err != nil {
		fmt.Fprintln(os.Stderr, "pipeline worker:", err)
		os.Exit(3)
	}
	journalMu.Lock()
	journalW = j
	journalMu.Unlock()
	sum, err := RunFor(prop)(seed, tier, outDir)
	if err != nil {
		fmt.Fprintln(os.Stderr, "pipeline worker:", err)
		os.Exit(3)
	}
	b, _ := json.Marshal(sum)
	if err := os.WriteFile(filepath.Join(outDir, prop+".worker.json"), b, 0o644); err != nil {
		fmt.Fprintln(os.Stderr, "pipeline worker:", err)
		os.Exit(3)
	}
	j.Close()
	os.Remove(j.Name())
	return true
}

// Supervised runs the profile in a worker process. When the worker dies (a panic inside the
// pipeline cannot be recovered from another goroutine) the result is one case — the execution
// in progress with the trace observed up to the crash — and an implementation failure
// "run crashed: <panic line> in <scenario>".
func Supervised(prop string) emit.Runner {
	return func(seed int64, tier, outDir string) (*emit.Summary, error) {
		if os.Getenv("VERIF_PIPELINE_INPROCESS") == "1" {
			return RunFor(prop)(seed, tier, outDir)
		}
		ctx, cancel := context.WithTimeout(context.Background(), 40*time.Minute)
		defer cancel()
		cmd := exec.CommandContext(ctx, os.Args[0], workerFlag, prop, fmt.Sprint(seed), tier, outDir)
		var stderr tailBuffer
		cmd.Stderr = &stderr
		runErr := cmd.Run()
		if runErr == nil {
			b, err := os.ReadFile(filepath.Join(outDir, prop+".worker.json"))
			if err != nil {
				return nil, err
			}
			sum := emit.NewSummary(prop, seed, tier)
			if err := json.Unmarshal(b, sum); err != nil {
				return nil, err
			}
			os.Remove(filepath.Join(outDir, prop+".worker.json"))
			return sum, nil
		}
		return crashSummary(prop, seed, tier, outDir, runErr, stderr.String())
	}
}

// tailBuffer keeps the head and the tail of what the worker wrote to stderr.
type tailBuffer struct{ head, tail []byte }

func (t *tailBuffer) Write(p []byte) (int, error) {
	if len(t.head) < 8192 {
		t.head = append(t.head, p...)
	} else {
		t.tail = append(t.tail, p...)
		if len(t.tail) > 8192 {
			t.tail = t.tail[len(t.tail)-8192:]
		}
	}
	return len(p), nil
}

func (t *tailBuffer) String() string { return string(t.head) + "\n" + string(t.tail) }

func crashSummary(prop string, seed int64, tier, outDir string, runErr error, stderr string) (*emit.Summary, error) {
	sum := emit.NewSummary(prop, seed, tier)
	line := "exit: " + runErr.Error()
	for _, l := range strings.Split(stderr, "\n") {
		if strings.HasPrefix(l, "panic:") || strings.HasPrefix(l, "fatal error:") {
			line = strings.TrimSpace(l)
			break
		}
	}
	var mark *journalMark
	var items []Item
	if f, err := os.Open(filepath.Join(outDir, prop+".journal.jsonl")); err == nil {
		sc := bufio.NewScanner(f)
		sc.Buffer(make([]byte, 1<<20), 1<<26)
		for sc.Scan() {
			var l journalLine
			if json.Unmarshal(sc.Bytes(), &l) != nil {
				continue // a line cut short by the crash
			}
			if l.Mark != nil {
				mark, items = l.Mark, nil
			} else if l.Item != nil {
				items = append(items, *l.Item)
			}
		}
		f.Close()
	}
	if mark == nil {
		sum.ImplFailures = []string{"run crashed: " + line + " (before the first run)"}
		sum.Rule = "the worker process of the profile crashed"
		return sum, nil
	}
	sort.SliceStable(items, func(i, j int) bool { return items[i].Seq < items[j].Seq })
	h := History{Univ: mark.Scenario.Univ, Initial: mark.Prev, Runs: []Scenario{mark.Scenario},
		Outs: []Outcome{{Trace: items, Final: mark.Prev}}}
	cf := &emit.CaseFile{Name: "Cases_" + prop + "_crash",
		Imports: "From CliUtils Require Import Model.PipelineTypes Corr.CorrPipeline.", Check: "check_" + prop}
	cf.Add(h.Coq(), "crashed "+h.Text())
	if err := cf.Write(outDir, sum); err != nil {
		return nil, err
	}
	sum.Evaluations = 1
	sum.ImplFailures = []string{fmt.Sprintf("run crashed: %s in %s [%s; the worker process of the profile died, the cases before it are lost]",
		line, mark.Scenario.Text(), mark.Phase)}
	sum.Rule = "the worker process of the profile crashed: one case, the execution in progress with the trace observed up to the crash"
	return sum, nil
}
