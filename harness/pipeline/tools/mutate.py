#!/usr/bin/env python3
"""mutate.py [names...]: mutation testing of the pipeline checks.
Creates a scratch worktree of /repo (never touches /repo itself), applies one
source mutation at a time, rebuilds the harness against it (separate go.mod, as
bin/check does with VERIF_REPO), runs all nine pipeline properties and
evaluates the case files against Corr/CorrPipeline.v. Prints per mutation which
property flagged what (m = monitor false, d = model != implementation only;
known-finding cases excluded) and writes /tmp/pipe/mutations.json."""
import json, os, re, subprocess, sys, concurrent.futures

ROOT = os.path.abspath(os.path.join(os.path.dirname(os.path.abspath(__file__)), "..", "..", ".."))
TMP = "/tmp/pipe" if ROOT == "/verif" else "/tmp/pipe_" + os.path.basename(ROOT)
WT, OUT = "/tmp/wt_pipeline_" + os.path.basename(ROOT), TMP + "/mut"
PROPS = ["C01", "C02", "C03", "C04", "C05", "C10", "C11", "C12", "C13"]
ENV = dict(os.environ, GOFLAGS="-mod=mod", GOPROXY="off", GOSUMDB="off", GOTOOLCHAIN="local", CGO_ENABLED="0")

MUTATIONS = [
 ("inv-set-drops-failed-deletes", "pkg/apply/task/inv_set_task.go",
  "\tinvObjs = invObjs.Union(pruneFailures)\n", ""),
 ("inv-set-drops-skipped-applies", "pkg/apply/task/inv_set_task.go",
  "\tinvObjs = invObjs.Union(applySkips)\n", ""),
 ("prune-ignores-dry-run", "pkg/apply/prune/prune.go",
  "\t\t// Filters passed--actually delete object if not dry run.\n\t\tif !opts.DryRunStrategy.ClientOrServerDryRun() {",
  "\t\t// Filters passed--actually delete object if not dry run.\n\t\tif true {"),
 ("no-prevent-remove-filter", "pkg/apply/applier.go",
  "\t\t\tfilter.PreventRemoveFilter{},\n", ""),
 ("no-prevent-remove-filter-destroy", "pkg/apply/destroyer.go",
  "\t\t\tfilter.PreventRemoveFilter{},\n", ""),
 ("dependency-filter-ignores-reconcile", "pkg/apply/filter/dependency-filter.go",
  "\tswitch status.Reconcile {\n\tcase actuation.ReconcilePending:", "\tif true {\n\t\treturn nil\n\t}\n\tswitch status.Reconcile {\n\tcase actuation.ReconcilePending:"),
 ("solver-keeps-graph-invalid-objects", "pkg/apply/solver/solver.go",
  "\t// Filter objects with cycles or invalid dependency annotations\n\tapplyObjs = t.Collector.FilterInvalidObjects(applyObjs)\n\tpruneObjs = t.Collector.FilterInvalidObjects(pruneObjs)\n",
  "\t// Filter objects with cycles or invalid dependency annotations\n"),
 ("runner-continues-after-abort", "pkg/apply/taskrunner/runner.go",
  "\t\t\tif abort {\n\t\t\t\treturn complete(abortReason)\n\t\t\t}\n\t\t\tcurrentTask, done = nextTask(taskQueue, taskContext)\n\t\t\t// If there are no more tasks",
  "\t\t\tcurrentTask, done = nextTask(taskQueue, taskContext)\n\t\t\t// If there are no more tasks"),
 ("no-uid-precondition", "pkg/apply/prune/prune.go",
  "\t\t\t\tPreconditions: &metav1.Preconditions{\n\t\t\t\t\tUID: &uid,\n\t\t\t\t},\n", ""),
 ("prune-layers-not-reversed", "pkg/apply/solver/solver.go",
  "\t\tgraph.ReverseSetList(pruneSets)\n", ""),
 ("noprune-forgets-prune-candidates", "pkg/apply/applier.go",
  "\t\t\t\ttaskContext.InventoryManager().AddSkippedDelete(id)\n", "\t\t\t\t_ = id\n"),
 ("destroy-ignores-skipped-deletes", "pkg/apply/task/inv_set_task.go",
  "\tif len(skippedDeletes.Diff(taskContext.AbandonedObjects())) > 0 {\n\t\treturn false\n\t}\n", "\t_ = skippedDeletes\n"),
 ("can-prune-unowned-under-must-match", "pkg/inventory/policy.go",
  "\tcase Empty:\n\t\tif policy == PolicyAdoptIfNoInventory || policy == PolicyAdoptAll {", "\tcase Empty:\n\t\tif true {"),
 ("client-dry-run-with-ssa-sends-patch", "pkg/apply/task/apply_task.go",
  "strategy.ServerDryRun() || (serverSideOptions.ServerSideApply && !strategy.ClientDryRun())", "strategy.ServerDryRun() || serverSideOptions.ServerSideApply"),
 ("no-local-namespaces-filter", "pkg/apply/applier.go",
  "\t\t\tfilter.LocalNamespacesFilter{\n\t\t\t\tLocalNamespaces: localNamespaces(invInfo, object.UnstructuredSetToObjMetadataSet(objects)),\n\t\t\t},\n", ""),
 ("merge-stores-only-new-objects", "pkg/inventory/inventory-client.go",
  "\tunionObjs := clusterObjs.Union(objs)\n", "\tunionObjs := objs\n"),
 ("wait-ignores-generation", "pkg/apply/taskrunner/condition.go",
  "\t\tif cachedGen < applyGen {\n\t\t\t// cache too old\n\t\t\treturn false\n\t\t}\n\t}\n\treturn true\n}\n\n// allMatchStatus checks whether none",
  "\t\t_ = cachedGen < applyGen\n\t}\n\treturn true\n}\n\n// allMatchStatus checks whether none"),
 ("timeout-events-dropped", "pkg/apply/taskrunner/task.go",
  "\t\t\tw.sendTimeoutEvents(taskContext)\n", ""),
 ("exit-early-ignored", "pkg/apply/applier.go",
  "\t\t\terr = vCollector.ToError()\n\t\t\tif err != nil {\n\t\t\t\thandleError(eventChannel, err)\n\t\t\t\treturn\n\t\t\t}\n", "\t\t\terr = nil\n"),
 ("apply-filter-wrong-default", "pkg/inventory/policy.go",
  "\tcase Empty:\n\t\tif policy != PolicyMustMatch {\n\t\t\treturn true, nil\n\t\t}", "\tcase Empty:\n\t\treturn true, nil"),
]

def sh(cmd, cwd=None, env=None, timeout=3000):
    p = subprocess.run(cmd, cwd=cwd, env=env, stdout=subprocess.PIPE, stderr=subprocess.STDOUT, text=True, timeout=timeout)
    return p.returncode, p.stdout

def evalfile(d, name):
    rc, o = sh(["coqc", "-Q", ROOT + "/coq/theories", "CliUtils", "-w", "-notation-overridden,-deprecated", name + ".v"], cwd=d)
    if rc != 0:
        return name, None, o[-1500:]
    m = re.search(r"Bad\s*=\s*(\[.*?\])\s*:\s*list", o, re.S)
    return name, [(int(i), int(k)) for i, k in re.findall(r"\(\s*(\d+)(?:%nat)?\s*,\s*(\d+)(?:%nat)?\s*\)", m.group(1))], ""

def evaluate():
    jobs = []
    res = {}
    for p in PROPS:
        d = os.path.join(OUT, p)
        s = json.load(open(os.path.join(d, p + ".summary.json")))
        res[p] = dict(m=0, d=0, kf=0, impl=len(s.get("impl_failures") or []), example="", flaky=s["distribution"].get("flaky", 0))
        if res[p]["impl"]:
            res[p]["example"] = "IMPL: " + s["impl_failures"][0][:300]
        for f in s["case_files"]:
            jobs.append((p, d, f, s))
    with concurrent.futures.ThreadPoolExecutor(max_workers=10) as ex:
        outs = list(ex.map(lambda j: (j, evalfile(j[1], j[2])), jobs))
    for (p, d, f, s), (name, bad, err) in outs:
        if bad is None:
            res[p]["example"] = "COQ ERROR " + err[-300:]
            res[p]["m"] += 1
            continue
        for i, k in bad:
            text = s["case_text"][f][i]
            if "[KF-" in text:
                res[p]["kf"] += 1
            elif k >= 2:
                res[p]["m"] += 1
                if not res[p]["example"]:
                    res[p]["example"] = "%s[%d] %s" % (f, i, text[:500])
            else:
                res[p]["d"] += 1
                if not res[p]["example"]:
                    res[p]["example"] = "%s[%d] (differs) %s" % (f, i, text[:500])
    return res

def main():
    want = sys.argv[1:]
    if not os.path.isdir(WT):
        rc, o = sh(["git", "-C", "/repo", "worktree", "add", "--detach", WT, "HEAD"])
        if rc != 0:
            print(o); sys.exit(2)
    os.makedirs(TMP, exist_ok=True)
    mod = TMP + "/mut.mod"
    open(mod, "w").write(open(ROOT + "/harness/go.mod").read().replace("=> /repo", "=> " + WT))
    subprocess.run(["cp", WT + "/go.sum", TMP + "/mut.sum"])
    results = {}
    if os.path.exists(TMP + "/mutations.json"):
        results = json.load(open(TMP + "/mutations.json"))
    muts = [("baseline", None, None, None)] + MUTATIONS
    for name, path, old, new in muts:
        if want and name not in want:
            continue
        sh(["git", "-C", WT, "checkout", "--", "."])
        if path:
            src = open(os.path.join(WT, path)).read()
            if src.count(old) != 1:
                print("MUTATION %s: pattern found %d times in %s" % (name, src.count(old), path)); continue
            open(os.path.join(WT, path), "w").write(src.replace(old, new))
        rc, o = sh(["go", "build", "-modfile", mod, "-o", TMP + "/corrall_mut", "./pipeline/tools/corrall"], cwd=ROOT + "/harness", env=ENV)
        if rc != 0:
            print("MUTATION %s: does not build\n%s" % (name, o[-1200:])); continue
        subprocess.run(["rm", "-rf", OUT]); os.makedirs(OUT)
        rc, o = sh([TMP + "/corrall_mut", "-seed", "1", "-tier", "quick", "-out", OUT] + PROPS, env=ENV)
        if rc != 0:
            print("MUTATION %s: harness failed\n%s" % (name, o[-1500:])); continue
        res = evaluate()
        results[name] = res
        caught = [p for p in PROPS if res[p]["m"] or res[p]["impl"]]
        differs = [p for p in PROPS if res[p]["d"]]
        print("%-40s monitor/impl-failure: %-40s differs-only: %s" % (name, ",".join("%s(%d)" % (p, res[p]["m"] + res[p]["impl"]) for p in caught) or "-",
              ",".join("%s(%d)" % (p, res[p]["d"]) for p in differs) or "-"), flush=True)
        json.dump(results, open(TMP + "/mutations.json", "w"), indent=1)
    sh(["git", "-C", WT, "checkout", "--", "."])

if __name__ == "__main__":
    main()
