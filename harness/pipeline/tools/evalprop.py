#!/usr/bin/env python3
"""evalprop.py Cxx [seed] [tier]: run the pipeline harness for one property into
/tmp/pipe/Cxx, evaluate the case files with coqc against Corr/CorrPipeline.v and
print the flagged cases (code 1 = model != implementation, 2/3 = monitor false).
With --diff N prints, for flagged case N of file F (--file), the model's trace
next to the observed one (first differing run)."""
import json, os, re, subprocess, sys, concurrent.futures

ROOT = os.path.abspath(os.path.join(os.path.dirname(os.path.abspath(__file__)), "..", "..", ".."))
TMP = "/tmp/pipe" if ROOT == "/verif" else "/tmp/pipe_" + os.path.basename(ROOT)
def sh(cmd, cwd=None, timeout=3000):
    p = subprocess.run(cmd, cwd=cwd, stdout=subprocess.PIPE, stderr=subprocess.STDOUT, text=True, timeout=timeout)
    return p.returncode, p.stdout

def evalfile(out, name):
    rc, o = sh(["coqc", "-Q", ROOT + "/coq/theories", "CliUtils", "-w", "-notation-overridden,-deprecated", name + ".v"], cwd=out)
    if rc != 0:
        return name, None, o[-3000:]
    m = re.search(r"Bad\s*=\s*(\[.*?\])\s*:\s*list", o, re.S)
    bad = [(int(i), int(k)) for i, k in re.findall(r"\(\s*(\d+)(?:%nat)?\s*,\s*(\d+)(?:%nat)?\s*\)", m.group(1))]
    return name, bad, ""

def main():
    args = [a for a in sys.argv[1:] if not a.startswith("--")]
    prop = args[0]
    seed = args[1] if len(args) > 1 else "1"
    tier = args[2] if len(args) > 2 else "quick"
    out = TMP + "/" + prop
    binary = ROOT + "/harness/bin/corr_" + prop
    env = dict(os.environ, GOFLAGS="-mod=mod", GOPROXY="off", GOSUMDB="off", GOTOOLCHAIN="local", CGO_ENABLED="0")
    repo = [a.split("=", 1)[1] for a in sys.argv if a.startswith("--repo=")]
    if repo:
        # scratch-tree mode, as bin/check does with VERIF_REPO: separate go.mod, binary and output directory
        tag = str(abs(hash(repo[0])) % 100000)
        out += "_alt"
        mod = TMP + "/alt_%s.mod" % tag
        os.makedirs(TMP, exist_ok=True)
        open(mod, "w").write(open(ROOT + "/harness/go.mod").read().replace("=> /repo", "=> " + repo[0]))
        subprocess.run(["cp", repo[0] + "/go.sum", TMP + "/alt_%s.sum" % tag])
        binary = TMP + "/corr_%s_alt" % prop
        p = subprocess.run(["go", "build", "-modfile", mod, "-o", binary, "./cmd/" + prop], cwd=ROOT + "/harness", env=env,
                           stdout=subprocess.PIPE, stderr=subprocess.STDOUT, text=True)
        if p.returncode != 0:
            print("BUILD FAILED\n" + p.stdout[-2000:]); sys.exit(2)
    elif "--build" in sys.argv:
        p = subprocess.run(["go", "build", "-o", binary, "./cmd/" + prop], cwd=ROOT + "/harness", env=env,
                           stdout=subprocess.PIPE, stderr=subprocess.STDOUT, text=True)
        if p.returncode != 0:
            print("BUILD FAILED\n" + p.stdout[-2000:]); sys.exit(2)
    if "--norun" not in sys.argv:
        subprocess.run(["rm", "-rf", out]); os.makedirs(out)
        rc, o = sh([binary, "-seed", seed, "-tier", tier, "-out", out, prop])
        print(o.strip()[-600:])
        if rc != 0:
            sys.exit(1)
    s = json.load(open(out + "/" + prop + ".summary.json"))
    print("extra:", {k: v for k, v in s["extra"].items() if k != "flaky"})
    if s.get("impl_failures"):
        print("IMPL FAILURES:", len(s["impl_failures"]))
        for f in s["impl_failures"][:8]:
            print("   ", f[:400])
    with concurrent.futures.ThreadPoolExecutor(max_workers=8) as ex:
        res = list(ex.map(lambda n: evalfile(out, n), s["case_files"]))
    tot = {1: 0, 2: 0, 3: 0}
    flagged = []
    for name, bad, err in res:
        if bad is None:
            print("COQ ERROR in", name, err)
            continue
        for i, k in bad:
            tot[k] = tot.get(k, 0) + 1
            flagged.append((name, i, k))
    n = sum(len(s["case_text"][f]) for f in s["case_files"])
    print("cases %d, runs %d; model!=impl only: %d, monitor false: %d, both: %d" % (n, s["evaluations"], tot[1], tot[2], tot[3]))
    json.dump(flagged, open(out + "/flagged.json", "w"))
    known = [f for f in flagged if "[KF-" in s["case_text"][f[0]][f[1]]]
    unknown = [f for f in flagged if f not in known]
    print("flagged: %d known-finding cases, %d others" % (len(known), len(unknown)))
    lim = 12
    for name, i, k in unknown[:lim]:
        print("  %s[%d] code=%d %s" % (name, i, k, s["case_text"][name][i][:260].replace("\n", " ")))

if __name__ == "__main__":
    main()
