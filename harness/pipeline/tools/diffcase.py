#!/usr/bin/env python3
"""diffcase.py Cxx FILE INDEX: for case INDEX of /tmp/pipe/Cxx/FILE.v print, run by
run, the model's outcome (Eval vm_compute of `run sc c`) and the observed one,
item by item, marking the first difference; also the monitors' verdicts."""
import re, subprocess, sys, os
ROOT = os.path.abspath(os.path.join(os.path.dirname(os.path.abspath(__file__)), "..", "..", ".."))
TMP = "/tmp/pipe" if ROOT == "/verif" else "/tmp/pipe_" + os.path.basename(ROOT)

def split_top(s, sep):
    out, depth, cur = [], 0, ""
    for ch in s:
        if ch in "([": depth += 1
        if ch in ")]": depth -= 1
        if ch == sep and depth == 0:
            out.append(cur); cur = ""
        else:
            cur += ch
    if cur.strip(): out.append(cur)
    return [x.strip() for x in out]

def main():
    prop, fname, idx = sys.argv[1], sys.argv[2], int(sys.argv[3])
    d = TMP + "/" + prop
    src = open(os.path.join(d, fname + ".v")).read()
    body = src.split("Definition cases := [\n", 1)[1].split("\n].\nDefinition Bad", 1)[0]
    cases = body.split(";\n  ((mkCl")
    cases = [cases[0].strip()] + ["((mkCl" + c for c in cases[1:]]
    case = cases[idx]
    v = ("From Coq Require Import List NArith ZArith String Ascii.\nImport ListNotations.\n"
         "From CliUtils Require Import Corr.CorrLib Model.PipelineTypes Model.Pipeline Corr.CorrPipeline.\n"
         "Definition h : history := %s.\n"
         "Fixpoint go (c : cluster) (runs : list (scenario * outcome)) : list (outcome * outcome * bool * list bool) :=\n"
         "  match runs with [] => [] | (sc, obs) :: r => (run sc c, obs, outcome_eqb (run sc c) obs, mon_all sc c obs) :: go (out_final obs) r end.\n"
         "Definition res := Eval vm_compute in go (fst h) (snd h).\nPrint res.\n") % case
    p = os.path.join(d, "Dbg.v")
    open(p, "w").write(v)
    r = subprocess.run(["coqc", "-Q", ROOT + "/coq/theories", "CliUtils", "-w", "-notation-overridden,-deprecated", "Dbg.v"],
                       cwd=d, stdout=subprocess.PIPE, stderr=subprocess.STDOUT, text=True)
    o = r.stdout
    if r.returncode != 0:
        print(o[-3000:]); sys.exit(1)
    o = re.sub(r"\s+", " ", o)
    o = o.split("res =", 1)[1].rsplit(": list", 1)[0].strip()
    runs = split_top(o[1:-1], ";")
    for k, rr in enumerate(runs):
        parts = split_top(rr[1:-1], ",")
        model, obs, eq, mons = parts[0], parts[1], parts[2], parts[3]
        print("==== run %d: agree=%s monitors[C01 C02 C03 C04 C05 C10 C11 C12 C13]=%s" % (k, eq, mons))
        def items(x):
            m = re.search(r"out_trace := (\[.*\]); out_final := (.*)\|\}", x)
            return split_top(m.group(1)[1:-1], ";"), m.group(2).strip()
        mi, mf = items(model)
        oi, of = items(obs)
        for j in range(max(len(mi), len(oi))):
            a = mi[j] if j < len(mi) else "-"
            b = oi[j] if j < len(oi) else "-"
            mark = "  " if a == b else "!!"
            if a == b:
                print("  %s %s" % (mark, a))
            else:
                print("  %s model: %s\n     impl : %s" % (mark, a, b))
        if mf != of:
            print("  !! final model: %s\n     final impl : %s" % (mf, of))
        else:
            print("     final: %s" % mf)

if __name__ == "__main__":
    main()
