// corrall runs the pipeline harness for several properties from one binary
// (used by tools/mutate.py, which rebuilds against a mutated scratch tree and
// would otherwise have to link nine binaries per mutation).
//
//	corrall -seed 1 -tier quick -out DIR C01 C02 ...
package main

import (
	"fmt"
	"os"
	"path/filepath"

	"verifharness/pipeline"
)

func main() {
	var seed int64 = 1
	tier, out := "quick", "."
	budget := 0
	var props []string
	args := os.Args[1:]
	for i := 0; i < len(args); i++ {
		switch args[i] {
		case "-seed":
			i++
			fmt.Sscan(args[i], &seed)
		case "-tier":
			i++
			tier = args[i]
		case "-out":
			i++
			out = args[i]
		case "-budget": // > 0: check_all cases (every monitor) from `budget` runs of each profile
			i++
			fmt.Sscan(args[i], &budget)
		default:
			props = append(props, args[i])
		}
	}
	for _, p := range props {
		dir := filepath.Join(out, p)
		if err := os.MkdirAll(dir, 0o755); err != nil {
			fmt.Fprintln(os.Stderr, err)
			os.Exit(3)
		}
		run := pipeline.RunFor(p)
		if budget > 0 {
			run = pipeline.RunAll(p, budget)
		}
		sum, err := run(seed, tier, dir)
		if err != nil {
			fmt.Fprintln(os.Stderr, "corrall:", p, err)
			os.Exit(3)
		}
		if err := sum.Write(dir); err != nil {
			fmt.Fprintln(os.Stderr, err)
			os.Exit(3)
		}
		fmt.Printf("corr %s: %d evaluations, %d impl failures\n", p, sum.Evaluations, len(sum.ImplFailures))
	}
}
