// watcher.go: the scripted StatusWatcher, the controller protocol that feeds
// status deliveries into the running pipeline at well-defined points, and the
// consumer of the run's event channel.
package pipeline

import (
	"context"
	"fmt"
	"sync"
	"time"

	"k8s.io/apimachinery/pkg/apis/meta/v1/unstructured"
	"k8s.io/apimachinery/pkg/runtime/schema"
	"k8s.io/apimachinery/pkg/types"
	"sigs.k8s.io/cli-utils/pkg/apply/event"
	pollevent "sigs.k8s.io/cli-utils/pkg/kstatus/polling/event"
	"sigs.k8s.io/cli-utils/pkg/kstatus/status"
	"sigs.k8s.io/cli-utils/pkg/kstatus/watcher"
	"sigs.k8s.io/cli-utils/pkg/object"
	"verifharness/emit"
)

// cancelMarkers: after cancelling the run's context while a request is being
// served, this many marker deliveries are pushed through the status channel.
// Every one of them is a select iteration of the runner with ctx.Done() ready;
// the probability that none of them picks ctx.Done() is 2^-cancelMarkers.
const cancelMarkers = 30

// markerID is in no task: a completed send of a marker delivery means the
// runner is back in its select loop, i.e. everything before was processed.
var markerID = object.ObjMetadata{Namespace: "marker-ns", Name: "marker", GroupKind: schema.GroupKind{Kind: "ConfigMap"}}

var kstStatus = map[Kst]status.Status{SInProgress: status.InProgressStatus, SFailed: status.FailedStatus,
	SCurrent: status.CurrentStatus, STerminating: status.TerminatingStatus, SNotFound: status.NotFoundStatus,
	SUnknown: status.UnknownStatus}

func kstOf(s status.Status) (Kst, bool) {
	for k, v := range kstStatus {
		if v == s {
			return k, true
		}
	}
	return SUnknown, false
}

// board is what the consumer tells the controller: which wait groups started
// or finished, and which objects of a wait group are pending. The pending set
// of the real WaitTask is exactly the set of ids whose latest wait event of
// that group is Pending (task.go: every change of w.pending sends an event), so
// the controller knows without any timing assumption whether a wait is about
// to complete.
type board struct {
	mu       sync.Mutex
	started  map[int]bool
	finished map[int]bool
	pending  map[int]map[int]bool
	paused   map[int]bool // the consumer reached the first terminal wait event of the group and paused
	closed   bool
	ch       chan struct{} // closed and replaced on every change
}

func newBoard() *board {
	return &board{started: map[int]bool{}, finished: map[int]bool{}, pending: map[int]map[int]bool{}, paused: map[int]bool{}, ch: make(chan struct{})}
}

func (b *board) set(f func()) {
	b.mu.Lock()
	f()
	close(b.ch)
	b.ch = make(chan struct{})
	b.mu.Unlock()
}

func (b *board) waitStarted(ctx context.Context, k int) bool {
	for {
		b.mu.Lock()
		ok, closed, ch := b.started[k], b.closed, b.ch
		b.mu.Unlock()
		if ok {
			return true
		}
		if closed {
			return false
		}
		select {
		case <-ch:
		case <-ctx.Done():
			return false
		}
	}
}

// waitPaused blocks until the consumer paused at wait-k (true) or wait-k / the run ended.
func (b *board) waitPaused(ctx context.Context, k int) bool {
	for {
		b.mu.Lock()
		p, over, ch := b.paused[k], b.finished[k] || b.closed, b.ch
		b.mu.Unlock()
		if p {
			return true
		}
		if over {
			return false
		}
		select {
		case <-ch:
		case <-ctx.Done():
			return false
		}
	}
}

func (b *board) anyPending(k int) bool {
	for _, p := range b.pending[k] {
		if p {
			return true
		}
	}
	return false
}

// running: wait-k has pending objects and has not finished.
func (b *board) running(k int) bool {
	b.mu.Lock()
	defer b.mu.Unlock()
	if b.finished[k] || b.closed {
		return false
	}
	for _, p := range b.pending[k] {
		if p {
			return true
		}
	}
	return false
}

// scriptedWatcher implements watcher.StatusWatcher.
type scriptedWatcher struct {
	univ   Universe
	env    Env
	clock  *Clock
	board  *board
	cancel context.CancelFunc // cancels the run's context (WCancel)

	// auto (probe runs): ignore env.Waits; at the start of every wait deliver the
	// status that reconciles each object of the wait (Current with the live uid
	// after an apply group, NotFound after a prune group) and record what was sent
	auto      bool
	st        *Store
	plan      func() []planGroup
	autoWaits []WSched

	syncConsumer func() // returns when the consumer has processed every event it received
	late         map[int]LateSpec
	lateSent     int
	selfClosed   int // times the watcher stopped by itself after a fatal error

	mu      sync.Mutex
	log     []Item
	watches int
	done    chan struct{} // closed when the watch goroutine has exited
	flush   func(n int)   // pushes n markers through the status channel
}

// afterCancel is called by the server right after it cancelled the run's
// context while serving a request: it makes the runner take notice before the
// request is answered. Without a scripted watch (dry-run uses the blind
// watcher) all that can be done is to give the runner time.
func (w *scriptedWatcher) afterCancel() {
	w.mu.Lock()
	f := w.flush
	w.mu.Unlock()
	if f == nil {
		time.Sleep(30 * time.Millisecond)
		return
	}
	f(cancelMarkers)
}

// autoSched computes the reconciling deliveries of wait-k from the announced plan.
func (w *scriptedWatcher) autoSched(k int) WSched {
	sched := WSched{End: WCancel}
	plan := w.plan()
	for i, g := range plan {
		if g.Kind != "GWait" || g.N != k {
			continue
		}
		prune := i > 0 && plan[i-1].Kind == "GPrune"
		for _, id := range g.IDs {
			e := w.univ[id]
			if prune && e.Fin {
				// held by a finalizer: it never goes away; the wait can only time out
				d := SObs{ID: id, St: STerminating, Body: true, Gen: objGen}
				if o := w.st.get(e.GVR, e.Meta.Namespace, e.Meta.Name); o != nil {
					d.UID = uidNum(o.GetUID())
				}
				sched.Deliv = append(sched.Deliv, d)
				sched.End = WTimeout
				continue
			}
			if prune {
				sched.Deliv = append(sched.Deliv, SObs{ID: id, St: SNotFound})
				continue
			}
			d := SObs{ID: id, St: SCurrent, Body: true, Gen: objGen}
			if o := w.st.get(e.GVR, e.Meta.Namespace, e.Meta.Name); o != nil {
				d.UID = uidNum(o.GetUID())
			}
			sched.Deliv = append(sched.Deliv, d)
		}
	}
	return sched
}

var _ watcher.StatusWatcher = &scriptedWatcher{}

func (w *scriptedWatcher) delivery(o SObs) pollevent.Event {
	id := w.univ[o.ID].Meta
	rs := &pollevent.ResourceStatus{Identifier: id, Status: kstStatus[o.St]}
	if o.Body {
		u := &unstructured.Unstructured{Object: map[string]interface{}{
			"apiVersion": w.univ[o.ID].APIVersion, "kind": id.GroupKind.Kind,
			"metadata": map[string]interface{}{"name": id.Name, "annotations": map[string]interface{}{"src": "v", "tgt": "v"}}}}
		if id.Namespace != "" {
			u.SetNamespace(id.Namespace)
		}
		u.SetUID(types.UID(uidStr(o.UID)))
		u.SetGeneration(o.Gen)
		rs.Resource = u
	}
	return pollevent.Event{Type: pollevent.ResourceUpdateEvent, Resource: rs}
}

func markerEvent() pollevent.Event {
	return pollevent.Event{Type: pollevent.ResourceUpdateEvent,
		Resource: &pollevent.ResourceStatus{Identifier: markerID, Status: status.UnknownStatus}}
}

func (w *scriptedWatcher) Watch(ctx context.Context, _ object.ObjMetadataSet, _ watcher.Options) <-chan pollevent.Event {
	ch := make(chan pollevent.Event)
	w.mu.Lock()
	w.watches++
	w.done = make(chan struct{})
	done := w.done
	w.mu.Unlock()
	send := func(e pollevent.Event) bool {
		select {
		case ch <- e:
			return true
		case <-ctx.Done():
			return false
		}
	}
	w.mu.Lock()
	w.flush = func(n int) {
		defer func() { _ = recover() }() // the channel is closed only after the runner returned
		for i := 0; i < n; i++ {
			if !send(markerEvent()) {
				return
			}
		}
	}
	w.mu.Unlock()
	go func() {
		defer close(done)
		defer close(ch)
		if w.env.Cancel.Kind == CBeforeSync && w.env.Cancel.ByWatcher {
			// the watcher fails before it is synchronised and stops by itself (runner.go mutant:
			// the run must end although no task was started)
			send(pollevent.Event{Type: pollevent.ErrorEvent, Error: fmt.Errorf("scripted watcher failure before sync")})
			return
		}
		if w.env.Cancel.Kind == CBeforeSync {
			// the context is already cancelled: holding back the sync event keeps
			// the runner's select from seeing two ready cases at once
			<-ctx.Done()
			return
		}
		if !send(pollevent.Event{Type: pollevent.SyncEvent}) {
			return
		}
		for k := 0; ; k++ {
			if !w.board.waitStarted(ctx, k) {
				break
			}
			var sched WSched
			if w.auto {
				sched = w.autoSched(k)
				w.mu.Lock()
				w.autoWaits = append(w.autoWaits, sched)
				w.mu.Unlock()
			} else if k < len(w.env.Waits) {
				sched = w.env.Waits[k]
			}
			// synchronise with the runner (the initial wait events are out) and
			// with the consumer (it has recorded them)
			if !send(markerEvent()) {
				break
			}
			w.syncConsumer()
			if w.env.WatchErrAt == k {
				// the watcher fails while objects of wait-k are pending (a wait
				// that completes at once is left alone: no race with its completion)
				if w.board.running(k) {
					send(pollevent.Event{Type: pollevent.ErrorEvent, Error: fmt.Errorf("scripted watcher failure")})
					if k%2 == 0 {
						// like DefaultStatusWatcher after a fatal error: the watcher stops by itself and its
						// channel closes while the run is still going (the runner sees the closed channel
						// before the cancelled wait task reports back) — seeds C12f / C13f
						w.mu.Lock()
						w.selfClosed++
						w.mu.Unlock()
						return
					}
					break
				}
				continue
			}
			alive := true
			last := map[int]SObs{}
			for _, d := range sched.Deliv {
				if !w.board.running(k) {
					break // the wait is completing: the remaining deliveries are dropped
				}
				last[d.ID] = d
				w.mu.Lock()
				w.log = append(w.log, journaled(Item{Seq: w.clock.Next(), Coq: "IDeliv " + d.Coq(), Text: "DELIV " + d.Text()}))
				w.mu.Unlock()
				if !send(w.delivery(d)) || !send(markerEvent()) {
					alive = false
					break
				}
				w.syncConsumer()
			}
			if !alive {
				break
			}
			spec, isLate := w.late[k]
			isLate = isLate && !w.auto
			sendLate := func() bool {
				var ids []int
				for _, g := range w.plan() {
					if g.Kind == "GWait" && g.N == k {
						ids = g.IDs
					}
				}
				for j := 0; j < spec.N && len(ids) > 0; j++ {
					id := ids[(spec.Off+j)%len(ids)]
					d, ok := last[id]
					if !ok {
						d = SObs{ID: id, St: SUnknown}
					}
					if !send(w.delivery(d)) {
						return false
					}
					w.mu.Lock()
					w.lateSent++
					w.mu.Unlock()
				}
				return true
			}
			if w.board.running(k) && sched.End == WCancel {
				w.cancel()
				if isLate {
					sendLate() // the runner is aborting: it ignores status events
				}
			} else if isLate && w.board.waitPaused(ctx, k) {
				// the consumer is slow just now; whenever the runner gets to these, they change nothing
				if !sendLate() || !send(markerEvent()) {
					break
				}
				w.syncConsumer()
			}
		}
		<-ctx.Done()
	}()
	return ch
}

func (w *scriptedWatcher) items() []Item {
	w.mu.Lock()
	defer w.mu.Unlock()
	return append([]Item(nil), w.log...)
}

// ---- event consumer ------------------------------------------------------------------

type consumer struct {
	univ    Universe
	clock   *Clock
	board   *board
	destroy bool

	barrierCh chan chan struct{}
	done      chan struct{}

	log       []Item
	initPlan  []planGroup
	anomalies []string
	late      map[int]bool // wait groups at whose first terminal event the consumer pauses
}

type planGroup struct {
	Kind string // GInvAdd …
	N    int
	IDs  []int
}

func newConsumer(univ Universe, clock *Clock, b *board, destroy bool) *consumer {
	return &consumer{univ: univ, clock: clock, board: b, destroy: destroy,
		barrierCh: make(chan chan struct{}), done: make(chan struct{})}
}

// barrier returns once every event received so far has been stamped.
func (c *consumer) barrier() {
	ack := make(chan struct{})
	select {
	case c.barrierCh <- ack:
		<-ack
	case <-c.done:
	}
}

func (c *consumer) ids(set object.ObjMetadataSet) []int {
	out := make([]int, len(set))
	for i, m := range set {
		out[i] = c.univ.Index(m)
		if out[i] < 0 {
			c.anomalies = append(c.anomalies, "event names an identifier outside the universe: "+m.String())
			out[i] = 99
		}
	}
	return out
}

func (c *consumer) id(m object.ObjMetadata) int { return c.ids(object.ObjMetadataSet{m})[0] }

func (c *consumer) add(coq, text string, result bool) {
	c.log = append(c.log, journaled(Item{Seq: c.clock.Next(), Coq: "IEv " + coq, Text: text, Result: result}))
}

func (c *consumer) gname(name string) string {
	g, _, _, ok := gname(name)
	if !ok {
		c.anomalies = append(c.anomalies, "unknown group name "+name)
		return "(GApply, 999)"
	}
	return g
}

func astOf(s int) string { return [...]string{"", "AOk", "ASkip", "AFail"}[s] }

func (c *consumer) handle(e event.Event) {
	switch e.Type {
	case event.ValidationType:
		ids := emit.SortedInts(c.ids(e.ValidationEvent.Identifiers))
		c.add(emit.App("EValidation", emit.NatList(ids)), "EV validation"+textList(ids), false)
	case event.InitType:
		var gs, ts []string
		for _, ag := range e.InitEvent.ActionGroups {
			ids := c.ids(ag.Identifiers)
			g, k, n, _ := gname(ag.Name)
			c.gname(ag.Name)
			gs = append(gs, "("+g+", "+emit.NatList(ids)+")")
			ts = append(ts, ag.Name+textList(ids))
			c.initPlan = append(c.initPlan, planGroup{Kind: k, N: n, IDs: ids})
		}
		c.add(emit.App("EInit", emit.List(gs)), "EV init{"+joinSp(ts)+"}", false)
	case event.ActionGroupType:
		ag := e.ActionGroupEvent
		g, k, n, _ := gname(ag.GroupName)
		c.gname(ag.GroupName)
		if ag.Status == event.Started {
			c.add(emit.App("EStarted", g), "EV started "+ag.GroupName, false)
			if k == "GWait" {
				c.board.set(func() { c.board.started[n] = true })
			}
		} else {
			c.add(emit.App("EFinished", g), "EV finished "+ag.GroupName, false)
			if k == "GWait" {
				c.board.set(func() { c.board.finished[n] = true })
			}
		}
	case event.ApplyType:
		ae := e.ApplyEvent
		if ae.Status == event.ApplyPending {
			return
		}
		i := c.id(ae.Identifier)
		c.add(emit.App("EApply", c.gname(ae.GroupName), emit.Nat(i), astOf(int(ae.Status))),
			fmt.Sprintf("EV apply %s %d %s%s", ae.GroupName, i, astOf(int(ae.Status)), errText(ae.Error)), true)
	case event.PruneType:
		pe := e.PruneEvent
		if pe.Status == event.PrunePending {
			return
		}
		if c.destroy {
			c.anomalies = append(c.anomalies, "PruneEvent in a destroy run")
		}
		i := c.id(pe.Identifier)
		c.add(emit.App("EPrune", c.gname(pe.GroupName), emit.Nat(i), astOf(int(pe.Status))),
			fmt.Sprintf("EV prune %s %d %s%s", pe.GroupName, i, astOf(int(pe.Status)), errText(pe.Error)), true)
	case event.DeleteType:
		de := e.DeleteEvent
		if de.Status == event.DeletePending {
			return
		}
		if !c.destroy {
			c.anomalies = append(c.anomalies, "DeleteEvent in an apply run")
		}
		i := c.id(de.Identifier)
		c.add(emit.App("EPrune", c.gname(de.GroupName), emit.Nat(i), astOf(int(de.Status))),
			fmt.Sprintf("EV delete %s %d %s%s", de.GroupName, i, astOf(int(de.Status)), errText(de.Error)), true)
	case event.WaitType:
		we := e.WaitEvent
		i := c.id(we.Identifier)
		st := map[event.WaitEventStatus]string{event.ReconcilePending: "WPending", event.ReconcileSuccessful: "WOk",
			event.ReconcileSkipped: "WSkipped", event.ReconcileFailed: "WFailed", event.ReconcileTimeout: "WTimedOut"}[we.Status]
		c.add(emit.App("EWait", c.gname(we.GroupName), emit.Nat(i), st), fmt.Sprintf("EV wait %s %d %s", we.GroupName, i, st), true)
		if _, k, n, ok := gname(we.GroupName); ok && k == "GWait" {
			trigger := false
			c.board.set(func() {
				if c.board.pending[n] == nil {
					c.board.pending[n] = map[int]bool{}
				}
				had := c.board.anyPending(n)
				c.board.pending[n][i] = we.Status == event.ReconcilePending
				if c.late[n] && !c.board.paused[n] && had &&
					(we.Status == event.ReconcileTimeout || !c.board.anyPending(n)) {
					c.board.paused[n] = true
					trigger = true
				}
			})
			if trigger {
				c.pause(latePause)
			}
		}
	case event.StatusType:
		se := e.StatusEvent
		if se.Identifier == markerID {
			return
		}
		i := c.id(se.Identifier)
		k := SUnknown
		if se.PollResourceInfo != nil {
			var ok bool
			if k, ok = kstOf(se.PollResourceInfo.Status); !ok {
				c.anomalies = append(c.anomalies, "status event with unknown status "+se.PollResourceInfo.Status.String())
			}
		}
		c.add(emit.App("EStatus", emit.Nat(i), k.Coq()), fmt.Sprintf("EV status %d %s", i, k.Coq()), false)
	case event.ErrorType:
		c.add("EError", "EV error("+fmt.Sprint(e.ErrorEvent.Err)+")", false)
	default:
		c.anomalies = append(c.anomalies, fmt.Sprintf("unknown event type %d", e.Type))
	}
}

func errText(err error) string {
	if err == nil {
		return ""
	}
	s := err.Error()
	if len(s) > 90 {
		s = s[:90] + "…"
	}
	return "(" + s + ")"
}

func joinSp(s []string) string {
	out := ""
	for i, x := range s {
		if i > 0 {
			out += " "
		}
		out += x
	}
	return out
}

// latePause: how long the consumer stops reading the event channel at a late point.
const latePause = 15 * time.Millisecond

// pause: a slow consumer. It does not read events, it still answers barriers.
func (c *consumer) pause(d time.Duration) {
	t := time.NewTimer(d)
	defer t.Stop()
	for {
		select {
		case ack := <-c.barrierCh:
			close(ack)
		case <-t.C:
			return
		}
	}
}

// run consumes the channel until it closes (true) or the watchdog fires (false).
func (c *consumer) run(ch <-chan event.Event, watchdog time.Duration) bool {
	defer close(c.done)
	t := time.NewTimer(watchdog)
	defer t.Stop()
	for {
		select {
		case e, ok := <-ch:
			if !ok {
				c.log = append(c.log, journaled(Item{Seq: c.clock.Next(), Coq: "IClosed", Text: "CLOSED"}))
				c.board.set(func() { c.board.closed = true })
				return true
			}
			c.handle(e)
		case ack := <-c.barrierCh:
			close(ack)
		case <-t.C:
			c.board.set(func() { c.board.closed = true })
			return false
		}
	}
}
