// gen.go: seeded generators (one *rand.Rand), the per-property profiles, the
// fixed corpus of former defect witnesses and the emission of the case files.
package pipeline

import (
	"flag"
	"fmt"
	"io"
	"math/rand"
	"os"
	"runtime"
	"sort"
	"strings"
	"time"

	"k8s.io/klog/v2"
	"verifharness/emit"
)

// ---- profiles ---------------------------------------------------------------------------

type profile struct {
	name       string
	check      string
	runsMin    int
	runsMax    int
	pDestroy   float64 // per run (after run 0 for multi-run profiles)
	pNoPrune   float64
	dry        []Dry // drawn uniformly
	pSSA       float64
	pInvalid   float64 // universe contains field-invalid identifiers
	pBadGraph  float64 // cycles, duplicates, malformed annotations in locals
	pLiveBad   float64 // live objects with malformed depends-on
	pDeps      float64 // depends-on edges
	varied     bool    // varied delivery patterns (else every object reconciles at once)
	pTimeouts  float64
	faults     string // "none", "enum", "one", "pairs"
	pCancel    float64
	pWatchErr  float64
	pIdentical float64 // a run repeats the previous run's objects and options
	pCRD       float64
	pAlias     float64 // two live objects share a uid
	pKeep      float64 // live objects with a deletion-prevention annotation (default 0.15)
	pStall     float64 // a wait that is followed by another layer loses the deliveries of one object and times out
	pMassStall float64 // a wait with two or more objects times out with most of them still pending (default 0.06)
	pEmpty     float64 // apply runs with an empty (or unrelated single-object) apply set: prune everything (default 0.06)
	pFault     float64 // faults "one": probability of a fault per run (default 0.5)
	budget     int     // runs in the quick tier (default 780; thorough = 8 times as many)
	pLate      float64 // per wait group: late status deliveries while the group completes and the consumer is slow (default 0.06)
	pMut       float64 // share of universe entries whose references are spelled as apply-time mutations (default 0.3)
	noCorpus   bool    // check_all campaigns only (budget.go): the corpus was already run by an earlier profile of this process
}

var profiles = map[string]profile{
	"C01": {name: "C01", runsMin: 1, runsMax: 2, pDestroy: 0.3, pNoPrune: 0.3, dry: []Dry{DNone, DNone, DNone, DNone, DNone, DClient, DServer},
		pSSA: 0.2, pInvalid: 0.2, pBadGraph: 0.1, pLiveBad: 0.15, pDeps: 0.2, varied: true, pTimeouts: 0.3, faults: "enum", pCRD: 0.1, pKeep: 0.3, pMassStall: 0.15},
	"C02": {name: "C02", runsMin: 1, runsMax: 2, pDestroy: 0.4, pNoPrune: 0.1, dry: []Dry{DNone},
		pSSA: 0.2, pInvalid: 0.05, pBadGraph: 0.03, pLiveBad: 0.05, pDeps: 0.1, varied: true, pTimeouts: 0.2, faults: "none", pAlias: 0.2, pKeep: 0.35, pEmpty: 0.15},
	"C03": {name: "C03", runsMin: 2, runsMax: 4, pDestroy: 0.25, pNoPrune: 0.15, dry: []Dry{DNone},
		pSSA: 0.2, pInvalid: 0.05, pBadGraph: 0.03, pLiveBad: 0.03, pDeps: 0.15, varied: false, pTimeouts: 0.1, faults: "none", pIdentical: 0.35, pCRD: 0.1, pAlias: 0.03},
	"C04": {name: "C04", runsMin: 1, runsMax: 2, pDestroy: 0.0, pNoPrune: 0.2, dry: []Dry{DNone, DNone, DNone, DNone, DClient},
		pSSA: 0.15, pInvalid: 0.15, pBadGraph: 0.12, pLiveBad: 0.05, pDeps: 0.5, varied: true, pTimeouts: 0.5, faults: "one", pCRD: 0.25, pStall: 0.3},
	"C05": {name: "C05", runsMin: 1, runsMax: 2, pDestroy: 0.5, pNoPrune: 0.0, dry: []Dry{DNone, DNone, DNone, DNone, DClient},
		pSSA: 0.1, pInvalid: 0.05, pBadGraph: 0.05, pLiveBad: 0.12, pDeps: 0.5, varied: true, pTimeouts: 0.5, faults: "one", pCRD: 0.25, pKeep: 0.25, pStall: 0.4, pEmpty: 0.1},
	"C10": {name: "C10", runsMin: 1, runsMax: 3, pDestroy: 0.3, pNoPrune: 0.15, dry: []Dry{DNone, DClient, DClient, DServer, DServer},
		pSSA: 0.5, pInvalid: 0.1, pBadGraph: 0.05, pLiveBad: 0.05, pDeps: 0.35, varied: false, pTimeouts: 0.1, faults: "one", pFault: 0.25, pMut: 0.5},
	"C11": {name: "C11", runsMin: 1, runsMax: 2, pDestroy: 0.35, pNoPrune: 0.15, dry: []Dry{DNone, DNone, DNone, DClient},
		pSSA: 0.15, pInvalid: 0.7, pBadGraph: 0.45, pLiveBad: 0.4, pDeps: 0.35, varied: false, pTimeouts: 0.1, faults: "none", pCRD: 0.15},
	"C12": {name: "C12", runsMin: 1, runsMax: 2, pDestroy: 0.3, pNoPrune: 0.1, dry: []Dry{DNone},
		pSSA: 0.15, pInvalid: 0.05, pBadGraph: 0.03, pLiveBad: 0.03, pDeps: 0.3, varied: true, pTimeouts: 0.6, faults: "none", pCancel: 0.6, pWatchErr: 0.2, pLate: 0.15, pMassStall: 0.35},
	"C13": {name: "C13", runsMin: 1, runsMax: 3, pDestroy: 0.3, pNoPrune: 0.2, dry: []Dry{DNone, DNone, DNone, DNone, DClient, DServer},
		pSSA: 0.2, pInvalid: 0.25, pBadGraph: 0.15, pLiveBad: 0.1, pDeps: 0.3, varied: true, pTimeouts: 0.4, faults: "pairs", pCancel: 0.25, pWatchErr: 0.3, pLate: 0.15, pCRD: 0.1, pKeep: 0.25, pMassStall: 0.15},
	// C06p: the wait verdicts seen through the whole pipeline (check_C06p, merged into the C06 check): objects
	// whose actuation fails or is skipped (rejected filter read, dependency verdicts, rejected apply / delete /
	// annotation removal, keep) followed by waits in which the watcher reports them Current / NotFound / nothing
	"C06p": {name: "C06p", runsMin: 1, runsMax: 2, pDestroy: 0.3, pNoPrune: 0.1, dry: []Dry{DNone},
		pSSA: 0.2, pInvalid: 0.05, pBadGraph: 0.05, pLiveBad: 0.05, pDeps: 0.4, varied: true, pTimeouts: 0.5, faults: "one", pFault: 0.8,
		pKeep: 0.3, pStall: 0.2, budget: 400},
}

func chance(r *rand.Rand, p float64) bool { return r.Float64() < p }

// withErrKind draws the error kind of an injected fault (never 409 on the
// apply path: kubectl's patcher would retry it with back-off).
func withErrKind(r *rand.Rand, a FAddr) FAddr {
	if a.Kind == "FStream" {
		return a // the address is its own error kind
	}
	for {
		a.Err = r.Intn(len(faultErrs))
		if !(a.Kind == "FApply" && faultErrs[a.Err] == 409) {
			return a
		}
	}
}

func (p profile) massStallProb() float64 {
	if p.pMassStall > 0 {
		return p.pMassStall
	}
	return 0.06
}

func (p profile) emptyProb() float64 {
	if p.pEmpty > 0 {
		return p.pEmpty
	}
	return 0.06
}

func (p profile) lateProb() float64 {
	if p.pLate > 0 {
		return p.pLate
	}
	return 0.06
}

// genLate: late status deliveries overlapping the completion of a wait group (see LateSpec).
func genLate(r *rand.Rand, p profile, sc *Scenario, probe RunResult, off bool) {
	sc.Late = nil
	if off || sc.Opts.StatusEvents {
		return
	}
	for k, w := range probe.Waits {
		if len(w.Deliv) > 0 && chance(r, p.lateProb()) {
			sc.Late = append(sc.Late, LateSpec{Wait: k, N: 1 + r.Intn(2), Off: r.Intn(4)})
		}
	}
}

func (p profile) keepProb() float64 {
	if p.pKeep > 0 {
		return p.pKeep
	}
	return 0.15
}

// enableCRD switches the CRD + custom resource entries on.
var enableCRD = os.Getenv("VERIF_PIPELINE_NO_CRD") != "1"

// avoidRetention keeps the generators away from the three-way-merge shape the
// boolean c_applied cannot express (notes/pipeline-discrepancies.md D1): raw
// live objects carry no keep / depends-on attributes and a history uses either
// server-side or client-side apply throughout.
var avoidRetention = os.Getenv("VERIF_PIPELINE_AVOID_RETENTION") == "1"

func quietKlog() {
	fs := flag.NewFlagSet("klog", flag.ContinueOnError)
	klog.InitFlags(fs)
	_ = fs.Set("logtostderr", "false")
	_ = fs.Set("alsologtostderr", "false")
	_ = fs.Set("stderrthreshold", "FATAL")
	klog.SetOutput(io.Discard)
}

// ---- universe / cluster ---------------------------------------------------------------------

// mutProb: share of universe entries whose dependency references are spelled as apply-time mutations
func (p profile) mutProb() float64 {
	if p.pMut > 0 {
		return p.pMut
	}
	return 0.3
}

func genUniverse(r *rand.Rand, p profile) Universe {
	var es []UEntry
	add := func(prob float64, e UEntry) {
		if chance(r, prob) {
			es = append(es, e)
		}
	}
	add(0.45, Entry("Namespace", "", invNS))
	add(0.5, Entry("Namespace", "", otherNS))
	add(0.85, Entry("ConfigMap", invNS, "cm-a"))
	add(0.5, Entry("ConfigMap", invNS, "cm-b"))
	add(0.5, Entry("ConfigMap", otherNS, "cm-a"))
	add(0.3, Entry("Secret", invNS, "sec-a"))
	add(0.25, Entry("Secret", otherNS, "sec-a"))
	add(0.35, Entry("Deployment", invNS, "dep-a"))
	add(0.25, Entry("Deployment", otherNS, "dep-a"))
	add(0.4, Entry("ClusterRole", "", "cr-a"))
	add(0.3, Entry("APIService", "", apiSvcName))
	if chance(r, p.pInvalid) {
		switch r.Intn(7) {
		case 3:
			// an apiVersion the mapper does not know, of a kind it knows; a valid object of that kind is there too
			if !hasEntry(es, "Deployment", invNS, "dep-a") {
				es = append(es, Entry("Deployment", invNS, "dep-a"))
			}
			es = append(es, EntryInvalid("apps/v9", "Deployment", invNS, []string{"dep-0", "dep-v9"}[r.Intn(2)]))
		case 4:
			es = append(es, EntryInvalid("example.io/v1", "Gadget", invNS, "gadget-a"))
		case 5:
			es = append(es, EntryInvalid("v1", "ConfigMap", invNS, "")) // no name
		case 6:
			es = append(es, EntryInvalid("v1", "", invNS, "nokind")) // no kind
		case 0:
			// a Namespace manifest with metadata.namespace set; it replaces the well-formed Namespace of that name
			n := es[:0]
			for _, e := range es {
				if !(e.Kind == KNs && e.Meta.Name == otherNS) {
					n = append(n, e)
				}
			}
			es = append(n, Entry("Namespace", "x", otherNS))
			if !hasEntry(es, "ConfigMap", otherNS, "cm-a") {
				es = append(es, Entry("ConfigMap", otherNS, "cm-a"))
			}
		case 1:
			es = append(es, Entry("ClusterRole", invNS, "cr-bad"))
		case 2:
			es = append(es, Entry("ConfigMap", "", "cm-nons"))
		}
	}
	if enableCRD && chance(r, p.pCRD) {
		es = append(es, Entry("CustomResourceDefinition", "", crdMeta.Name), Entry("Bar", invNS, "bar-a"))
	}
	for i := range es {
		// a finalizer that nobody removes; not on Namespace / CRD objects: a terminating namespace
		// rejects creates and a terminating CRD stops serving its kind, which neither the fake nor the model do
		if (es[i].Kind == KPlain || es[i].Kind == KApiSvc) && !es[i].FInv && chance(r, 0.25) {
			es[i].Fin = true
		}
		// dependency references spelled as apply-time-mutation substitutions (dry-run histories too: the
		// source lookup of the mutator — resource cache, else a GET — is in the model)
		if !es[i].FInv && chance(r, p.mutProb()) {
			es[i].Mut = true
		}
		// the manifests of this id arrive with an owning-inventory annotation on them
		if chance(r, 0.15) {
			es[i].PreOwner = 1 + b2i(chance(r, 0.33))
		}
		// spelling of the keep attribute: the two single spellings most of the time
		if chance(r, 0.55) {
			es[i].KeepVar = 3 + r.Intn(len(keepVariants)-3)
		}
	}
	r.Shuffle(len(es), func(i, j int) { es[i], es[j] = es[j], es[i] })
	if len(es) > 8 {
		es = es[:8]
	}
	if chance(r, 0.15) {
		// two identifiers that differ in the API group only (same kind name, namespace and name)
		if len(es) > 6 {
			es = es[:6]
		}
		a, b := EntryBaz(false, invNS, "baz-x"), EntryBaz(true, invNS, "baz-x")
		if chance(r, 0.5) {
			[]*UEntry{&a, &b}[r.Intn(2)].Fin = true
		}
		es = append(es, a, b)
	}
	if !hasEntry(es, "CustomResourceDefinition", "", crdMeta.Name) {
		// the model takes a custom resource without a CRD entry for a built-in kind: keep the pair together
		n := es[:0]
		for _, e := range es {
			if e.Meta.GroupKind != barGK {
				n = append(n, e)
			}
		}
		es = n
	}
	if len(es) < 2 {
		es = append(es, Entry("ConfigMap", invNS, "cm-a"), Entry("ConfigMap", invNS, "cm-b"))
	}
	return NewUniverse(es)
}

func hasEntry(es []UEntry, kind, ns, name string) bool {
	for _, e := range es {
		if e.Meta.GroupKind.Kind == kind && e.Meta.Namespace == ns && e.Meta.Name == name {
			return true
		}
	}
	return false
}

func genCluster(r *rand.Rand, p profile, u Universe) Cluster {
	c := Cluster{NextUID: 100}
	uid := uint64(1)
	pLive := []float64{0.0, 0.3, 0.6}[r.Intn(3)]
	for i, e := range u {
		if e.FInv || !chance(r, pLive) {
			continue
		}
		if e.Crd >= 0 && c.Find(e.Crd) == nil {
			continue // no custom resource without its CRD object (the CRD has the smaller id)
		}
		o := CObj{ID: i, UID: uid, Ver: 1 + r.Intn(2)}
		applied := chance(r, 0.65)
		uid++
		if len(c.Objs) > 0 && e.Kind == KPlain && chance(r, p.pAlias) {
			// the same object stored under two identifiers (cohabiting API groups): one uid;
			// only between plain kinds (a Namespace or CRD object has no cohabiting twin)
			if t := c.Objs[r.Intn(len(c.Objs))]; u[t.ID].Kind == KPlain {
				o.UID = t.UID
			}
		}
		switch k := r.Intn(10); {
		case k < 6:
			o.Owner = OOurs
		case k < 8:
			o.Owner = ONone
		default:
			o.Owner = OOther
		}
		o.Keep = chance(r, p.keepProb())
		if chance(r, p.pLiveBad) {
			o.BadDep = true
		} else if chance(r, p.pDeps) {
			d := r.Intn(len(u))
			if len(c.Objs) > 0 && chance(r, 0.7) {
				d = c.Objs[r.Intn(len(c.Objs))].ID // a live object: the edge matters for prune / destroy order
			}
			if d != i && u[d].Referable() {
				o.Deps = []int{d}
				// a second reference (seed C05g): a live object whose annotation names one object of the run and one
				// outside it is graph-invalid, yet its edge to the first one must still hold that one back
				if d2 := r.Intn(len(u)); chance(r, 0.35) && d2 != i && d2 != d && u[d2].Referable() {
					if chance(r, 0.5) {
						o.Deps = []int{d, d2}
					} else {
						o.Deps = []int{d2, d}
					}
				}
			}
		}
		if avoidRetention && (o.Keep || o.BadDep || len(o.Deps) > 0) {
			applied = true
		}
		if applied {
			o = o.Applied()
			if !avoidRetention && chance(r, 0.2) {
				// the live object drifted from what was last applied
				switch r.Intn(4) {
				case 0:
					o.Last.Keep = !o.Last.Keep
				case 1:
					o.Last.Ver = 1 + r.Intn(3)
				case 2:
					o.Last.Owner = Owner(r.Intn(3))
				default:
					if len(o.Last.Deps) > 0 {
						o.Last.Deps = nil
					} else if d := r.Intn(len(u)); d != i && !o.Last.BadDep && u[d].Referable() {
						o.Last.Deps = []int{d} // (a malformed annotation has no targets)
					}
				}
			}
		}
		c.Objs = append(c.Objs, o)
	}
	if len(c.Objs) > 0 || chance(r, 0.3) {
		c.HasInv = chance(r, 0.85)
	}
	if n := u.InvNs(); c.HasInv && n >= 0 && c.Find(n) == nil {
		// well-formedness: the stored inventory lives in a namespace that exists
		o := CObj{ID: n, UID: uid, Ver: 1 + r.Intn(2), Owner: []Owner{OOurs, OOurs, ONone, OOther}[r.Intn(4)]}
		if chance(r, 0.65) {
			o = o.Applied()
		}
		uid++
		c.Objs = append(c.Objs, o)
		sort.Slice(c.Objs, func(i, j int) bool { return c.Objs[i].ID < c.Objs[j].ID })
	}
	if c.HasInv {
		c.Inv = []int{}
		for _, o := range c.Objs {
			if (o.Owner == OOurs && chance(r, 0.92)) || (o.Owner != OOurs && chance(r, 0.25)) {
				c.Inv = append(c.Inv, o.ID)
			}
		}
		// tracked but not live
		for i, e := range u {
			if !e.FInv && c.Find(i) == nil && chance(r, 0.08) {
				c.Inv = append(c.Inv, i)
			}
		}
		sort.Ints(c.Inv)
	}
	return c
}

// ---- one run: objects and options -----------------------------------------------------------

func genLocals(r *rand.Rand, p profile, u Universe, cur Cluster) []LObj {
	var ls []LObj
	if cur.HasInv && len(cur.Inv) > 0 && chance(r, p.emptyProb()) {
		// apply nothing / prune everything; half of the time with one object
		// outside the inventory's namespace
		if chance(r, 0.5) {
			var cand []int
			for i, e := range u {
				if !e.FInv && e.Meta.Namespace != invNS && i != u.InvNs() {
					cand = append(cand, i)
				}
			}
			if len(cand) > 0 {
				ls = append(ls, LObj{ID: cand[r.Intn(len(cand))], Ver: 1 + r.Intn(3)})
			}
		}
		return ls
	}
	pIn := []float64{0.35, 0.6, 0.85}[r.Intn(3)]
	order := r.Perm(len(u)) // edges go from later to earlier positions of this permutation: acyclic
	pos := make([]int, len(u))
	for i, x := range order {
		pos[x] = i
	}
	for i, e := range u {
		in := chance(r, pIn)
		if e.FInv {
			in = chance(r, 0.8)
		}
		if i == u.InvNs() && cur.Find(i) == nil {
			in = chance(r, 0.9) // the inventory object needs its namespace
		}
		if !in {
			continue
		}
		l := LObj{ID: i, FInv: e.FInv, Keep: chance(r, 0.1), Ver: 1 + r.Intn(3)}
		if o := cur.Find(i); o != nil && chance(r, 0.5) {
			l.Ver = o.Ver // unchanged content
		}
		ls = append(ls, l)
	}
	in := func(id int) bool {
		for _, l := range ls {
			if l.ID == id {
				return true
			}
		}
		return false
	}
	for k := range ls {
		l := &ls[k]
		if !chance(r, p.pDeps) {
			continue
		}
		n := 1 + r.Intn(2)
		for j := 0; j < n; j++ {
			d := r.Intn(len(u))
			if d == l.ID || !u[d].Referable() {
				continue
			}
			// mostly acyclic and inside the object set
			if pos[d] > pos[l.ID] && !chance(r, p.pBadGraph) {
				continue
			}
			if !in(d) && !chance(r, p.pBadGraph) {
				continue
			}
			l.Deps = append(l.Deps, d)
		}
		if u[l.ID].Mut {
			// the mutation pass skips a repeated source silently (depends-on reports it): no duplicates
			var d []int
			for _, x := range l.Deps {
				if !containsInt(d, x) {
					d = append(d, x)
				}
			}
			l.Deps = d
		} else if len(l.Deps) > 0 && chance(r, p.pBadGraph/2) {
			l.Deps = append(l.Deps, l.Deps[0]) // duplicate
		}
	}
	// a three-layer chain under a mutation-spelled object (a; b on a; c, mutation-spelled, on b and a): the one shape
	// in which the source a can be reported again (while b is waited for) before the mutator of c looks it up
	if chance(r, 0.12) {
		var cs, others []int
		for k, l := range ls {
			if l.FInv || !u[l.ID].Referable() {
				continue
			}
			if u[l.ID].Mut {
				cs = append(cs, k)
			}
			others = append(others, k)
		}
		if len(cs) > 0 && len(others) >= 3 {
			c := cs[r.Intn(len(cs))]
			var ab []int
			for _, k := range others {
				if k != c && pos[ls[k].ID] < pos[ls[c].ID] {
					ab = append(ab, k)
				}
			}
			if len(ab) >= 2 {
				r.Shuffle(len(ab), func(i, j int) { ab[i], ab[j] = ab[j], ab[i] })
				a, b := ab[0], ab[1]
				if pos[ls[a].ID] > pos[ls[b].ID] {
					a, b = b, a
				}
				ls[b].Deps = []int{ls[a].ID}
				ls[c].Deps = []int{ls[b].ID, ls[a].ID}
			}
		}
	}
	for k := range ls {
		if chance(r, p.pBadGraph/3) {
			ls[k].BadDep, ls[k].Deps = true, nil
		}
	}
	if chance(r, 0.3) {
		r.Shuffle(len(ls), func(i, j int) { ls[i], ls[j] = ls[j], ls[i] })
	}
	return ls
}

func containsInt(l []int, x int) bool {
	for _, y := range l {
		if x == y {
			return true
		}
	}
	return false
}

func genOpts(r *rand.Rand, p profile, k int, histSSA, allowDry bool) Opts {
	ssa := chance(r, p.pSSA)
	if avoidRetention {
		ssa = histSSA
	}
	o := Opts{Prune: !chance(r, p.pNoPrune), Policy: Policy(r.Intn(3)), ValPol: ValPol(r.Intn(2)),
		Dry: p.dry[r.Intn(len(p.dry))], SSA: ssa, StatusEvents: chance(r, 0.25),
		Prop: Prop(r.Intn(3)), StatusPolicyAll: chance(r, 0.3)}
	if o.Prop == PropBackground && chance(r, 0.4) {
		o.PropUnset = true // the option left empty: the defaulting of applier.go / destroyer.go (mutation campaign mutE)
	}
	if !allowDry {
		o.Dry = DNone
	} else if o.Dry == DNone {
		o.Dry = p.dry[r.Intn(len(p.dry))] // histories that allow dry-run are fewer: draw again
	}
	if chance(r, p.pTimeouts) {
		o.RecTimeout, o.PruneTimeout = chance(r, 0.7), chance(r, 0.7)
		if p.pStall > 0 {
			o.RecTimeout, o.PruneTimeout = true, true
		}
	}
	pd := p.pDestroy
	if k == 0 && p.runsMax > 2 {
		pd /= 3
	}
	if chance(r, pd) {
		o.Destroy, o.Prune, o.SSA, o.RecTimeout = true, true, false, false
	}
	if avoidRetention && ssa && o.Dry == DClient {
		// client dry-run takes the client-side path; it sends nothing, so it cannot mix
	}
	return o
}

// ---- environment from a probe ------------------------------------------------------------------

// waitIsPrune tells for every wait index of the plan whether it follows a prune group.
func waitKinds(plan []planGroup) map[int]bool {
	m := map[int]bool{}
	for i, g := range plan {
		if g.Kind == "GWait" {
			m[g.N] = i > 0 && plan[i-1].Kind == "GPrune"
		}
	}
	return m
}

func genWait(r *rand.Rand, base WSched, prune bool, timeoutOn, varied bool) WSched {
	var per [][]SObs
	unresolved := false
	for _, d := range base.Deliv {
		var seq []SObs
		k := 0
		if varied {
			k = r.Intn(12)
		}
		if prune && d.St == STerminating {
			// held by a finalizer (the probe saw it linger): it is never reported
			// NotFound, so the wait can only end by its timeout or by cancellation
			term := SObs{ID: d.ID, St: STerminating, Body: true, UID: d.UID, Gen: objGen}
			unresolved = true
			switch k % 5 {
			case 0:
				seq = []SObs{term}
			case 1:
				seq = []SObs{term, term}
			case 2:
				// silent
			case 3:
				seq = []SObs{{ID: d.ID, St: SUnknown}, term}
			default:
				seq = []SObs{{ID: d.ID, St: SFailed, Body: true, UID: d.UID, Gen: objGen}, term}
			}
		} else if prune {
			gone := SObs{ID: d.ID, St: SNotFound}
			switch k {
			case 0, 1, 2, 3, 4:
				seq = []SObs{gone}
			case 5, 6:
				seq = []SObs{{ID: d.ID, St: STerminating, Body: true, UID: d.UID, Gen: objGen}, gone}
			case 7:
				unresolved = true
			case 8:
				seq = []SObs{{ID: d.ID, St: SCurrent, Body: true, UID: d.UID + 50, Gen: objGen}} // recreated by somebody else
			case 9:
				seq = []SObs{{ID: d.ID, St: SInProgress, Body: true, UID: d.UID, Gen: objGen}}
				unresolved = true
			case 10:
				seq = []SObs{{ID: d.ID, St: SFailed, Body: true, UID: d.UID, Gen: objGen}, gone}
			default:
				seq = []SObs{{ID: d.ID, St: SUnknown}, gone}
			}
		} else {
			cur := d
			switch k {
			case 0, 1, 2, 3:
				seq = []SObs{cur}
			case 4, 5:
				seq = []SObs{{ID: d.ID, St: SInProgress, Body: true, UID: d.UID, Gen: objGen}, cur}
			case 6:
				unresolved = true
			case 7:
				seq = []SObs{{ID: d.ID, St: SFailed, Body: true, UID: d.UID, Gen: objGen}}
				if chance(r, 0.5) {
					seq = append(seq, cur)
				}
			case 8:
				seq = []SObs{{ID: d.ID, St: SCurrent, Body: true, UID: d.UID, Gen: objGen - 1}, cur} // stale generation
			case 9:
				seq = []SObs{{ID: d.ID, St: SCurrent, Body: true, UID: d.UID + 50, Gen: objGen}} // replaced
				if chance(r, 0.5) {
					seq = append([]SObs{cur}, seq...)
				}
				if chance(r, 0.3) {
					seq = append(seq, cur)
				}
			case 10:
				seq = []SObs{{ID: d.ID, St: SCurrent}, cur} // no body: generation 0
			default:
				seq = []SObs{cur, {ID: d.ID, St: SInProgress, Body: true, UID: d.UID, Gen: objGen}} // regresses
				if chance(r, 0.6) {
					seq = append(seq, cur)
				} else {
					unresolved = true
				}
			}
		}
		per = append(per, seq)
	}
	// interleave, keeping each object's own order
	var out []SObs
	for {
		var live []int
		for i, s := range per {
			if len(s) > 0 {
				live = append(live, i)
			}
		}
		if len(live) == 0 {
			break
		}
		i := live[0]
		if varied {
			i = live[r.Intn(len(live))]
		}
		out = append(out, per[i][0])
		per[i] = per[i][1:]
	}
	if len(out) > 8 {
		out = out[:8]
	}
	w := WSched{Deliv: out, End: WCancel}
	if timeoutOn && (unresolved && chance(r, 0.7) || chance(r, 0.3)) {
		w.End = WTimeout
	}
	return w
}

// aliasTwins: apply objects that share their uid with a tracked live object outside the apply
// set (the same object under another identifier: a prune candidate the CurrentUIDFilter spares).
func aliasTwins(cur Cluster, o Opts, local []LObj) []int {
	var out []int
	if o.Destroy || !o.Prune || !cur.HasInv {
		return nil
	}
	in := map[int]bool{}
	for _, l := range local {
		in[l.ID] = true
	}
	for _, l := range local {
		c := cur.Find(l.ID)
		if c == nil {
			continue
		}
		for _, x := range cur.Objs {
			if x.ID != l.ID && x.UID == c.UID && !in[x.ID] && containsInt(cur.Inv, x.ID) {
				out = append(out, l.ID)
				break
			}
		}
	}
	return out
}

func genEnv(r *rand.Rand, p profile, op *Opts, cur Cluster, probe RunResult, local []LObj) Env {
	o := *op
	env := Env{WatchErrAt: -1}
	kinds := waitKinds(probe.Plan)
	for k, base := range probe.Waits {
		for _, d := range base.Deliv {
			if kinds[k] && d.St == STerminating && !op.PruneTimeout && chance(r, 0.7) {
				op.PruneTimeout = true // a finalizer-held object: let the wait time out rather than abort the run
				o = *op
			}
		}
	}
	for k, base := range probe.Waits {
		prune := kinds[k]
		if prune {
			// deliveries about deleted objects carry the uid the object had before the run
			base.Deliv = append([]SObs(nil), base.Deliv...)
			for i := range base.Deliv {
				if c := cur.Find(base.Deliv[i].ID); c != nil {
					base.Deliv[i].UID = c.UID
				}
			}
		}
		timeoutOn := (prune && o.PruneTimeout) || (!prune && o.RecTimeout)
		env.Waits = append(env.Waits, genWait(r, base, prune, timeoutOn, p.varied))
	}
	// the applied twin of a uid alias: Current, Failed, InProgress until the timeout, or silence
	for _, t := range aliasTwins(cur, *op, local) {
		for k := range env.Waits {
			if kinds[k] {
				continue
			}
			var mine *SObs
			for i := range probe.Waits[k].Deliv {
				if probe.Waits[k].Deliv[i].ID == t {
					mine = &probe.Waits[k].Deliv[i]
				}
			}
			if mine == nil {
				continue
			}
			mode := r.Intn(4)
			if mode == 0 {
				continue
			}
			var ds []SObs
			for _, d := range env.Waits[k].Deliv {
				if d.ID != t {
					ds = append(ds, d)
				}
			}
			switch mode {
			case 1:
				ds = append(ds, SObs{ID: t, St: SFailed, Body: true, UID: mine.UID, Gen: objGen})
			case 2:
				ds = append(ds, SObs{ID: t, St: SInProgress, Body: true, UID: mine.UID, Gen: objGen})
			}
			env.Waits[k].Deliv = ds
			if mode >= 2 {
				op.RecTimeout = true
				env.Waits[k].End = WTimeout
			}
		}
	}
	// a stalled layer: one object of a wait that has a successor layer never
	// reconciles and the wait times out, so the next layer meets a dependency
	// (apply) or dependent (prune) whose reconcile timed out
	for k := range env.Waits {
		prune := kinds[k]
		timeoutOn := (prune && o.PruneTimeout) || (!prune && o.RecTimeout)
		if !timeoutOn || k+1 >= len(env.Waits) || kinds[k+1] != prune || len(env.Waits[k].Deliv) == 0 || !chance(r, p.pStall) {
			continue
		}
		w := &env.Waits[k]
		victim := w.Deliv[r.Intn(len(w.Deliv))].ID
		var keep []SObs
		for _, d := range w.Deliv {
			if d.ID != victim {
				keep = append(keep, d)
			}
		}
		w.Deliv, w.End = keep, WTimeout
	}
	// a mass stall: a wait over two or more objects runs into its timeout with
	// most of them pending (no deliveries, or deliveries that do not reconcile)
	if chance(r, p.massStallProb()) {
		var wide []int
		for k, w := range probe.Waits {
			if len(w.Deliv) >= 2 {
				wide = append(wide, k)
			}
		}
		if len(wide) > 0 {
			k := wide[r.Intn(len(wide))]
			prune := kinds[k]
			if prune {
				op.PruneTimeout = true
			} else {
				op.RecTimeout = true
			}
			var ds []SObs
			spare := -1
			if len(probe.Waits[k].Deliv) > 2 && chance(r, 0.4) {
				spare = r.Intn(len(probe.Waits[k].Deliv)) // one object of the layer does reconcile
			}
			for i, d := range probe.Waits[k].Deliv {
				uid := d.UID
				if c := cur.Find(d.ID); prune && c != nil {
					uid = c.UID
				}
				switch {
				case i == spare:
					ds = append(ds, d)
				case chance(r, 0.5):
					// silent
				case prune:
					ds = append(ds, SObs{ID: d.ID, St: STerminating, Body: true, UID: uid, Gen: objGen})
				default:
					ds = append(ds, SObs{ID: d.ID, St: SInProgress, Body: true, UID: uid, Gen: objGen})
				}
			}
			env.Waits[k] = WSched{Deliv: ds, End: WTimeout}
		}
	}
	foreignDeliveries(r, probe, local, &env, cur.NextUID)
	if chance(r, p.pCancel) {
		var targets, dels []int
		for _, a := range probe.Addrs {
			if a.Kind == "FApply" || a.Kind == "FDelete" {
				targets = append(targets, a.I)
			}
			if a.Kind == "FDelete" {
				dels = append(dels, a.I)
			}
		}
		if len(dels) > 0 && chance(r, 0.5) {
			targets = dels
		}
		switch k := r.Intn(10); {
		case k < 2:
			// (a dry-run uses the blind status watcher: the scripted one is never asked)
			env.Cancel = CancelPt{Kind: CBeforeSync, ByWatcher: chance(r, 0.5) && op.Dry == DNone}
		case k < 7 && len(targets) > 0:
			env.Cancel = CancelPt{Kind: CDuringReq, I: targets[r.Intn(len(targets))]}
		default:
			// cancellation while waiting: cut a wait short and end it with WCancel
			if len(env.Waits) > 0 {
				k := r.Intn(len(env.Waits))
				w := &env.Waits[k]
				w.Deliv = w.Deliv[:r.Intn(len(w.Deliv)+1)]
				w.End = WCancel
			}
		}
	}
	if chance(r, p.pWatchErr) && len(env.Waits) > 0 {
		env.WatchErrAt = r.Intn(len(env.Waits))
	}
	pf := 0.5
	if p.pFault > 0 {
		pf = p.pFault
	}
	// stream errors (every profile): the apply PATCH of an APIService dies and the fallback runs, half of the
	// time with one of the fallback's own requests rejected as well; rarely the PATCH of another kind dies
	for _, a := range probe.Addrs {
		if a.Kind == "FStream" && a.N == 0 && chance(r, 0.5) {
			env.Faults = append(env.Faults, a)
			if fb := fallbackFaults(o, probe, a.I); chance(r, 0.5) {
				env.Faults = append(env.Faults, withErrKind(r, fb[r.Intn(len(fb))]))
			}
		}
	}
	if ssaMode(o) && chance(r, 0.04) {
		var cand []FAddr
		for _, a := range probe.Addrs {
			if a.Kind == "FApply" {
				cand = append(cand, FAddr{Kind: "FStream", I: a.I, N: 0})
			}
		}
		if len(cand) > 0 {
			env.Faults = append(env.Faults, cand[r.Intn(len(cand))])
		}
	}
	if p.faults == "one" && len(probe.Addrs) > 0 && chance(r, pf) {
		cand := probe.Addrs
		if p.pFault > 0 && chance(r, 0.8) {
			// the requests about single objects: reads, applies, deletes, annotation removals
			var obj []FAddr
			for _, a := range probe.Addrs {
				if a.Kind == "FGet" || a.Kind == "FApply" || a.Kind == "FDelete" || a.Kind == "FUpdate" {
					obj = append(obj, a)
				}
			}
			if len(obj) > 0 {
				cand = obj
			}
		}
		env.Faults = []FAddr{withErrKind(r, cand[r.Intn(len(cand))])}
	}
	return env
}

// applyLayerOf maps every object of an apply group to the index of the wait group that follows its apply
// group (-1 entries: none, dry-run).
func applyWaitOf(plan []planGroup) map[int]int {
	m := map[int]int{}
	for i, g := range plan {
		if g.Kind == "GApply" && i+1 < len(plan) && plan[i+1].Kind == "GWait" {
			for _, id := range g.IDs {
				m[id] = plan[i+1].N
			}
		}
	}
	return m
}

// nextGet: the address of the next GET of object i after those the probe saw.
func nextGet(probe RunResult, i int) FAddr {
	n := 0
	for _, a := range probe.Addrs {
		if a.Kind == "FGet" && a.I == i {
			n++
		}
	}
	return FAddr{Kind: "FGet", I: i, N: n}
}

// foreignDeliveries: while a LATER apply group is being waited for, the watcher reports the source j of an
// apply-time mutation once more (j was reconciled by its own, earlier wait; the dependency filter reads the
// actuation table, which no longer follows j — only the resource cache does). When the entry stops being
// "Current with a body" the mutator of a dependent in a still later group reads j from the cluster: the one
// way to a source GET outside dry-run. Half of the time that GET is rejected.
func foreignDeliveries(r *rand.Rand, probe RunResult, local []LObj, env *Env, nextUID uint64) {
	wOf := applyWaitOf(probe.Plan)
	univ := probe.Univ
	for _, l := range local {
		if l.ID >= len(univ) || !univ[l.ID].Mut {
			continue
		}
		wl, ok := wOf[l.ID]
		if !ok {
			continue
		}
		for _, j := range l.Deps {
			wj, ok := wOf[j]
			if !ok || wj+1 >= wl || wl > len(env.Waits) || !chance(r, 0.6) {
				continue
			}
			k := wj + 1 + r.Intn(wl-wj-1) // a wait strictly between j's own wait and the apply group of l
			if k >= len(env.Waits) {
				continue
			}
			var uid uint64
			for _, d := range probe.Waits[wj].Deliv {
				if d.ID == j {
					uid = d.UID
				}
			}
			body := func(st Kst) SObs { return SObs{ID: j, St: st, Body: true, UID: uid, Gen: objGen} }
			var seq []SObs
			switch v := r.Intn(7); {
			case v == 0:
				seq = []SObs{body(SInProgress)}
			case v == 1:
				seq = []SObs{{ID: j, St: SUnknown}}
			case v == 2 && !univ[j].Fin:
				seq = []SObs{{ID: j, St: SNotFound}} // the watcher lost sight of it; the object is there
			case v == 3:
				seq = []SObs{{ID: j, St: SCurrent}} // Current, but no body
			case v == 4:
				seq = []SObs{body(SFailed)}
			case v == 5:
				seq = []SObs{body(SInProgress), body(SCurrent)} // back to Current: the cache serves the source again
			default:
				seq = []SObs{body(STerminating)}
			}
			w := &env.Waits[k]
			at := 0
			if len(w.Deliv) > 0 && chance(r, 0.3) {
				at = r.Intn(len(w.Deliv))
			}
			w.Deliv = append(append(append([]SObs(nil), w.Deliv[:at]...), seq...), w.Deliv[at:]...)
			if chance(r, 0.5) {
				env.Faults = append(env.Faults, withErrKind(r, nextGet(probe, j)))
			}
		}
	}
}

// ssaMode: kubectl takes its server-side branch (server dry-run, or the option without client dry-run).
func ssaMode(o Opts) bool { return o.Dry == DServer || (o.SSA && o.Dry == DNone) }

// fallbackFaults lists the addresses of the requests the APIService fallback for object i makes after the
// apply PATCH died: under server dry-run a second apply PATCH, otherwise a read (the next GET of the object
// after those the probe saw) and the POST / PATCH.
func fallbackFaults(o Opts, probe RunResult, i int) []FAddr {
	if o.Dry == DServer {
		return []FAddr{{Kind: "FStream", I: i, N: 1}, {Kind: "FApply", I: i}}
	}
	n := 0
	for _, a := range probe.Addrs {
		if a.Kind == "FGet" && a.I == i {
			n++
		}
	}
	return []FAddr{{Kind: "FGet", I: i, N: n}, {Kind: "FApply", I: i}}
}

// ---- shapes the implementation decides by map iteration order -------------------------------------

// planEdges recomputes, the way graph.DependencyGraph does, the explicit and
// implicit edges of the planned objects of a run and which of them are
// graph-invalid (malformed, duplicate or external depends-on, or on a cycle).
func planEdges(u Universe, cur Cluster, sc Scenario) (ids []int, isPrune map[int]bool, edges map[int][]int, invalid map[int]bool) {
	isPrune, edges, invalid = map[int]bool{}, map[int][]int{}, map[int]bool{}
	type pobj struct {
		id   int
		deps []int
		bad  bool
	}
	var objs []pobj
	local := map[int]bool{}
	if !sc.Opts.Destroy {
		for _, l := range sc.Local {
			local[l.ID] = true
			if !l.FInv {
				objs = append(objs, pobj{l.ID, l.Deps, l.BadDep})
			}
		}
	}
	if cur.HasInv {
		for _, i := range cur.Inv {
			if c := cur.Find(i); c != nil && !local[i] {
				objs = append(objs, pobj{i, c.Deps, c.BadDep})
				isPrune[i] = true
			}
		}
	}
	in := map[int]bool{}
	for _, o := range objs {
		in[o.id] = true
		ids = append(ids, o.id)
	}
	for _, o := range objs {
		if n := u[o.id].NsObj; n >= 0 && in[n] {
			edges[o.id] = append(edges[o.id], n)
		}
		if n := u[o.id].Crd; n >= 0 && in[n] {
			edges[o.id] = append(edges[o.id], n)
		}
		if o.bad {
			invalid[o.id] = true
			continue
		}
		seen := map[int]bool{}
		for _, d := range o.deps {
			switch {
			case seen[d]:
				invalid[o.id] = true
			case !in[d]:
				invalid[o.id] = true
				seen[d] = true
			default:
				seen[d] = true
				edges[o.id] = append(edges[o.id], d)
			}
		}
	}
	// cycle members
	rem := map[int]bool{}
	for _, i := range ids {
		rem[i] = true
	}
	for {
		var leaves []int
		for i := range rem {
			leaf := true
			for _, d := range edges[i] {
				if rem[d] {
					leaf = false
				}
			}
			if leaf {
				leaves = append(leaves, i)
			}
		}
		if len(leaves) == 0 {
			break
		}
		for _, i := range leaves {
			delete(rem, i)
		}
	}
	for i := range rem {
		invalid[i] = true
	}
	return
}

// orderDependent reports a prune object with two dependents among the prune
// objects of which one is graph-invalid and one is not: Graph.Dependents
// returns them in the map iteration order of the inventory, so whether the
// delete is reported Failed or Skipped is not determined by the scenario.
func orderDependent(u Universe, cur Cluster, sc Scenario) bool {
	ids, isPrune, edges, invalid := planEdges(u, cur, sc)
	for _, a := range ids {
		if !isPrune[a] {
			continue
		}
		nInv, nVal := 0, 0
		for _, b := range ids {
			if !isPrune[b] {
				continue
			}
			for _, d := range edges[b] {
				if d == a {
					if invalid[b] {
						nInv++
					} else {
						nVal++
					}
					break
				}
			}
		}
		if nInv > 0 && nVal > 0 {
			return true
		}
	}
	// Graph.Dependents lists the depends-on spelled dependents first and the
	// mutation-spelled ones after them (two passes); the model uses object order.
	// The order decides Failed vs Skipped only when a graph-invalid and a valid
	// dependent meet.
	for _, a := range ids {
		nInv, nVal, mut := 0, 0, false
		for _, b := range ids {
			for _, d := range edges[b] {
				if d == a {
					mut = mut || u[b].Mut
					if invalid[b] {
						nInv++
					} else {
						nVal++
					}
					break
				}
			}
		}
		// (also without a mutation spelling: implicit namespace / CRD edges are inserted before the
		// depends-on edges, so a prune object's dependents are not in object order either)
		_ = mut
		if isPrune[a] && nInv > 0 && nVal > 0 {
			return true
		}
	}
	return false
}

// wellFormed: a stored inventory lives in a namespace whose Namespace object
// (when it is part of the universe) exists. The fake server, like the model,
// does not check namespaces on create, so a run can leave such a cluster
// behind (the inventory namespace was invalid or failed to apply); no further
// run is started from it.
func wellFormed(u Universe, c Cluster) bool {
	// a custom resource exists only while its CRD object does (a real server removes the
	// resources with the definition; the fake does not)
	for _, o := range c.Objs {
		if d := u[o.ID].Crd; d >= 0 && c.Find(d) == nil {
			return false
		}
	}
	n := u.InvNs()
	return !c.HasInv || n < 0 || c.Find(n) != nil
}

// ---- collecting -------------------------------------------------------------------------------

type collector struct {
	prop      string
	sum       *emit.Summary
	hist      []History
	runs      int
	flaky     []string
	failures  []string
	probes    int
	execTime  time.Duration
	baseG     int
	checkBoth bool
	thorough  bool
	results   []RunResult // kept to look for late requests at the end
	execs     int
	twice     int
	// reuse: one Applier and one Destroyer object serve all runs of the current history
	// (sessB; sessA serves the first executions of the runs that are executed twice)
	sessA, sessB *Session
	hung         int // runs that hit the watchdog; after three, no more late scripts (each hang costs the watchdog period)
}

// run executes a scenario on the store; with checkBoth it is first executed
// on a copy and the two traces are compared (determinism check).
func (c *collector) run(st *Store, sc Scenario) RunResult {
	t0 := time.Now()
	var first *RunResult
	c.execs++
	if c.checkBoth && (c.execs%2 == 1 || c.runs < 40) {
		r1 := execRun(st.Clone(), sc, false, c.sessA)
		first = &r1
	}
	res := execRun(st, sc, false, c.sessB)
	c.execTime += time.Since(t0)
	c.runs++
	c.results = append(c.results, res)
	if first != nil {
		c.results = append(c.results, *first)
	}
	if first != nil {
		c.twice++
	}
	if first != nil && first.Out.Coq() != res.Out.Coq() {
		// a third execution is not possible on the same state; report both
		c.flaky = append(c.flaky, fmt.Sprintf("%s\n   A: %s\n   B: %s", sc.Text(), first.Out.Text(), res.Out.Text()))
		c.sum.Count("flaky")
	}
	for _, f := range res.Failures {
		c.failures = append(c.failures, f+" [in: "+sc.Text()+"]")
	}
	if res.Hung || (first != nil && first.Hung) {
		c.hung++
	}
	if len(sc.Late) > 0 {
		c.sum.Count("late:run-with-late-script")
		if res.LateSent > 0 {
			c.sum.Count("late:run-with-late-status-taken")
		}
	}
	if res.SelfClosed > 0 {
		c.sum.Count("watcher:closed-by-itself-after-fatal-error")
	}
	if n, ok := settleGoroutines(c.baseG, 300*time.Millisecond); !ok {
		c.failures = append(c.failures, fmt.Sprintf("goroutine leak: %d goroutines after the run, %d before [in: %s]", n, c.baseG, sc.Text()))
		c.baseG = n
	}
	return res
}

func (c *collector) count(sc Scenario, res RunResult) {
	s := c.sum
	o := sc.Opts
	if o.Destroy {
		s.Count("mode:destroy")
	} else if o.Prune {
		s.Count("mode:apply+prune")
	} else {
		s.Count("mode:apply-noprune")
	}
	s.Count("policy:" + o.Policy.Coq())
	s.Count("dry:" + o.Dry.Coq())
	s.Count("valpol:" + o.ValPol.Coq())
	if o.SSA {
		s.Count("ssa")
	}
	if o.StatusPolicyAll {
		s.Count("statuspolicy:all")
	}
	for _, it := range res.Out.Trace {
		if strings.HasPrefix(it.Text, "REQ RDelete ") && strings.Contains(it.Text, " ok ") {
			var id int
			fmt.Sscanf(strings.Fields(it.Text)[2], "%d", &id)
			if id < len(sc.Univ) && sc.Univ[id].Fin {
				s.Count("fin:delete-accepted-object-lingers")
				break
			}
		}
	}
	for _, e := range sc.Univ {
		if e.Fin {
			s.Count("fin:run-over-universe-with-fin")
			break
		}
	}
	for _, l := range sc.Local {
		if sc.Univ[l.ID].Mut && len(l.Deps) > 0 {
			s.Count("mut:run-with-mutation-spelled-dependency")
			if o.Dry != DNone {
				s.Count("mut:dry-run-with-mutation-spelled-dependency")
			}
			break
		}
	}
	// the source lookups of the apply-time mutator: GETs it sent (seen by the fake server), and the sources
	// of the objects whose mutation went through that needed no GET (taken from the resource cache)
	if !o.Destroy {
		lookups, mutFailed := 0, 0
		for _, l := range sc.Local {
			if !sc.Univ[l.ID].Mut || len(l.Deps) == 0 {
				continue
			}
			for _, it := range res.Out.Trace {
				if strings.HasPrefix(it.Text, "EV apply ") {
					f := strings.Fields(it.Text)
					if f[3] == fmt.Sprint(l.ID) {
						if strings.HasPrefix(f[4], "AFail(failed to mutate") {
							mutFailed++
						} else if !strings.HasPrefix(f[4], "ASkip") && !strings.Contains(it.Text, "AFail(unknown") && !strings.Contains(it.Text, "filter") {
							// the filters passed and every source was found
							if strings.HasPrefix(f[4], "AOk") || strings.HasPrefix(f[4], "AFail(failed to apply") {
								lookups += len(l.Deps)
							}
						}
					}
				}
			}
		}
		addN(s, "mut:source-get", res.MutGets["ok"])
		addN(s, "mut:source-missing", res.MutGets["missing"])
		addN(s, "mut:source-get-rejected", res.MutGets["rejected"])
		if n := lookups - res.MutGets["ok"]; n > 0 {
			addN(s, "mut:source-from-cache", n)
		}
		addN(s, "mut:apply-failed-by-mutation", mutFailed)
		if res.MutGets["ok"] > 0 && o.Dry == DNone {
			s.Count("mut:run-with-source-get-outside-dry-run")
		}
	}
	for k, w := range sc.Env.Waits {
		if f := foreignIn(res.Plan, k, w); f > 0 {
			s.Count("mut:wait-with-delivery-about-an-earlier-group")
		}
	}
	s.Count(fmt.Sprintf("faults:%d", len(sc.Env.Faults)))
	for _, f := range sc.Env.Faults {
		s.Count("fault:" + f.Kind)
		if f.Kind == "FStream" {
			s.Count("fault-error:stream")
		} else {
			s.Count(fmt.Sprintf("fault-error:%d", faultErrs[f.Err]))
		}
	}
	for _, l := range sc.Local {
		if sc.Univ[l.ID].Kind != KApiSvc {
			continue
		}
		s.Count("apisvc:run-with-apiservice-in-apply-set")
		// the fallback ran iff a rejected apply PATCH of the APIService is followed by its apply result event
		// with the server-side option on; what it did shows in the requests in between
		died, after := false, ""
		for _, it := range res.Out.Trace {
			switch {
			case strings.HasPrefix(it.Text, fmt.Sprintf("REQ RPatch %d ssa=true ", l.ID)) && strings.Contains(it.Text, "REJECTED") && !died:
				died = true
			case died && strings.HasPrefix(it.Text, "REQ ") && len(strings.Fields(it.Text)) > 2 && strings.Fields(it.Text)[2] == fmt.Sprint(l.ID):
				after += strings.Fields(it.Text)[1]
				if strings.Contains(it.Text, "REJECTED") {
					after += "(rejected)"
				}
				after += " "
			}
		}
		stream := false
		for _, f := range sc.Env.Faults {
			if f.Kind == "FStream" && f.I == l.ID && f.N == 0 {
				stream = true
			}
		}
		if died && stream && o.SSA {
			s.Count("apisvc:fallback after stream error: " + strings.TrimSpace(after))
		}
	}
	switch sc.Env.Cancel.Kind {
	case CBeforeSync:
		s.Count("cancel:before-sync")
		if sc.Env.Cancel.ByWatcher {
			s.Count("cancel:before-sync-spelled-as-watcher-error")
		}
	case CDuringReq:
		s.Count("cancel:during-request")
		for _, it := range res.Out.Trace {
			if strings.HasPrefix(it.Text, fmt.Sprintf("REQ RDelete %d ", sc.Env.Cancel.I)) {
				s.Count("cancel:during-delete-request")
				break
			}
		}
	}
	if sc.Env.WatchErrAt >= 0 {
		s.Count("watcher-error")
	}
	seen := map[string]bool{}
	for _, it := range res.Out.Trace {
		var k string
		switch {
		case strings.HasPrefix(it.Text, "REQ "):
			f := strings.Fields(it.Text)
			k = "req:" + strings.SplitN(f[1], "[", 2)[0]
			if strings.Contains(it.Text, "REJECTED") {
				k += ":rejected"
			}
		case strings.HasPrefix(it.Text, "EV apply"), strings.HasPrefix(it.Text, "EV prune"), strings.HasPrefix(it.Text, "EV delete"), strings.HasPrefix(it.Text, "EV wait"):
			f := strings.Fields(it.Text)
			k = "ev:" + f[1] + ":" + strings.SplitN(f[4], "(", 2)[0]
		case strings.HasPrefix(it.Text, "EV error"):
			k = "ending:error"
		case strings.HasPrefix(it.Text, "EV validation"):
			k = "ev:validation"
		case strings.HasPrefix(it.Text, "DELIV"):
			k = "delivery"
		}
		if k != "" && !seen[k] {
			seen[k] = true
			s.Count(k)
		}
	}
	if !seen["ending:error"] {
		s.Count("ending:clean")
	}
	if len(res.Plan) == 0 {
		s.Count("ending:before-plan")
	}
}

func addN(s *emit.Summary, key string, n int) {
	if n > 0 {
		s.Distribution[key] += n
	}
}

// foreignIn counts the deliveries of wait k that are about objects outside its group.
func foreignIn(plan []planGroup, k int, w WSched) int {
	n := 0
	for _, g := range plan {
		if g.Kind == "GWait" && g.N == k {
			for _, d := range w.Deliv {
				if !containsInt(g.IDs, d.ID) {
					n++
				}
			}
		}
	}
	return n
}

func (c *collector) add(h History) {
	c.hist = append(c.hist, h)
}

// ---- base histories and their variants -------------------------------------------------------------

// reuse switches the current history to shared Applier / Destroyer objects; the
// returned function ends it.
func (c *collector) reuse() func() {
	a, errA := NewSession()
	b, errB := NewSession()
	if errA != nil || errB != nil {
		c.failures = append(c.failures, fmt.Sprintf("harness: session: %v %v", errA, errB))
		return func() {}
	}
	c.sessA, c.sessB = a, b
	c.sum.Count("reuse:history-with-one-applier-object")
	return func() {
		a.Close()
		b.Close()
		c.sessA, c.sessB = nil, nil
	}
}

// fixedRun is a run of the corpus: objects and options are given, the
// environment is derived from the probe (everything reconciles) plus the
// given faults.
type fixedRun struct {
	local    []LObj
	opts     Opts
	faults   []FAddr
	cancel   CancelPt
	watchErr int // wait index + 1 (0 = none)
	late     []LateSpec
	stall    []int          // ids that get no deliveries; their wait ends by its timeout
	replace  map[int][]SObs // ids whose deliveries are replaced by the given ones
	foreign  map[int][]SObs // wait index -> deliveries (about objects of other groups) put in front of its script
	lastGet  []int          // reject the last GET of these objects that the probe saw
	nextGet  []int          // reject the GET of these objects that follows those the probe saw
	getErr   int            // error kind of the rejections asked for by lastGet / nextGet
}

// dropStalled removes the deliveries of the stalled ids; their wait then ends by its timeout.
func dropStalled(ds []SObs, stall []int, end WEnd) ([]SObs, WEnd) {
	var keep []SObs
	for _, d := range ds {
		if containsInt(stall, d.ID) {
			end = WTimeout
		} else {
			keep = append(keep, d)
		}
	}
	return keep, end
}

func (c *collector) fixedHistory(u Universe, init Cluster, runs []fixedRun) {
	c.fixedHistoryR(u, init, runs, false)
}

func (c *collector) fixedHistoryR(u Universe, init Cluster, runs []fixedRun, reuse bool) {
	st := NewStore(u, init)
	h := History{Univ: u, Initial: init, Reuse: reuse}
	if reuse {
		defer c.reuse()()
	}
	for _, fr := range runs {
		sc := Scenario{Univ: u, Local: fr.local, Opts: fr.opts}
		probe := Probe(st, sc)
		c.probes++
		sc.Env = Env{WatchErrAt: fr.watchErr - 1, Waits: append([]WSched(nil), probe.Waits...), Faults: fr.faults, Cancel: fr.cancel}
		kinds := waitKinds(probe.Plan)
		for k := range sc.Env.Waits {
			w := &sc.Env.Waits[k]
			w.End = WCancel
			for id, ds := range fr.replace {
				var keep []SObs
				hit := false
				for _, d := range w.Deliv {
					if d.ID == id {
						hit = true
					} else {
						keep = append(keep, d)
					}
				}
				if hit {
					w.Deliv = append(keep, ds...)
				}
			}
			if len(fr.replace) == 0 {
				w.Deliv, w.End = dropStalled(w.Deliv, fr.stall, w.End)
			} else {
				for _, d := range w.Deliv {
					if containsInt(fr.stall, d.ID) {
						w.End = WTimeout // the replaced deliveries do not reconcile the object
					}
				}
			}
			if w.End == WTimeout && !fr.opts.RecTimeout && !fr.opts.PruneTimeout {
				w.End = WCancel // nothing would ever end the wait
			}
			for _, d := range w.Deliv {
				if kinds[k] && d.St == STerminating && fr.opts.PruneTimeout {
					w.End = WTimeout // lingers until the timeout
				}
			}
		}
		for k, ds := range fr.foreign {
			if k < len(sc.Env.Waits) {
				sc.Env.Waits[k].Deliv = append(append([]SObs(nil), ds...), sc.Env.Waits[k].Deliv...)
			}
		}
		for _, i := range fr.lastGet {
			if a := nextGet(probe, i); a.N > 0 {
				a.N--
				a.Err = fr.getErr
				sc.Env.Faults = append(append([]FAddr(nil), sc.Env.Faults...), a)
			}
		}
		for _, i := range fr.nextGet {
			a := nextGet(probe, i)
			a.Err = fr.getErr
			sc.Env.Faults = append(append([]FAddr(nil), sc.Env.Faults...), a)
		}
		sc.Late = fr.late
		res := c.run(st, sc)
		sc.Univ = res.Univ
		c.count(sc, res)
		h.Runs, h.Outs = append(h.Runs, sc), append(h.Outs, res.Out)
	}
	c.sum.Count("corpus")
	c.add(h)
}

// stalledHistory: one run in which no object of any wait reconciles (prune
// waits see Terminating for every second object) and every wait times out.
func (c *collector) stalledHistory(u Universe, init Cluster, fr fixedRun) {
	st := NewStore(u, init)
	sc := Scenario{Univ: u, Local: fr.local, Opts: fr.opts}
	probe := Probe(st, sc)
	c.probes++
	sc.Env = Env{WatchErrAt: -1}
	kinds := waitKinds(probe.Plan)
	for k, w := range probe.Waits {
		ws := WSched{End: WTimeout}
		for i, d := range w.Deliv {
			if kinds[k] && i%2 == 0 {
				ws.Deliv = append(ws.Deliv, SObs{ID: d.ID, St: STerminating, Body: true, UID: init.Find(d.ID).UID, Gen: objGen})
			}
		}
		sc.Env.Waits = append(sc.Env.Waits, ws)
	}
	res := c.run(st, sc)
	sc.Univ = res.Univ
	c.count(sc, res)
	c.sum.Count("corpus")
	c.add(History{Univ: u, Initial: init, Runs: []Scenario{sc}, Outs: []Outcome{res.Out}})
}

func (c *collector) corpus() {
	// 1. NoPrune: previously {a, b}, now apply {a}
	u := NewUniverse([]UEntry{Entry("ConfigMap", invNS, "cm-a"), Entry("ConfigMap", invNS, "cm-b")})
	two := Cluster{NextUID: 100, HasInv: true, Inv: []int{0, 1}, Objs: []CObj{
		CObj{ID: 0, UID: 1, Owner: OOurs, Ver: 1}.Applied(), CObj{ID: 1, UID: 2, Owner: OOurs, Ver: 1}.Applied()}}
	c.fixedHistory(u, two, []fixedRun{{local: []LObj{{ID: 0, Ver: 1}}, opts: Opts{Prune: false, Policy: PMustMatch}}})
	// 2. destroy with a tracked object whose live depends-on annotation is malformed, skip-invalid
	bad := Cluster{NextUID: 100, HasInv: true, Inv: []int{0, 1}, Objs: []CObj{
		CObj{ID: 0, UID: 1, Owner: OOurs, Ver: 1, BadDep: true}.Applied(), CObj{ID: 1, UID: 2, Owner: OOurs, Ver: 1}.Applied()}}
	c.fixedHistory(u, bad, []fixedRun{{opts: Opts{Destroy: true, Prune: true, Policy: PMustMatch, ValPol: VSkipInvalid}}})
	c.fixedHistory(u, bad, []fixedRun{{opts: Opts{Destroy: true, Prune: true, Policy: PMustMatch, ValPol: VExitEarly}}})
	// 3. the second inventory LIST (solver: previous inventory) is rejected
	c.fixedHistory(u, two, []fixedRun{{local: []LObj{{ID: 0, Ver: 2}}, opts: Opts{Prune: true, Policy: PMustMatch},
		faults: []FAddr{{Kind: "FInvList", N: 1}}}})
	// 4. client dry-run combined with server-side apply (empty and populated cluster)
	c.fixedHistory(u, Cluster{NextUID: 100}, []fixedRun{{local: []LObj{{ID: 0, Ver: 1}, {ID: 1, Ver: 1}},
		opts: Opts{Prune: true, Policy: PMustMatch, Dry: DClient, SSA: true}}})
	c.fixedHistory(u, two, []fixedRun{{local: []LObj{{ID: 0, Ver: 2}},
		opts: Opts{Prune: true, Policy: PMustMatch, Dry: DClient, SSA: true}}})
	// 5. field-invalid Namespace and a ConfigMap in that namespace, skip-invalid
	u2 := NewUniverse([]UEntry{Entry("Namespace", "x", otherNS), Entry("ConfigMap", otherNS, "cm-a"), Entry("ConfigMap", invNS, "cm-a")})
	var ls []LObj
	for i, e := range u2 {
		ls = append(ls, LObj{ID: i, FInv: e.FInv, Ver: 1})
	}
	c.fixedHistory(u2, Cluster{NextUID: 100}, []fixedRun{{local: ls, opts: Opts{Prune: true, Policy: PMustMatch, ValPol: VSkipInvalid}}})
	c.fixedHistory(u2, Cluster{NextUID: 100}, []fixedRun{{local: ls, opts: Opts{Prune: true, Policy: PMustMatch, ValPol: VExitEarly}}})
	// 6. first-ever apply with the inventory namespace in the apply set; the
	// namespace is created by inventory-add, then its own apply fails
	u3 := NewUniverse([]UEntry{Entry("Namespace", "", invNS), Entry("ConfigMap", invNS, "cm-a")})
	both := []LObj{{ID: 0, Ver: 1}, {ID: 1, Ver: 1}}
	c.fixedHistory(u3, Cluster{NextUID: 100}, []fixedRun{{local: both, opts: Opts{Prune: true, Policy: PMustMatch, SSA: true},
		faults: []FAddr{{Kind: "FApply", I: 0}}}})
	c.fixedHistory(u3, Cluster{NextUID: 100}, []fixedRun{{local: both, opts: Opts{Prune: true, Policy: PMustMatch},
		faults: []FAddr{{Kind: "FGet", I: 0, N: 0}}}})
	c.fixedHistory(u3, Cluster{NextUID: 100}, []fixedRun{{local: both, opts: Opts{Prune: true, Policy: PAdoptAll},
		faults: []FAddr{{Kind: "FGet", I: 0, N: 0}}},
		{local: both, opts: Opts{Prune: true, Policy: PAdoptAll}}})
	// 7. deletion-prevention: prune and destroy of keep-annotated objects (owned / unowned), and the
	// annotation-removal update rejected
	keepers := Cluster{NextUID: 100, HasInv: true, Inv: []int{0, 1}, Objs: []CObj{
		CObj{ID: 0, UID: 1, Owner: OOurs, Keep: true, Ver: 1}.Applied(), CObj{ID: 1, UID: 2, Owner: OOurs, Ver: 1}.Applied()}}
	c.fixedHistory(u, keepers, []fixedRun{{local: []LObj{{ID: 1, Ver: 1}}, opts: Opts{Prune: true, Policy: PMustMatch}},
		{local: []LObj{{ID: 0, Ver: 1}, {ID: 1, Ver: 1}}, opts: Opts{Prune: true, Policy: PAdoptIfNoInventory}}})
	c.fixedHistory(u, keepers, []fixedRun{{local: []LObj{{ID: 1, Ver: 1}}, opts: Opts{Prune: true, Policy: PMustMatch},
		faults: []FAddr{{Kind: "FUpdate", I: 0}}}})
	c.fixedHistory(u, keepers, []fixedRun{{opts: Opts{Destroy: true, Prune: true, Policy: PMustMatch}}})
	c.fixedHistory(u, keepers, []fixedRun{{opts: Opts{Destroy: true, Prune: true, Policy: PMustMatch}, faults: []FAddr{{Kind: "FUpdate", I: 0}}}})
	unowned := Cluster{NextUID: 100, HasInv: true, Inv: []int{0, 1}, Objs: []CObj{
		{ID: 0, UID: 1, Owner: ONone, Keep: true, Ver: 1}, CObj{ID: 1, UID: 2, Owner: OOther, Keep: true, Ver: 1}.Applied()}}
	c.fixedHistory(u, unowned, []fixedRun{{opts: Opts{Destroy: true, Prune: true, Policy: PAdoptAll}}})
	for _, kv := range []int{3, 4, 5, 7} {
		ea, eb := Entry("ConfigMap", invNS, "cm-a"), Entry("ConfigMap", invNS, "cm-b")
		ea.KeepVar, eb.KeepVar = kv, kv
		uk := NewUniverse([]UEntry{ea, eb})
		c.fixedHistory(uk, keepers, []fixedRun{{local: []LObj{{ID: 1, Ver: 1}}, opts: Opts{Prune: true, Policy: PMustMatch}},
			{local: []LObj{{ID: 0, Ver: 2}, {ID: 1, Ver: 1, Keep: true}}, opts: Opts{Prune: true, Policy: PAdoptIfNoInventory}},
			{local: []LObj{{ID: 0, Ver: 2}, {ID: 1, Ver: 1}}, opts: Opts{Prune: true, Policy: PAdoptIfNoInventory}}})
		c.fixedHistory(uk, keepers, []fixedRun{{opts: Opts{Destroy: true, Prune: true, Policy: PMustMatch}}})
	}
	// 8. cancellation while a delete request is served; watcher failure while waiting
	c.fixedHistory(u, two, []fixedRun{{opts: Opts{Destroy: true, Prune: true, Policy: PMustMatch}, cancel: CancelPt{Kind: CDuringReq, I: 1}}})
	c.fixedHistory(u, two, []fixedRun{{local: []LObj{{ID: 0, Ver: 1}}, opts: Opts{Prune: true, Policy: PMustMatch}, cancel: CancelPt{Kind: CDuringReq, I: 1}}})
	// the run never gets its sync event: context cancelled before the run starts, or the status watcher
	// reports a fatal error instead of synchronising and stops (mutation campaign: runner.go, error branch
	// without a current task) — apply and destroy
	c.fixedHistory(u, two, []fixedRun{{local: []LObj{{ID: 0, Ver: 1}}, opts: Opts{Prune: true, Policy: PMustMatch}, cancel: CancelPt{Kind: CBeforeSync}}})
	c.fixedHistory(u, two, []fixedRun{{local: []LObj{{ID: 0, Ver: 1}}, opts: Opts{Prune: true, Policy: PMustMatch}, cancel: CancelPt{Kind: CBeforeSync, ByWatcher: true}}})
	c.fixedHistory(u, two, []fixedRun{{opts: Opts{Destroy: true, Prune: true, Policy: PMustMatch}, cancel: CancelPt{Kind: CBeforeSync, ByWatcher: true}}})
	c.fixedHistory(u, Cluster{NextUID: 100}, []fixedRun{{local: []LObj{{ID: 0, Ver: 1}, {ID: 1, Ver: 1, Deps: []int{0}}},
		opts: Opts{Prune: true, Policy: PMustMatch}, watchErr: 1}})
	c.fixedHistory(u, two, []fixedRun{{opts: Opts{Destroy: true, Prune: true, Policy: PMustMatch}, watchErr: 1}})
	// 9. apply nothing / prune everything while the inventory tracks its own namespace object
	u4 := NewUniverse([]UEntry{Entry("Namespace", "", invNS), Entry("ConfigMap", invNS, "cm-a"), Entry("ConfigMap", otherNS, "cm-a")})
	nsTracked := Cluster{NextUID: 100, HasInv: true, Inv: []int{0, 1}, Objs: []CObj{
		CObj{ID: 0, UID: 1, Owner: OOurs, Ver: 1}.Applied(), CObj{ID: 1, UID: 2, Owner: OOurs, Ver: 1}.Applied()}}
	c.fixedHistory(u4, nsTracked, []fixedRun{{opts: Opts{Prune: true, Policy: PMustMatch}}})
	c.fixedHistory(u4, nsTracked, []fixedRun{{local: []LObj{{ID: 2, Ver: 1}}, opts: Opts{Prune: true, Policy: PAdoptAll}}})
	// 10. a wait over several objects times out with all of them pending (apply, prune, destroy)
	u5 := NewUniverse([]UEntry{Entry("ConfigMap", invNS, "cm-a"), Entry("ConfigMap", invNS, "cm-b"), Entry("Secret", invNS, "sec-a"), Entry("ClusterRole", "", "cr-a")})
	four := Cluster{NextUID: 100, HasInv: true, Inv: []int{0, 1, 2, 3}}
	var four4 []LObj
	for i := range u5 {
		four.Objs = append(four.Objs, CObj{ID: i, UID: uint64(i + 1), Owner: OOurs, Ver: 1}.Applied())
		four4 = append(four4, LObj{ID: i, Ver: 2})
	}
	c.stalledHistory(u5, four, fixedRun{local: four4, opts: Opts{Prune: true, Policy: PMustMatch, RecTimeout: true}})
	c.stalledHistory(u5, four, fixedRun{local: four4[:1], opts: Opts{Prune: true, Policy: PMustMatch, RecTimeout: true, PruneTimeout: true}})
	c.stalledHistory(u5, four, fixedRun{opts: Opts{Destroy: true, Prune: true, Policy: PMustMatch, PruneTimeout: true}})
	// 11. objects held by a finalizer (a = ConfigMap with finalizer, b = plain ConfigMap)
	fa, fb := Entry("ConfigMap", invNS, "cm-a"), Entry("ConfigMap", invNS, "cm-b")
	fa.Fin = true
	uf := NewUniverse([]UEntry{fa, fb})
	destroyT := Opts{Destroy: true, Prune: true, Policy: PMustMatch, PruneTimeout: true}
	// (a) destroy with a short delete timeout, then destroy again
	c.fixedHistory(uf, two, []fixedRun{{opts: destroyT}, {opts: destroyT}})
	c.fixedHistory(uf, two, []fixedRun{{opts: Opts{Destroy: true, Prune: true, Policy: PMustMatch}}})
	// (b) prune of the held object in an apply run with prune timeout, then the identical apply again
	pruneT := Opts{Prune: true, Policy: PMustMatch, PruneTimeout: true}
	c.fixedHistory(uf, two, []fixedRun{{local: []LObj{{ID: 1, Ver: 1}}, opts: pruneT}, {local: []LObj{{ID: 1, Ver: 1}}, opts: pruneT}})
	// (c) the held object depends on the plain one: it lingers, so its dependency must not be deleted
	depFin := Cluster{NextUID: 100, HasInv: true, Inv: []int{0, 1}, Objs: []CObj{
		CObj{ID: 0, UID: 1, Owner: OOurs, Ver: 1, Deps: []int{1}}.Applied(), CObj{ID: 1, UID: 2, Owner: OOurs, Ver: 1}.Applied()}}
	c.fixedHistory(uf, depFin, []fixedRun{{opts: destroyT}})
	c.fixedHistory(uf, depFin, []fixedRun{{local: nil, opts: pruneT}})
	// (d) destroy, then apply the manifest of the lingering (terminating) object again, client- and server-side
	c.fixedHistory(uf, two, []fixedRun{{opts: destroyT}, {local: []LObj{{ID: 0, Ver: 2}, {ID: 1, Ver: 1}}, opts: Opts{Prune: true, Policy: PMustMatch}}, {opts: destroyT}})
	c.fixedHistory(uf, two, []fixedRun{{opts: destroyT}, {local: []LObj{{ID: 0, Ver: 2}}, opts: Opts{Prune: true, Policy: PMustMatch, SSA: true}}})
	// (e) two held objects and a plain one, all tracked: both linger when the delete / prune timeout fires
	ga, gb, gc := Entry("ConfigMap", invNS, "cm-a"), Entry("ConfigMap", invNS, "cm-b"), Entry("Secret", invNS, "sec-a")
	ga.Fin, gb.Fin = true, true
	ug := NewUniverse([]UEntry{ga, gb, gc})
	three := Cluster{NextUID: 100, HasInv: true, Inv: []int{0, 1, 2}, Objs: []CObj{
		CObj{ID: 0, UID: 1, Owner: OOurs, Ver: 1}.Applied(), CObj{ID: 1, UID: 2, Owner: OOurs, Ver: 1}.Applied(), CObj{ID: 2, UID: 3, Owner: OOurs, Ver: 1}.Applied()}}
	c.fixedHistory(ug, three, []fixedRun{{opts: destroyT}, {opts: destroyT}})
	c.fixedHistory(ug, three, []fixedRun{{local: []LObj{{ID: 2, Ver: 1}}, opts: pruneT}, {local: []LObj{{ID: 2, Ver: 1}}, opts: pruneT}})
	// 12. the read of a prune candidate is rejected, with every error kind; the candidate
	// is the dependency of another tracked object (destroy and apply + prune)
	pairCl := Cluster{NextUID: 100, HasInv: true, Inv: []int{0, 1}, Objs: []CObj{
		CObj{ID: 0, UID: 1, Owner: OOurs, Ver: 1}.Applied(), CObj{ID: 1, UID: 2, Owner: OOurs, Ver: 1, Deps: []int{0}}.Applied()}}
	for k := range faultErrs {
		for _, victim := range []int{0, 1} {
			c.fixedHistory(u, pairCl, []fixedRun{{opts: Opts{Destroy: true, Prune: true, Policy: PMustMatch},
				faults: []FAddr{{Kind: "FGet", I: victim, N: 0, Err: k}}}})
		}
		c.fixedHistory(u4, Cluster{NextUID: 100, HasInv: true, Inv: []int{1, 2}, Objs: []CObj{
			CObj{ID: 1, UID: 1, Owner: OOurs, Ver: 1}.Applied(), CObj{ID: 2, UID: 2, Owner: OOurs, Ver: 1, Deps: []int{1}}.Applied()}},
			[]fixedRun{{local: []LObj{{ID: 0, Ver: 1}}, opts: Opts{Prune: true, Policy: PMustMatch}, faults: []FAddr{{Kind: "FGet", I: 1, N: 0, Err: k}}}})
	}
	// 12b. (seed C02g) the ownership read of the apply filter (first GET of the object) is rejected, with every error
	// kind, while the object exists under another owner / unowned: the run must stop before any apply request, whatever
	// the error (a 403 is not "absent"); client-side and server-side apply, both non-adopting policies
	for k := range faultErrs {
		for _, ow := range []Owner{OOther, ONone, OOurs} {
			foreignCl := Cluster{NextUID: 100, Objs: []CObj{CObj{ID: 0, UID: 1, Owner: ow, Ver: 1}.Applied()}}
			for _, ssa := range []bool{false, true} {
				pol := PMustMatch
				if ow == OOther && ssa {
					pol = PAdoptIfNoInventory
				}
				c.fixedHistory(u, foreignCl, []fixedRun{{local: []LObj{{ID: 0, Ver: 2}}, opts: Opts{Prune: true, Policy: pol, SSA: ssa},
					faults: []FAddr{{Kind: "FGet", I: 0, N: 0, Err: k}}}})
			}
		}
	}
	// 13. dependency references spelled as apply-time-mutation substitutions: b (mutation) -> a;
	// c is a bystander whose depends-on reference is external (d is not applied)
	ma, mb, mc, md := Entry("ConfigMap", invNS, "cm-a"), Entry("ConfigMap", invNS, "cm-b"), Entry("Secret", invNS, "sec-a"), Entry("ClusterRole", "", "cr-a")
	mb.Mut = true
	um := NewUniverse([]UEntry{ma, mb, mc, md}) // ids: 0 = cr-a, 1 = cm-a, 2 = cm-b (mut), 3 = sec-a
	mutSet := []LObj{{ID: 1, Ver: 1}, {ID: 2, Ver: 1, Deps: []int{1}}}
	withBystander := append(append([]LObj(nil), mutSet...), LObj{ID: 3, Ver: 1, Deps: []int{0}})
	applyM := Opts{Prune: true, Policy: PMustMatch, RecTimeout: true}
	skipM := Opts{Prune: true, Policy: PMustMatch, RecTimeout: true, ValPol: VSkipInvalid}
	c.fixedHistory(um, Cluster{NextUID: 100}, []fixedRun{{local: mutSet, opts: applyM}, {local: mutSet, opts: applyM}, {opts: Opts{Destroy: true, Prune: true, Policy: PMustMatch}}})
	c.fixedHistory(um, Cluster{NextUID: 100}, []fixedRun{{local: mutSet, opts: applyM, faults: []FAddr{{Kind: "FApply", I: 1}}}})
	c.fixedHistory(um, Cluster{NextUID: 100}, []fixedRun{{local: mutSet, opts: applyM, stall: []int{1}}})
	c.fixedHistory(um, Cluster{NextUID: 100}, []fixedRun{{local: withBystander, opts: skipM}, {local: withBystander, opts: skipM}})
	c.fixedHistory(um, Cluster{NextUID: 100}, []fixedRun{{local: withBystander, opts: skipM, stall: []int{1}}})
	c.fixedHistory(um, Cluster{NextUID: 100}, []fixedRun{{local: withBystander, opts: Opts{Prune: true, Policy: PMustMatch, SSA: true, ValPol: VSkipInvalid}}})
	// 13b. (seed C05g) a LIVE mutation-spelled object whose annotation names one object of the run (cm-a) and one outside it
	// (cr-a, neither live nor tracked): cm-b is graph-invalid and skipped, but its edge to cm-a stands, so cm-a is not
	// deleted either and both stay in the inventory; destroy and apply + prune, both reference orders, and exit-early
	for _, deps := range [][]int{{1, 0}, {0, 1}} {
		liveMut := Cluster{NextUID: 100, HasInv: true, Inv: []int{1, 2}, Objs: []CObj{
			CObj{ID: 1, UID: 1, Owner: OOurs, Ver: 1}.Applied(), CObj{ID: 2, UID: 2, Owner: OOurs, Ver: 1, Deps: deps}.Applied()}}
		c.fixedHistory(um, liveMut, []fixedRun{{opts: Opts{Destroy: true, Prune: true, Policy: PMustMatch, ValPol: VSkipInvalid}}})
		c.fixedHistory(um, liveMut, []fixedRun{{local: []LObj{{ID: 3, Ver: 1}}, opts: Opts{Prune: true, Policy: PMustMatch, ValPol: VSkipInvalid}}})
		c.fixedHistory(um, liveMut, []fixedRun{{opts: Opts{Destroy: true, Prune: true, Policy: PMustMatch}}})
	}
	// 14. late status deliveries while a wait group completes and the consumer is slow:
	// timeout ending (two objects pending), all-reconciled ending, cancel ending; apply and destroy
	lateAll := []LateSpec{{Wait: 0, N: 2, Off: 0}, {Wait: 1, N: 2, Off: 1}}
	both2 := []LObj{{ID: 0, Ver: 2}, {ID: 1, Ver: 2}}
	c.fixedHistory(u, two, []fixedRun{{local: both2, opts: Opts{Prune: true, Policy: PMustMatch, RecTimeout: true}, stall: []int{0, 1}, late: lateAll}})
	c.fixedHistory(u, two, []fixedRun{{local: both2, opts: Opts{Prune: true, Policy: PMustMatch, RecTimeout: true}, stall: []int{1}, late: lateAll}})
	c.fixedHistory(u, two, []fixedRun{{local: both2, opts: Opts{Prune: true, Policy: PMustMatch}, late: lateAll}})
	c.fixedHistory(u, two, []fixedRun{{local: both2, opts: Opts{Prune: true, Policy: PMustMatch}, stall: []int{0}, late: lateAll}})
	c.fixedHistory(u, two, []fixedRun{{opts: Opts{Destroy: true, Prune: true, Policy: PMustMatch, PruneTimeout: true}, stall: []int{0, 1}, late: lateAll}})
	c.fixedHistory(u, two, []fixedRun{{opts: Opts{Destroy: true, Prune: true, Policy: PMustMatch}, late: lateAll}})
	c.fixedHistory(u, two, []fixedRun{{local: both2[:1], opts: Opts{Prune: true, Policy: PMustMatch, RecTimeout: true, PruneTimeout: true}, stall: []int{1}, late: lateAll}})
	// 15. one Applier / Destroyer object for all runs of the history: the same objects applied
	// twice (nothing may be remembered from the first run), prune, destroy, destroy again
	twoObjs := []LObj{{ID: 0, Ver: 1}, {ID: 1, Ver: 1, Deps: []int{0}}}
	plain := Opts{Prune: true, Policy: PMustMatch}
	c.fixedHistoryR(u, Cluster{NextUID: 100}, []fixedRun{{local: twoObjs, opts: plain}, {local: twoObjs, opts: plain},
		{local: twoObjs[:1], opts: plain}, {local: twoObjs, opts: plain}, {opts: Opts{Destroy: true, Prune: true, Policy: PMustMatch}},
		{opts: Opts{Destroy: true, Prune: true, Policy: PMustMatch}}}, true)
	c.fixedHistoryR(u, Cluster{NextUID: 100}, []fixedRun{{local: twoObjs, opts: Opts{Prune: true, Policy: PMustMatch, RecTimeout: true}},
		{local: twoObjs, opts: Opts{Prune: true, Policy: PMustMatch, RecTimeout: true}, stall: []int{0}}}, true)
	c.fixedHistoryR(um, Cluster{NextUID: 100}, []fixedRun{{local: mutSet, opts: applyM}, {local: mutSet, opts: applyM, stall: []int{1}}}, true)
	// 16. manifests that arrive with an owning-inventory annotation (another inventory's id / ours)
	pa, pb := Entry("ConfigMap", invNS, "cm-a"), Entry("ConfigMap", invNS, "cm-b")
	pa.PreOwner, pb.PreOwner = 1, 2
	up := NewUniverse([]UEntry{pa, pb})
	c.fixedHistory(up, Cluster{NextUID: 100}, []fixedRun{{local: twoObjs, opts: plain}, {local: twoObjs, opts: plain}, {local: twoObjs[:1], opts: plain}})
	c.fixedHistory(up, two, []fixedRun{{local: []LObj{{ID: 0, Ver: 2}, {ID: 1, Ver: 2}}, opts: Opts{Prune: true, Policy: PMustMatch, SSA: true}}})
	// 17. a uid alias in the prune set while its applied twin reports Current / Failed / InProgress
	// until the timeout / nothing (only where the monitors know about aliases: C02, C03)
	if c.prop == "C02" || c.prop == "C03" {
		ua := NewUniverse([]UEntry{Entry("ConfigMap", invNS, "cm-a"), Entry("Secret", invNS, "sec-a")})
		twins := Cluster{NextUID: 100, HasInv: true, Inv: []int{0, 1}, Objs: []CObj{
			CObj{ID: 0, UID: 7, Owner: OOurs, Ver: 1}.Applied(), CObj{ID: 1, UID: 7, Owner: OOurs, Ver: 1}.Applied()}}
		aliasRun := func(t bool) fixedRun {
			return fixedRun{local: []LObj{{ID: 0, Ver: 2}}, opts: Opts{Prune: true, Policy: PMustMatch, RecTimeout: t}}
		}
		c.fixedHistory(ua, twins, []fixedRun{aliasRun(false)})
		fr := aliasRun(false)
		fr.replace = map[int][]SObs{0: {{ID: 0, St: SFailed, Body: true, UID: 7, Gen: objGen}}}
		c.fixedHistory(ua, twins, []fixedRun{fr})
		fr = aliasRun(true)
		fr.replace = map[int][]SObs{0: {{ID: 0, St: SInProgress, Body: true, UID: 7, Gen: objGen}}}
		fr.stall = []int{0}
		c.fixedHistory(ua, twins, []fixedRun{fr})
		fr = aliasRun(true)
		fr.stall = []int{0}
		c.fixedHistory(ua, twins, []fixedRun{fr})
	}
	// 18. two identifiers that differ in the API group only (x1 = Bar company.com, x2 = Bar other.example.com,
	// same namespace and name), a third object depending on one of them; held by a finalizer, request rejected
	for _, fin := range []bool{false, true} {
		x1, x2 := EntryBaz(false, invNS, "baz-x"), EntryBaz(true, invNS, "baz-x")
		x2.Fin = fin
		ux := NewUniverse([]UEntry{Entry("ConfigMap", invNS, "cm-a"), x1, x2}) // 0 = cm-a, 1 = x1, 2 = x2
		live3 := func(dep int) Cluster {
			return Cluster{NextUID: 100, HasInv: true, Inv: []int{0, 1, 2}, Objs: []CObj{
				CObj{ID: 0, UID: 1, Owner: OOurs, Ver: 1, Deps: []int{dep}}.Applied(), CObj{ID: 1, UID: 2, Owner: OOurs, Ver: 1}.Applied(),
				CObj{ID: 2, UID: 3, Owner: OOurs, Ver: 1}.Applied()}}
		}
		dT := Opts{Destroy: true, Prune: true, Policy: PMustMatch, PruneTimeout: true}
		all3 := func(dep int) []LObj {
			return []LObj{{ID: 0, Ver: 1, Deps: []int{dep}}, {ID: 1, Ver: 1}, {ID: 2, Ver: 1}}
		}
		// both twins depend on the third object: when the delete of one of them is rejected (or it
		// lingers), the third object must not be deleted
		bothDep := Cluster{NextUID: 100, HasInv: true, Inv: []int{0, 1, 2}, Objs: []CObj{
			CObj{ID: 0, UID: 1, Owner: OOurs, Ver: 1}.Applied(), CObj{ID: 1, UID: 2, Owner: OOurs, Ver: 1, Deps: []int{0}}.Applied(),
			CObj{ID: 2, UID: 3, Owner: OOurs, Ver: 1, Deps: []int{0}}.Applied()}}
		for _, victim := range []int{1, 2} {
			for k := range faultErrs { // every error kind (seed C05h: a 409 on the DELETE is a failed delete, not "already gone")
				c.fixedHistory(ux, bothDep, []fixedRun{{opts: dT, faults: []FAddr{{Kind: "FDelete", I: victim, Err: k}}}})
				// ... and the watcher then reports the victim under another UID (recreated by somebody else): still a failed
				// delete, the third object stays
				c.fixedHistory(ux, bothDep, []fixedRun{{opts: dT, faults: []FAddr{{Kind: "FDelete", I: victim, Err: k}},
					foreign: map[int][]SObs{0: {{ID: victim, St: SCurrent, Body: true, UID: 77, Gen: 1}}}}})
			}
			c.fixedHistory(ux, bothDep, []fixedRun{{local: []LObj{{ID: 3 - victim, Ver: 1, Deps: []int{0}}}, opts: Opts{Prune: true, Policy: PMustMatch, PruneTimeout: true},
				faults: []FAddr{{Kind: "FDelete", I: victim}}}})
		}
		c.fixedHistory(ux, bothDep, []fixedRun{{opts: dT}, {opts: dT}})
		for _, dep := range []int{1, 2} {
			c.fixedHistory(ux, live3(dep), []fixedRun{{opts: dT}, {opts: dT}})
			c.fixedHistory(ux, live3(dep), []fixedRun{{opts: dT, faults: []FAddr{{Kind: "FDelete", I: 1}}}})
			c.fixedHistory(ux, live3(dep), []fixedRun{{opts: dT, faults: []FAddr{{Kind: "FDelete", I: 2, Err: 1}}}})
			c.fixedHistory(ux, live3(dep), []fixedRun{{local: all3(dep)[:2], opts: Opts{Prune: true, Policy: PMustMatch, PruneTimeout: true}}})
			c.fixedHistory(ux, Cluster{NextUID: 100}, []fixedRun{{local: all3(dep), opts: plain, faults: []FAddr{{Kind: "FApply", I: 3 - dep}}}})
			c.fixedHistory(ux, Cluster{NextUID: 100}, []fixedRun{{local: all3(dep), opts: Opts{Prune: true, Policy: PMustMatch, RecTimeout: true}, stall: []int{3 - dep}}})
		}
	}
	// 19. other spellings of a field-invalid manifest: unknown apiVersion of a known kind after / before a
	// valid object of that kind, unknown kind, no name, no kind; SkipInvalid and ExitEarly
	for _, vp := range []ValPol{VSkipInvalid, VExitEarly} {
		for _, name := range []string{"dep-0", "dep-v9"} { // sorts before / after dep-a
			ui := NewUniverse([]UEntry{Entry("Deployment", invNS, "dep-a"), EntryInvalid("apps/v9", "Deployment", invNS, name), Entry("ConfigMap", invNS, "cm-a")})
			var ls []LObj
			for i, e := range ui {
				ls = append(ls, LObj{ID: i, FInv: e.FInv, Ver: 1})
			}
			c.fixedHistory(ui, Cluster{NextUID: 100}, []fixedRun{{local: ls, opts: Opts{Prune: true, Policy: PMustMatch, ValPol: vp}}})
		}
		ui := NewUniverse([]UEntry{Entry("ConfigMap", invNS, "cm-a"), EntryInvalid("example.io/v1", "Gadget", invNS, "gadget-a"),
			EntryInvalid("v1", "ConfigMap", invNS, ""), EntryInvalid("v1", "", invNS, "nokind")})
		var ls []LObj
		for i, e := range ui {
			ls = append(ls, LObj{ID: i, FInv: e.FInv, Ver: 1})
		}
		c.fixedHistory(ui, Cluster{NextUID: 100}, []fixedRun{{local: ls, opts: Opts{Prune: true, Policy: PMustMatch, ValPol: vp}}})
	}
	// 20. type knowledge: the mapper knows the custom kind only while its CRD object exists (as of its last
	// reset: start of the run, end of a wait over a CRD that was not skipped)
	{
		ud := NewUniverse([]UEntry{Entry("CustomResourceDefinition", "", crdMeta.Name), Entry("ConfigMap", invNS, "cm-a"), Entry("Bar", invNS, "bar-a")})
		crd, cm, bar := ud.Index(crdMeta), ud.Index(Entry("ConfigMap", invNS, "cm-a").Meta), ud.Index(Entry("Bar", invNS, "bar-a").Meta)
		all := []LObj{{ID: crd, Ver: 1}, {ID: cm, Ver: 1}, {ID: bar, Ver: 1}}
		only := func(ids ...int) []LObj {
			var l []LObj
			for _, i := range ids {
				l = append(l, LObj{ID: i, Ver: 1})
			}
			return l
		}
		empty := Cluster{NextUID: 100}
		live := func(ids ...int) Cluster {
			cl := Cluster{NextUID: 100, HasInv: true}
			for k, i := range ids {
				cl.Objs = append(cl.Objs, CObj{ID: i, UID: uint64(k + 1), Owner: OOurs, Ver: 1}.Applied())
				cl.Inv = append(cl.Inv, i)
			}
			sort.Slice(cl.Objs, func(a, b int) bool { return cl.Objs[a].ID < cl.Objs[b].ID })
			sort.Ints(cl.Inv)
			return cl
		}
		pl := Opts{Prune: true, Policy: PMustMatch}
		timed := Opts{Prune: true, Policy: PMustMatch, RecTimeout: true, PruneTimeout: true}
		des := Opts{Destroy: true, Prune: true, Policy: PMustMatch}
		failed := func(id int) map[int][]SObs {
			return map[int][]SObs{id: {{ID: id, St: SFailed, Body: true, UID: 100, Gen: objGen}}}
		}
		// all fine: apply, apply again, the custom resource without the CRD manifest, destroy
		c.fixedHistory(ud, empty, []fixedRun{{local: all, opts: pl}, {local: all, opts: pl}, {local: only(cm, bar), opts: pl}, {opts: des}})
		c.fixedHistory(ud, empty, []fixedRun{{local: all, opts: Opts{Prune: true, Policy: PAdoptAll, SSA: true, StatusEvents: true}}, {opts: des}})
		// the CRD's apply is rejected; then applied again
		for k := range faultErrs {
			if faultErrs[k] != 409 {
				c.fixedHistory(ud, empty, []fixedRun{{local: all, opts: pl, faults: []FAddr{{Kind: "FApply", I: crd, Err: k}}}, {local: all, opts: pl}})
			}
			c.fixedHistory(ud, empty, []fixedRun{{local: all, opts: pl, faults: []FAddr{{Kind: "FGet", I: crd, N: k % 2, Err: k}}}})
		}
		c.fixedHistory(ud, empty, []fixedRun{{local: all, opts: Opts{Prune: true, Policy: PAdoptAll, SSA: true}, faults: []FAddr{{Kind: "FApply", I: crd}}}})
		// the CRD's reconcile fails / times out / the run is cancelled while waiting for it
		c.fixedHistory(ud, empty, []fixedRun{{local: all, opts: pl, replace: failed(crd)}, {local: all, opts: pl}})
		c.fixedHistory(ud, empty, []fixedRun{{local: all, opts: timed, stall: []int{crd}}, {local: all, opts: timed}})
		c.fixedHistory(ud, empty, []fixedRun{{local: all, opts: pl, stall: []int{crd}}})
		// the CRD is there already
		c.fixedHistory(ud, live(crd), []fixedRun{{local: only(bar, cm), opts: pl}, {opts: des}})
		c.fixedHistory(ud, live(crd), []fixedRun{{local: only(crd, bar), opts: pl, faults: []FAddr{{Kind: "FApply", I: bar}}}})
		// the CRD is pruned in the run that applies / prunes its custom resource
		c.fixedHistory(ud, live(crd, bar, cm), []fixedRun{{local: only(bar, cm), opts: timed}, {local: only(cm), opts: timed}})
		c.fixedHistory(ud, live(crd, bar, cm), []fixedRun{{local: only(cm), opts: timed}, {local: all, opts: pl}})
		c.fixedHistory(ud, live(crd, bar, cm), []fixedRun{{local: only(crd, cm), opts: timed}, {local: only(cm), opts: timed}})
		// destroy over CRD + custom resource
		c.fixedHistory(ud, live(crd, bar, cm), []fixedRun{{opts: des}, {opts: des}})
		c.fixedHistory(ud, live(crd, bar, cm), []fixedRun{{opts: des, faults: []FAddr{{Kind: "FDelete", I: bar, Err: 1}}}, {opts: des}})
		c.fixedHistory(ud, live(crd, bar, cm), []fixedRun{{opts: Opts{Destroy: true, Prune: true, Policy: PMustMatch, PruneTimeout: true}, stall: []int{bar}}})
		// dry-run: the CRD and its custom resource both new (no wait resets the mapper), and over an existing CRD
		for _, d := range []Dry{DClient, DServer} {
			c.fixedHistory(ud, empty, []fixedRun{{local: all, opts: Opts{Prune: true, Policy: PMustMatch, Dry: d}}, {local: all, opts: pl}})
			c.fixedHistory(ud, live(crd), []fixedRun{{local: all, opts: Opts{Prune: true, Policy: PMustMatch, Dry: d}}})
			c.fixedHistory(ud, live(crd, bar, cm), []fixedRun{{opts: Opts{Destroy: true, Prune: true, Policy: PMustMatch, Dry: d}}})
		}
		// a custom resource without its CRD anywhere: unknown type
		c.fixedHistory(ud, empty, []fixedRun{{local: only(cm, bar), opts: Opts{Prune: true, Policy: PMustMatch, ValPol: VSkipInvalid}}})
		c.fixedHistory(ud, empty, []fixedRun{{local: only(cm, bar), opts: pl}})
	}
	// 21. APIService: the server-side-apply PATCH dies with an HTTP/2 stream error and ApplyTask falls back to a
	// client-side apply whose outcome is the outcome of the apply (apply_task.go; seed C01e)
	{
		ua := NewUniverse([]UEntry{Entry("ConfigMap", invNS, "cm-a"), Entry("APIService", "", apiSvcName)})
		cm, as := ua.Index(Entry("ConfigMap", invNS, "cm-a").Meta), ua.Index(Entry("APIService", "", apiSvcName).Meta)
		both := []LObj{{ID: cm, Ver: 1}, {ID: as, Ver: 1}}
		newer := []LObj{{ID: cm, Ver: 1}, {ID: as, Ver: 2}}
		empty := Cluster{NextUID: 100}
		ssa := func(pol Policy, d Dry) Opts { return Opts{Prune: true, Policy: pol, SSA: true, Dry: d} }
		mm := ssa(PMustMatch, DNone)
		stream := FAddr{Kind: "FStream", I: as, N: 0}
		des := Opts{Destroy: true, Prune: true, Policy: PMustMatch}
		// first apply: the fallback creates the object; the same again on a healthy server; destroy
		c.fixedHistory(ua, empty, []fixedRun{{local: both, opts: mm, faults: []FAddr{stream}}, {local: both, opts: mm}, {opts: des}})
		// a server on which every apply PATCH of the APIService dies: create, unchanged, changed, prune
		c.fixedHistory(ua, empty, []fixedRun{{local: both, opts: mm, faults: []FAddr{stream}}, {local: both, opts: mm, faults: []FAddr{stream}},
			{local: newer, opts: mm, faults: []FAddr{stream}}, {local: both[:1], opts: mm}})
		c.fixedHistoryR(ua, empty, []fixedRun{{local: both, opts: mm, faults: []FAddr{stream}}, {local: newer, opts: mm, faults: []FAddr{stream}}, {opts: des}}, true)
		// the fallback's read is rejected (the policy filter read the object before: second GET; adopt-all: first GET)
		c.fixedHistory(ua, empty, []fixedRun{{local: both, opts: mm, faults: []FAddr{stream, {Kind: "FGet", I: as, N: 1}}}, {local: both, opts: mm}})
		c.fixedHistory(ua, empty, []fixedRun{{local: both, opts: ssa(PAdoptAll, DNone), faults: []FAddr{stream, {Kind: "FGet", I: as, N: 0, Err: 1}}}})
		// the fallback's POST is rejected; then the fallback works
		c.fixedHistory(ua, empty, []fixedRun{{local: both, opts: mm, faults: []FAddr{stream, {Kind: "FApply", I: as}}}, {local: both, opts: mm, faults: []FAddr{stream}}})
		// the APIService exists already: owned by another inventory / by this one / by nobody, with and without a
		// last-applied annotation; adopt-all (fallback PATCH or unchanged) and must-match (filtered before any request)
		for _, ow := range []Owner{OOther, OOurs, ONone} {
			for _, applied := range []bool{true, false} {
				o := CObj{ID: as, UID: 1, Owner: ow, Ver: 1}
				if applied {
					o = o.Applied()
				}
				live := Cluster{NextUID: 100, HasInv: true, Inv: []int{}, Objs: []CObj{o}}
				if ow == OOurs {
					live.Inv = []int{as}
				}
				for _, pol := range []Policy{PAdoptAll, PMustMatch} {
					c.fixedHistory(ua, live, []fixedRun{{local: both, opts: ssa(pol, DNone), faults: []FAddr{stream}}})
				}
				// the fallback's PATCH is rejected
				c.fixedHistory(ua, live, []fixedRun{{local: newer, opts: ssa(PAdoptAll, DNone), faults: []FAddr{stream, {Kind: "FApply", I: as, Err: 1}}},
					{local: newer, opts: ssa(PAdoptAll, DNone), faults: []FAddr{stream}}})
			}
		}
		// dry-run: under server dry-run the second attempt is another dry-run apply PATCH (it works; it dies too; it
		// is rejected); server dry-run without the server-side option: no fallback; client dry-run: no apply PATCH at all
		tracked := Cluster{NextUID: 100, HasInv: true, Inv: []int{as}, Objs: []CObj{CObj{ID: as, UID: 1, Owner: OOurs, Ver: 1}.Applied()}}
		for _, cl := range []Cluster{empty, tracked} {
			c.fixedHistory(ua, cl, []fixedRun{{local: newer, opts: ssa(PMustMatch, DServer), faults: []FAddr{stream}}, {local: newer, opts: mm, faults: []FAddr{stream}}})
			c.fixedHistory(ua, cl, []fixedRun{{local: newer, opts: ssa(PMustMatch, DServer), faults: []FAddr{stream, {Kind: "FStream", I: as, N: 1}}}})
			c.fixedHistory(ua, cl, []fixedRun{{local: newer, opts: ssa(PMustMatch, DServer), faults: []FAddr{stream, {Kind: "FApply", I: as}}}})
			c.fixedHistory(ua, cl, []fixedRun{{local: newer, opts: Opts{Prune: true, Policy: PMustMatch, Dry: DServer}, faults: []FAddr{stream}}})
			c.fixedHistory(ua, cl, []fixedRun{{local: newer, opts: ssa(PMustMatch, DClient), faults: []FAddr{stream}}})
		}
		// the same error for another kind is a plain failure; without server-side apply the address matches nothing
		c.fixedHistory(ua, empty, []fixedRun{{local: both, opts: mm, faults: []FAddr{{Kind: "FStream", I: cm, N: 0}}}, {local: both, opts: mm}})
		c.fixedHistory(ua, empty, []fixedRun{{local: both, opts: Opts{Prune: true, Policy: PMustMatch}, faults: []FAddr{stream}}})
		// the run is cancelled while the PATCH that dies is served: the fallback still runs, nothing is started afterwards
		c.fixedHistory(ua, empty, []fixedRun{{local: both, opts: mm, faults: []FAddr{stream}, cancel: CancelPt{Kind: CDuringReq, I: as}}})
		// a dependent of the APIService: applied after a fallback that worked, skipped after one that did not
		depOn := []LObj{{ID: cm, Ver: 1, Deps: []int{as}}, {ID: as, Ver: 1}}
		c.fixedHistory(ua, empty, []fixedRun{{local: depOn, opts: mm, faults: []FAddr{stream}}, {opts: des}})
		c.fixedHistory(ua, empty, []fixedRun{{local: depOn, opts: mm, faults: []FAddr{stream, {Kind: "FApply", I: as}}}})
		// status events on; reconcile of the object the fallback created times out
		c.fixedHistory(ua, empty, []fixedRun{{local: both, opts: Opts{Prune: true, Policy: PMustMatch, SSA: true, StatusEvents: true, RecTimeout: true},
			faults: []FAddr{stream}, stall: []int{as}}})
		// held by a finalizer: created by the fallback, then destroy twice (it lingers)
		fa := Entry("APIService", "", apiSvcName)
		fa.Fin = true
		uf2 := NewUniverse([]UEntry{Entry("ConfigMap", invNS, "cm-a"), fa})
		c.fixedHistory(uf2, empty, []fixedRun{{local: both, opts: mm, faults: []FAddr{stream}},
			{opts: Opts{Destroy: true, Prune: true, Policy: PMustMatch, PruneTimeout: true}}, {opts: Opts{Destroy: true, Prune: true, Policy: PMustMatch, PruneTimeout: true}}})
	}
	// 22. the source lookup of the apply-time mutator (seed C10f): resource cache when the entry is Current with a
	// body, otherwise a GET; a missing source or a rejected GET fails the apply of the target without any request
	{
		dryC := Opts{Prune: true, Policy: PMustMatch, Dry: DClient}
		dryS := Opts{Prune: true, Policy: PMustMatch, Dry: DServer}
		dryCS := Opts{Prune: true, Policy: PMustMatch, Dry: DClient, SSA: true}
		real := Opts{Prune: true, Policy: PMustMatch, RecTimeout: true}
		des := Opts{Destroy: true, Prune: true, Policy: PMustMatch, PruneTimeout: true}
		empty := Cluster{NextUID: 100}
		ek := 0 // error kind of the next rejected read
		rej := func(fr fixedRun) fixedRun {
			fr.getErr = ek % len(faultErrs)
			ek++
			return fr
		}
		for _, d := range []Opts{dryC, dryS, dryCS} {
			// first dry-run: source and target both new: the source is missing, the target fails, nothing is sent
			c.fixedHistory(um, empty, []fixedRun{{local: mutSet, opts: d}, {local: mutSet, opts: real}})
			// dry-run after a real run: the source is read from the cluster, the dry-run apply goes through
			c.fixedHistory(um, empty, []fixedRun{{local: mutSet, opts: real}, {local: mutSet, opts: d}, {local: []LObj{{ID: 1, Ver: 2}, {ID: 2, Ver: 2, Deps: []int{1}}}, opts: d}})
			// ... and that read is rejected
			c.fixedHistory(um, empty, []fixedRun{{local: mutSet, opts: real}, rej(fixedRun{local: mutSet, opts: d, lastGet: []int{1}})})
			// the source was deleted between the runs (destroy), the target too: missing again
			c.fixedHistory(um, empty, []fixedRun{{local: mutSet, opts: real}, {opts: des}, {local: mutSet, opts: d}})
			// adopt-all: no policy read before the mutator's GET
			c.fixedHistory(um, empty, []fixedRun{{local: mutSet, opts: real}, rej(fixedRun{local: mutSet, opts: Opts{Prune: true, Policy: PAdoptAll, Dry: d.Dry}, lastGet: []int{1}})})
		}
		c.fixedHistoryR(um, empty, []fixedRun{{local: mutSet, opts: real}, {local: mutSet, opts: dryC}, {local: mutSet, opts: real}, {opts: des}, {local: mutSet, opts: dryS}}, true)
		// two targets of one source, and a source whose bare object is not Current for kstatus (Deployment):
		// a ConfigMap source is Put into the cache by the first lookup and serves the second; a Deployment source
		// (and a terminating one) is read again
		sa, sd, t1, t2 := Entry("ConfigMap", invNS, "cm-a"), Entry("Deployment", invNS, "dep-a"), Entry("ConfigMap", invNS, "cm-b"), Entry("Secret", invNS, "sec-a")
		t1.Mut, t2.Mut = true, true
		for _, fin := range []bool{false, true} {
			sa.Fin = fin
			u2 := NewUniverse([]UEntry{sa, sd, t1, t2})
			a, dd, x, y := u2.Index(sa.Meta), u2.Index(sd.Meta), u2.Index(t1.Meta), u2.Index(t2.Meta)
			for _, src := range []int{a, dd} {
				set := []LObj{{ID: a, Ver: 1}, {ID: dd, Ver: 1}, {ID: x, Ver: 1, Deps: []int{src}}, {ID: y, Ver: 1, Deps: []int{src}}}
				d := dryC
				if (src == dd) != fin {
					d = dryS
				}
				c.fixedHistory(u2, empty, []fixedRun{{local: set, opts: real}, {local: set, opts: d}})
				c.fixedHistory(u2, empty, []fixedRun{{local: set, opts: real}, rej(fixedRun{local: set, opts: d, lastGet: []int{src}})})
				c.fixedHistory(u2, empty, []fixedRun{{local: set, opts: real}, rej(fixedRun{local: set, opts: d, nextGet: []int{src}})})
				c.fixedHistory(u2, empty, []fixedRun{{local: set, opts: d}})
				if fin && src == a {
					// the source lingers after a destroy (terminating): found, but never Current
					c.fixedHistory(u2, empty, []fixedRun{{local: set, opts: real}, {opts: des}, {local: set, opts: dryC}})
					c.fixedHistory(u2, empty, []fixedRun{{local: set, opts: real}, {opts: des}, rej(fixedRun{local: set, opts: dryS, lastGet: []int{src}})})
				}
			}
			// both sources, in both orders: the second source is not read when the first one fails
			set2 := []LObj{{ID: a, Ver: 1}, {ID: dd, Ver: 1}, {ID: x, Ver: 1, Deps: []int{a, dd}}, {ID: y, Ver: 1, Deps: []int{dd, a}}}
			c.fixedHistory(u2, empty, []fixedRun{{local: set2[:1], opts: real}, {local: set2, opts: dryC}, {local: set2, opts: dryS}})
			c.fixedHistory(u2, empty, []fixedRun{{local: set2, opts: real}, rej(fixedRun{local: set2, opts: dryC, lastGet: []int{a}}), rej(fixedRun{local: set2, opts: dryS, lastGet: []int{dd}})})
		}
		// a real run in which the cache entry of the source stops being "Current with a body" after the source was
		// reconciled: three layers (s; m depends on s; t, mutation-spelled, on m and s); while m is waited for the
		// watcher reports s again. The dependency filter still passes (the table is not touched), the mutator reads
		// s from the cluster; that read is rejected; the watcher returns to Current; s was never lost
		s3, m3, t3 := Entry("ConfigMap", invNS, "cm-a"), Entry("ConfigMap", invNS, "cm-b"), Entry("Secret", invNS, "sec-a")
		t3.Mut = true
		for _, fin := range []bool{false, true} {
			s3.Fin = fin
			u3 := NewUniverse([]UEntry{s3, m3, t3})
			si, mi, ti := u3.Index(s3.Meta), u3.Index(m3.Meta), u3.Index(t3.Meta)
			set := []LObj{{ID: si, Ver: 1}, {ID: mi, Ver: 1, Deps: []int{si}}, {ID: ti, Ver: 1, Deps: []int{mi, si}}}
			obs := [][]SObs{
				{{ID: si, St: SInProgress, Body: true, UID: 100, Gen: objGen}},
				{{ID: si, St: SUnknown}},
				{{ID: si, St: SCurrent}},
				{{ID: si, St: SFailed, Body: true, UID: 100, Gen: objGen}},
				{{ID: si, St: SInProgress, Body: true, UID: 100, Gen: objGen}, {ID: si, St: SCurrent, Body: true, UID: 100, Gen: objGen}},
				{{ID: si, St: SCurrent, Body: true, UID: 100, Gen: objGen - 1}},
				{{ID: si, St: SNotFound}},
			}
			if fin {
				obs = obs[:3] // (never NotFound about an object held by a finalizer)
			}
			for n, ob := range obs {
				if !fin {
					c.fixedHistory(u3, empty, []fixedRun{{local: set, opts: real, foreign: map[int][]SObs{1: ob}}, {local: set, opts: real}})
				}
				o := real
				if n%2 == 1 {
					o = Opts{Prune: true, Policy: PAdoptAll, SSA: true, StatusEvents: true}
				}
				c.fixedHistory(u3, empty, []fixedRun{rej(fixedRun{local: set, opts: o, foreign: map[int][]SObs{1: ob}, nextGet: []int{si}}), {local: set, opts: real}})
			}
		}
	}
	// 23. (mutation campaign mutE, applier.go localNamespaces) a tracked Namespace object leaves the apply set
	// while the apply set still has an object in that namespace that is INVALID (graph-invalid: malformed
	// depends-on; field-invalid: unknown apiVersion): the invalid object is not in the dependency graph, so
	// only the LocalNamespacesFilter (computed from ALL local objects) spares the namespace — with a valid
	// object the namespace edge of the graph (strategy mismatch) spares it as well and hides the filter
	{
		for _, finv := range []bool{false, true} {
			es := []UEntry{Entry("Namespace", "", otherNS), Entry("ConfigMap", otherNS, "cm-a"), Entry("ConfigMap", invNS, "cm-b")}
			if finv {
				es = []UEntry{Entry("Namespace", "", otherNS), EntryInvalid("apps/v9", "Deployment", otherNS, "dep-v9"), Entry("ConfigMap", invNS, "cm-b")}
			}
			un := NewUniverse(es)
			ns, in, other := -1, -1, -1
			for i, e := range un {
				switch {
				case e.Kind == KNs:
					ns = i
				case e.Meta.Namespace == otherNS:
					in = i
				default:
					other = i
				}
			}
			tracked := Cluster{NextUID: 100, HasInv: true, Inv: []int{ns, other}, Objs: []CObj{
				CObj{ID: ns, UID: 1, Owner: OOurs, Ver: 1}.Applied(), CObj{ID: other, UID: 2, Owner: OOurs, Ver: 1}.Applied()}}
			sort.Slice(tracked.Objs, func(i, j int) bool { return tracked.Objs[i].ID < tracked.Objs[j].ID })
			sort.Ints(tracked.Inv)
			bad := LObj{ID: in, Ver: 1, BadDep: !finv, FInv: finv}
			for _, pol := range []Policy{PMustMatch, PAdoptAll} {
				c.fixedHistory(un, tracked, []fixedRun{{local: []LObj{bad, {ID: other, Ver: 1}}, opts: Opts{Prune: true, Policy: pol, ValPol: VSkipInvalid}}})
			}
		}
	}
	// a plain round trip: apply two, apply one (prune), destroy
	c.fixedHistory(u, Cluster{NextUID: 100}, []fixedRun{
		{local: []LObj{{ID: 0, Ver: 1}, {ID: 1, Ver: 1, Deps: []int{0}}}, opts: Opts{Prune: true, Policy: PMustMatch}},
		{local: []LObj{{ID: 0, Ver: 1}}, opts: Opts{Prune: true, Policy: PMustMatch}},
		{opts: Opts{Destroy: true, Prune: true, Policy: PMustMatch}}})
}

// base generates one random base history (and, depending on the profile, its
// fault variants).
func b2i(b bool) int {
	if b {
		return 1
	}
	return 0
}

func (c *collector) base(r *rand.Rand, p profile, budget *int) {
	// dry-run is decided per history
	nDry := 0
	for _, d := range p.dry {
		if d != DNone {
			nDry++
		}
	}
	allowDry := nDry > 0 && chance(r, []float64{0.5, 0.85}[b2i(2*nDry >= len(p.dry))])
	u := genUniverse(r, p)
	init := genCluster(r, p, u)
	st := NewStore(u, init)
	h := History{Univ: u, Initial: init, Reuse: chance(r, 0.5)}
	if h.Reuse {
		defer c.reuse()()
	}
	n := p.runsMin + r.Intn(p.runsMax-p.runsMin+1)
	enumAt := -1
	if p.faults == "enum" || p.faults == "pairs" {
		enumAt = r.Intn(n)
	}
	histSSA := chance(r, p.pSSA)
	var prev *Scenario
	for k := 0; k < n && *budget > 0; k++ {
		sc := Scenario{Univ: u}
		cur := st.Observe()
		st.takeNotes()
		if !wellFormed(u, cur) {
			c.sum.Count("history-ended:inventory-in-missing-namespace")
			break
		}
		if prev != nil && chance(r, p.pIdentical) {
			sc.Local, sc.Opts = prev.Local, prev.Opts
		} else {
			sc.Opts = genOpts(r, p, k, histSSA, allowDry)
			if !sc.Opts.Destroy {
				sc.Local = genLocals(r, p, u, cur)
			}
			for _, l := range sc.Local {
				// an APIService in the apply set: server-side apply half of the time (the fallback needs it)
				if u[l.ID].Kind == KApiSvc && chance(r, 0.5) {
					sc.Opts.SSA = true
				}
			}
		}
		for try := 0; orderDependent(u, cur, sc) && try < 6; try++ {
			c.sum.Count("regenerated:order-dependent-shape")
			sc.Opts = genOpts(r, p, k, histSSA, allowDry)
			sc.Local = nil
			if !sc.Opts.Destroy {
				sc.Local = genLocals(r, p, u, cur)
			}
		}
		if orderDependent(u, cur, sc) {
			break
		}
		probe := Probe(st, sc)
		c.probes++
		sc.Env = genEnv(r, p, &sc.Opts, cur, probe, sc.Local)
		genLate(r, p, &sc, probe, c.hung >= 3)
		if k == enumAt {
			c.variants(r, p, st, h, sc, probe, budget)
		}
		res := c.run(st, sc)
		sc.Univ = res.Univ
		*budget--
		c.count(sc, res)
		h.Runs, h.Outs = append(h.Runs, sc), append(h.Outs, res.Out)
		if res.Hung {
			break // the store may still be in use by the run that did not finish
		}
		s := sc
		prev = &s
	}
	if len(h.Runs) > 0 {
		c.add(h)
	}
}

// endsFor copies the probe's reconciling deliveries; a wait the probe had to time out
// (a finalizer-held object lingers) ends by the scenario's own timeout when it has
// one, by cancellation otherwise.
func endsFor(pr RunResult, o Opts) []WSched {
	kinds := waitKinds(pr.Plan)
	ws := append([]WSched(nil), pr.Waits...)
	for k := range ws {
		on := (kinds[k] && o.PruneTimeout) || (!kinds[k] && o.RecTimeout)
		if ws[k].End == WTimeout && !on {
			ws[k].End = WCancel
		}
	}
	return ws
}

// variants re-executes run k of the history with every single address (and,
// for "pairs", every pair of addresses of short runs) rejected. Each variant is
// its own case: the initial cluster is the observed cluster before run k.
func (c *collector) variants(r *rand.Rand, p profile, st *Store, h History, sc Scenario, probe RunResult, budget *int) {
	// variants branch off the history: fresh Applier / Destroyer objects for each of their runs
	sa, sb := c.sessA, c.sessB
	c.sessA, c.sessB = nil, nil
	defer func() { c.sessA, c.sessB = sa, sb }()
	h.Reuse = false
	start := st.Observe()
	st.takeNotes()
	var sets [][]FAddr
	for _, a := range probe.Addrs {
		sets = append(sets, []FAddr{withErrKind(r, a)})
		if a.Kind == "FStream" && a.N == 0 {
			// the fallback runs and one of its own requests is rejected
			for _, b := range fallbackFaults(sc.Opts, probe, a.I) {
				sets = append(sets, []FAddr{a, withErrKind(r, b)})
			}
		}
	}
	if p.faults == "pairs" && probe.NReq <= 12 {
		for i := range probe.Addrs {
			for j := i + 1; j < len(probe.Addrs); j++ {
				sets = append(sets, []FAddr{withErrKind(r, probe.Addrs[i]), withErrKind(r, probe.Addrs[j])})
			}
		}
		if len(sets) > 40 {
			r.Shuffle(len(sets), func(i, j int) { sets[i], sets[j] = sets[j], sets[i] })
			sets = sets[:40]
		}
	}
	if !c.thorough && len(sets) > 8 {
		// quick tier: eight variants per base, least exercised address kinds first
		r.Shuffle(len(sets), func(i, j int) { sets[i], sets[j] = sets[j], sets[i] })
		weight := func(fs []FAddr) int {
			w := 0
			for _, f := range fs {
				w += c.sum.Distribution["fault:"+f.Kind]
			}
			return w
		}
		sort.SliceStable(sets, func(i, j int) bool { return weight(sets[i]) < weight(sets[j]) })
		sets = sets[:8]
	}
	for _, fs := range sets {
		if *budget <= 0 {
			return
		}
		v := sc
		v.Env.Faults = fs
		cs := st.Clone()
		res := c.run(cs, v)
		v.Univ = res.Univ
		*budget--
		c.count(v, res)
		c.sum.Count("variant")
		hv := History{Univ: h.Univ, Initial: h.Initial, Runs: append(append([]Scenario(nil), h.Runs...), v),
			Outs: append(append([]Outcome(nil), h.Outs...), res.Out)}
		if len(h.Runs) > 0 && chance(r, 0.5) {
			// shorter case: start from the observed cluster before this run
			hv = History{Univ: h.Univ, Initial: start, Runs: []Scenario{v}, Outs: []Outcome{res.Out}}
			c.sum.Count("variant:from-observed-cluster")
		}
		// a fault-free follow-up run with the same objects shows the recovery
		if chance(r, 0.4) && *budget > 0 && wellFormed(h.Univ, cs.Observe()) {
			f := sc
			pr := Probe(cs, f)
			c.probes++
			f.Env = Env{WatchErrAt: -1, Waits: endsFor(pr, f.Opts)}
			res2 := c.run(cs, f)
			f.Univ = res2.Univ
			*budget--
			c.count(f, res2)
			hv.Runs, hv.Outs = append(hv.Runs, f), append(hv.Outs, res2.Out)
		}
		c.add(hv)
	}
}

// ---- entry point --------------------------------------------------------------------------------------

// AddCases runs the profile `prop` and merges its case files, evaluations,
// distribution and implementation failures into the summary of another check
// (the way c11plan.AddCases extends the C11 summary).
func AddCases(sum *emit.Summary, prop string, seed int64, tier, outDir string) error {
	sub, err := Supervised(prop)(seed, tier, outDir)
	if err != nil {
		return err
	}
	sum.Evaluations += sub.Evaluations
	sum.DistinctNontrivial += sub.DistinctNontrivial
	sum.CaseFiles = append(sum.CaseFiles, sub.CaseFiles...)
	for k, v := range sub.CaseText {
		sum.CaseText[k] = v
	}
	for k, v := range sub.Distribution {
		sum.Distribution[prop+":"+k] += v
	}
	sum.ImplFailures = append(sum.ImplFailures, sub.ImplFailures...)
	sum.Extra[prop] = sub.Extra
	sum.Rule += " | " + prop + ": " + sub.Rule
	sum.Samples = append(sum.Samples, sub.Samples...)
	return nil
}

// RunFor returns the runner of one property.
func RunFor(prop string) emit.Runner {
	return func(seed int64, tier, outDir string) (*emit.Summary, error) {
		p, ok := profiles[prop]
		if !ok {
			return nil, fmt.Errorf("pipeline: no profile for %s", prop)
		}
		return runProfile(p, seed, tier, outDir)
	}
}

func runProfile(p profile, seed int64, tier, outDir string) (*emit.Summary, error) {
	quietKlog()
	r := rand.New(rand.NewSource(seed))
	sum := emit.NewSummary(p.name, seed, tier)
	c := &collector{prop: p.name, sum: sum, thorough: tier == "thorough",
		checkBoth: tier != "thorough" || os.Getenv("VERIF_PIPELINE_TWICE") == "1"}
	// warm-up: the first run starts process-wide background goroutines (klog, …)
	{
		u := NewUniverse([]UEntry{Entry("ConfigMap", invNS, "cm-a")})
		Probe(NewStore(u, Cluster{NextUID: 100}), Scenario{Univ: u, Local: []LObj{{ID: 0, Ver: 1}}, Opts: Opts{Prune: true}})
		time.Sleep(5 * time.Millisecond)
		c.baseG = runtime.NumGoroutine()
	}
	budget := 780
	if tier == "thorough" {
		budget = 6000
	}
	if p.budget > 0 {
		budget = p.budget
		if tier == "thorough" {
			budget = 8 * p.budget
		}
	}
	t0 := time.Now()
	if !p.noCorpus {
		c.corpus()
	}
	if p.check == "" {
		budget -= c.runs // registered checks: the corpus counts; check_all campaigns: budget = generated runs
	}
	for budget > 0 {
		c.base(r, p, &budget)
	}
	elapsed := time.Since(t0)
	// requests arriving long after a run ended would show up as goroutines
	time.Sleep(100 * time.Millisecond)
	if n, ok := settleGoroutines(c.baseG, 200*time.Millisecond); !ok {
		c.failures = append(c.failures, fmt.Sprintf("goroutine leak at the end: %d goroutines, %d at the start", n, c.baseG))
	}
	for _, res := range c.results {
		c.failures = append(c.failures, res.LateRequests()...)
	}

	var terms []string
	var nontr []bool
	const perFile = 60
	for i := 0; i < len(c.hist); i += perFile {
		cf := &emit.CaseFile{Name: fmt.Sprintf("Cases_%s_%d", p.name, i/perFile),
			Imports: "From CliUtils Require Import Model.PipelineTypes Corr.CorrPipeline.",
			Check:   "check_" + p.name}
		if p.name == "C05" {
			// extra monitor conjunct (seed C05h): a rejected delete is never reported successful (Corr/CorrC05x.v)
			cf.Imports = "From CliUtils Require Import Model.PipelineTypes Corr.CorrPipeline Corr.CorrC05x."
			cf.Check = "check_C05x"
		}
		if p.check != "" {
			// mutation campaigns (tools/mutpipe.py): every monitor on every case
			cf.Imports = "From CliUtils Require Import Model.PipelineTypes Corr.CorrPipeline Corr.CorrPipelineAll."
			cf.Check = p.check
		}
		for _, h := range c.hist[i:min(i+perFile, len(c.hist))] {
			t := h.Coq()
			cf.Add(t, h.Text())
			terms = append(terms, t)
			nt := false
			for _, o := range h.Outs {
				nt = nt || o.Nontrivial()
			}
			nontr = append(nontr, nt)
		}
		if err := cf.Write(outDir, sum); err != nil {
			return nil, err
		}
	}
	sum.Evaluations = c.runs
	sum.DistinctNontrivial = emit.Distinct(terms, nontr)
	sum.Rule = "one case = one history (initial cluster + 1..4 runs of the real Applier/Destroyer over the fake API server and the scripted watcher); " +
		"evaluations = runs; non-trivial = at least one mutating request or one apply/prune/wait result event in some run; distinct = distinct Coq case terms. " +
		"The fixed corpus (former defect witnesses) comes first; then seeded base histories of profile " + p.name +
		" (faults: " + p.faults + ") with environments derived from a fault-free probe of every run."
	sum.ImplFailures = c.failures
	sum.Extra["histories"] = len(c.hist)
	sum.Extra["probe_runs"] = c.probes
	sum.Extra["run_rate_per_s"] = fmt.Sprintf("%.1f", float64(c.runs)/elapsed.Seconds())
	sum.Extra["ms_per_run"] = fmt.Sprintf("%.1f", float64(c.execTime.Milliseconds())/float64(max(c.runs, 1)))
	sum.Extra["determinism"] = fmt.Sprintf("%d of %d runs executed twice from the same state; differing traces: %d", c.twice, c.runs, len(c.flaky))
	if len(c.flaky) > 0 {
		sum.Extra["flaky"] = c.flaky
	}
	if len(c.hist) > 0 {
		sum.Samples = []any{c.hist[0].Text(), c.hist[len(c.hist)-1].Text()}
	}
	return sum, nil
}
