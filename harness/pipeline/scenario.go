// Package pipeline drives the real apply.Applier / apply.Destroyer over a
// stateful fake API server and a scripted status watcher and prints the
// observed traces as Gallina terms over Model/PipelineTypes.v.
//
// scenario.go: Go mirrors of the Gallina types and their printers.
package pipeline

import (
	"fmt"
	"sort"
	"strings"

	"k8s.io/apimachinery/pkg/runtime/schema"
	"sigs.k8s.io/cli-utils/pkg/object"
	"sigs.k8s.io/cli-utils/pkg/ordering"
	"verifharness/emit"
)

// ---- universe ---------------------------------------------------------------

type KindC int

const (
	KNs KindC = iota
	KCrd
	KPlain
	KApiSvc // apiregistration.k8s.io APIService: the kind with a client-side fallback in ApplyTask
)

func (k KindC) Coq() string { return [...]string{"KNs", "KCrd", "KPlain", "KApiSvc"}[k] }

// UEntry is one identifier of a history's universe. The index of the entry in
// the universe is the nat used in the Coq terms.
type UEntry struct {
	Meta       object.ObjMetadata
	APIVersion string
	GVR        schema.GroupVersionResource
	Namespaced bool // scope of the kind
	Kind       KindC
	NsObj      int  // -1 = None
	Crd        int  // -1 = None
	FInv       bool // identifier fails field validation (namespace on a cluster-scoped kind / none on a namespaced one)
	KeepVar    int  // spelling of the keep attribute (index into keepVariants; 0 = by parity of the id)
	Mut        bool // the dependency references of this id are spelled as apply-time-mutation substitutions
	PreOwner   int  // the input manifest already carries an owning-inventory annotation: 1 = another id, 2 = ours
	Fin        bool // every incarnation carries metadata.finalizers [finalizerName]; nobody removes it
	Term       bool // per run (Universe.forRun): the object is terminating (deletionTimestamp set) when the run starts
}

// GCur mirrors u_gcur: kstatus computes Current for the object as a GET returns it during the run.
// The manifests carry no status, so a Deployment (no replicas observed) and a CustomResourceDefinition
// (no Established condition) are InProgress; a terminating object is Terminating; every other kind of
// the harness is Current (ConfigMap / Secret: always ready, the rest: the generic rule).
func (u UEntry) GCur() bool {
	k := u.Meta.GroupKind.Kind
	return !u.Term && k != "Deployment" && k != "CustomResourceDefinition"
}

// Referable: a dependency annotation can name the identifier (it has a kind and a name).
func (u UEntry) Referable() bool { return u.Meta.Name != "" && u.Meta.GroupKind.Kind != "" }

type Universe []UEntry

func optNat(i int) string {
	if i < 0 {
		return "None"
	}
	return fmt.Sprintf("(Some %d)", i)
}

func (u UEntry) Coq() string {
	return emit.App("mkUF", u.Kind.Coq(), optNat(u.NsObj), optNat(u.Crd), emit.Bool(u.Fin), emit.Bool(u.GCur()))
}

func (u Universe) Coq() string {
	s := make([]string, len(u))
	for i, e := range u {
		s[i] = e.Coq()
	}
	return emit.List(s)
}

// Index returns the universe id of an identifier, or -1.
func (u Universe) Index(m object.ObjMetadata) int {
	for i, e := range u {
		if e.Meta == m {
			return i
		}
	}
	return -1
}

// InvNs returns the id of the Namespace object of the inventory namespace.
func (u Universe) InvNs() int {
	return u.Index(object.ObjMetadata{Name: invNS, GroupKind: schema.GroupKind{Kind: "Namespace"}})
}

// NewUniverse orders the entries with the repo's own ordering and resolves the
// namespace-object and CRD references.
func NewUniverse(entries []UEntry) Universe {
	metas := make([]object.ObjMetadata, len(entries))
	byMeta := map[object.ObjMetadata]UEntry{}
	for i, e := range entries {
		metas[i] = e.Meta
		byMeta[e.Meta] = e
	}
	sort.Sort(ordering.SortableMetas(metas))
	u := make(Universe, 0, len(metas))
	for i, m := range metas {
		if i > 0 && metas[i-1] == m {
			continue
		}
		u = append(u, byMeta[m])
	}
	for i := range u {
		u[i].NsObj, u[i].Crd = -1, -1
		if ns := u[i].Meta.Namespace; ns != "" {
			// prefer the well-formed Namespace object of that name
			u[i].NsObj = u.Index(object.ObjMetadata{Name: ns, GroupKind: schema.GroupKind{Kind: "Namespace"}})
			if u[i].NsObj < 0 {
				for j, e := range u {
					if e.Kind == KNs && e.Meta.Name == ns && j != i {
						u[i].NsObj = j
						break
					}
				}
			}
		}
		if u[i].Meta.GroupKind == barGK {
			u[i].Crd = u.Index(crdMeta)
		}
	}
	return u
}

// ---- local objects ------------------------------------------------------------

type LObj struct {
	ID     int
	Deps   []int
	BadDep bool
	FInv   bool
	Keep   bool
	Ver    int
}

// Coq prints the manifest; mut = its references are spelled as apply-time-mutation substitutions (l_mut).
func (l LObj) Coq(mut bool) string {
	return emit.App("mkLM", emit.Nat(l.ID), emit.NatList(l.Deps), emit.Bool(l.BadDep), emit.Bool(l.FInv), emit.Bool(l.Keep), emit.Nat(l.Ver), emit.Bool(mut))
}

// ---- cluster --------------------------------------------------------------------

type Owner int

const (
	ONone Owner = iota
	OOurs
	OOther
)

func (o Owner) Coq() string { return [...]string{"ONone", "OOurs", "OOther"}[o] }

// LastCfg is the content of the last-applied-configuration annotation on the
// modelled attributes.
type LastCfg struct {
	Owner  Owner
	Keep   bool
	Deps   []int
	BadDep bool
	Ver    int
}

func (l LastCfg) Coq() string {
	return emit.App("mkLA", l.Owner.Coq(), emit.Bool(l.Keep), emit.NatList(l.Deps), emit.Bool(l.BadDep), emit.Nat(l.Ver))
}

type CObj struct {
	ID     int
	UID    uint64
	Owner  Owner
	Keep   bool
	Deps   []int
	BadDep bool
	Ver    int
	Last   *LastCfg // nil: no last-applied-configuration annotation
}

// Attrs returns the live attributes in the shape of a last-applied content.
func (c CObj) Attrs() LastCfg {
	return LastCfg{Owner: c.Owner, Keep: c.Keep, Deps: append([]int(nil), c.Deps...), BadDep: c.BadDep, Ver: c.Ver}
}

func (l LastCfg) Equal(m LastCfg) bool {
	if l.Owner != m.Owner || l.Keep != m.Keep || l.BadDep != m.BadDep || l.Ver != m.Ver || len(l.Deps) != len(m.Deps) {
		return false
	}
	for i := range l.Deps {
		if l.Deps[i] != m.Deps[i] {
			return false
		}
	}
	return true
}

// Applied marks the object as applied client-side with exactly its live content.
func (c CObj) Applied() CObj {
	a := c.Attrs()
	c.Last = &a
	return c
}

func (c CObj) Coq() string {
	last := "None"
	if c.Last != nil {
		last = "(Some " + c.Last.Coq() + ")"
	}
	return emit.App("mkC", emit.Nat(c.ID), emit.N(c.UID), c.Owner.Coq(), emit.Bool(c.Keep), emit.NatList(c.Deps),
		emit.Bool(c.BadDep), emit.Nat(c.Ver), last)
}

type Cluster struct {
	Objs    []CObj
	HasInv  bool
	Inv     []int
	NextUID uint64
}

func optNatList(has bool, l []int) string {
	if !has {
		return "None"
	}
	return "(Some " + emit.NatList(l) + ")"
}

func (c Cluster) Coq() string {
	s := make([]string, len(c.Objs))
	for i, o := range c.Objs {
		s[i] = o.Coq()
	}
	return emit.App("mkCl", emit.List(s), optNatList(c.HasInv, c.Inv), emit.N(c.NextUID))
}

func (c Cluster) Text() string {
	var b strings.Builder
	for _, o := range c.Objs {
		fmt.Fprintf(&b, "%d{u%d %s", o.ID, o.UID, strings.TrimPrefix(o.Owner.Coq(), "O"))
		if o.Keep {
			b.WriteString(" keep")
		}
		if len(o.Deps) > 0 {
			fmt.Fprintf(&b, " deps%v", o.Deps)
		}
		if o.BadDep {
			b.WriteString(" baddep")
		}
		fmt.Fprintf(&b, " v%d", o.Ver)
		if o.Last != nil {
			if o.Last.Equal(o.Attrs()) {
				b.WriteString(" applied")
			} else {
				l := o.Last
				fmt.Fprintf(&b, " last(%s", strings.TrimPrefix(l.Owner.Coq(), "O"))
				if l.Keep {
					b.WriteString(" keep")
				}
				if len(l.Deps) > 0 {
					fmt.Fprintf(&b, " deps%v", l.Deps)
				}
				if l.BadDep {
					b.WriteString(" baddep")
				}
				fmt.Fprintf(&b, " v%d)", l.Ver)
			}
		}
		b.WriteString("} ")
	}
	if c.HasInv {
		fmt.Fprintf(&b, "inv%v", c.Inv)
	} else {
		b.WriteString("inv=None")
	}
	fmt.Fprintf(&b, " next=%d", c.NextUID)
	return b.String()
}

func (c Cluster) Find(id int) *CObj {
	for i := range c.Objs {
		if c.Objs[i].ID == id {
			return &c.Objs[i]
		}
	}
	return nil
}

// ---- options ------------------------------------------------------------------------

type Policy int

const (
	PMustMatch Policy = iota
	PAdoptIfNoInventory
	PAdoptAll
)

func (p Policy) Coq() string {
	return [...]string{"PMustMatch", "PAdoptIfNoInventory", "PAdoptAll"}[p]
}

type Dry int

const (
	DNone Dry = iota
	DClient
	DServer
)

func (d Dry) Coq() string { return [...]string{"DNone", "DClient", "DServer"}[d] }

type ValPol int

const (
	VExitEarly ValPol = iota
	VSkipInvalid
)

func (v ValPol) Coq() string { return [...]string{"VExitEarly", "VSkipInvalid"}[v] }

type Prop int

const (
	PropBackground Prop = iota
	PropForeground
	PropOrphan
)

func (p Prop) Coq() string {
	return [...]string{"PropBackground", "PropForeground", "PropOrphan"}[p]
}

type Opts struct {
	Destroy         bool
	Prune           bool
	Policy          Policy
	Dry             Dry
	ValPol          ValPol
	SSA             bool
	RecTimeout      bool
	PruneTimeout    bool
	StatusEvents    bool
	Prop            Prop
	StatusPolicyAll bool
	// PropUnset: a spelling of Prop = PropBackground (not part of the Coq term): the propagation-policy
	// option is left EMPTY and the Applier / Destroyer must default it to Background themselves
	PropUnset bool
}

func (o Opts) Coq() string {
	return emit.App("mkO", emit.Bool(o.Destroy), emit.Bool(o.Prune), o.Policy.Coq(), o.Dry.Coq(), o.ValPol.Coq(),
		emit.Bool(o.SSA), emit.Bool(o.RecTimeout), emit.Bool(o.PruneTimeout), emit.Bool(o.StatusEvents), o.Prop.Coq(),
		emit.Bool(o.StatusPolicyAll))
}

func (o Opts) Text() string {
	var p []string
	if o.Destroy {
		p = append(p, "destroy")
	} else {
		p = append(p, "apply")
		if !o.Prune {
			p = append(p, "noprune")
		}
	}
	p = append(p, strings.TrimPrefix(o.Policy.Coq(), "P"))
	if o.Dry != DNone {
		p = append(p, o.Dry.Coq())
	}
	p = append(p, o.ValPol.Coq())
	if o.SSA {
		p = append(p, "ssa")
	}
	if o.RecTimeout {
		p = append(p, "rectimeout")
	}
	if o.PruneTimeout {
		p = append(p, "prunetimeout")
	}
	if o.StatusEvents {
		p = append(p, "statusevents")
	}
	if o.Prop != PropBackground {
		p = append(p, o.Prop.Coq())
	} else if o.PropUnset {
		p = append(p, "prop-unset")
	}
	if o.StatusPolicyAll {
		p = append(p, "statusall")
	}
	return strings.Join(p, ",")
}

// ---- environment -------------------------------------------------------------------------

// FAddr is a request class that can be rejected. Kind is the Gallina
// constructor name; I and N are used as the constructor demands.
type FAddr struct {
	Kind string
	I, N int
	// Err selects the error the fake server answers with when this address is in
	// e_faults (index into faultErrs; 0 = 500 InternalError). Not part of the
	// Coq term: for the model a fault is a fault.
	Err int
}

// faultErrs: the real code branches only on NotFound / AlreadyExists / NoMatch,
// so every other kind must be handled like an internal error.
var faultErrs = []int{500, 403, 409, 400, 503}

func (f FAddr) Coq() string {
	switch f.Kind {
	case "FInvList", "FInvGet", "FInvWrite":
		return emit.App(f.Kind, emit.Nat(f.N))
	case "FInvDelete", "FNsCreate":
		return f.Kind
	case "FGet", "FStream":
		return emit.App(f.Kind, emit.Nat(f.I), emit.Nat(f.N))
	case "FApply", "FUpdate", "FDelete":
		return emit.App(f.Kind, emit.Nat(f.I))
	}
	panic("bad faddr " + f.Kind)
}

// Key is the canonical text of an address (used as a map key and in texts).
func (f FAddr) Key() string { return strings.Trim(f.Coq(), "()") }

type Kst int

const (
	SInProgress Kst = iota
	SFailed
	SCurrent
	STerminating
	SNotFound
	SUnknown
)

func (k Kst) Coq() string {
	return [...]string{"SInProgress", "SFailed", "SCurrent", "STerminating", "SNotFound", "SUnknown"}[k]
}

type SObs struct {
	ID   int
	St   Kst
	Body bool
	UID  uint64
	Gen  int64
}

func (s SObs) Coq() string {
	return emit.App("mkS", emit.Nat(s.ID), s.St.Coq(), emit.Bool(s.Body), emit.N(s.UID), emit.Z(s.Gen))
}

func (s SObs) Text() string {
	if !s.Body {
		return fmt.Sprintf("%d:%s(nobody)", s.ID, strings.TrimPrefix(s.St.Coq(), "S"))
	}
	return fmt.Sprintf("%d:%s(u%d,g%d)", s.ID, strings.TrimPrefix(s.St.Coq(), "S"), s.UID, s.Gen)
}

type WEnd int

const (
	WTimeout WEnd = iota
	WCancel
)

func (w WEnd) Coq() string { return [...]string{"WTimeout", "WCancel"}[w] }

type WSched struct {
	Deliv []SObs
	End   WEnd
}

func (w WSched) Coq() string {
	s := make([]string, len(w.Deliv))
	for i, d := range w.Deliv {
		s[i] = d.Coq()
	}
	return emit.App("mkW", emit.List(s), w.End.Coq())
}

type CancelKind int

const (
	CNever CancelKind = iota
	CBeforeSync
	CDuringReq
)

type CancelPt struct {
	Kind CancelKind
	I    int
	// ByWatcher: CBeforeSync spelled as a status watcher that reports a fatal error INSTEAD of its sync
	// event and stops (the context stays live). Same observable run: plan event, one error event, closed
	// channel, no task started. Not part of the Coq scenario.
	ByWatcher bool
}

func (c CancelPt) Coq() string {
	switch c.Kind {
	case CNever:
		return "CNever"
	case CBeforeSync:
		return "CBeforeSync"
	}
	return emit.App("CDuringReq", emit.Nat(c.I))
}

type Env struct {
	Faults     []FAddr
	Waits      []WSched
	Cancel     CancelPt
	WatchErrAt int // -1 = None
}

func (e Env) Coq() string {
	f := make([]string, len(e.Faults))
	for i, a := range e.Faults {
		f[i] = a.Coq()
	}
	w := make([]string, len(e.Waits))
	for i, s := range e.Waits {
		w[i] = s.Coq()
	}
	return emit.App("mkE", emit.List(f), emit.List(w), e.Cancel.Coq(), optNat(e.WatchErrAt))
}

func (e Env) Text() string {
	var p []string
	for _, a := range e.Faults {
		if a.Kind == "FStream" {
			// the N-th server-side-apply PATCH of the object dies with an HTTP/2 stream error
			p = append(p, fmt.Sprintf("fault:%s/stream", a.Key()))
			continue
		}
		p = append(p, fmt.Sprintf("fault:%s/%d", a.Key(), faultErrs[a.Err]))
	}
	for k, w := range e.Waits {
		var d []string
		for _, s := range w.Deliv {
			d = append(d, s.Text())
		}
		p = append(p, fmt.Sprintf("wait%d[%s]%s", k, strings.Join(d, " "), w.End.Coq()))
	}
	if e.Cancel.Kind != CNever {
		p = append(p, strings.Trim(e.Cancel.Coq(), "()"))
		if e.Cancel.ByWatcher {
			p = append(p, "(spelled: watcher error before sync)")
		}
	}
	if e.WatchErrAt >= 0 {
		p = append(p, fmt.Sprintf("watcherr@%d", e.WatchErrAt))
	}
	return strings.Join(p, " ")
}

// LateSpec is a scheduling perturbation of the harness, not part of the Coq
// scenario: when wait group Wait reaches its first terminal wait event (first
// Timeout event, or the event that empties the pending set) the event consumer
// stops reading for a moment (a slow consumer) and the watcher reports N more
// statuses for objects of that group, each an exact repeat of the object's last
// reported status (Unknown without body when there was none). In correct code
// such a status has no effect whenever the runner gets to it (proof by cases
// over WaitTask.StatusUpdate), so the late deliveries are not part of the trace.
type LateSpec struct{ Wait, N, Off int }

type Scenario struct {
	Univ  Universe
	Local []LObj
	Opts  Opts
	Env   Env
	Late  []LateSpec
}

func (s Scenario) Coq() string {
	l := make([]string, len(s.Local))
	for i, o := range s.Local {
		l[i] = o.Coq(o.ID < len(s.Univ) && s.Univ[o.ID].Mut)
	}
	return emit.App("mkSc", s.Univ.Coq(), optNat(s.Univ.InvNs()), emit.List(l), s.Opts.Coq(), s.Env.Coq())
}

func (s Scenario) Text() string {
	var l []string
	for _, o := range s.Local {
		t := fmt.Sprintf("%d", o.ID)
		if len(o.Deps) > 0 {
			t += fmt.Sprintf("->%v", o.Deps)
		}
		if o.BadDep {
			t += "!baddep"
		}
		if o.FInv {
			t += "!finv"
		}
		if o.Keep {
			t += "+keep"
		}
		t += fmt.Sprintf("v%d", o.Ver)
		l = append(l, t)
	}
	late := ""
	for i, e := range s.Univ {
		if e.Term {
			late += fmt.Sprintf(" terminating:%d", i)
		}
	}
	for _, x := range s.Late {
		late += fmt.Sprintf(" late@%d(n%d,o%d)", x.Wait, x.N, x.Off)
	}
	return fmt.Sprintf("%s local[%s] %s%s", s.Opts.Text(), strings.Join(l, " "), s.Env.Text(), late)
}

// ---- trace ---------------------------------------------------------------------------------

var gkNames = map[string]string{"inventory-add": "GInvAdd", "apply": "GApply", "wait": "GWait", "prune": "GPrune",
	"inventory-set": "GInvSet", "inventory-delete-or-update": "GInvSet"}

// gname turns a task name such as "apply-1" into "(GApply, 1)"; ok=false when
// the name is not one the model knows.
func gname(name string) (string, string, int, bool) {
	i := strings.LastIndex(name, "-")
	if i < 0 {
		return "", "", 0, false
	}
	var n int
	if _, err := fmt.Sscanf(name[i+1:], "%d", &n); err != nil {
		return "", "", 0, false
	}
	g, ok := gkNames[name[:i]]
	if !ok {
		return "", "", 0, false
	}
	return fmt.Sprintf("(%s, %d)", g, n), g, n, true
}

// Item is one entry of the merged trace.
type Item struct {
	Seq      int64
	Coq      string
	Text     string
	Mutating bool // a mutating request
	Result   bool // an apply / prune / wait result event
}

type Outcome struct {
	Trace []Item
	Final Cluster
}

func (o Outcome) Coq() string {
	s := make([]string, len(o.Trace))
	for i, it := range o.Trace {
		s[i] = it.Coq
	}
	return emit.App("mkOut", emit.List(s), o.Final.Coq())
}

func (o Outcome) Text() string {
	s := make([]string, len(o.Trace))
	for i, it := range o.Trace {
		s[i] = it.Text
	}
	return strings.Join(s, " | ") + " => " + o.Final.Text()
}

func (o Outcome) Nontrivial() bool {
	for _, it := range o.Trace {
		if it.Mutating || it.Result {
			return true
		}
	}
	return false
}

// History is one case: an initial cluster and the runs executed from it.
type History struct {
	Univ    Universe
	Initial Cluster
	Runs    []Scenario
	Outs    []Outcome
	Reuse   bool // one Applier and one Destroyer object served all runs (not part of the Coq case)
}

func (h History) Coq() string {
	s := make([]string, len(h.Runs))
	for i := range h.Runs {
		s[i] = "(" + h.Runs[i].Coq() + ", " + h.Outs[i].Coq() + ")"
	}
	return "(" + h.Initial.Coq() + ",\n   " + emit.List(s) + ")"
}

// knownFindingMarkers returns the tags of known findings the observed traces exhibit.
func (h History) knownFindingMarkers() string {
	out := ""
	for _, o := range h.Outs {
		created := map[string]bool{}
		hit := false
		for _, it := range o.Trace {
			if strings.HasPrefix(it.Text, "REQ RNsCreate ") && strings.Contains(it.Text, " ok ") {
				created[strings.Fields(it.Text)[2]] = true
			}
			if strings.HasPrefix(it.Text, "EV apply ") {
				f := strings.Fields(it.Text)
				if created[f[3]] && (strings.HasPrefix(f[4], "AFail") || strings.HasPrefix(f[4], "ASkip")) {
					hit = true
				}
			}
		}
		if hit && !strings.Contains(out, "KF-invns-apply-failed") {
			out += "[KF-invns-apply-failed] "
		}
	}
	return out
}

func (h History) Text() string {
	var b strings.Builder
	b.WriteString(h.knownFindingMarkers())
	if h.Reuse {
		b.WriteString("reuse ")
	}
	fmt.Fprintf(&b, "univ[%s] init{%s}", h.Univ.Text(), h.Initial.Text())
	for i := range h.Runs {
		fmt.Fprintf(&b, " RUN%d %s :: %s", i, h.Runs[i].Text(), h.Outs[i].Text())
	}
	return b.String()
}

func (u Universe) Text() string {
	s := make([]string, len(u))
	for i, e := range u {
		ns := e.Meta.Namespace
		if ns != "" {
			ns += "/"
		}
		s[i] = fmt.Sprintf("%d=%s:%s%s", i, e.Meta.GroupKind.Kind, ns, e.Meta.Name)
		if e.KeepVar > 0 {
			s[i] += fmt.Sprintf("~k%d", e.KeepVar)
		}
		if e.Mut {
			s[i] += "~mut"
		}
		if e.PreOwner > 0 {
			s[i] += fmt.Sprintf("~pre%d", e.PreOwner)
		}
		if e.Fin {
			s[i] += "~fin"
		}
	}
	return strings.Join(s, " ")
}
