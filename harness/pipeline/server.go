// server.go: the fake API server. One store (the dynamicfake object tracker)
// behind one mutex; every request of the dynamic client decorator and of the
// REST handler is classified, optionally rejected (fault injection), applied to
// the store, sequence-stamped and logged together with a snapshot.
package pipeline

import (
	"bytes"
	"context"
	"encoding/json"
	"fmt"
	"io"
	"net/http"
	"runtime"
	"sort"
	"strconv"
	"strings"
	"sync"
	"sync/atomic"
	"time"

	jsonpatch "gopkg.in/evanphx/json-patch.v4"
	apierrors "k8s.io/apimachinery/pkg/api/errors"
	metav1 "k8s.io/apimachinery/pkg/apis/meta/v1"
	"k8s.io/apimachinery/pkg/apis/meta/v1/unstructured"
	"k8s.io/apimachinery/pkg/labels"
	"k8s.io/apimachinery/pkg/runtime/schema"
	"k8s.io/apimachinery/pkg/types"
	"k8s.io/apimachinery/pkg/util/strategicpatch"
	"k8s.io/apimachinery/pkg/watch"
	"k8s.io/client-go/dynamic"
	dynamicfake "k8s.io/client-go/dynamic/fake"
	clienttesting "k8s.io/client-go/testing"
	cmdtesting "k8s.io/kubectl/pkg/cmd/testing"
	"k8s.io/kubectl/pkg/scheme"
	"k8s.io/kubectl/pkg/util"
	"sigs.k8s.io/cli-utils/pkg/common"
	"sigs.k8s.io/cli-utils/pkg/inventory"
	"sigs.k8s.io/cli-utils/pkg/object"
	"sigs.k8s.io/cli-utils/pkg/object/dependson"
	"sigs.k8s.io/cli-utils/pkg/object/mutation"
	"sigs.k8s.io/yaml"
	"verifharness/emit"
)

const (
	invNS         = "inv-ns"
	otherNS       = "ns2"
	invName       = "inv-obj"
	invID         = "our-inv"
	otherInvID    = "other-inv"
	verLabel      = "ver"
	lastApplied   = "kubectl.kubernetes.io/last-applied-configuration"
	malformedDep  = "bad/annotation/format/x/y/z/extra"
	finalizerName = "verif.example/hold"
	objGen        = int64(2)
)

var (
	barGK   = schema.GroupKind{Group: "company.com", Kind: "Bar"}
	crdGK   = schema.GroupKind{Group: "apiextensions.k8s.io", Kind: "CustomResourceDefinition"}
	crdMeta = object.ObjMetadata{Name: "bars.company.com", GroupKind: crdGK}
)

type kindInfo struct {
	GVK        schema.GroupVersionKind
	Resource   string
	Namespaced bool
}

func (k kindInfo) GVR() schema.GroupVersionResource {
	return schema.GroupVersionResource{Group: k.GVK.Group, Version: k.GVK.Version, Resource: k.Resource}
}

func (k kindInfo) APIVersion() string { return k.GVK.GroupVersion().String() }

var kindTable = []kindInfo{
	{schema.GroupVersionKind{Version: "v1", Kind: "Namespace"}, "namespaces", false},
	{schema.GroupVersionKind{Version: "v1", Kind: "ConfigMap"}, "configmaps", true},
	{schema.GroupVersionKind{Version: "v1", Kind: "Secret"}, "secrets", true},
	{schema.GroupVersionKind{Group: "apps", Version: "v1", Kind: "Deployment"}, "deployments", true},
	{schema.GroupVersionKind{Group: "rbac.authorization.k8s.io", Version: "v1", Kind: "ClusterRole"}, "clusterroles", false},
	{schema.GroupVersionKind{Group: "apiextensions.k8s.io", Version: "v1", Kind: "CustomResourceDefinition"}, "customresourcedefinitions", false},
	{schema.GroupVersionKind{Group: "company.com", Version: "v1", Kind: "Bar"}, "bars", true},
	// one Kind name in two API groups, both known to the mapper without a CRD (their plurals
	// differ: the REST paths of the fake carry no group)
	{schema.GroupVersionKind{Group: "stable.example.com", Version: "v1", Kind: "Baz"}, "bazs", true},
	{schema.GroupVersionKind{Group: "other.example.com", Version: "v1", Kind: "Baz"}, "obazs", true},
	// the kind ApplyTask falls back to client-side apply for (cluster-scoped, no CRD; not in kubectl's scheme,
	// so a client-side PATCH of it is a JSON merge patch, as for a custom resource)
	{schema.GroupVersionKind{Group: "apiregistration.k8s.io", Version: "v1", Kind: "APIService"}, "apiservices", false},
}

// apiSvcName is the one APIService name of the generated universes.
const apiSvcName = "v1.apisvc.example.com"

// errStream is what the fake answers a server-side-apply PATCH with when the address
// `FStream id n` is scripted: a transport-level error whose text is the one ApplyTask looks for
// (API servers before 1.21 killed the HTTP/2 stream of an apply PATCH of an APIService,
// kubernetes/kubernetes#89264).
var errStream = fmt.Errorf("stream error: stream ID 3; INTERNAL_ERROR")

// EntryInvalid builds a universe entry whose manifests fail the validator's field checks for
// another reason than the namespace scope: an apiVersion the mapper does not know (of a known
// or of an unknown kind), an empty name, an empty kind. Such an object never reaches the
// server; in the model it is `l_finv` like the others.
func EntryInvalid(apiVersion, kind, ns, name string) UEntry {
	gv, _ := schema.ParseGroupVersion(apiVersion)
	return UEntry{Meta: object.ObjMetadata{Namespace: ns, Name: name, GroupKind: schema.GroupKind{Group: gv.Group, Kind: kind}},
		APIVersion: apiVersion, Namespaced: ns != "", Kind: KPlain, NsObj: -1, Crd: -1, FInv: true}
}

// EntryBaz builds a universe entry of kind Baz in the first (other = false) or the second API
// group: two identifiers that differ in the group only.
func EntryBaz(other bool, ns, name string) UEntry {
	k := kindByResource(map[bool]string{false: "bazs", true: "obazs"}[other])
	return UEntry{Meta: object.ObjMetadata{Namespace: ns, Name: name, GroupKind: k.GVK.GroupKind()},
		APIVersion: k.APIVersion(), GVR: k.GVR(), Namespaced: true, Kind: KPlain, NsObj: -1, Crd: -1}
}

func kindByResource(res string) *kindInfo {
	for i := range kindTable {
		if kindTable[i].Resource == res {
			return &kindTable[i]
		}
	}
	return nil
}

func kindByName(kind string) *kindInfo {
	for i := range kindTable {
		if kindTable[i].GVK.Kind == kind {
			return &kindTable[i]
		}
	}
	return nil
}

// Entry builds a universe entry of the given kind.
func Entry(kind, ns, name string) UEntry {
	k := kindByName(kind)
	e := UEntry{Meta: object.ObjMetadata{Namespace: ns, Name: name, GroupKind: k.GVK.GroupKind()},
		APIVersion: k.APIVersion(), GVR: k.GVR(), Namespaced: k.Namespaced, Kind: KPlain, NsObj: -1, Crd: -1}
	switch kind {
	case "Namespace":
		e.Kind = KNs
	case "CustomResourceDefinition":
		e.Kind = KCrd
	case "APIService":
		e.Kind = KApiSvc
	}
	e.FInv = (k.Namespaced && ns == "") || (!k.Namespaced && ns != "")
	return e
}

// Clock hands out the sequence stamps shared by requests, deliveries and events.
type Clock struct{ n int64 }

func (c *Clock) Next() int64 { return atomic.AddInt64(&c.n, 1) }

// ---- store ----------------------------------------------------------------------------

type storeKey struct {
	gvr      schema.GroupVersionResource
	ns, name string
}

// Store is the cluster state of one history; it outlives the runs.
type Store struct {
	mu      sync.Mutex // leaf-level: a run that hit the watchdog may still be using the store
	tracker clienttesting.ObjectTracker
	keys    map[storeKey]struct{}
	nextUID uint64
	univ    Universe
	notes   []string // things the abstraction cannot express
}

func newTracker() clienttesting.ObjectTracker {
	return dynamicfake.NewSimpleDynamicClient(scheme.Scheme).Tracker()
}

func (st *Store) note(format string, a ...interface{}) {
	st.mu.Lock()
	st.notes = append(st.notes, fmt.Sprintf(format, a...))
	st.mu.Unlock()
}

func (st *Store) takeNotes() []string {
	st.mu.Lock()
	defer st.mu.Unlock()
	n := st.notes
	st.notes = nil
	return n
}

func (st *Store) get(gvr schema.GroupVersionResource, ns, name string) *unstructured.Unstructured {
	st.mu.Lock()
	defer st.mu.Unlock()
	if _, ok := st.keys[storeKey{gvr, ns, name}]; !ok {
		return nil
	}
	o, err := st.tracker.Get(gvr, ns, name)
	if err != nil {
		return nil
	}
	u, ok := o.(*unstructured.Unstructured)
	if !ok {
		return nil
	}
	return u.DeepCopy()
}

// forRun returns the universe as one run sees it: a copy with Term set for the objects that are
// terminating in the store right now (nothing un-terminates an object, and the only deletes of a run
// come after all its applies, so the flag holds for every apply-time lookup of the run).
func (u Universe) forRun(st *Store) Universe {
	out := append(Universe(nil), u...)
	for i, e := range out {
		out[i].Term = false
		if e.FInv || e.Meta.Name == "" || e.GVR.Resource == "" {
			continue
		}
		if o := st.get(e.GVR, e.Meta.Namespace, e.Meta.Name); o != nil && o.GetDeletionTimestamp() != nil {
			out[i].Term = true
		}
	}
	return out
}

func (st *Store) put(gvr schema.GroupVersionResource, ns string, obj *unstructured.Unstructured) error {
	k := storeKey{gvr, ns, obj.GetName()}
	obj = obj.DeepCopy()
	st.mu.Lock()
	defer st.mu.Unlock()
	if _, ok := st.keys[k]; ok {
		return st.tracker.Update(gvr, obj, ns)
	}
	if err := st.tracker.Create(gvr, obj, ns); err != nil {
		return err
	}
	st.keys[k] = struct{}{}
	return nil
}

func (st *Store) del(gvr schema.GroupVersionResource, ns, name string) {
	k := storeKey{gvr, ns, name}
	st.mu.Lock()
	defer st.mu.Unlock()
	if _, ok := st.keys[k]; ok {
		_ = st.tracker.Delete(gvr, ns, name)
		delete(st.keys, k)
	}
}

func (st *Store) list(gvr schema.GroupVersionResource, ns string) []*unstructured.Unstructured {
	var ks []storeKey
	st.mu.Lock()
	for k := range st.keys {
		if k.gvr == gvr && (ns == "" || k.ns == ns) {
			ks = append(ks, k)
		}
	}
	st.mu.Unlock()
	sort.Slice(ks, func(i, j int) bool {
		if ks[i].ns != ks[j].ns {
			return ks[i].ns < ks[j].ns
		}
		return ks[i].name < ks[j].name
	})
	var out []*unstructured.Unstructured
	for _, k := range ks {
		if o := st.get(k.gvr, k.ns, k.name); o != nil {
			out = append(out, o)
		}
	}
	return out
}

func (st *Store) allocUID() string {
	st.mu.Lock()
	defer st.mu.Unlock()
	u := st.nextUID
	st.nextUID++
	return fmt.Sprintf("u%d", u)
}

func uidNum(u types.UID) uint64 {
	if u == "" {
		return 0
	}
	n, err := strconv.ParseUint(strings.TrimPrefix(string(u), "u"), 10, 64)
	if err != nil {
		return 999999
	}
	return n
}

func uidStr(n uint64) string {
	if n == 0 {
		return ""
	}
	return fmt.Sprintf("u%d", n)
}

var invGVR = schema.GroupVersionResource{Version: "v1", Resource: "configmaps"}

// InventoryObject is the inventory ConfigMap (template when keys == nil).
func InventoryObject(univ Universe, keys []int, withData bool) *unstructured.Unstructured {
	o := &unstructured.Unstructured{Object: map[string]interface{}{
		"apiVersion": "v1", "kind": "ConfigMap",
		"metadata": map[string]interface{}{
			"name": invName, "namespace": invNS,
			"labels": map[string]interface{}{common.InventoryLabel: invID},
		},
	}}
	if withData {
		data := map[string]interface{}{}
		for _, k := range keys {
			data[univ[k].Meta.String()] = ""
		}
		o.Object["data"] = data
	}
	return o
}

// keepVariant is one spelling of the abstract attribute "keep": the lifecycle
// annotations an object carries when keep = true and when keep = false. A
// variant is fixed per (history, identifier) for live objects, last-applied
// contents and manifests alike, `off` is a subset of `on`, and the keys of
// `off` never carry a preventing value in `on`: kubectl's three-way merge works
// per annotation key, and only under these conditions does it act on the pair
// of annotations as it would on one boolean (without off ⊆ on a live object
// that drifted to keep = true lacks the keys of the keep = false manifest, and
// an apply the model calls unchanged sends a patch) (Pipeline.v `merged`: keep' = l_keep || (c_keep && not last_keep)).
type keepVariant struct{ on, off map[string]string }

var keepVariants = []keepVariant{
	{}, // 0: by parity of the id: variant 1 (even) or 2 (odd)
	{on: map[string]string{common.OnRemoveAnnotation: common.OnRemoveKeep}},
	{on: map[string]string{common.LifecycleDeleteAnnotation: common.PreventDeletion}},
	// both annotations; only the second one prevents
	{on: map[string]string{common.OnRemoveAnnotation: "delete", common.LifecycleDeleteAnnotation: common.PreventDeletion}},
	{on: map[string]string{common.OnRemoveAnnotation: "", common.LifecycleDeleteAnnotation: common.PreventDeletion},
		off: map[string]string{common.OnRemoveAnnotation: ""}},
	{on: map[string]string{common.OnRemoveAnnotation: "delete", common.LifecycleDeleteAnnotation: common.PreventDeletion},
		off: map[string]string{common.OnRemoveAnnotation: "delete"}},
	// both annotations; both / only the first one prevent
	{on: map[string]string{common.OnRemoveAnnotation: common.OnRemoveKeep, common.LifecycleDeleteAnnotation: common.PreventDeletion}},
	{on: map[string]string{common.OnRemoveAnnotation: common.OnRemoveKeep, common.LifecycleDeleteAnnotation: "x"},
		off: map[string]string{common.LifecycleDeleteAnnotation: "x"}},
}

func keepAnnotations(e UEntry, id int, keep bool) map[string]string {
	v := e.KeepVar
	if v <= 0 || v >= len(keepVariants) {
		v = 1 + id%2
	}
	if keep {
		return keepVariants[v].on
	}
	return keepVariants[v].off
}

// srcPath / tgtPath: every object carries the two annotations `src` and `tgt`
// (constant value), so that a dependency reference can also be spelled as an
// apply-time-mutation substitution `source.src -> target.tgt` that changes
// nothing: the graph gets the same edge, and in correct code the dependent is
// applied only after the source was observed Current with its body, so the
// mutator finds it in the resource cache (no extra GET).
const (
	srcPath      = "$.metadata.annotations.src"
	tgtPath      = "$.metadata.annotations.tgt"
	malformedMut = "{bad"
)

// depsAnnotation returns key and value of the one annotation that spells the
// dependency references of an object: depends-on, or — for a `Mut` identifier,
// in every incarnation of it — apply-time-mutation. One key per identifier:
// kubectl's three-way merge works per key and the model knows one annotation.
func depsAnnotation(univ Universe, id int, deps []int, bad bool) (string, string, bool) {
	if univ[id].Mut {
		if bad {
			return mutation.Annotation, malformedMut, true
		}
		if len(deps) == 0 {
			return "", "", false
		}
		var subs mutation.ApplyTimeMutation
		for _, d := range deps {
			subs = append(subs, mutation.FieldSubstitution{
				SourceRef: mutation.ResourceReferenceFromObjMetadata(univ[d].Meta), SourcePath: srcPath, TargetPath: tgtPath})
		}
		b, err := yaml.Marshal(subs)
		if err != nil {
			panic(err)
		}
		return mutation.Annotation, string(b), true
	}
	k, ok := dependsOnAnnotation(univ, deps, bad)
	return dependson.Annotation, k, ok
}

func dependsOnAnnotation(univ Universe, deps []int, bad bool) (string, bool) {
	if bad {
		return malformedDep, true
	}
	if len(deps) == 0 {
		return "", false
	}
	ds := make(dependson.DependencySet, len(deps))
	for i, d := range deps {
		ds[i] = univ[d].Meta
	}
	s, err := dependson.FormatDependencySet(ds)
	if err != nil {
		panic(err)
	}
	return s, true
}

// content builds the manifest-level content shared by local manifests and live objects.
func content(univ Universe, id int, deps []int, bad, keep bool, ver int, owner Owner) *unstructured.Unstructured {
	e := univ[id]
	md := map[string]interface{}{"name": e.Meta.Name, "labels": map[string]interface{}{verLabel: strconv.Itoa(ver)}}
	if e.Meta.Namespace != "" {
		md["namespace"] = e.Meta.Namespace
	}
	ann := map[string]interface{}{"src": "v", "tgt": "v"}
	if k, s, ok := depsAnnotation(univ, id, deps, bad); ok {
		ann[k] = s
	}
	for k, v := range keepAnnotations(e, id, keep) {
		ann[k] = v
	}
	switch owner {
	case OOurs:
		ann[inventory.OwningInventoryKey] = invID
	case OOther:
		ann[inventory.OwningInventoryKey] = otherInvID
	}
	if len(ann) > 0 {
		md["annotations"] = ann
	}
	if e.Fin {
		// manifests and live objects alike: the three-way merge then never touches the list
		md["finalizers"] = []interface{}{finalizerName}
	}
	o := &unstructured.Unstructured{Object: map[string]interface{}{
		"apiVersion": e.APIVersion, "kind": e.Meta.GroupKind.Kind, "metadata": md}}
	if e.Meta.GroupKind == crdGK {
		o.Object["spec"] = map[string]interface{}{
			"group":    barGK.Group,
			"names":    map[string]interface{}{"kind": barGK.Kind, "plural": "bars"},
			"scope":    "Namespaced",
			"versions": []interface{}{map[string]interface{}{"name": "v1", "served": true, "storage": true}},
		}
	}
	if e.Kind == KApiSvc {
		o.Object["spec"] = map[string]interface{}{
			"group": "apisvc.example.com", "version": "v1",
			"groupPriorityMinimum": int64(100), "versionPriority": int64(100),
			"service": map[string]interface{}{"name": "apisvc", "namespace": invNS},
		}
	}
	return o
}

// Manifest is the local object handed to the Applier.
func Manifest(univ Universe, l LObj) *unstructured.Unstructured {
	o := content(univ, l.ID, l.Deps, l.BadDep, l.Keep, l.Ver, ONone)
	// a manifest that arrives with an owning-inventory annotation already on it (exported
	// from a cluster, or an object struct reused across inventories): the applier overwrites it
	if pre := univ[l.ID].PreOwner; pre != 0 {
		ann := o.GetAnnotations()
		ann[inventory.OwningInventoryKey] = map[int]string{1: "some-other-id", 2: invID}[pre]
		o.SetAnnotations(ann)
	}
	return o
}

func liveObject(univ Universe, c CObj) *unstructured.Unstructured {
	o := content(univ, c.ID, c.Deps, c.BadDep, c.Keep, c.Ver, c.Owner)
	if l := c.Last; l != nil {
		// what kubectl stores: the encoded manifest, without the annotation itself
		la := content(univ, c.ID, l.Deps, l.BadDep, l.Keep, l.Ver, l.Owner)
		b, err := util.GetModifiedConfiguration(la, false, unstructured.UnstructuredJSONScheme)
		if err != nil {
			panic(err)
		}
		ann := o.GetAnnotations()
		if ann == nil {
			ann = map[string]string{}
		}
		ann[lastApplied] = string(b)
		o.SetAnnotations(ann)
	}
	o.SetUID(types.UID(uidStr(c.UID)))
	o.SetGeneration(objGen)
	return o
}

// NewStore materialises a cluster.
func NewStore(univ Universe, c Cluster) *Store {
	st := &Store{tracker: newTracker(), keys: map[storeKey]struct{}{}, nextUID: c.NextUID, univ: univ}
	for _, o := range c.Objs {
		e := univ[o.ID]
		if err := st.put(e.GVR, e.Meta.Namespace, liveObject(univ, o)); err != nil {
			panic(err)
		}
	}
	if c.HasInv {
		inv := InventoryObject(univ, c.Inv, true)
		inv.SetUID("inv")
		if err := st.put(invGVR, invNS, inv); err != nil {
			panic(err)
		}
	}
	return st
}

// Clone copies the store object by object (used for probe runs).
func (st *Store) Clone() *Store {
	st.mu.Lock()
	n := &Store{tracker: newTracker(), keys: map[storeKey]struct{}{}, nextUID: st.nextUID, univ: st.univ}
	var ks []storeKey
	for k := range st.keys {
		ks = append(ks, k)
	}
	st.mu.Unlock()
	for _, k := range ks {
		if o := st.get(k.gvr, k.ns, k.name); o != nil {
			if err := n.put(k.gvr, k.ns, o); err != nil {
				panic(err)
			}
		}
	}
	return n
}

func ownerOf(o *unstructured.Unstructured) Owner {
	v, ok := o.GetAnnotations()[inventory.OwningInventoryKey]
	switch {
	case !ok:
		return ONone
	case v == invID:
		return OOurs
	}
	return OOther
}

func sameInts(a, b []int) bool {
	if len(a) != len(b) {
		return false
	}
	for i := range a {
		if a[i] != b[i] {
			return false
		}
	}
	return true
}

// cobjAttrs reads owner / keep / deps / ver from an object's metadata.
func (st *Store) cobjAttrs(o *unstructured.Unstructured) CObj {
	c := CObj{Owner: ownerOf(o)}
	for k, v := range o.GetAnnotations() {
		if common.NoDeletion(k, v) {
			c.Keep = true
		}
	}
	if dependson.HasAnnotation(o) {
		ds, err := dependson.ReadAnnotation(o)
		if err != nil {
			c.BadDep = true
		} else {
			for _, d := range ds {
				i := st.univ.Index(d)
				if i < 0 {
					st.note("live depends-on target outside the universe: "+"%s", d.String())
					i = 99
				}
				c.Deps = append(c.Deps, i)
			}
		}
	}
	if mutation.HasAnnotation(o) {
		subs, err := mutation.ReadAnnotation(o)
		if err != nil {
			c.BadDep = true
		} else {
			for _, sub := range subs {
				d := sub.SourceRef.ToObjMetadata()
				i := st.univ.Index(d)
				if i < 0 {
					st.note("live apply-time-mutation source outside the universe: %s", d.String())
					i = 99
				}
				c.Deps = append(c.Deps, i)
			}
		}
	}
	if v, ok := o.GetLabels()[verLabel]; ok {
		c.Ver, _ = strconv.Atoi(v)
	}
	return c
}

func (st *Store) cobj(id int, o *unstructured.Unstructured) CObj {
	c := st.cobjAttrs(o)
	c.ID, c.UID = id, uidNum(o.GetUID())
	return st.cobjRest(c, id, o)
}

func (st *Store) cobjRest(c CObj, id int, o *unstructured.Unstructured) CObj {
	if la, ok := o.GetAnnotations()[lastApplied]; ok {
		m := map[string]interface{}{}
		if err := json.Unmarshal([]byte(la), &m); err != nil {
			st.note("object %d: unreadable last-applied annotation", id)
		} else {
			sub := &Store{univ: st.univ}
			a := sub.cobjAttrs(&unstructured.Unstructured{Object: m}).Attrs()
			c.Last = &a
		}
	}
	if o.GetGeneration() != objGen {
		st.note("object %d has generation %d", id, o.GetGeneration())
	}
	return c
}

func (st *Store) inventoryKeys() (bool, []int) {
	inv := st.get(invGVR, invNS, invName)
	if inv == nil {
		return false, nil
	}
	data, _, _ := unstructured.NestedStringMap(inv.Object, "data")
	return true, st.keysToIDs(data)
}

func (st *Store) keysToIDs(data map[string]string) []int {
	ids := []int{}
	for k := range data {
		m, err := object.ParseObjMetadata(k)
		i := -1
		if err == nil {
			i = st.univ.Index(m)
		}
		if i < 0 {
			st.note("inventory key outside the universe: "+"%s", k)
			i = 99
		}
		ids = append(ids, i)
	}
	sort.Ints(ids)
	return ids
}

func (st *Store) managed() []int {
	ids := []int{}
	for i, e := range st.univ {
		if e.FInv {
			continue
		}
		if o := st.get(e.GVR, e.Meta.Namespace, e.Meta.Name); o != nil && ownerOf(o) == OOurs {
			ids = append(ids, i)
		}
	}
	return ids
}

// Observe abstracts the store back into a cluster.
func (st *Store) Observe() Cluster {
	st.mu.Lock()
	c := Cluster{NextUID: st.nextUID}
	st.mu.Unlock()
	for i, e := range st.univ {
		if e.FInv {
			continue
		}
		if o := st.get(e.GVR, e.Meta.Namespace, e.Meta.Name); o != nil {
			c.Objs = append(c.Objs, st.cobj(i, o))
		}
	}
	c.HasInv, c.Inv = st.inventoryKeys()
	return c
}

// ---- per-run server ---------------------------------------------------------------------

// Server is the per-run front end of a Store.
type Server struct {
	mu     sync.Mutex
	st     *Store
	univ   Universe
	clock  *Clock
	faults map[string]int // address -> 1 + index into faultErrs

	nInvList, nInvGet, nInvWrite int
	nGet                         map[int]int
	nSSA                         map[int]int    // server-side-apply PATCHes per object
	mutGets                      map[string]int // GETs sent by the apply-time mutator: ok / missing / rejected

	log   []Item
	addrs []FAddr // every address this run touched, in order of first use

	cancelAt    CancelPt
	cancelFn    context.CancelFunc
	afterCancel func() // makes the runner observe the cancellation
	cancelDone  bool

	barrier func() // waits until the event consumer has stamped everything it received

	closed     bool
	late       []string
	unexpected []string
	nReq       int
}

func NewServer(st *Store, clock *Clock, env Env) *Server {
	s := &Server{st: st, univ: st.univ, clock: clock, faults: map[string]int{}, nGet: map[int]int{}, nSSA: map[int]int{}, mutGets: map[string]int{}, cancelAt: env.Cancel}
	for _, f := range env.Faults {
		s.faults[f.Key()] = 1 + f.Err
	}
	return s
}

func (s *Server) noteUnexpected(format string, a ...interface{}) {
	s.unexpected = append(s.unexpected, fmt.Sprintf(format, a...))
}

// begin is called (with the lock held) at the start of every request.
func (s *Server) begin(what string) {
	s.nReq++
	if s.closed {
		s.late = append(s.late, what)
	}
}

// hit records the address and tells whether the request must be rejected.
func (s *Server) hit(a FAddr) error {
	k := a.Key()
	seen := false
	for _, b := range s.addrs {
		if b == a {
			seen = true
			break
		}
	}
	if !seen {
		s.addrs = append(s.addrs, a)
	}
	if e := s.faults[k]; e > 0 {
		return injectedError(e-1, a)
	}
	return nil
}

// injectedError builds the rejection of the given kind. None of them makes a
// client retry: client-go's REST client only retries 429 / 5xx answers that
// carry a Retry-After header (none is set), the dynamic decorator is called
// directly, and kubectl's patcher retries only on 409 Conflict, which is
// therefore never drawn for the apply path (FApply).
func injectedError(kind int, a FAddr) error {
	gr := schema.GroupResource{Resource: "injected"}
	switch faultErrs[kind] {
	case 403:
		return apierrors.NewForbidden(gr, a.Key(), fmt.Errorf("injected fault"))
	case 409:
		return apierrors.NewConflict(gr, a.Key(), fmt.Errorf("injected fault"))
	case 400:
		return apierrors.NewBadRequest("injected fault")
	case 503:
		return apierrors.NewServiceUnavailable("injected fault")
	}
	return apierrors.NewInternalError(fmt.Errorf("injected fault"))
}

func (s *Server) id(gvr schema.GroupVersionResource, ns, name string) int {
	k := kindByResource(gvr.Resource)
	if k == nil {
		return -1
	}
	return s.univ.Index(object.ObjMetadata{Namespace: ns, Name: name, GroupKind: k.GVK.GroupKind()})
}

func isInventoryObj(o *unstructured.Unstructured) bool {
	_, ok := o.GetLabels()[common.InventoryLabel]
	return ok
}

func natList(l []int) string { return emit.NatList(l) }

func textList(l []int) string {
	s := make([]string, len(l))
	for i, x := range l {
		s[i] = strconv.Itoa(x)
	}
	return "[" + strings.Join(s, " ") + "]"
}

// logReq appends a mutating request with the snapshot taken right now (lock held).
func (s *Server) logReq(coq, text string, ok bool) {
	m := s.st.managed()
	has, inv := s.st.inventoryKeys()
	st := "None"
	if has {
		st = textList(inv)
	}
	okT := "ok"
	if !ok {
		okT = "REJECTED"
	}
	s.log = append(s.log, journaled(Item{Seq: s.clock.Next(), Mutating: true,
		Coq:  fmt.Sprintf("IReq %s %s %s %s", coq, emit.Bool(ok), natList(m), optNatList(has, inv)),
		Text: fmt.Sprintf("REQ %s %s m%s s%s", text, okT, textList(m), st)}))
}

// cancelHook implements CDuringReq (lock NOT held).
func (s *Server) cancelHook(id int) {
	s.mu.Lock()
	fire := s.cancelAt.Kind == CDuringReq && s.cancelAt.I == id && !s.cancelDone && s.cancelFn != nil
	if fire {
		s.cancelDone = true
	}
	s.mu.Unlock()
	if fire {
		s.cancelFn()
		if s.afterCancel != nil {
			s.afterCancel()
		} else {
			time.Sleep(30 * time.Millisecond)
		}
	}
}

func (s *Server) sync() {
	if s.barrier != nil {
		s.barrier()
	}
}

func notFound(gvr schema.GroupVersionResource, name string) error {
	return apierrors.NewNotFound(gvr.GroupResource(), name)
}

func (s *Server) opGet(gvr schema.GroupVersionResource, ns, name string) (*unstructured.Unstructured, error) {
	s.mu.Lock()
	defer s.mu.Unlock()
	s.begin("GET " + gvr.Resource + " " + ns + "/" + name)
	if gvr == invGVR && ns == invNS && name == invName {
		a := FAddr{Kind: "FInvGet", N: s.nInvGet}
		s.nInvGet++
		if err := s.hit(a); err != nil {
			return nil, err
		}
	} else if id := s.id(gvr, ns, name); id >= 0 {
		a := FAddr{Kind: "FGet", I: id, N: s.nGet[id]}
		s.nGet[id]++
		if err := s.hit(a); err != nil {
			return nil, err
		}
	} else {
		s.noteUnexpected("GET of %s %s/%s outside the universe", gvr.Resource, ns, name)
	}
	o := s.st.get(gvr, ns, name)
	if o == nil {
		return nil, notFound(gvr, name)
	}
	return o, nil
}

func (s *Server) opList(gvr schema.GroupVersionResource, ns, selector string) (*unstructured.UnstructuredList, error) {
	s.mu.Lock()
	defer s.mu.Unlock()
	s.begin("LIST " + gvr.Resource + " " + ns + " " + selector)
	sel, err := labels.Parse(selector)
	if err != nil {
		return nil, apierrors.NewBadRequest(err.Error())
	}
	if gvr == invGVR && strings.Contains(selector, common.InventoryLabel) {
		a := FAddr{Kind: "FInvList", N: s.nInvList}
		s.nInvList++
		if err := s.hit(a); err != nil {
			return nil, err
		}
	} else {
		s.noteUnexpected("LIST of %s in %q with selector %q", gvr.Resource, ns, selector)
	}
	l := &unstructured.UnstructuredList{}
	l.SetAPIVersion("v1")
	l.SetKind("ConfigMapList")
	for _, o := range s.st.list(gvr, ns) {
		if sel.Matches(labels.Set(o.GetLabels())) {
			l.Items = append(l.Items, *o)
		}
	}
	return l, nil
}

func invKeysOf(s *Server, o *unstructured.Unstructured) []int {
	data, _, _ := unstructured.NestedStringMap(o.Object, "data")
	return s.st.keysToIDs(data)
}

// opCreate: via = "dyn" (dynamic client) or "rest" (kubectl apply path).
func (s *Server) opCreate(gvr schema.GroupVersionResource, ns string, obj *unstructured.Unstructured, dry bool, via string) (*unstructured.Unstructured, error) {
	s.sync()
	id := s.id(gvr, ns, obj.GetName())
	if via == "rest" && id >= 0 {
		s.cancelHook(id)
	}
	s.mu.Lock()
	defer s.mu.Unlock()
	s.begin("CREATE " + gvr.Resource + " " + ns + "/" + obj.GetName())
	obj = obj.DeepCopy()
	var coq, text string
	var addr FAddr
	switch {
	case isInventoryObj(obj):
		keys := invKeysOf(s, obj)
		addr = FAddr{Kind: "FInvWrite", N: s.nInvWrite}
		s.nInvWrite++
		coq, text = emit.App("RInvCreate", natList(keys)), "RInvCreate"+textList(keys)
	case id < 0:
		s.noteUnexpected("CREATE of %s %s/%s outside the universe", gvr.Resource, ns, obj.GetName())
		return nil, apierrors.NewBadRequest("object outside the universe")
	case via == "dyn" && gvr.Resource == "namespaces":
		addr = FAddr{Kind: "FNsCreate"}
		coq, text = emit.App("RNsCreate", emit.Nat(id)), fmt.Sprintf("RNsCreate %d", id)
	case via == "rest":
		addr = FAddr{Kind: "FApply", I: id}
		coq, text = emit.App("RCreate", emit.Nat(id), emit.Bool(dry)), fmt.Sprintf("RCreate %d dry=%v", id, dry)
	default:
		s.noteUnexpected("dynamic CREATE of %s %s/%s", gvr.Resource, ns, obj.GetName())
		return nil, apierrors.NewBadRequest("unexpected create")
	}
	if err := s.hit(addr); err != nil {
		s.logReq(coq, text, false)
		return nil, err
	}
	if s.st.get(gvr, ns, obj.GetName()) != nil {
		s.logReq(coq, text, false)
		return nil, apierrors.NewAlreadyExists(gvr.GroupResource(), obj.GetName())
	}
	if ns != "" {
		obj.SetNamespace(ns)
	}
	if !dry {
		if isInventoryObj(obj) {
			obj.SetUID("inv")
		} else {
			obj.SetUID(types.UID(s.st.allocUID()))
			obj.SetGeneration(objGen)
		}
		if err := s.st.put(gvr, ns, obj); err != nil {
			s.noteUnexpected("store create: %v", err)
			s.logReq(coq, text, false)
			return nil, apierrors.NewInternalError(err)
		}
	} else {
		obj.SetGeneration(objGen)
	}
	s.logReq(coq, text, true)
	return obj, nil
}

func (s *Server) opUpdate(gvr schema.GroupVersionResource, ns string, obj *unstructured.Unstructured, dry bool) (*unstructured.Unstructured, error) {
	s.sync()
	s.mu.Lock()
	defer s.mu.Unlock()
	s.begin("UPDATE " + gvr.Resource + " " + ns + "/" + obj.GetName())
	obj = obj.DeepCopy()
	id := s.id(gvr, ns, obj.GetName())
	var coq, text string
	var addr FAddr
	switch {
	case isInventoryObj(obj):
		keys := invKeysOf(s, obj)
		addr = FAddr{Kind: "FInvWrite", N: s.nInvWrite}
		s.nInvWrite++
		coq, text = emit.App("RInvUpdate", natList(keys)), "RInvUpdate"+textList(keys)
	case id < 0:
		s.noteUnexpected("UPDATE of %s %s/%s outside the universe", gvr.Resource, ns, obj.GetName())
		return nil, apierrors.NewBadRequest("object outside the universe")
	default:
		addr = FAddr{Kind: "FUpdate", I: id}
		coq, text = emit.App("RUpdate", emit.Nat(id)), fmt.Sprintf("RUpdate %d", id)
	}
	if err := s.hit(addr); err != nil {
		s.logReq(coq, text, false)
		return nil, err
	}
	live := s.st.get(gvr, ns, obj.GetName())
	if live == nil {
		s.logReq(coq, text, false)
		return nil, notFound(gvr, obj.GetName())
	}
	obj.SetUID(live.GetUID())
	if !isInventoryObj(obj) {
		obj.SetGeneration(live.GetGeneration())
		obj.SetDeletionTimestamp(live.GetDeletionTimestamp())
	}
	if !dry {
		if err := s.st.put(gvr, ns, obj); err != nil {
			s.noteUnexpected("store update: %v", err)
			s.logReq(coq, text, false)
			return nil, apierrors.NewInternalError(err)
		}
	}
	s.logReq(coq, text, true)
	return obj, nil
}

func (s *Server) opPatch(gvr schema.GroupVersionResource, ns, name string, pt types.PatchType, data []byte, dry bool) (*unstructured.Unstructured, error) {
	s.sync()
	id := s.id(gvr, ns, name)
	if id >= 0 {
		s.cancelHook(id)
	}
	s.mu.Lock()
	defer s.mu.Unlock()
	s.begin("PATCH " + gvr.Resource + " " + ns + "/" + name)
	if id < 0 {
		s.noteUnexpected("PATCH of %s %s/%s outside the universe", gvr.Resource, ns, name)
		return nil, apierrors.NewBadRequest("object outside the universe")
	}
	ssa := pt == types.ApplyPatchType
	coq := emit.App("RPatch", emit.Nat(id), emit.Bool(ssa), emit.Bool(dry))
	text := fmt.Sprintf("RPatch %d ssa=%v dry=%v", id, ssa, dry)
	if ssa {
		// the n-th apply PATCH of this object: a scripted stream error takes precedence over FApply.
		// The address is offered to the fault enumeration only for an APIService (for every other
		// kind the real code must treat it like any other failure; generated separately, rarely)
		a := FAddr{Kind: "FStream", I: id, N: s.nSSA[id]}
		s.nSSA[id]++
		scripted := s.faults[a.Key()] > 0
		if s.univ[id].Kind == KApiSvc || scripted {
			_ = s.hit(a)
		}
		if scripted {
			s.logReq(coq, text, false)
			return nil, errStream
		}
	}
	if err := s.hit(FAddr{Kind: "FApply", I: id}); err != nil {
		s.logReq(coq, text, false)
		return nil, err
	}
	live := s.st.get(gvr, ns, name)
	var res *unstructured.Unstructured
	fail := func(err error) (*unstructured.Unstructured, error) {
		s.logReq(coq, text, false)
		return nil, err
	}
	switch pt {
	case types.ApplyPatchType:
		m := map[string]interface{}{}
		if err := yaml.Unmarshal(data, &m); err != nil {
			return fail(apierrors.NewBadRequest(err.Error()))
		}
		res = &unstructured.Unstructured{Object: m}
		if ns != "" {
			res.SetNamespace(ns)
		}
		if live != nil {
			res.SetUID(live.GetUID())
			res.SetGeneration(live.GetGeneration())
			res.SetDeletionTimestamp(live.GetDeletionTimestamp())
		} else {
			if !dry {
				res.SetUID(types.UID(s.st.allocUID()))
			}
			res.SetGeneration(objGen)
		}
	case types.StrategicMergePatchType, types.MergePatchType:
		if live == nil {
			return fail(notFound(gvr, name))
		}
		cur, err := json.Marshal(live.Object)
		if err != nil {
			return fail(apierrors.NewInternalError(err))
		}
		var out []byte
		if pt == types.StrategicMergePatchType {
			k := kindByResource(gvr.Resource)
			versioned, err := scheme.Scheme.New(k.GVK)
			if err != nil {
				return fail(apierrors.NewBadRequest("strategic merge patch on an unregistered kind: " + err.Error()))
			}
			out, err = strategicpatch.StrategicMergePatch(cur, data, versioned)
			if err != nil {
				return fail(apierrors.NewBadRequest(err.Error()))
			}
		} else {
			out, err = jsonpatch.MergePatch(cur, data)
			if err != nil {
				return fail(apierrors.NewBadRequest(err.Error()))
			}
		}
		m := map[string]interface{}{}
		if err := json.Unmarshal(out, &m); err != nil {
			return fail(apierrors.NewInternalError(err))
		}
		res = &unstructured.Unstructured{Object: m}
		res.SetUID(live.GetUID())
		res.SetGeneration(live.GetGeneration())
		res.SetDeletionTimestamp(live.GetDeletionTimestamp())
	default:
		s.noteUnexpected("PATCH of %d with patch type %s", id, pt)
		return fail(apierrors.NewBadRequest("unsupported patch type " + string(pt)))
	}
	if !dry {
		if err := s.st.put(gvr, ns, res); err != nil {
			s.noteUnexpected("store patch: %v", err)
			return fail(apierrors.NewInternalError(err))
		}
	}
	s.logReq(coq, text, true)
	return res, nil
}

func (s *Server) opDelete(gvr schema.GroupVersionResource, ns, name string, opts metav1.DeleteOptions) error {
	s.sync()
	id := s.id(gvr, ns, name)
	isInv := gvr == invGVR && ns == invNS && name == invName
	if id >= 0 && !isInv {
		s.cancelHook(id)
	}
	s.mu.Lock()
	defer s.mu.Unlock()
	s.begin("DELETE " + gvr.Resource + " " + ns + "/" + name)
	dry := len(opts.DryRun) > 0
	var coq, text string
	var addr FAddr
	switch {
	case isInv:
		addr = FAddr{Kind: "FInvDelete"}
		coq, text = "RInvDelete", "RInvDelete"
	case id < 0:
		s.noteUnexpected("DELETE of %s %s/%s outside the universe", gvr.Resource, ns, name)
		return apierrors.NewBadRequest("object outside the universe")
	default:
		var pre uint64
		if opts.Preconditions != nil && opts.Preconditions.UID != nil {
			pre = uidNum(*opts.Preconditions.UID)
		}
		p := PropBackground
		if opts.PropagationPolicy != nil {
			switch *opts.PropagationPolicy {
			case metav1.DeletePropagationForeground:
				p = PropForeground
			case metav1.DeletePropagationOrphan:
				p = PropOrphan
			case metav1.DeletePropagationBackground:
			default:
				// a real API server answers 422 to a propagation policy that is none of the three values
				s.noteUnexpected("DELETE of %d with the unsupported propagation policy %q", id, string(*opts.PropagationPolicy))
				return apierrors.NewBadRequest("unsupported propagationPolicy")
			}
		} else {
			s.noteUnexpected("DELETE of %d without propagation policy", id)
		}
		addr = FAddr{Kind: "FDelete", I: id}
		coq = emit.App("RDelete", emit.Nat(id), emit.N(pre), p.Coq())
		text = fmt.Sprintf("RDelete %d pre=u%d %s", id, pre, p.Coq())
	}
	if err := s.hit(addr); err != nil {
		s.logReq(coq, text, false)
		return err
	}
	live := s.st.get(gvr, ns, name)
	if live == nil {
		s.logReq(coq, text, false)
		return notFound(gvr, name)
	}
	if opts.Preconditions != nil && opts.Preconditions.UID != nil && *opts.Preconditions.UID != live.GetUID() {
		s.logReq(coq, text, false)
		return apierrors.NewConflict(gvr.GroupResource(), name,
			fmt.Errorf("Precondition failed: UID in precondition: %v, UID in object meta: %v", *opts.Preconditions.UID, live.GetUID()))
	}
	if !dry {
		if len(live.GetFinalizers()) > 0 {
			// held by a finalizer: the server accepts the delete, marks the object
			// as terminating and keeps it (a repeated delete changes nothing)
			if live.GetDeletionTimestamp() == nil {
				ts := metav1.NewTime(time.Unix(1700000000, 0).UTC())
				live.SetDeletionTimestamp(&ts)
				if err := s.st.put(gvr, ns, live); err != nil {
					s.noteUnexpected("store delete (terminating): %v", err)
				}
			}
		} else {
			s.st.del(gvr, ns, name)
		}
	}
	s.logReq(coq, text, true)
	return nil
}

// ---- dynamic client decorator --------------------------------------------------------------

// dynClient hands every request to the server of the run that is current when
// the request is made (one Applier object can serve several runs, each with
// its own server front end).
type dynClient struct{ get func() *Server }

func (d *dynClient) Resource(gvr schema.GroupVersionResource) dynamic.NamespaceableResourceInterface {
	return &dynRes{s: d.get(), gvr: gvr}
}

type dynRes struct {
	s   *Server
	gvr schema.GroupVersionResource
	ns  string
}

var _ dynamic.NamespaceableResourceInterface = &dynRes{}

func (r *dynRes) Namespace(ns string) dynamic.ResourceInterface {
	c := *r
	c.ns = ns
	return &c
}

func hasDry(l []string) bool { return len(l) > 0 }

func (r *dynRes) unsupported(what string) error {
	r.s.mu.Lock()
	r.s.noteUnexpected("dynamic client %s on %s", what, r.gvr.Resource)
	r.s.mu.Unlock()
	return apierrors.NewMethodNotSupported(r.gvr.GroupResource(), what)
}

func (r *dynRes) Create(_ context.Context, obj *unstructured.Unstructured, o metav1.CreateOptions, sub ...string) (*unstructured.Unstructured, error) {
	if len(sub) > 0 {
		return nil, r.unsupported("create subresource")
	}
	ns := r.ns
	if ns == "" {
		if k := kindByResource(r.gvr.Resource); k != nil && k.Namespaced {
			ns = obj.GetNamespace()
		}
	}
	return r.s.opCreate(r.gvr, ns, obj, hasDry(o.DryRun), "dyn")
}

func (r *dynRes) Update(_ context.Context, obj *unstructured.Unstructured, o metav1.UpdateOptions, sub ...string) (*unstructured.Unstructured, error) {
	if len(sub) > 0 {
		return nil, r.unsupported("update subresource")
	}
	return r.s.opUpdate(r.gvr, r.ns, obj, hasDry(o.DryRun))
}

func (r *dynRes) UpdateStatus(context.Context, *unstructured.Unstructured, metav1.UpdateOptions) (*unstructured.Unstructured, error) {
	return nil, r.unsupported("updatestatus")
}

func (r *dynRes) Delete(_ context.Context, name string, o metav1.DeleteOptions, sub ...string) error {
	if len(sub) > 0 {
		return r.unsupported("delete subresource")
	}
	return r.s.opDelete(r.gvr, r.ns, name, o)
}

func (r *dynRes) DeleteCollection(context.Context, metav1.DeleteOptions, metav1.ListOptions) error {
	return r.unsupported("deletecollection")
}

func (r *dynRes) Get(_ context.Context, name string, _ metav1.GetOptions, sub ...string) (*unstructured.Unstructured, error) {
	if len(sub) > 0 {
		return nil, r.unsupported("get subresource")
	}
	o, err := r.s.opGet(r.gvr, r.ns, name)
	if calledByMutator() {
		// statistics only: the address of the request is FGet like every other GET of the object
		k := "ok"
		if apierrors.IsNotFound(err) {
			k = "missing"
		} else if err != nil {
			k = "rejected"
		}
		r.s.mu.Lock()
		r.s.mutGets[k]++
		r.s.mu.Unlock()
	}
	return o, err
}

// calledByMutator: the GET comes from ApplyTimeMutator.getObject (the source of a substitution).
func calledByMutator() bool {
	var pcs [24]uintptr
	n := runtime.Callers(3, pcs[:])
	fr := runtime.CallersFrames(pcs[:n])
	for {
		f, more := fr.Next()
		if strings.Contains(f.Function, "mutator.(*ApplyTimeMutator)") {
			return true
		}
		if !more {
			return false
		}
	}
}

func (r *dynRes) List(_ context.Context, o metav1.ListOptions) (*unstructured.UnstructuredList, error) {
	return r.s.opList(r.gvr, r.ns, o.LabelSelector)
}

func (r *dynRes) Watch(context.Context, metav1.ListOptions) (watch.Interface, error) {
	return nil, r.unsupported("watch")
}

func (r *dynRes) Patch(_ context.Context, name string, pt types.PatchType, data []byte, o metav1.PatchOptions, sub ...string) (*unstructured.Unstructured, error) {
	return nil, r.unsupported("patch")
}

func (r *dynRes) Apply(context.Context, string, *unstructured.Unstructured, metav1.ApplyOptions, ...string) (*unstructured.Unstructured, error) {
	return nil, r.unsupported("apply")
}

func (r *dynRes) ApplyStatus(context.Context, string, *unstructured.Unstructured, metav1.ApplyOptions) (*unstructured.Unstructured, error) {
	return nil, r.unsupported("applystatus")
}

// ---- REST handler (kubectl apply path) --------------------------------------------------------

func jsonResponse(code int, v interface{}) *http.Response {
	b, err := json.Marshal(v)
	if err != nil {
		panic(err)
	}
	return &http.Response{StatusCode: code, Header: cmdtesting.DefaultHeader(), Body: io.NopCloser(bytes.NewReader(b))}
}

func errResponse(err error) *http.Response {
	if st, ok := err.(apierrors.APIStatus); ok {
		s := st.Status()
		s.Kind, s.APIVersion = "Status", "v1"
		return jsonResponse(int(s.Code), &s)
	}
	s := apierrors.NewInternalError(err).Status()
	s.Kind, s.APIVersion = "Status", "v1"
	return jsonResponse(500, &s)
}

// ServeREST serves the requests of the unstructured REST client.
func (s *Server) ServeREST(req *http.Request) (*http.Response, error) {
	segs := strings.Split(strings.Trim(req.URL.Path, "/"), "/")
	if len(segs) == 4 && segs[0] == "api" && segs[1] == "v1" && segs[2] == "namespaces" && req.Method == http.MethodGet {
		// resource.Info.Get asks whether the namespace exists after a NotFound; the
		// answer cannot change what kubectl apply does next (it only swaps one
		// NotFound error for another), so it is neither counted nor rejectable
		s.mu.Lock()
		s.begin("GET namespace-exists " + segs[3])
		o := s.st.get(kindByName("Namespace").GVR(), "", segs[3])
		s.mu.Unlock()
		if o == nil {
			return errResponse(notFound(kindByName("Namespace").GVR(), segs[3])), nil
		}
		return jsonResponse(200, o.Object), nil
	}
	var ns, res, name string
	switch {
	case len(segs) >= 3 && segs[0] == "namespaces":
		ns, res = segs[1], segs[2]
		if len(segs) > 3 {
			name = segs[3]
		}
		if len(segs) > 4 {
			res = ""
		}
	case len(segs) >= 1 && len(segs) <= 2:
		res = segs[0]
		if len(segs) == 2 {
			name = segs[1]
		}
	}
	k := kindByResource(res)
	if k == nil {
		s.mu.Lock()
		s.noteUnexpected("REST %s %s", req.Method, req.URL.Path)
		s.mu.Unlock()
		return errResponse(apierrors.NewBadRequest("unknown path " + req.URL.Path)), nil
	}
	gvr := k.GVR()
	dry := false
	for _, v := range req.URL.Query()["dryRun"] {
		if v == "All" {
			dry = true
		}
	}
	var body []byte
	if req.Body != nil {
		body, _ = io.ReadAll(req.Body)
		req.Body.Close()
	}
	switch {
	case req.Method == http.MethodGet && name != "":
		o, err := s.opGet(gvr, ns, name)
		if err != nil {
			return errResponse(err), nil
		}
		return jsonResponse(200, o.Object), nil
	case req.Method == http.MethodPost && name == "":
		m := map[string]interface{}{}
		if err := json.Unmarshal(body, &m); err != nil {
			return errResponse(apierrors.NewBadRequest(err.Error())), nil
		}
		o, err := s.opCreate(gvr, ns, &unstructured.Unstructured{Object: m}, dry, "rest")
		if err != nil {
			return errResponse(err), nil
		}
		return jsonResponse(201, o.Object), nil
	case req.Method == http.MethodPatch && name != "":
		pt := types.PatchType(strings.TrimSpace(strings.Split(req.Header.Get("Content-Type"), ";")[0]))
		o, err := s.opPatch(gvr, ns, name, pt, body, dry)
		if err == errStream {
			return nil, err // the connection's stream died: a transport error, no HTTP answer
		}
		if err != nil {
			return errResponse(err), nil
		}
		return jsonResponse(200, o.Object), nil
	}
	s.mu.Lock()
	s.noteUnexpected("REST %s %s", req.Method, req.URL.Path)
	s.mu.Unlock()
	return errResponse(apierrors.NewMethodNotSupported(gvr.GroupResource(), req.Method)), nil
}

// Close marks the end of the run; later requests are recorded as late.
func (s *Server) Close() {
	s.mu.Lock()
	s.closed = true
	s.mu.Unlock()
}

func (s *Server) snapshotLog() ([]Item, []FAddr, []string, []string, int) {
	s.mu.Lock()
	defer s.mu.Unlock()
	return append([]Item(nil), s.log...), append([]FAddr(nil), s.addrs...),
		append([]string(nil), s.unexpected...), append([]string(nil), s.late...), s.nReq
}
