package pipeline

import (
	"fmt"
	"strings"
	"testing"
)

func dump(title string, r RunResult) {
	fmt.Printf("== %s\n", title)
	for _, it := range r.Out.Trace {
		fmt.Printf("  %3d %s\n", it.Seq, it.Text)
	}
	fmt.Printf("  final: %s\n", r.Out.Final.Text())
	for _, f := range r.Failures {
		fmt.Printf("  FAILURE: %s\n", f)
	}
}

func perfect(t *testing.T, st *Store, sc Scenario) RunResult {
	t.Helper()
	pr := Probe(st, sc)
	sc.Env = Env{WatchErrAt: -1, Waits: pr.Waits}
	r := ExecRun(st, sc)
	if testing.Verbose() {
		dump(sc.Text(), r)
	}
	if len(r.Failures) > 0 {
		t.Fatalf("failures: %v", r.Failures)
	}
	if last := r.Out.Trace[len(r.Out.Trace)-1]; last.Coq != "IClosed" {
		t.Fatalf("trace does not end with IClosed: %s", last.Text)
	}
	return r
}

// apply two ConfigMaps, prune one, destroy: the smoke test of the plumbing.
func TestRoundTrip(t *testing.T) {
	univ := NewUniverse([]UEntry{Entry("ConfigMap", invNS, "cm-a"), Entry("ConfigMap", invNS, "cm-b"), Entry("Namespace", "", invNS)})
	st := NewStore(univ, Cluster{NextUID: 100})
	r := perfect(t, st, Scenario{Univ: univ, Local: []LObj{{ID: 1, Ver: 1}, {ID: 2, Ver: 1}}, Opts: Opts{Prune: true}})
	if got := r.Out.Final.Text(); got != "1{u100 Ours v1 applied} 2{u101 Ours v1 applied} inv[1 2] next=102" {
		t.Fatalf("after apply: %s", got)
	}
	r = perfect(t, st, Scenario{Univ: univ, Local: []LObj{{ID: 1, Ver: 1}}, Opts: Opts{Prune: true}})
	if got := r.Out.Final.Text(); got != "1{u100 Ours v1 applied} inv[1] next=102" {
		t.Fatalf("after prune: %s", got)
	}
	r = perfect(t, st, Scenario{Univ: univ, Opts: Opts{Destroy: true, Prune: true}})
	if got := r.Out.Final.Text(); got != "inv=None next=102" {
		t.Fatalf("after destroy: %s", got)
	}
}

func TestCRD(t *testing.T) {
	univ := NewUniverse([]UEntry{Entry("CustomResourceDefinition", "", crdMeta.Name), Entry("Bar", invNS, "bar-a"), Entry("ConfigMap", invNS, "cm-a")})
	st := NewStore(univ, Cluster{NextUID: 100})
	var ls []LObj
	for i := range univ {
		ls = append(ls, LObj{ID: i, Ver: 1})
	}
	r := perfect(t, st, Scenario{Univ: univ, Local: ls, Opts: Opts{Prune: true}})
	if len(r.Out.Final.Objs) != 3 {
		t.Fatalf("CRD, custom resource and ConfigMap expected: %s", r.Out.Final.Text())
	}
	// the custom resource is applied in the layer after its CRD
	txt := r.Out.Text()
	if !(strings.Index(txt, "RCreate 0 ") < strings.Index(txt, "started wait-0") && strings.Index(txt, "finished wait-0") < strings.Index(txt, "RCreate 2 ")) {
		t.Fatalf("order: %s", txt)
	}
}

// the same scenario from the same state gives the same trace
func TestDeterministic(t *testing.T) {
	univ := NewUniverse([]UEntry{Entry("ConfigMap", invNS, "cm-a"), Entry("ConfigMap", invNS, "cm-b")})
	init := Cluster{NextUID: 100}
	sc := Scenario{Univ: univ, Local: []LObj{{ID: 0, Ver: 1}, {ID: 1, Ver: 1, Deps: []int{0}}},
		Opts: Opts{Prune: true, RecTimeout: true, StatusEvents: true},
		Env: Env{WatchErrAt: -1, Waits: []WSched{
			{Deliv: []SObs{{ID: 0, St: SInProgress, Body: true, UID: 100, Gen: 2}, {ID: 0, St: SCurrent, Body: true, UID: 100, Gen: 2},
				{ID: 0, St: SFailed, Body: true, UID: 100, Gen: 2}}, End: WCancel},
			{Deliv: []SObs{{ID: 1, St: SInProgress, Body: true, UID: 101, Gen: 2}}, End: WTimeout}}}}
	var first string
	for i := 0; i < 5; i++ {
		r := ExecRun(NewStore(univ, init), sc)
		if len(r.Failures) > 0 {
			t.Fatalf("failures: %v", r.Failures)
		}
		if i == 0 {
			first = r.Out.Coq()
			if !strings.Contains(first, "WTimedOut") || strings.Contains(first, "SFailed") {
				t.Fatalf("expected a timeout of wait-1 and the third delivery of wait-0 dropped: %s", r.Out.Text())
			}
		} else if r.Out.Coq() != first {
			t.Fatalf("run %d differs:\n%s\n%s", i, first, r.Out.Coq())
		}
	}
}
