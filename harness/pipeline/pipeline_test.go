package pipeline

import (
	"fmt"
	"strings"
	"testing"
	"time"
)

func dump(t *testing.T, title string, r RunResult) {
	t.Helper()
	fmt.Printf("== %s\n", title)
	for _, it := range r.Out.Trace {
		fmt.Printf("  %3d %s\n", it.Seq, it.Text)
	}
	fmt.Printf("  final: %s\n  addrs: %v\n", r.Out.Final.Text(), r.Addrs)
	for _, f := range r.Failures {
		fmt.Printf("  FAILURE: %s\n", f)
	}
}

func currentAll(plan []planGroup, c Cluster) []WSched {
	var ws []WSched
	for i, g := range plan {
		if g.Kind != "GWait" {
			continue
		}
		// find the preceding group to know whether this is an apply or a prune wait
		prune := i > 0 && plan[i-1].Kind == "GPrune"
		var w WSched
		w.End = WCancel
		for _, id := range g.IDs {
			if prune {
				w.Deliv = append(w.Deliv, SObs{ID: id, St: SNotFound})
			} else {
				uid := uint64(0)
				if o := c.Find(id); o != nil {
					uid = o.UID
				}
				w.Deliv = append(w.Deliv, SObs{ID: id, St: SCurrent, Body: true, UID: uid, Gen: 2})
			}
		}
		ws = append(ws, w)
	}
	return ws
}

func TestStep1(t *testing.T) {
	univ := NewUniverse([]UEntry{Entry("ConfigMap", invNS, "cm-a"), Entry("ConfigMap", invNS, "cm-b"), Entry("Namespace", "", invNS)})
	fmt.Println(univ.Text())
	init := Cluster{NextUID: 100}
	st := NewStore(univ, init)
	sc := Scenario{Univ: univ, Local: []LObj{{ID: 1, Ver: 1}, {ID: 2, Ver: 1}},
		Opts: Opts{Prune: true, Policy: PMustMatch},
		Env: Env{WatchErrAt: -1, Waits: []WSched{{End: WCancel, Deliv: []SObs{
			{ID: 1, St: SCurrent, Body: true, UID: 100, Gen: 2}, {ID: 2, St: SInProgress, Body: true, UID: 101, Gen: 2},
			{ID: 2, St: SCurrent, Body: true, UID: 101, Gen: 2}}}}}}
	t0 := time.Now()
	r := ExecRun(st, sc)
	fmt.Println("took", time.Since(t0))
	dump(t, sc.Text(), r)
	fmt.Println(strings.Repeat("-", 40))
	fmt.Println(sc.Coq())
	fmt.Println(r.Out.Coq())
}

func TestCRD(t *testing.T) {
	univ := NewUniverse([]UEntry{Entry("CustomResourceDefinition", "", crdMeta.Name), Entry("Bar", invNS, "bar-a"), Entry("ConfigMap", invNS, "cm-a")})
	fmt.Println(univ.Text(), univ.Coq())
	st := NewStore(univ, Cluster{NextUID: 100})
	var ls []LObj
	for i := range univ {
		ls = append(ls, LObj{ID: i, Ver: 1})
	}
	sc := Scenario{Univ: univ, Local: ls, Opts: Opts{Prune: true}}
	pr := Probe(st, sc)
	sc.Env = Env{WatchErrAt: -1, Waits: pr.Waits}
	dump(t, sc.Text(), ExecRun(st, sc))
	for i := range ls {
		ls[i].Ver = 2
	}
	sc = Scenario{Univ: univ, Local: ls[1:], Opts: Opts{Prune: true}}
	pr = Probe(st, sc)
	sc.Env = Env{WatchErrAt: -1, Waits: pr.Waits}
	dump(t, sc.Text(), ExecRun(st, sc))
	sc = Scenario{Univ: univ, Opts: Opts{Destroy: true, Prune: true}}
	pr = Probe(st, sc)
	sc.Env = Env{WatchErrAt: -1, Waits: pr.Waits}
	dump(t, sc.Text(), ExecRun(st, sc))
}
