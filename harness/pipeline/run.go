// run.go: builds the real Applier / Destroyer over the fake server and the
// scripted watcher, executes one run / one history and merges the logs.
package pipeline

import (
	"context"
	"fmt"
	"net/http"
	"runtime"
	"sort"
	"strings"
	"sync"
	"time"

	"k8s.io/apimachinery/pkg/api/meta"
	metav1 "k8s.io/apimachinery/pkg/apis/meta/v1"
	"k8s.io/apimachinery/pkg/runtime/schema"
	"k8s.io/cli-runtime/pkg/resource"
	"k8s.io/client-go/dynamic"
	"k8s.io/client-go/rest/fake"
	cmdtesting "k8s.io/kubectl/pkg/cmd/testing"
	"sigs.k8s.io/cli-utils/pkg/apply"
	"sigs.k8s.io/cli-utils/pkg/apply/event"
	"sigs.k8s.io/cli-utils/pkg/common"
	"sigs.k8s.io/cli-utils/pkg/inventory"
	pollevent "sigs.k8s.io/cli-utils/pkg/kstatus/polling/event"
	"sigs.k8s.io/cli-utils/pkg/kstatus/watcher"
	"sigs.k8s.io/cli-utils/pkg/object"
	"sigs.k8s.io/cli-utils/pkg/object/validation"
)

const (
	shortTimeout = 150 * time.Millisecond
	watchdog     = 5 * time.Second
	fieldManager = "kubectl"
)

// factory overrides the dynamic client of the kubectl test factory (whose
// field only accepts the concrete fake type).
type factory struct {
	*cmdtesting.TestFactory
	dc     dynamic.Interface
	mapper meta.RESTMapper
}

func (f *factory) DynamicClient() (dynamic.Interface, error) { return f.dc, nil }

func (f *factory) ToRESTMapper() (meta.RESTMapper, error) { return f.mapper, nil }

// withCRDKind adds the CustomResourceDefinition kind (unknown to the kubectl
// test mapper) to the mapper. The custom kind itself (company.com/v1 Bar) is
// part of the test mapper.
func withCRDKind(base meta.RESTMapper) meta.RESTMapper {
	gvk := kindByName("CustomResourceDefinition").GVK
	b1, b2 := kindByResource("bazs"), kindByResource("obazs")
	as := kindByResource("apiservices")
	m := meta.NewDefaultRESTMapper([]schema.GroupVersion{gvk.GroupVersion(), b1.GVK.GroupVersion(), b2.GVK.GroupVersion(), as.GVK.GroupVersion()})
	m.Add(gvk, meta.RESTScopeRoot)
	m.AddSpecific(as.GVK, as.GVR(), as.GVK.GroupVersion().WithResource("apiservice"), meta.RESTScopeRoot)
	m.AddSpecific(b1.GVK, b1.GVR(), b1.GVK.GroupVersion().WithResource("baz"), meta.RESTScopeNamespace)
	m.AddSpecific(b2.GVK, b2.GVR(), b2.GVK.GroupVersion().WithResource("obaz"), meta.RESTScopeNamespace)
	return meta.FirstHitRESTMapper{MultiRESTMapper: meta.MultiRESTMapper{base, m}}
}

// Session owns what outlives a single run when one Applier / Destroyer object is
// reused for several runs of a history: the kubectl test factory, the REST and
// dynamic clients (which forward to the server of the current run), the
// inventory clients and the Applier / Destroyer objects (one per inventory
// status policy, which is fixed when the inventory client is built).
type Session struct {
	mu         sync.Mutex
	srv        *Server
	w          *scriptedWatcher
	tf         *cmdtesting.TestFactory
	f          *factory
	appliers   map[bool]*apply.Applier
	destroyers map[bool]*apply.Destroyer
}

func NewSession() (*Session, error) {
	s := &Session{appliers: map[bool]*apply.Applier{}, destroyers: map[bool]*apply.Destroyer{}}
	s.tf = cmdtesting.NewTestFactory().WithNamespace(invNS)
	s.tf.UnstructuredClient = &fake.RESTClient{
		NegotiatedSerializer: resource.UnstructuredPlusDefaultContentConfig().NegotiatedSerializer,
		Client:               fake.CreateHTTPClient(func(req *http.Request) (*http.Response, error) { return s.server().ServeREST(req) }),
	}
	base, err := s.tf.ToRESTMapper()
	if err != nil {
		s.tf.Cleanup()
		return nil, fmt.Errorf("rest mapper: %w", err)
	}
	// the custom kind company.com Bar is known only while its CRD object exists (as of the
	// mapper's last reset); the mapper is reset at the start of every run
	crd := kindByName("CustomResourceDefinition").GVR()
	s.f = &factory{TestFactory: s.tf, dc: &dynClient{get: s.server}, mapper: &dynMapper{RESTMapper: withCRDKind(base), present: func() bool {
		srv := s.server()
		return srv != nil && srv.st.get(crd, "", crdMeta.Name) != nil
	}}}
	return s, nil
}

func (s *Session) Close() { s.tf.Cleanup() }

func (s *Session) bind(srv *Server, w *scriptedWatcher) {
	s.mu.Lock()
	s.srv, s.w = srv, w
	s.mu.Unlock()
}

func (s *Session) server() *Server {
	s.mu.Lock()
	defer s.mu.Unlock()
	return s.srv
}

// Watch: the StatusWatcher handed to the builders; every run brings its own script.
func (s *Session) Watch(ctx context.Context, ids object.ObjMetadataSet, o watcher.Options) <-chan pollevent.Event {
	s.mu.Lock()
	w := s.w
	s.mu.Unlock()
	return w.Watch(ctx, ids, o)
}

func (s *Session) invClient(all bool) (inventory.Client, error) {
	sp := inventory.StatusPolicyNone
	if all {
		sp = inventory.StatusPolicyAll
	}
	return inventory.ClusterClientFactory{StatusPolicy: sp}.NewClient(s.f)
}

func (s *Session) applier(all bool) (*apply.Applier, error) {
	if a := s.appliers[all]; a != nil {
		return a, nil
	}
	ic, err := s.invClient(all)
	if err != nil {
		return nil, err
	}
	a, err := apply.NewApplierBuilder().WithFactory(s.f).WithInventoryClient(ic).WithStatusWatcher(s).Build()
	if err == nil {
		s.appliers[all] = a
	}
	return a, err
}

func (s *Session) destroyer(all bool) (*apply.Destroyer, error) {
	if d := s.destroyers[all]; d != nil {
		return d, nil
	}
	ic, err := s.invClient(all)
	if err != nil {
		return nil, err
	}
	d, err := apply.NewDestroyerBuilder().WithFactory(s.f).WithInventoryClient(ic).WithStatusWatcher(s).Build()
	if err == nil {
		s.destroyers[all] = d
	}
	return d, err
}

// RunResult is what one run produced.
type RunResult struct {
	Out        Outcome
	Addrs      []FAddr     // fault addresses the run touched
	Plan       []planGroup // the plan announced by the init event
	Waits      []WSched    // probe runs: the reconciling deliveries that were sent
	NReq       int
	Failures   []string       // hangs, leaks, unexpected requests (implementation or harness level)
	Hung       bool           // the watchdog fired: the pipeline may still be running against the store
	LateSent   int            // late status deliveries the runner took
	SelfClosed int            // the scripted watcher closed its channel by itself after a fatal error
	Univ       Universe       // the universe as this run saw it (per-run flags: Universe.forRun); goes into the recorded scenario
	MutGets    map[string]int // GETs of substitution sources by the apply-time mutator: ok / missing / rejected
	srv        *Server
	text       string
}

// LateRequests returns the requests that reached the run's server after its
// event channel had been closed (checked again at the end of the whole session).
func (r RunResult) LateRequests() []string {
	if r.srv == nil {
		return nil
	}
	r.srv.mu.Lock()
	defer r.srv.mu.Unlock()
	out := make([]string, len(r.srv.late))
	for i, l := range r.srv.late {
		out[i] = "request after the channel closed: " + l + " [in: " + r.text + "]"
	}
	return out
}

func policyOf(p Policy) inventory.Policy {
	return [...]inventory.Policy{inventory.PolicyMustMatch, inventory.PolicyAdoptIfNoInventory, inventory.PolicyAdoptAll}[p]
}

func dryOf(d Dry) common.DryRunStrategy {
	return [...]common.DryRunStrategy{common.DryRunNone, common.DryRunClient, common.DryRunServer}[d]
}

func valOf(v ValPol) validation.Policy {
	return [...]validation.Policy{validation.ExitEarly, validation.SkipInvalid}[v]
}

func propOf(o Opts) metav1.DeletionPropagation {
	if o.PropUnset && o.Prop == PropBackground {
		return "" // the option is not set: setDefaults / setDestroyerDefaults must turn it into Background
	}
	p := o.Prop
	return [...]metav1.DeletionPropagation{metav1.DeletePropagationBackground, metav1.DeletePropagationForeground, metav1.DeletePropagationOrphan}[p]
}

func timeoutOf(b bool) time.Duration {
	if b {
		return shortTimeout
	}
	return 0
}

// ExecRun executes one scenario against the store (which it mutates).
func ExecRun(st *Store, sc Scenario) RunResult { return execRun(st, sc, false, nil) }

// ExecRunIn executes the scenario with the Applier / Destroyer objects of the
// session (which have served the earlier runs of the history).
func ExecRunIn(sess *Session, st *Store, sc Scenario) RunResult { return execRun(st, sc, false, sess) }

// Probe executes the scenario's objects and options against a copy of the
// store with no faults, no cancellation and a watcher that reconciles every
// object at once. The result tells the generators which plan, which fault
// addresses and which uids the scenario involves.
func Probe(st *Store, sc Scenario) RunResult {
	sc.Env = Env{WatchErrAt: -1}
	for _, e := range sc.Univ {
		if e.Fin {
			// a prune wait over a finalizer-held object only ends by its timeout: the probe
			// always has one, so that it sees the whole run (timeouts do not change requests)
			sc.Opts.PruneTimeout = true
		}
	}
	return execRun(st.Clone(), sc, true, nil)
}

func execRun(st *Store, sc Scenario, auto bool, sess *Session) (res RunResult) {
	sc.Univ = sc.Univ.forRun(st)
	res.Univ = sc.Univ
	markRun(st, sc, auto)
	clock := &Clock{}
	bd := newBoard()
	ctx, cancel := context.WithCancel(context.Background())
	defer cancel()
	if sc.Env.Cancel.Kind == CBeforeSync && !sc.Env.Cancel.ByWatcher {
		cancel()
	}
	srv := NewServer(st, clock, sc.Env)
	srv.cancelFn = cancel

	fail := func(format string, a ...interface{}) RunResult {
		res.Failures = append(res.Failures, fmt.Sprintf(format, a...))
		res.Out.Final = st.Observe()
		return res
	}
	if sess == nil {
		// a fresh factory, inventory client, Applier and Destroyer for this run only
		var err error
		if sess, err = NewSession(); err != nil {
			return fail("harness: %v", err)
		}
		defer sess.Close()
	}
	w := &scriptedWatcher{univ: sc.Univ, env: sc.Env, clock: clock, board: bd, cancel: cancel}
	cons := newConsumer(sc.Univ, clock, bd, sc.Opts.Destroy)
	w.auto, w.st, w.plan = auto, st, func() []planGroup { return cons.initPlan }
	if !auto && !sc.Opts.StatusEvents {
		w.late, cons.late = map[int]LateSpec{}, map[int]bool{}
		for _, l := range sc.Late {
			w.late[l.Wait], cons.late[l.Wait] = l, true
		}
	}
	srv.barrier = cons.barrier
	srv.afterCancel = w.afterCancel
	w.syncConsumer = cons.barrier
	sess.bind(srv, w)
	if m, ok := sess.f.mapper.(*dynMapper); ok {
		m.Reset() // type knowledge is discovered afresh at the start of every run
	}
	invInfo := inventory.WrapInventoryInfoObj(InventoryObject(sc.Univ, nil, false))

	var ch <-chan event.Event
	if sc.Opts.Destroy {
		d, err := sess.destroyer(sc.Opts.StatusPolicyAll)
		if err != nil {
			return fail("harness: destroyer: %v", err)
		}
		ch = d.Run(ctx, invInfo, apply.DestroyerOptions{
			InventoryPolicy:         policyOf(sc.Opts.Policy),
			DryRunStrategy:          dryOf(sc.Opts.Dry),
			DeleteTimeout:           timeoutOf(sc.Opts.PruneTimeout),
			DeletePropagationPolicy: propOf(sc.Opts),
			EmitStatusEvents:        sc.Opts.StatusEvents,
			ValidationPolicy:        valOf(sc.Opts.ValPol),
		})
	} else {
		a, err := sess.applier(sc.Opts.StatusPolicyAll)
		if err != nil {
			return fail("harness: applier: %v", err)
		}
		objs := make(object.UnstructuredSet, len(sc.Local))
		for i, l := range sc.Local {
			objs[i] = Manifest(sc.Univ, l)
		}
		ch = a.Run(ctx, invInfo, objs, apply.ApplierOptions{
			ServerSideOptions:      common.ServerSideOptions{ServerSideApply: sc.Opts.SSA, ForceConflicts: true, FieldManager: fieldManager},
			ReconcileTimeout:       timeoutOf(sc.Opts.RecTimeout),
			EmitStatusEvents:       sc.Opts.StatusEvents,
			NoPrune:                !sc.Opts.Prune,
			DryRunStrategy:         dryOf(sc.Opts.Dry),
			PrunePropagationPolicy: propOf(sc.Opts),
			PruneTimeout:           timeoutOf(sc.Opts.PruneTimeout),
			InventoryPolicy:        policyOf(sc.Opts.Policy),
			ValidationPolicy:       valOf(sc.Opts.ValPol),
		})
	}
	closed := cons.run(ch, watchdog)
	srv.Close()
	cancel()
	if !closed {
		res.Failures = append(res.Failures, "no_close: the event channel was not closed within the watchdog period: "+sc.Text())
		// keep draining so that the pipeline's goroutines are not blocked for ever
		go func() {
			for range ch {
			}
		}()
	}
	w.mu.Lock()
	done, watches := w.done, w.watches
	w.mu.Unlock()
	if done != nil {
		select {
		case <-done:
		case <-time.After(time.Second):
			res.Failures = append(res.Failures, "watcher goroutine still running one second after the run")
		}
	}
	if watches > 1 {
		res.Failures = append(res.Failures, fmt.Sprintf("Watch called %d times", watches))
	}
	reqs, addrs, unexpected, late, nreq := srv.snapshotLog()
	items := append(append(reqs, w.items()...), cons.log...)
	sort.SliceStable(items, func(i, j int) bool { return items[i].Seq < items[j].Seq })
	// the validation events before the plan come in the map iteration order of
	// the inventory (graph errors are collected per object in allObjs order):
	// the leading block is emitted sorted; the Coq side compares it order-free
	nv := 0
	for nv < len(items) && strings.HasPrefix(items[nv].Coq, "IEv (EValidation") {
		nv++
	}
	sort.SliceStable(items[:nv], func(i, j int) bool { return items[i].Coq < items[j].Coq })
	res.Out = Outcome{Trace: items, Final: st.Observe()}
	// the order of first use depends on Go map iteration inside the library (the stored
	// inventory is a map): canonical order, so that fault variants drawn from this list are
	// the same on every run of one seed
	sort.SliceStable(addrs, func(i, j int) bool {
		a, b := addrs[i], addrs[j]
		if a.Kind != b.Kind {
			return a.Kind < b.Kind
		}
		if a.I != b.I {
			return a.I < b.I
		}
		return a.N < b.N
	})
	res.Addrs, res.Plan, res.NReq = addrs, cons.initPlan, nreq
	srv.mu.Lock()
	res.MutGets = map[string]int{}
	for k, v := range srv.mutGets {
		res.MutGets[k] = v
	}
	srv.mu.Unlock()
	w.mu.Lock()
	res.Waits, res.LateSent, res.SelfClosed = w.autoWaits, w.lateSent, w.selfClosed
	w.mu.Unlock()
	for _, u := range unexpected {
		res.Failures = append(res.Failures, "unexpected request: "+u)
	}
	_ = late // reported by LateRequests at the end of the session
	res.srv, res.text = srv, sc.Text()
	res.Failures = append(res.Failures, cons.anomalies...)
	res.Failures = append(res.Failures, st.takeNotes()...)
	res.Hung = !closed
	return res
}

// settleGoroutines waits until the goroutine count is back at (or below) base.
func settleGoroutines(base int, max time.Duration) (int, bool) {
	deadline := time.Now().Add(max)
	for {
		n := runtime.NumGoroutine()
		if n <= base {
			return n, true
		}
		if time.Now().After(deadline) {
			return n, false
		}
		time.Sleep(time.Millisecond)
	}
}
