package pipeline

import (
	"fmt"

	"verifharness/emit"
)

// corpusRan: the fixed corpus is the same in every profile; a campaign process that runs several
// profiles (corrall -budget) executes it in the first one only.
var corpusRan bool

// RunAll runs the profile `prop` with `budget` GENERATED runs (the fixed corpus, 268 runs by now,
// is not counted: with the former accounting a budget of 260 was used up by the corpus alone and
// not a single generated history was executed) and emits its histories as cases of
// check_all (Corr/CorrPipelineAll.v: agreement with the model and EVERY pipeline monitor on
// every case). Used by the mutation campaign (tools/mutpipe.py), not by the registered checks.
func RunAll(prop string, budget int) emit.Runner {
	return func(seed int64, tier, outDir string) (*emit.Summary, error) {
		p, ok := profiles[prop]
		if !ok {
			return nil, fmt.Errorf("pipeline: no profile for %s", prop)
		}
		p.budget = budget
		p.check = "check_all"
		p.noCorpus = corpusRan
		corpusRan = true
		return runProfile(p, seed, tier, outDir)
	}
}
