package pipeline

import (
	"fmt"

	"verifharness/emit"
)

// RunAll runs the profile `prop` with `budget` runs and emits its histories as cases of
// check_all (Corr/CorrPipelineAll.v: agreement with the model and EVERY pipeline monitor on
// every case). Used by the mutation campaign (tools/mutpipe.py), not by the registered checks.
func RunAll(prop string, budget int) emit.Runner {
	return func(seed int64, tier, outDir string) (*emit.Summary, error) {
		p, ok := profiles[prop]
		if !ok {
			return nil, fmt.Errorf("pipeline: no profile for %s", prop)
		}
		p.budget = budget
		p.check = "check_all"
		return runProfile(p, seed, tier, outDir)
	}
}
