package c06

// Second stream: the same scripted phases, but delivered through the REAL
// TaskStatusRunner.Run loop (runner.go: Sync starts the task, every status
// event is written to the cache and StatusUpdate is called only for a task that
// tracks the id).  A scripted StatusWatcher sends on an unbuffered channel: a
// completed send means the runner took the event, and because the runner
// handles one event completely before it receives the next, a completed send of
// the following marker event (an object outside the task and the universe)
// means the previous event has been processed in full.  So the wait events
// found on the (buffered) event channel after the marker are exactly those of
// that step.

import (
	"context"
	"fmt"
	"math/rand"
	"sync/atomic"
	"time"

	"k8s.io/apimachinery/pkg/runtime/schema"
	"sigs.k8s.io/cli-utils/pkg/apply/cache"
	"sigs.k8s.io/cli-utils/pkg/apply/event"
	"sigs.k8s.io/cli-utils/pkg/apply/taskrunner"
	pollevent "sigs.k8s.io/cli-utils/pkg/kstatus/polling/event"
	"sigs.k8s.io/cli-utils/pkg/kstatus/status"
	"sigs.k8s.io/cli-utils/pkg/kstatus/watcher"
	"sigs.k8s.io/cli-utils/pkg/object"
)

var markerID = object.ObjMetadata{Namespace: "zz", Name: "marker", GroupKind: schema.GroupKind{Group: "", Kind: "ConfigMap"}}

type scriptWatcher struct {
	drive func(ctx context.Context, send func(pollevent.Event) bool)
}

func (w *scriptWatcher) Watch(ctx context.Context, _ object.ObjMetadataSet, _ watcher.Options) <-chan pollevent.Event {
	ch := make(chan pollevent.Event) // unbuffered on purpose
	go func() {
		defer close(ch)
		w.drive(ctx, func(e pollevent.Event) bool {
			select {
			case ch <- e:
				return true
			case <-ctx.Done():
				return false
			}
		})
		<-ctx.Done()
	}()
	return ch
}

// statusEvent: the step tag travels in the body (annotation stepAnnotation) when the
// observation has one, so that consecutive observations can be equal in status, message,
// UID and generation and still differ in content; body-less observations carry it in the
// message.
const stepAnnotation = "verif.example/step"

func statusEvent(id object.ObjMetadata, o obsT, tag string) pollevent.Event {
	res := mkResource(id, o)
	msg := tag
	if res != nil {
		res.SetAnnotations(map[string]string{stepAnnotation: tag})
		msg = "observed"
	}
	return pollevent.Event{Type: pollevent.ResourceUpdateEvent, Resource: &pollevent.ResourceStatus{
		Identifier: id, Status: statuses[o.st], Resource: res, Message: msg}}
}

// cachedTag reads the step tag of the cache entry for id.
func cachedTag(rc *cache.ResourceCacheMap, id object.ObjMetadata) string {
	e := rc.Get(id)
	if e.Resource != nil {
		return e.Resource.GetAnnotations()[stepAnnotation]
	}
	return e.StatusMessage
}

var markerCount uint64

func markerEvent() pollevent.Event {
	// alternate the marker's status so that no delivery rule based on the
	// previous status of the marker itself can matter
	n := atomic.AddUint64(&markerCount, 1)
	st := status.CurrentStatus
	if n%2 == 0 {
		st = status.InProgressStatus
	}
	return pollevent.Event{Type: pollevent.ResourceUpdateEvent, Resource: &pollevent.ResourceStatus{
		Identifier: markerID, Status: st, Message: "marker"}}
}

// executeViaRunner runs one scripted phase through TaskStatusRunner.Run.
func executeViaRunner(sc *scenario) (res result) {
	evCh := make(chan event.Event, 8192)
	rc := cache.NewResourceCacheMap()
	tc := taskrunner.NewTaskContext(evCh, rc)
	im := tc.InventoryManager()
	register(im, sc.table)
	var ids, all object.ObjMetadataSet
	for _, i := range sc.ids {
		ids = append(ids, universe[i])
	}
	all = append(all, universe...)
	cond := taskrunner.AllCurrent
	if sc.cond == 1 {
		cond = taskrunner.AllNotFound
	}
	task := taskrunner.NewWaitTask("wait-0", ids, cond, sc.timeout, nil)
	queue := make(chan taskrunner.Task, 1)
	queue <- task

	// the scripted part: updates first, at most one Timeout / Cancel at the end
	updates := sc.inputs
	var last *inputT
	if n := len(updates); n > 0 && updates[n-1].kind != inUpdate {
		last = &updates[n-1]
		updates = updates[:n-1]
	}
	for _, x := range updates {
		if x.kind != inUpdate {
			res.failure = "harness: a runner phase can have Timeout / Cancel only as its last input"
			return res
		}
	}

	waitEvents := func() []wev {
		var out []wev
		for _, e := range drain(evCh) {
			if e.id != 98 { // action-group events of the runner are not wait events
				out = append(out, e)
			}
		}
		return out
	}

	var started time.Time
	driverDone := make(chan struct{})
	var delivered []inputT
	var steps [][]wev
	syncSeen := false
	dropped := ""
	w := &scriptWatcher{drive: func(wctx context.Context, send func(pollevent.Event) bool) {
		defer close(driverDone)
		// observations that arrive before the phase starts: cache only
		for _, ce := range sc.cache0 {
			if !send(statusEvent(universe[ce.id], ce.o, "before")) {
				return
			}
		}
		started = time.Now()
		if !send(pollevent.Event{Type: pollevent.SyncEvent}) {
			return
		}
		syncSeen = true
		send(markerEvent()) // taken (or the runner is gone) => Start has been processed
		steps = append(steps, waitEvents())
		for k, x := range updates {
			tag := fmt.Sprintf("step-%d", k)
			if !send(statusEvent(universe[x.id], x.o, tag)) {
				return // the runner has returned: the phase is over, nothing more is delivered
			}
			send(markerEvent())
			// A send can also be swallowed by the runner's final drain of the
			// status channel.  The event was handled by the loop iff the loop
			// wrote it to the cache (runner.go writes the cache for every
			// status event it handles).
			if cachedTag(rc, universe[x.id]) != tag {
				// either the runner is returning (final drain), or it dropped the observation
				// while still running: the cache must hold the most recent observation
				// (the runner cancels the watcher's context BEFORE it drains the channel, so an
				// observation swallowed by the drain finds the context done)
				select {
				case <-wctx.Done():
				case <-time.After(300 * time.Millisecond):
					dropped = fmt.Sprintf("the runner took the observation %s of %v but did not write it to the resource cache (cache holds %q)",
						tag, universe[x.id], cachedTag(rc, universe[x.id]))
				}
				return
			}
			delivered = append(delivered, x)
			steps = append(steps, waitEvents())
		}
	}}
	runner := taskrunner.NewTaskStatusRunner(all, w)
	ctx, cancel := context.WithCancel(context.Background())
	defer cancel()
	runDone := make(chan error, 1)
	go func() {
		defer func() {
			if e := recover(); e != nil {
				runDone <- fmt.Errorf("panic: %v", e)
			}
		}()
		runDone <- runner.Run(ctx, tc, queue, taskrunner.Options{})
	}()

	returned := false
	var runErr error
	awaitRun := func(d time.Duration) bool {
		if returned {
			return true
		}
		select {
		case runErr = <-runDone:
			returned = true
		case <-time.After(d):
		}
		return returned
	}

	select {
	case <-driverDone:
	case <-time.After(30 * time.Second):
		res.failure = "hang: the runner stopped taking status events"
		cancel()
		awaitRun(5 * time.Second)
		return res
	}
	if !syncSeen {
		res.failure = "the runner returned before the Sync event"
		return res
	}
	if dropped != "" {
		res.events = steps
		res.inputs = append([]inputT{}, delivered...)
		res.failure = dropped
		cancel()
		awaitRun(5 * time.Second)
		return res
	}
	res.events = steps
	res.inputs = append([]inputT{}, delivered...)

	switch {
	case last != nil && last.kind == inTimeout:
		if time.Since(started) > sc.timeout/2 {
			res.discard = "slow: scripted updates did not finish well before the deadline"
		}
		if !awaitRun(sc.timeout + 5*time.Second) {
			res.failure = "hang: the runner did not return after the task's deadline"
		}
		res.inputs = append(res.inputs, *last)
		res.events = append(res.events, waitEvents())
	case last != nil && last.kind == inCancel:
		cancel() // runner.go: the context ends => currentTask.Cancel
		if !awaitRun(5 * time.Second) {
			res.failure = "hang: the runner did not return after its context was cancelled"
		}
		res.inputs = append(res.inputs, *last)
		res.events = append(res.events, waitEvents())
	default:
		// whether the phase ends by itself is observed; only the patience
		// depends on what the events suggest
		wait := grace
		ended := sc.looksEnded(res.events)
		if ended {
			wait = 4 * time.Second
			if atomic.LoadInt32(&missedCompletions) >= 3 {
				wait = 3 * grace
			}
		}
		if !awaitRun(wait) && ended {
			atomic.AddInt32(&missedCompletions, 1)
		}
	}
	res.completed = returned
	if !returned {
		cancel()
		if !awaitRun(5 * time.Second) {
			res.failure = "leak: the runner did not return after cancel"
			return res
		}
	}
	if res.completed && (last == nil || last.kind != inCancel) && runErr != nil {
		res.failure = fmt.Sprintf("the runner returned an error for a completed phase: %v", runErr)
	}
	if runErr != nil && len(runErr.Error()) > 6 && runErr.Error()[:6] == "panic:" {
		res.panicked = true
		res.failure = runErr.Error()
	}
	if extra := waitEvents(); len(extra) > 0 {
		res.failure = fmt.Sprintf("wait events after the run: %v", extra)
	}
	sc.readFinal(im, &res)
	return res
}

// ---- generators for the runner stream ----------------------------------------

// endOnly moves a scripted Timeout / Cancel to the end (the runner stops
// delivering after either) and drops a second one.
func endOnly(sc *scenario) {
	var ups []inputT
	var end *inputT
	for k := range sc.inputs {
		if sc.inputs[k].kind == inUpdate {
			ups = append(ups, sc.inputs[k])
		} else if end == nil {
			e := sc.inputs[k]
			end = &e
		}
	}
	sc.inputs = ups
	sc.timeout = 0
	if end != nil {
		sc.inputs = append(sc.inputs, *end)
		if end.kind == inTimeout {
			sc.timeout = 120 * time.Millisecond
		}
	}
}

// genSameStatus: runs of consecutive observations of one object that keep the
// status and change only the UID, the generation or the presence of the body,
// interleaved across the objects of the phase.
func genSameStatus(r *rand.Rand) *scenario {
	sc := &scenario{kind: "runner:same-status", cond: r.Intn(2), viaRunner: true}
	nIDs := 1 + r.Intn(3)
	perm := r.Perm(len(universe))
	sc.ids = append(sc.ids, perm[:nIDs]...)
	recOf := map[int]recT{}
	for _, id := range sc.ids {
		rec := okRec(sc.cond, id, uint64(appliedUID+id), int64(1+r.Intn(2)))
		sc.table = append(sc.table, rec)
		recOf[id] = rec
	}
	vary := func(id int, st int) obsT {
		rec := recOf[id]
		o := obsT{st: st, has: r.Intn(8) != 0, uid: rec.uid, gen: rec.gen}
		switch r.Intn(4) {
		case 0:
			o.uid = rec.uid + 10
		case 1:
			o.uid = 0
		}
		switch r.Intn(4) {
		case 0:
			o.gen = rec.gen - 1
		case 1:
			o.gen = rec.gen + 1
		}
		return o.canon()
	}
	if r.Intn(2) == 0 {
		id := sc.ids[r.Intn(len(sc.ids))]
		sc.cache0 = append(sc.cache0, cacheEntry{id, vary(id, []int{2, 0, 4}[r.Intn(3)])})
	}
	runs := 1 + r.Intn(4)
	for k := 0; k < runs && len(sc.inputs) < 12; k++ {
		id := sc.ids[r.Intn(len(sc.ids))]
		st := []int{2, 2, 0, 1, 4, 3}[r.Intn(6)]
		if len(sc.cache0) > 0 && sc.cache0[0].id == id && k == 0 {
			st = sc.cache0[0].o.st
		}
		for n := 2 + r.Intn(3); n > 0 && len(sc.inputs) < 12; n-- {
			sc.inputs = append(sc.inputs, inputT{kind: inUpdate, id: id, o: vary(id, st)})
		}
	}
	switch r.Intn(8) {
	case 0:
		sc.inputs = append(sc.inputs, inputT{kind: inTimeout})
		sc.timeout = 120 * time.Millisecond
	case 1:
		sc.inputs = append(sc.inputs, inputT{kind: inCancel})
	}
	return sc
}

// runnerCorpus: the fixed corpus again, through the runner, plus the four
// same-status shapes (replaced while Current, generation regress, stale then
// fresh, delete phase replaced while InProgress) with a second object pending.
func runnerCorpus() []*scenario {
	var out []*scenario
	for _, sc := range corpus() {
		c := *sc
		c.kind = "runner:" + sc.kind
		c.viaRunner = true
		c.inputs = append([]inputT{}, sc.inputs...)
		endOnly(&c)
		out = append(out, &c)
	}
	cur := func(id int, uid uint64, gen int64) inputT { return upd(id, 2, true, uid, gen) }
	two := func(cond int, g int64) []recT { return []recT{okRec(cond, 0, 10, g), okRec(cond, 1, 11, g)} }
	out = append(out,
		&scenario{kind: "runner:corpus:replaced-while-current", cond: 0, ids: []int{0, 1}, table: two(0, 1), viaRunner: true,
			inputs: []inputT{cur(0, 10, 1), cur(0, 20, 1), cur(1, 11, 1)}},
		&scenario{kind: "runner:corpus:generation-regress", cond: 0, ids: []int{0, 1}, table: two(0, 2), viaRunner: true,
			inputs: []inputT{cur(0, 10, 2), cur(0, 10, 1), cur(1, 11, 2)}},
		&scenario{kind: "runner:corpus:stale-then-fresh", cond: 0, ids: []int{0, 1}, table: two(0, 2), viaRunner: true,
			cache0: []cacheEntry{{0, obsT{2, true, 10, 1}}},
			inputs: []inputT{cur(0, 10, 1), cur(0, 10, 2), cur(1, 11, 2)}},
		&scenario{kind: "runner:corpus:delete-replaced-while-inprogress", cond: 1, ids: []int{0, 1}, table: two(1, 0), viaRunner: true,
			inputs: []inputT{upd(0, 0, true, 10, 1), upd(0, 0, true, 20, 1), upd(1, 4, false, 0, 0)}},
	)
	return out
}

// runnerExhaustive: 1 id, every pair of updates and every (observed before the
// phase, one update) pair over the observation alphabet, both conditions.
func runnerExhaustive() []*scenario {
	var out []*scenario
	for cond := 0; cond < 2; cond++ {
		rec := okRec(cond, 0, appliedUID, 1)
		al := alphabet(rec.gen)
		for a := range al {
			for b := range al {
				out = append(out,
					&scenario{kind: "runner:exh", cond: cond, ids: []int{0}, table: []recT{rec}, viaRunner: true,
						inputs: []inputT{{kind: inUpdate, id: 0, o: al[a]}, {kind: inUpdate, id: 0, o: al[b]}}},
					&scenario{kind: "runner:exh-cached", cond: cond, ids: []int{0}, table: []recT{rec}, viaRunner: true,
						cache0: []cacheEntry{{0, al[a]}}, inputs: []inputT{{kind: inUpdate, id: 0, o: al[b]}}})
			}
		}
	}
	return out
}
