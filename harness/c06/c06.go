// Package c06 drives the real taskrunner.WaitTask synchronously (Start,
// StatusUpdate, Cancel, a short real timeout at quiescent points) over the real
// TaskContext, ResourceCacheMap and inventory.Manager, and writes the scripted
// phase together with the observed wait events, the final Manager records and
// the completion signal as Coq cases.
package c06

import (
	"flag"
	"fmt"
	"io"
	"math/rand"
	"strings"
	"sync"
	"sync/atomic"
	"time"

	"k8s.io/apimachinery/pkg/apis/meta/v1/unstructured"
	"k8s.io/apimachinery/pkg/runtime/schema"
	"k8s.io/apimachinery/pkg/types"
	"k8s.io/klog/v2"
	"sigs.k8s.io/cli-utils/pkg/apis/actuation"
	"sigs.k8s.io/cli-utils/pkg/apply/cache"
	"sigs.k8s.io/cli-utils/pkg/apply/event"
	"sigs.k8s.io/cli-utils/pkg/apply/taskrunner"
	"sigs.k8s.io/cli-utils/pkg/inventory"
	"sigs.k8s.io/cli-utils/pkg/kstatus/status"
	"sigs.k8s.io/cli-utils/pkg/object"
	"verifharness/emit"
)

// universe of identifiers; index = the nat used in the Coq cases
var universe = []object.ObjMetadata{
	{Namespace: "ns1", Name: "a", GroupKind: schema.GroupKind{Group: "", Kind: "ConfigMap"}},
	{Namespace: "ns1", Name: "b", GroupKind: schema.GroupKind{Group: "apps", Kind: "Deployment"}},
	{Namespace: "", Name: "crd.example.com", GroupKind: schema.GroupKind{Group: "apiextensions.k8s.io", Kind: "CustomResourceDefinition"}},
	{Namespace: "ns2", Name: "a", GroupKind: schema.GroupKind{Group: "", Kind: "ConfigMap"}},
	{Namespace: "", Name: "ns1", GroupKind: schema.GroupKind{Group: "", Kind: "Namespace"}},
	{Namespace: "ns1", Name: "c", GroupKind: schema.GroupKind{Group: "", Kind: "Secret"}},
}

func idx(id object.ObjMetadata) int {
	for i, u := range universe {
		if u == id {
			return i
		}
	}
	return 99
}

// ---- script --------------------------------------------------------------

var statuses = []status.Status{status.InProgressStatus, status.FailedStatus, status.CurrentStatus,
	status.TerminatingStatus, status.NotFoundStatus, status.UnknownStatus}
var statusCoq = []string{"KInProgress", "KFailed", "KCurrent", "KTerminating", "KNotFound", "KUnknown"}
var statusTxt = []string{"InProgress", "Failed", "Current", "Terminating", "NotFound", "Unknown"}

// obsT is one observation: status, resource body present, uid number (0 = ""), generation
type obsT struct {
	st  int
	has bool
	uid uint64
	gen int64
}

func (o obsT) canon() obsT {
	if !o.has {
		o.uid, o.gen = 0, 0
	}
	return o
}
func (o obsT) coq() string {
	o = o.canon()
	return emit.App("mkObs", statusCoq[o.st], emit.Bool(o.has), emit.N(o.uid), emit.Z(o.gen))
}
func (o obsT) txt() string {
	if !o.has {
		return statusTxt[o.st] + "(nobody)"
	}
	return fmt.Sprintf("%s(u%d,g%d)", statusTxt[o.st], o.uid, o.gen)
}

const (
	inUpdate = iota
	inTimeout
	inCancel
)

type inputT struct {
	kind int
	id   int
	o    obsT
}

func (x inputT) coq() string {
	switch x.kind {
	case inUpdate:
		return emit.App("Update", emit.Nat(x.id), x.o.coq())
	case inTimeout:
		return "(@Timeout nat)"
	default:
		return "(@Cancel nat)"
	}
}
func (x inputT) txt() string {
	switch x.kind {
	case inUpdate:
		return fmt.Sprintf("upd %d %s", x.id, x.o.txt())
	case inTimeout:
		return "TIMEOUT"
	default:
		return "CANCEL"
	}
}

var strategies = []string{"SApply", "SDelete"}
var actuations = []string{"APending", "ASucceeded", "ASkipped", "AFailed"}
var reconciles = []string{"RPending", "RSucceeded", "RSkipped", "RFailed", "RTimeout"}
var wstatusCoq = map[event.WaitEventStatus]string{event.ReconcilePending: "WPending", event.ReconcileSuccessful: "WSuccessful",
	event.ReconcileSkipped: "WSkipped", event.ReconcileTimeout: "WTimeout", event.ReconcileFailed: "WFailed"}

// recT is one record registered on the Manager before the phase
type recT struct {
	id         int
	strat, act int
	rec        int
	uid        uint64
	gen        int64
	viaAPI     bool // registered with the Add<X> convenience method instead of SetObjectStatus
}

func (r recT) coq() string {
	return emit.App("mkRec", emit.Nat(r.id), strategies[r.strat], actuations[r.act], reconciles[r.rec], emit.N(r.uid), emit.Z(r.gen))
}
func (r recT) txt() string {
	return fmt.Sprintf("%d:%s/%s/%s/u%d/g%d", r.id, strategies[r.strat][1:], actuations[r.act][1:], reconciles[r.rec][1:], r.uid, r.gen)
}

type cacheEntry struct {
	id int
	o  obsT
}

type scenario struct {
	kind    string
	cond    int // 0 AllCurrent, 1 AllNotFound
	ids     []int
	table   []recT
	cache0  []cacheEntry
	inputs  []inputT
	timeout time.Duration // > 0 iff inputs contains inTimeout
	// viaRunner: the phase is run by the real TaskStatusRunner.Run loop fed by a
	// scripted StatusWatcher (cache0 is delivered before the Sync event; a
	// Timeout / Cancel can only be the last input)
	viaRunner bool
}

type wev struct {
	id int
	st event.WaitEventStatus
}

type finalT struct {
	id    int
	found bool
	r     recT
}

type result struct {
	events    [][]wev
	final     []finalT
	completed bool
	panicked  bool
	inputs    []inputT // runner stream: the inputs that were actually delivered (nil: all of the script)
	discard   string   // non-empty: the run is not comparable (harness was too slow for the real timer)
	failure   string   // hang / leak seen outside the compared observables
}

func uidStr(n uint64) types.UID {
	if n == 0 {
		return ""
	}
	return types.UID(fmt.Sprintf("u%d", n))
}
func uidNum(u types.UID) uint64 {
	if u == "" {
		return 0
	}
	var n uint64
	if _, err := fmt.Sscanf(string(u), "u%d", &n); err != nil {
		return 999999
	}
	return n
}

func mkResource(id object.ObjMetadata, o obsT) *unstructured.Unstructured {
	if !o.has {
		return nil
	}
	md := map[string]interface{}{"name": id.Name}
	if id.Namespace != "" {
		md["namespace"] = id.Namespace
	}
	if o.uid != 0 {
		md["uid"] = string(uidStr(o.uid))
	}
	if o.gen != 0 || o.uid%2 == 0 { // generation 0 is sometimes spelled out, sometimes absent
		md["generation"] = o.gen
	}
	return &unstructured.Unstructured{Object: map[string]interface{}{
		"apiVersion": "v1", "kind": id.GroupKind.Kind, "metadata": md}}
}

func put(rc *cache.ResourceCacheMap, i int, o obsT) {
	rc.Put(universe[i], cache.ResourceStatus{Resource: mkResource(universe[i], o), Status: statuses[o.st], StatusMessage: "scripted"})
}

func drain(ch chan event.Event) []wev {
	var out []wev
	for {
		select {
		case e := <-ch:
			if e.Type == event.WaitType {
				out = append(out, wev{idx(e.WaitEvent.Identifier), e.WaitEvent.Status})
			} else {
				out = append(out, wev{98, event.WaitEventStatus(99)})
			}
		default:
			return out
		}
	}
}

const grace = 25 * time.Millisecond

var missedCompletions int32

// register records the actuation outcomes on the Manager, as the apply / prune
// tasks that precede the wait phase would.
func register(im *inventory.Manager, table []recT) {
	for _, r := range table {
		id := universe[r.id]
		if r.viaAPI {
			switch [2]int{r.strat, r.act} {
			case [2]int{0, 0}:
				im.AddPendingApply(id)
			case [2]int{0, 1}:
				im.AddSuccessfulApply(id, uidStr(r.uid), r.gen)
			case [2]int{0, 2}:
				im.AddSkippedApply(id)
			case [2]int{0, 3}:
				im.AddFailedApply(id)
			case [2]int{1, 0}:
				im.AddPendingDelete(id)
			case [2]int{1, 1}:
				im.AddSuccessfulDelete(id, uidStr(r.uid))
			case [2]int{1, 2}:
				im.AddSkippedDelete(id)
			case [2]int{1, 3}:
				im.AddFailedDelete(id)
			}
		} else {
			im.SetObjectStatus(actuation.ObjectStatus{
				ObjectReference: actuation.ObjectReference{Group: id.GroupKind.Group, Kind: id.GroupKind.Kind, Name: id.Name, Namespace: id.Namespace},
				Strategy:        actuation.ActuationStrategy(r.strat), Actuation: actuation.ActuationStatus(r.act),
				Reconcile: actuation.ReconcileStatus(r.rec), UID: uidStr(r.uid), Generation: r.gen})
		}
	}
}

// readFinal reads the record of every id of the universe back from the Manager.
func (sc *scenario) readFinal(im *inventory.Manager, res *result) {
	for i := range universe {
		st, found := im.ObjectStatus(universe[i])
		f := finalT{id: i, found: found}
		if found {
			f.r = recT{id: i, strat: int(st.Strategy), act: int(st.Actuation), rec: int(st.Reconcile), uid: uidNum(st.UID), gen: st.Generation}
			if st.ObjectReference != (actuation.ObjectReference{Group: universe[i].GroupKind.Group, Kind: universe[i].GroupKind.Kind, Name: universe[i].Name, Namespace: universe[i].Namespace}) {
				f.r.id = 99
			}
		}
		res.final = append(res.final, f)
	}
	if n := len(im.Inventory().Status.Objects); n != countDistinct(sc.table) {
		res.failure = fmt.Sprintf("the table has %d records, %d were registered", n, countDistinct(sc.table))
	}
}

// execute runs one scripted phase on the real WaitTask.
func execute(sc *scenario) (res result) {
	evCh := make(chan event.Event, 4096)
	rc := cache.NewResourceCacheMap()
	tc := taskrunner.NewTaskContext(evCh, rc)
	im := tc.InventoryManager()
	register(im, sc.table)
	for _, ce := range sc.cache0 {
		put(rc, ce.id, ce.o)
	}
	var ids object.ObjMetadataSet
	for _, i := range sc.ids {
		ids = append(ids, universe[i])
	}
	cond := taskrunner.AllCurrent
	if sc.cond == 1 {
		cond = taskrunner.AllNotFound
	}
	task := taskrunner.NewWaitTask("wait-0", ids, cond, sc.timeout, nil)

	received := false // the Start goroutine's TaskResult has been taken from the TaskChannel
	defer func() {
		if e := recover(); e != nil {
			res.panicked = true
			res.failure = fmt.Sprintf("panic: %v", e)
		}
	}()
	started := time.Now()
	task.Start(tc)
	res.events = append(res.events, drain(evCh))
	for _, x := range sc.inputs {
		switch x.kind {
		case inUpdate:
			// what runner.go does for a status event: write the cache, then notify the task
			put(rc, x.id, x.o)
			task.StatusUpdate(tc, universe[x.id])
			res.events = append(res.events, drain(evCh))
		case inCancel:
			task.Cancel(tc)
			res.events = append(res.events, drain(evCh))
		case inTimeout:
			// quiescent point: nothing else is in flight; let the real deadline pass
			if time.Since(started) > sc.timeout/2 {
				res.discard = "slow: scripted updates did not finish well before the deadline"
			}
			if !received {
				select {
				case <-tc.TaskChannel():
					received = true
				case <-time.After(sc.timeout + 5*time.Second):
					res.failure = "hang: the task did not complete after its deadline"
				}
			}
			res.events = append(res.events, drain(evCh))
		}
	}
	if !received {
		// Whether the task signals completion is observed, not assumed; only the
		// patience depends on what the emitted events suggest (a loaded machine
		// can delay the task's goroutine).
		wait := grace
		ended := sc.looksEnded(res.events)
		if ended {
			wait = 4 * time.Second
			if atomic.LoadInt32(&missedCompletions) >= 3 {
				// the implementation evidently does not signal completion here;
				// stop spending seconds on every further case
				wait = 3 * grace
			}
		}
		select {
		case <-tc.TaskChannel():
			received = true
		case <-time.After(wait):
			if ended {
				atomic.AddInt32(&missedCompletions, 1)
			}
		}
	}
	res.completed = received
	if !received {
		// not complete: end the Start goroutine so that it does not leak
		task.Cancel(tc)
		select {
		case <-tc.TaskChannel():
		case <-time.After(5 * time.Second):
			res.failure = "leak: the task goroutine did not end after Cancel"
		}
	}
	if extra := drain(evCh); len(extra) > 0 {
		res.failure = fmt.Sprintf("events after the run: %v", extra)
	}
	sc.readFinal(im, &res)
	return res
}

// looksEnded: a Cancel was scripted, or after some step no tracked id had
// Pending as its last event.
func (sc *scenario) looksEnded(events [][]wev) bool {
	last := map[int]event.WaitEventStatus{}
	nonePending := func() bool {
		for _, i := range sc.ids {
			if st, ok := last[i]; !ok || st == event.ReconcilePending {
				return false
			}
		}
		return true
	}
	for k, st := range events {
		if k > 0 && k-1 < len(sc.inputs) && sc.inputs[k-1].kind != inUpdate {
			return true
		}
		for _, e := range st {
			last[e.id] = e.st
		}
		if nonePending() {
			return true
		}
	}
	return false
}

func countDistinct(t []recT) int {
	seen := map[int]bool{}
	for _, r := range t {
		seen[r.id] = true
	}
	return len(seen)
}

// ---- rendering -------------------------------------------------------------

func evsCoq(steps [][]wev) string {
	var out []string
	for _, st := range steps {
		var l []string
		for _, e := range st {
			w, ok := wstatusCoq[e.st]
			if !ok {
				w = "WTimeout"
				e.id = 97
			}
			l = append(l, fmt.Sprintf("(%d, %s)", e.id, w))
		}
		out = append(out, emit.List(l))
	}
	return emit.List(out)
}

func (sc *scenario) render(res result) (term, text string) {
	var tbl, c0, ins, fin []string
	for _, r := range sc.table {
		tbl = append(tbl, r.coq())
	}
	for _, ce := range sc.cache0 {
		c0 = append(c0, fmt.Sprintf("(%d, %s)", ce.id, ce.o.coq()))
	}
	for _, x := range sc.inputs {
		ins = append(ins, x.coq())
	}
	for _, f := range res.final {
		if f.found {
			fin = append(fin, fmt.Sprintf("(%d, Some %s)", f.id, f.r.coq()))
		} else {
			fin = append(fin, fmt.Sprintf("(%d, @None (rec nat))", f.id))
		}
	}
	cond := []string{"AllCurrent", "AllNotFound"}[sc.cond]
	term = emit.App("WCase", cond, emit.NatList(sc.ids), "("+emit.List(tbl)+" : list (rec nat))",
		"("+emit.List(c0)+" : list (nat * cobs))", "("+emit.List(ins)+" : list (input nat))",
		"("+evsCoq(res.events)+" : list (list (nat * wstatus)))", emit.List(fin), emit.Bool(res.completed), emit.Bool(res.panicked))

	// text: the script with what each step emitted
	var b strings.Builder
	via := ""
	if sc.viaRunner {
		via = " via=runner"
	}
	fmt.Fprintf(&b, "%s%s %s ids=%v table=[", sc.kind, via, cond, sc.ids)
	for i, r := range sc.table {
		if i > 0 {
			b.WriteString(" ")
		}
		b.WriteString(r.txt())
	}
	b.WriteString("] cache0=[")
	for i, ce := range sc.cache0 {
		if i > 0 {
			b.WriteString(" ")
		}
		fmt.Fprintf(&b, "%d:%s", ce.id, ce.o.txt())
	}
	b.WriteString("] | START")
	evTxt := func(k int) string {
		if k >= len(res.events) {
			return "=>?"
		}
		var l []string
		for _, e := range res.events[k] {
			l = append(l, fmt.Sprintf("%d:%s", e.id, strings.TrimPrefix(wstatusCoq[e.st], "W")))
		}
		return "=>[" + strings.Join(l, ",") + "]"
	}
	b.WriteString(evTxt(0))
	for k, x := range sc.inputs {
		b.WriteString(" ; " + x.txt() + evTxt(k+1))
	}
	b.WriteString(" | final=[")
	for _, f := range res.final {
		if f.found {
			fmt.Fprintf(&b, "%d:%s ", f.id, reconciles[f.r.rec][1:])
		}
	}
	fmt.Fprintf(&b, "] completed=%v", res.completed)
	return term, b.String()
}

// ---- generators -------------------------------------------------------------

const appliedUID = 10

func okRec(cond, id int, uid uint64, gen int64) recT {
	if cond == 0 {
		return recT{id: id, strat: 0, act: 1, uid: uid, gen: gen, viaAPI: true}
	}
	return recT{id: id, strat: 1, act: 1, uid: uid, gen: 0, viaAPI: true}
}

func upd(id, st int, has bool, uid uint64, gen int64) inputT {
	return inputT{kind: inUpdate, id: id, o: obsT{st, has, uid, gen}}
}

// corpus: former and known witnesses first, then the scripted sequences of
// pkg/apply/taskrunner/task_test.go in this vocabulary
func corpus() []*scenario {
	cur := func(id int, uid uint64, gen int64) inputT { return upd(id, 2, true, uid, gen) }
	return []*scenario{
		// former defect (fixed): Failed(u10) then Current(u20) was reported Successful
		{kind: "corpus:failed-then-replaced", cond: 0, ids: []int{0}, table: []recT{okRec(0, 0, 10, 1)},
			inputs: []inputT{upd(0, 1, true, 10, 1), cur(0, 20, 1)}},
		{kind: "corpus:failed-then-replaced-2ids", cond: 0, ids: []int{0, 1}, table: []recT{okRec(0, 0, 10, 1), okRec(0, 1, 11, 1)},
			inputs: []inputT{upd(0, 1, true, 10, 1), cur(0, 20, 1), cur(1, 11, 1)}},
		// former defect (fixed): reconciled, then replaced, stayed reconciled
		{kind: "corpus:reconciled-then-replaced", cond: 0, ids: []int{0, 1}, table: []recT{okRec(0, 0, 10, 1), okRec(0, 1, 11, 1)},
			inputs: []inputT{cur(0, 10, 1), cur(0, 20, 1), cur(1, 11, 1)}},
		// former defect (fixed): failed for a replaced UID, then the original object again stayed failed
		{kind: "corpus:replaced-then-original", cond: 0, ids: []int{0, 1}, table: []recT{okRec(0, 0, 10, 1), okRec(0, 1, 11, 1)},
			inputs: []inputT{cur(0, 20, 1), cur(0, 10, 1), cur(1, 11, 1)}},
		// former defect (fixed): delete phase, a recreated object alternated Successful / Pending on the same observation
		{kind: "corpus:recreated-repeats", cond: 1, ids: []int{0, 1}, table: []recT{okRec(1, 0, 10, 0), okRec(1, 1, 11, 0)},
			inputs: []inputT{cur(0, 20, 1), cur(0, 20, 1), upd(1, 4, false, 0, 0), cur(0, 20, 1)}},
		// stale generation is not Current yet
		{kind: "corpus:stale-generation", cond: 0, ids: []int{0}, table: []recT{okRec(0, 0, 10, 3)},
			inputs: []inputT{cur(0, 10, 2), cur(0, 10, 3)}},
		// flapping Failed -> Current -> InProgress -> Current
		{kind: "corpus:flapping", cond: 0, ids: []int{0, 1}, table: []recT{okRec(0, 0, 10, 1), okRec(0, 1, 11, 1)},
			inputs: []inputT{upd(0, 1, true, 10, 1), cur(0, 10, 1), upd(0, 0, true, 10, 2), cur(0, 10, 2), cur(1, 11, 1)}},
		// failed / skipped actuation, an id the task does not track, an id the table does not know
		{kind: "corpus:skipped", cond: 0, ids: []int{0, 1, 2, 3},
			table:  []recT{okRec(0, 0, 10, 1), {id: 1, strat: 0, act: 3, viaAPI: true}, {id: 2, strat: 0, act: 2, viaAPI: true}},
			inputs: []inputT{cur(1, 12, 1), cur(2, 13, 1), cur(4, 14, 1), cur(3, 15, 1), cur(0, 10, 1)}},
		// delete phase with timeout
		{kind: "corpus:delete-timeout", cond: 1, ids: []int{0, 1}, table: []recT{okRec(1, 0, 10, 0), okRec(1, 1, 11, 0)},
			cache0: []cacheEntry{{0, obsT{2, true, 10, 1}}, {1, obsT{2, true, 11, 1}}},
			inputs: []inputT{upd(0, 3, true, 10, 2), upd(0, 4, false, 0, 0), {kind: inTimeout}, upd(1, 4, false, 0, 0)}, timeout: 120 * time.Millisecond},
		// everything already reconciled at Start; cancel; regress after completion
		{kind: "corpus:done-at-start", cond: 0, ids: []int{0}, table: []recT{okRec(0, 0, 10, 1)},
			cache0: []cacheEntry{{0, obsT{2, true, 10, 1}}},
			inputs: []inputT{upd(0, 0, true, 10, 2)}},
		{kind: "corpus:cancel", cond: 0, ids: []int{0, 1}, table: []recT{okRec(0, 0, 10, 1), okRec(0, 1, 11, 1)},
			inputs: []inputT{cur(0, 10, 1), {kind: inCancel}, cur(1, 11, 1)}},
		{kind: "corpus:empty", cond: 1, ids: nil, table: nil, inputs: []inputT{cur(0, 10, 1)}},
	}
}

// alphabet: the observation symbols of the exhaustive part, relative to the
// applied uid and generation g of the single tracked object
func alphabet(g int64) []obsT {
	const u, v = appliedUID, 20
	return []obsT{
		{0, true, u, g}, {0, true, u, g - 1}, {0, true, v, g},
		{1, true, u, g}, {1, true, v, g},
		{2, true, u, g}, {2, true, u, g - 1}, {2, true, u, g + 1}, {2, true, v, g}, {2, true, 0, g}, {2, false, 0, 0},
		{3, true, u, g},
		{4, false, 0, 0}, {4, true, u, g}, {4, true, v, g},
		{5, false, 0, 0},
	}
}

// single-id table variants for the exhaustive part
func variants(cond int) []recT {
	ok := okRec(cond, 0, appliedUID, 1)
	s := cond
	return []recT{
		ok,
		{id: 0, strat: s, act: 3, viaAPI: true},                // failed actuation
		{id: 0, strat: s, act: 2, viaAPI: true},                // skipped actuation
		{id: 0, strat: s, act: 0, viaAPI: true},                // still pending actuation
		{id: 0, strat: s, act: 1, uid: 0, gen: 1},              // succeeded, no uid recorded
		{id: 0, strat: 1 - s, act: 3, viaAPI: true},            // the other strategy, failed (operator precedence in skipped())
		{id: 0, strat: 1 - s, act: 2, viaAPI: true},            // the other strategy, skipped
		{id: 0, strat: 1 - s, act: 1, uid: appliedUID, gen: 1}, // the other strategy, succeeded
		{id: 99}, // marker: no record at all
	}
}

func exhaustive(depthOK, depthOther int) []*scenario {
	var out []*scenario
	for cond := 0; cond < 2; cond++ {
		for vi, v := range variants(cond) {
			depth := depthOther
			if vi == 0 {
				depth = depthOK
			}
			g := v.gen
			al := alphabet(g)
			var tbl []recT
			if v.id != 99 {
				tbl = []recT{v}
			}
			n := 1
			for d := 0; d < depth; d++ {
				n *= len(al)
			}
			for k := 0; k < n; k++ {
				sc := &scenario{kind: fmt.Sprintf("exh:v%d", vi), cond: cond, ids: []int{0}, table: tbl}
				x := k
				for d := 0; d < depth; d++ {
					sc.inputs = append(sc.inputs, inputT{kind: inUpdate, id: 0, o: al[x%len(al)]})
					x /= len(al)
				}
				out = append(out, sc)
			}
			// the same with each symbol already cached when the phase starts
			if vi == 0 {
				for a := range al {
					for b := range al {
						out = append(out, &scenario{kind: "exh:cached", cond: cond, ids: []int{0}, table: tbl,
							cache0: []cacheEntry{{0, al[a]}}, inputs: []inputT{{kind: inUpdate, id: 0, o: al[b]}}})
					}
				}
			}
		}
	}
	return out
}

func genObs(r *rand.Rand, cond int, rec *recT) obsT {
	var uid uint64 = appliedUID
	var gen int64 = 1
	if rec != nil {
		if rec.uid != 0 {
			uid = rec.uid
		}
		gen = rec.gen
	}
	o := obsT{has: r.Intn(6) != 0}
	// status: biased towards the ones the condition cares about
	switch p := r.Intn(20); {
	case p < 6:
		o.st = 2
	case p < 10:
		o.st = 4
	case p < 13:
		o.st = 1
	case p < 16:
		o.st = 0
	case p < 18:
		o.st = 3
	default:
		o.st = 5
	}
	if o.st == 4 && r.Intn(4) != 0 || o.st == 5 && r.Intn(2) == 0 {
		o.has = false
	}
	switch p := r.Intn(10); {
	case p < 6:
		o.uid = uid
	case p < 9:
		o.uid = uid + 10
	default:
		o.uid = 0
	}
	switch p := r.Intn(10); {
	case p < 5:
		o.gen = gen
	case p < 8:
		o.gen = gen + 1
	default:
		o.gen = gen - 1
	}
	return o.canon()
}

func genRandom(r *rand.Rand, malformed bool) *scenario {
	sc := &scenario{kind: "rand", cond: r.Intn(2)}
	if malformed {
		sc.kind = "rand:odd-table"
	}
	nIDs := 1 + r.Intn(4)
	perm := r.Perm(len(universe))
	sc.ids = append(sc.ids, perm[:nIDs]...)
	others := perm[nIDs:]
	recOf := map[int]*recT{}
	reg := func(id int, inTask bool) {
		rec := recT{id: id, strat: sc.cond, viaAPI: true}
		switch p := r.Intn(20); {
		case p < 12:
			rec.act = 1
		case p < 15:
			rec.act = 3
		case p < 17:
			rec.act = 2
		case p < 18:
			rec.act = 0
		default:
			return // never registered
		}
		if r.Intn(12) == 0 {
			rec.strat = 1 - rec.strat
		}
		if rec.act == 1 {
			rec.uid = uint64(appliedUID + id)
			if r.Intn(12) == 0 {
				rec.uid = 0
			}
			if rec.strat == 0 {
				rec.gen = int64(r.Intn(4))
			}
		}
		if malformed {
			// records the convenience methods never write: any reconcile status,
			// uid / generation on every kind of record
			rec.viaAPI = false
			rec.rec = r.Intn(5)
			if r.Intn(2) == 0 {
				rec.uid = uint64(appliedUID + id)
			}
			if r.Intn(2) == 0 {
				rec.gen = int64(r.Intn(4))
			}
		}
		sc.table = append(sc.table, rec)
		recOf[id] = &sc.table[len(sc.table)-1]
	}
	order := r.Perm(len(universe))
	inTask := map[int]bool{}
	for _, i := range sc.ids {
		inTask[i] = true
	}
	for _, id := range order {
		if inTask[id] || r.Intn(3) == 0 {
			reg(id, inTask[id])
		}
	}
	// recOf pointers may be stale after append; rebuild
	for k := range sc.table {
		recOf[sc.table[k].id] = &sc.table[k]
	}
	// observations that arrived before the phase started
	for _, id := range perm {
		if r.Intn(3) == 0 {
			sc.cache0 = append(sc.cache0, cacheEntry{id, genObs(r, sc.cond, recOf[id])})
		}
	}
	n := r.Intn(13)
	for k := 0; k < n; k++ {
		id := sc.ids[r.Intn(len(sc.ids))]
		if len(others) > 0 && r.Intn(10) == 0 {
			id = others[r.Intn(len(others))]
		}
		sc.inputs = append(sc.inputs, inputT{kind: inUpdate, id: id, o: genObs(r, sc.cond, recOf[id])})
	}
	// drive towards completion in half of the runs so that late phases are reached
	if r.Intn(2) == 0 {
		for _, id := range sc.ids {
			if len(sc.inputs) >= 12 {
				break
			}
			o := obsT{st: 2, has: true, uid: appliedUID + uint64(id), gen: 5}
			if sc.cond == 1 {
				o = obsT{st: 4}
			}
			if rc := recOf[id]; rc != nil && rc.uid != 0 {
				o.uid = rc.uid
			}
			sc.inputs = append(sc.inputs, inputT{kind: inUpdate, id: id, o: o.canon()})
		}
		for k := r.Intn(3); k > 0 && len(sc.inputs) < 12; k-- {
			id := sc.ids[r.Intn(len(sc.ids))]
			sc.inputs = append(sc.inputs, inputT{kind: inUpdate, id: id, o: genObs(r, sc.cond, recOf[id])})
		}
	}
	switch p := r.Intn(10); {
	case p < 2: // the deadline passes after the scripted updates; possibly late updates after it
		sc.kind += "+timeout"
		sc.timeout = 120 * time.Millisecond
		cut := len(sc.inputs)
		if r.Intn(2) == 0 && cut > 0 {
			cut = r.Intn(cut + 1)
		}
		ins := append([]inputT{}, sc.inputs[:cut]...)
		ins = append(ins, inputT{kind: inTimeout})
		sc.inputs = append(ins, sc.inputs[cut:]...)
	case p < 3: // cancelled somewhere
		sc.kind += "+cancel"
		cut := r.Intn(len(sc.inputs) + 1)
		ins := append([]inputT{}, sc.inputs[:cut]...)
		ins = append(ins, inputT{kind: inCancel})
		sc.inputs = append(ins, sc.inputs[cut:]...)
		if r.Intn(3) == 0 {
			sc.kind += "+timeout"
			sc.timeout = 120 * time.Millisecond
			sc.inputs = append(sc.inputs, inputT{kind: inTimeout})
		}
	}
	return sc
}

func silenceKlog() {
	fs := flag.NewFlagSet("klog", flag.ContinueOnError)
	klog.InitFlags(fs)
	_ = fs.Set("logtostderr", "false")
	_ = fs.Set("alsologtostderr", "false")
	_ = fs.Set("stderrthreshold", "10")
	klog.SetOutput(io.Discard)
}

// Run generates and executes the C06 cases.
func Run(seed int64, tier, outDir string) (*emit.Summary, error) {
	silenceKlog()
	r := rand.New(rand.NewSource(seed))
	sum := emit.NewSummary("C06", seed, tier)

	depthOK, depthOther, nRand, nOdd, nRunRand, nSame := 3, 2, 900, 200, 500, 500
	if tier == "thorough" {
		depthOK, depthOther, nRand, nOdd, nRunRand, nSame = 3, 3, 9000, 2000, 5000, 5000
	}
	scs := corpus()
	nCorpus := len(scs)
	ex := exhaustive(depthOK, depthOther)
	scs = append(scs, ex...)
	for i := 0; i < nRand; i++ {
		scs = append(scs, genRandom(r, false))
	}
	for i := 0; i < nOdd; i++ {
		scs = append(scs, genRandom(r, true))
	}
	// second stream: through the real TaskStatusRunner.Run loop
	nSync := len(scs)
	scs = append(scs, runnerCorpus()...)
	scs = append(scs, runnerExhaustive()...)
	for i := 0; i < nRunRand; i++ {
		sc := genRandom(r, i%5 == 4)
		sc.kind = "runner:" + sc.kind
		sc.viaRunner = true
		endOnly(sc)
		scs = append(scs, sc)
	}
	for i := 0; i < nSame; i++ {
		scs = append(scs, genSameStatus(r))
	}

	// run: every phase has its own task, context, cache and channels
	results := make([]result, len(scs))
	var wg sync.WaitGroup
	work := make(chan int)
	for w := 0; w < 16; w++ {
		wg.Add(1)
		go func() {
			defer wg.Done()
			for k := range work {
				run := execute
				if scs[k].viaRunner {
					run = executeViaRunner
				}
				results[k] = run(scs[k])
				if results[k].discard != "" { // the machine stalled around a real timer: once more
					results[k] = run(scs[k])
				}
			}
		}()
	}
	for k := range scs {
		work <- k
	}
	close(work)
	wg.Wait()

	const perFile = 1400
	var files []*emit.CaseFile
	newFile := func() *emit.CaseFile {
		f := &emit.CaseFile{Name: fmt.Sprintf("Cases_C06_%02d", len(files)),
			Imports: "From CliUtils Require Import Model.ActuationTable Model.WaitTask Corr.CorrC06.",
			Check:   "check"}
		files = append(files, f)
		return f
	}
	cur := newFile()
	var terms []string
	var nontr []bool
	for k, sc := range scs {
		res := results[k]
		if res.inputs != nil { // the runner stream reports what was actually delivered
			sc.inputs = res.inputs
		}
		if res.failure != "" {
			_, text := sc.render(res)
			sum.ImplFailures = append(sum.ImplFailures, res.failure+" in "+text)
		}
		if res.discard != "" {
			sum.Count("discarded:" + res.discard)
			continue
		}
		if len(cur.Cases) >= perFile {
			cur = newFile()
		}
		term, text := sc.render(res)
		cur.Add(term, text)
		terms = append(terms, term)
		// non-trivial: some object left the state it started the phase in
		moved := false
		for k, st := range res.events {
			if k > 0 && len(st) > 0 {
				moved = true
			}
		}
		nontr = append(nontr, moved)
		kind := sc.kind
		if strings.HasPrefix(kind, "corpus:") {
			kind = "corpus"
		}
		if strings.HasPrefix(kind, "exh:") {
			kind = "exhaustive"
		}
		if strings.HasPrefix(kind, "runner:corpus:") {
			kind = "runner:corpus"
		}
		if sc.viaRunner {
			sum.Count("stream:runner")
		} else {
			sum.Count("stream:direct")
		}
		sum.Count("phase:" + kind)
		sum.Count([]string{"cond:AllCurrent", "cond:AllNotFound"}[sc.cond])
		if res.completed {
			sum.Count("completed")
		}
		for si, st := range res.events {
			for _, e := range st {
				where := "update"
				if si == 0 {
					where = "start"
				} else if sc.inputs[si-1].kind == inTimeout {
					where = "timeout"
				}
				sum.Count("event:" + where + ":" + wstatusCoq[e.st])
			}
		}
		sc.countBranches(res, sum)
	}
	for _, f := range files {
		if err := f.Write(outDir, sum); err != nil {
			return nil, err
		}
	}
	sum.Evaluations = len(terms)
	sum.DistinctNontrivial = emit.Distinct(terms, nontr)
	sum.Exhaustive = false
	sum.Extra["exhaustive_part"] = fmt.Sprintf("1 tracked id, every update sequence of length %d over a %d-symbol observation alphabet for a succeeded actuation, length %d for 8 other table records, both conditions, plus every (cached before start, one update) pair: %d phases", depthOK, len(alphabet(1)), depthOther, len(ex))
	sum.Extra["corpus"] = nCorpus
	sum.Extra["runner_stream"] = fmt.Sprintf("%d phases delivered through the real TaskStatusRunner.Run loop by a scripted StatusWatcher (observations before the Sync event, unbuffered status channel, marker event after every update): the corpus, every pair of updates and every (before the phase, update) pair over the alphabet for 1 id, random phases, runs of equal-status observations that change only UID / generation / body", len(scs)-nSync)
	sum.Rule = "a case = one scripted wait phase (condition, task ids, registered actuation records, cache before start, updates/cancel/timeout after start) run on the real WaitTask, either by calling cache.Put + StatusUpdate directly or through the real TaskStatusRunner.Run loop; " +
		"non-trivial = at least one wait event after Start; distinct = distinct Coq case terms (inputs and observations)"
	pick := func(k int) any {
		_, text := scs[k].render(results[k])
		return text
	}
	sum.Samples = []any{pick(0), pick(nCorpus + len(ex) + 1), pick(nSync + 12), pick(len(scs) - 1)}
	return sum, nil
}

// countBranches classifies every step by the branch of startInner / StatusUpdate
// it must have gone through, judged from the script and the emitted events, so
// that the distribution shows what the cases reach.
func (sc *scenario) countBranches(res result, sum *emit.Summary) {
	inTask := map[int]bool{}
	for _, i := range sc.ids {
		inTask[i] = true
	}
	last := map[int]string{}
	for _, e := range res.events[0] {
		last[e.id] = wstatusCoq[e.st]
	}
	for k, x := range sc.inputs {
		if k+1 >= len(res.events) {
			break
		}
		evs := res.events[k+1]
		if x.kind == inUpdate {
			from := last[x.id]
			if !inTask[x.id] {
				from = "untracked"
			}
			to := "none"
			if len(evs) > 0 {
				to = wstatusCoq[evs[0].st]
			}
			sum.Count("update:" + from + "->" + to)
		}
		for _, e := range evs {
			last[e.id] = wstatusCoq[e.st]
		}
	}
}
