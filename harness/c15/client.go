// The inventory CLIENT stream of C15: the real inventory.ClusterClient
// (Merge / Replace / GetClusterObjs) over kubectl's stateful fake dynamic
// client.  The codec streams of c15.go call Store/Load directly; this one
// observes what the client that calls them sends to the API server.
package c15

import (
	"context"
	"fmt"
	"math/rand"
	"sort"
	"strings"

	"k8s.io/apimachinery/pkg/apis/meta/v1/unstructured"
	"k8s.io/apimachinery/pkg/runtime/schema"
	cmdtesting "k8s.io/kubectl/pkg/cmd/testing"
	"sigs.k8s.io/cli-utils/pkg/apis/actuation"
	"sigs.k8s.io/cli-utils/pkg/common"
	"sigs.k8s.io/cli-utils/pkg/inventory"
	"sigs.k8s.io/cli-utils/pkg/object"
	"verifharness/emit"
)

var cmGVR = schema.GroupVersionResource{Version: "v1", Resource: "configmaps"}

const (
	clInvName = "inventory"
	clInvNS   = "test-ns"
)

type clOpKind int

const (
	clMerge clOpKind = iota
	clReplace
)

type clOp struct {
	kind clOpKind
	dry  common.DryRunStrategy
	objs object.ObjMetadataSet
}

type clScenario struct {
	policy inventory.StatusPolicy
	// the inventory object an earlier run left in the cluster: absent, or
	// present with one key per id (written without validation, as a version
	// before the Store check could have)
	present bool
	init    object.ObjMetadataSet
	ops     []clOp
}

// clusterSim is one fake API server with the inventory client on top of it.
type clusterSim struct {
	tf     *cmdtesting.TestFactory
	client *inventory.ClusterClient
	seen   int // actions already accounted for
}

func newClusterSim(policy inventory.StatusPolicy) (*clusterSim, error) {
	tf := cmdtesting.NewTestFactory().WithNamespace(clInvNS)
	c, err := inventory.NewClient(tf, inventory.WrapInventoryObj, inventory.InvInfoToConfigMap, policy, inventory.ConfigMapGVK)
	if err != nil {
		tf.Cleanup()
		return nil, err
	}
	return &clusterSim{tf: tf, client: c}, nil
}

func (cs *clusterSim) close() { cs.tf.Cleanup() }

// localInv is the inventory template a run is started with (never carries data).
func localInv() inventory.Info { return inventory.WrapInventoryInfoObj(template(nil)) }

// seed puts an inventory object straight into the fake server's store.
func (cs *clusterSim) seed(ids object.ObjMetadataSet) error {
	data := map[string]any{}
	for _, id := range ids {
		data[id.String()] = ""
	}
	return cs.tf.FakeDynamicClient.Tracker().Create(cmGVR, template(data), clInvNS)
}

// storedKeys reads the server's store directly (not through the client).
func (cs *clusterSim) storedKeys() (present bool, keys []string) {
	obj, err := cs.tf.FakeDynamicClient.Tracker().Get(cmGVR, clInvNS, clInvName)
	if err != nil {
		return false, nil
	}
	u, ok := obj.(*unstructured.Unstructured)
	if !ok {
		return true, []string{"<stored inventory is not unstructured>"}
	}
	for k := range dataOf(u) {
		keys = append(keys, k)
	}
	sort.Strings(keys)
	return true, keys
}

// newRequests returns the mutating requests the server received since the last call.
func (cs *clusterSim) newRequests() (reqs []string) {
	acts := cs.tf.FakeDynamicClient.Actions()
	for _, a := range acts[cs.seen:] {
		switch v := a.GetVerb(); v {
		case "get", "list", "watch":
		default:
			reqs = append(reqs, v+" "+a.GetResource().Resource)
		}
	}
	cs.seen = len(acts)
	return reqs
}

func reqTerm(r string) string {
	switch r {
	case "create configmaps":
		return "RCreate"
	case "update configmaps":
		return "RUpdate"
	case "patch configmaps":
		return "RPatch"
	case "delete configmaps":
		return "RDelete"
	}
	return "ROther"
}

func dryTerm(d common.DryRunStrategy) string {
	switch d {
	case common.DryRunClient:
		return "DryClient"
	case common.DryRunServer:
		return "DryServer"
	}
	return "DryNone"
}

func dryText(d common.DryRunStrategy) string {
	switch d {
	case common.DryRunClient:
		return "client"
	case common.DryRunServer:
		return "server"
	}
	return "none"
}

func optKeys(present bool, keys []string) string {
	if !present {
		return "(@None (list string))"
	}
	return emit.App("Some", strs(keys))
}

func keysText(present bool, keys []string) string {
	if !present {
		return "absent"
	}
	return fmt.Sprintf("%q", keys)
}

func getText(l object.ObjMetadataSet, err error) string {
	if err != nil {
		return "ERR"
	}
	return shorts(l)
}

// clientCase runs one scenario and prints it with every observation.
func clientCase(sc clScenario) (term, text string, tags []string, err error) {
	beginCase()
	defer func() { term = endCase(term) }()
	cs, err := newClusterSim(sc.policy)
	if err != nil {
		return "", "", nil, err
	}
	defer cs.close()
	initT := "(@None (list oid))"
	initX := "absent"
	if sc.present {
		if err := cs.seed(sc.init); err != nil {
			return "", "", nil, err
		}
		initT = emit.App("Some", oids(sc.init))
		initX = shorts(sc.init)
	}
	p0, k0 := cs.storedKeys()
	g0, g0err := cs.client.GetClusterObjs(localInv())
	cs.newRequests()
	polT, polX := "PolNone", "None"
	if sc.policy == inventory.StatusPolicyAll {
		polT, polX = "PolAll", "All"
	}
	var steps, txt []string
	before := p0
	for _, op := range sc.ops {
		var opErr error
		var prune object.ObjMetadataSet
		opT, opX := "OMerge", "Merge"
		paniced := guard(func() {
			switch op.kind {
			case clMerge:
				prune, opErr = cs.client.Merge(localInv(), op.objs, op.dry)
			case clReplace:
				var status []actuation.ObjectStatus
				for _, id := range op.objs {
					status = append(status, statusFor(id))
				}
				opErr = cs.client.Replace(localInv(), op.objs, status, op.dry)
			}
		})
		if op.kind == clReplace {
			opT, opX = "OReplace", "Replace"
		}
		if paniced {
			// a crash is not a rejection: the observation keeps it as an error (so the
			// rest of the case stays comparable) and the case is reported as an
			// implementation failure by the caller
			opErr = fmt.Errorf("panic")
			opX += "(PANIC)"
			tags = append(tags, "client:PANIC")
		}
		reqs := cs.newRequests()
		pk, keys := cs.storedKeys()
		got, gerr := cs.client.GetClusterObjs(localInv())
		if extra := cs.newRequests(); len(extra) > 0 {
			reqs = append(reqs, "GetClusterObjs sent "+strings.Join(extra, ","))
		}
		// the other reader of stored inventories: ListClusterInventoryObjs (name -> identifiers)
		var listed map[string]object.ObjMetadataSet
		var lerr error
		if guard(func() { listed, lerr = cs.client.ListClusterInventoryObjs(context.TODO()) }) {
			lerr = fmt.Errorf("panic")
		}
		if extra := cs.newRequests(); len(extra) > 0 {
			reqs = append(reqs, "ListClusterInventoryObjs sent "+strings.Join(extra, ","))
		}
		listT, listX := "(@Err (option (list oid)))", "ERR"
		if lerr == nil {
			entry, has := listed[clInvName]
			switch {
			case !has && len(listed) == 0:
				listT, listX = "(Ok (@None (list oid)))", "none"
			case has && len(listed) == 1:
				listT, listX = emit.App("Ok", emit.App("Some", oids(entry))), shorts(entry)
			default:
				listX = fmt.Sprintf("unexpected entries %d", len(listed))
			}
		}
		tag := "client:merge"
		if op.kind == clReplace {
			tag = "client:replace"
		}
		if before {
			tag += ":existing"
		} else {
			tag += ":first-run"
		}
		if isDirtySet(op.objs) {
			tag += ":unencodable"
		} else {
			tag += ":encodable"
		}
		tags = append(tags, tag+":dry="+dryText(op.dry))
		switch {
		case opErr != nil:
			tags = append(tags, "client:outcome:error")
		case len(reqs) > 0:
			tags = append(tags, "client:outcome:ok-written")
		default:
			tags = append(tags, "client:outcome:ok-nothing-sent")
		}
		before = pk
		rt := make([]string, len(reqs))
		for i, r := range reqs {
			rt[i] = reqTerm(r)
		}
		steps = append(steps, emit.App("mkCStep", opT, dryTerm(op.dry), oids(op.objs),
			emit.Bool(opErr != nil), emit.List(rt), optKeys(pk, keys), oids(prune), resOids(got, gerr), listT))
		txt = append(txt, fmt.Sprintf("%s[dry=%s]%s=%s reqs=%q stored=%s prune=%s next-run-loads=%s listed=%s",
			opX, dryText(op.dry), shorts(op.objs), errS(opErr), reqs, keysText(pk, keys), shorts(prune), getText(got, gerr), listX))
	}
	term = emit.App("CClient", polT, initT, optKeys(p0, k0), resOids(g0, g0err), emit.List(steps))
	text = fmt.Sprintf("CLIENT policy=%s cluster-inventory=%s stored=%s loads=%s ; %s", polX, initX, keysText(p0, k0), getText(g0, g0err), strings.Join(txt, " ; "))
	return term, text, tags, nil
}

func hasSep(id object.ObjMetadata) bool {
	return strings.Contains(id.Namespace+id.Name+id.GroupKind.Group+id.GroupKind.Kind, "_")
}

// validUTF8Only: a real API server only stores valid UTF-8 keys; the fake one
// would keep any bytes, but there is nothing of the client to observe there.
func cleanID(r *rand.Rand, pool []object.ObjMetadata) object.ObjMetadata {
	for {
		var id object.ObjMetadata
		switch k := r.Intn(10); {
		case k < 6:
			id = pool[r.Intn(len(pool))]
		case k < 9:
			id = randDomainID(r)
		default:
			id = randAnyID(r)
		}
		if !hasSep(id) {
			return id
		}
	}
}

// dirtyID: an identifier the key encoding cannot round-trip, of every kind
// the generators of c15.go know: '_' or "__" in an RBAC or other name, ':_'
// collisions, '_' in namespace / group / kind.
func dirtyID(r *rand.Rand, pool []object.ObjMetadata) object.ObjMetadata {
	witnesses := []object.ObjMetadata{
		mk("", "system:node_reader", rbacGroup, "ClusterRole"),
		mk("", "a_b", rbacGroup, "ClusterRole"),
		mk("", "a:_b", rbacGroup, "ClusterRole"),
		mk("", "a_:b", rbacGroup, "ClusterRole"),
		mk("ns-1", "a__b", "", "ConfigMap"),
		mk("ns-1", "x__y", rbacGroup, "RoleBinding"),
		mk("ns_1", "a", "", "ConfigMap"),
		mk("", "a", "my_group.io", "Thing"),
		mk("ns-1", "a", "apps", "My_Kind"),
		mk("ns-1", "_", rbacGroup, "Role"),
	}
	for {
		var id object.ObjMetadata
		switch k := r.Intn(10); {
		case k < 3:
			return witnesses[r.Intn(len(witnesses))]
		case k < 7:
			id = pool[r.Intn(len(pool))]
		case k < 9:
			id = randDomainID(r)
		default:
			id = randAnyID(r)
		}
		if hasSep(id) {
			return id
		}
	}
}

// randApplySet: mostly encodable sets; otherwise one or two un-encodable
// members at a random position; sometimes a repeated member.
func randApplySet(r *rand.Rand, pool []object.ObjMetadata, dirty bool) object.ObjMetadataSet {
	n := r.Intn(5)
	ids := object.ObjMetadataSet{}
	for len(ids) < n {
		id := cleanID(r, pool)
		ids = append(ids, id)
		if r.Intn(6) == 0 {
			ids = append(ids, id)
		}
	}
	if dirty {
		for k := 1 + r.Intn(2); k > 0; k-- {
			at := r.Intn(len(ids) + 1)
			ids = append(ids[:at], append(object.ObjMetadataSet{dirtyID(r, pool)}, ids[at:]...)...)
		}
	}
	return ids
}

func isDirtySet(ids object.ObjMetadataSet) bool {
	for _, id := range ids {
		if hasSep(id) {
			return true
		}
	}
	return false
}

var allDry = []common.DryRunStrategy{common.DryRunNone, common.DryRunClient, common.DryRunServer}
var allPolicies = []inventory.StatusPolicy{inventory.StatusPolicyNone, inventory.StatusPolicyAll}

// runClient generates the scenarios and writes the case files of the stream.
func runClient(o *out, r *rand.Rand, tier string, pool []object.ObjMetadata) error {
	sh := o.newShard("client", "check_client")
	sh.imports = "From CliUtils Require Import Base.Strings Model.IdCodec Model.InvClientStore Corr.CorrC15 Corr.CorrC15Client."
	sh.perFile = 400
	nRandom := 950
	if tier == "thorough" {
		nRandom = 9500
	}
	add := func(sc clScenario, kind string) error {
		var term, text string
		var tags []string
		var err error
		if guard(func() { term, text, tags, err = clientCase(sc) }) {
			o.sum.ImplFailures = append(o.sum.ImplFailures, "panic in the inventory client harness")
			return nil
		}
		if err != nil {
			return err
		}
		for _, t := range tags {
			o.sum.Count(t)
			if t == "client:PANIC" && len(o.sum.ImplFailures) < 5 {
				o.sum.ImplFailures = append(o.sum.ImplFailures, "panic in an operation of the inventory client: "+text)
			}
		}
		return sh.add(term, text, true, kind)
	}
	pod := mk("test-ns", "pod-a", "", "Pod")
	dep := mk("test-ns", "web", "apps", "Deployment")
	crole := mk("", "system:controller:x", rbacGroup, "ClusterRole")
	witnessSets := []object.ObjMetadataSet{
		{pod, mk("", "system:node_reader", rbacGroup, "ClusterRole")},
		{mk("", "a_b", rbacGroup, "ClusterRole")},
		{mk("", "a:_b", rbacGroup, "ClusterRole"), mk("", "a_:b", rbacGroup, "ClusterRole")},
		{crole, mk("ns-1", "a__b", "", "ConfigMap"), pod},
		{dep, mk("ns_1", "a", "", "ConfigMap")},
	}
	// ---- fixed corpus: every witness set through every operation, dry-run
	// strategy and status policy, on a first run and over an existing inventory
	for _, pol := range allPolicies {
		for _, w := range witnessSets {
			for _, d := range allDry {
				// (a) first run, then a good first run, (b) the bad set over it,
				// (c) Replace of the bad set, then of a good set
				if err := add(clScenario{policy: pol, ops: []clOp{
					{clMerge, d, w},
					{clMerge, common.DryRunNone, object.ObjMetadataSet{pod, crole}},
					{clMerge, d, w},
					{clReplace, d, w},
					{clReplace, common.DryRunNone, object.ObjMetadataSet{crole, dep}},
				}}, "client:corpus"); err != nil {
					return err
				}
			}
			// an inventory left by a version without the Store check
			if err := add(clScenario{policy: pol, present: true, init: w, ops: []clOp{
				{clMerge, common.DryRunNone, object.ObjMetadataSet{pod}},
				{clReplace, common.DryRunNone, object.ObjMetadataSet{pod}},
			}}, "client:corpus"); err != nil {
				return err
			}
		}
		// encodable only: first run in every strategy, same set again, subset, superset
		for _, d := range allDry {
			if err := add(clScenario{policy: pol, ops: []clOp{
				{clMerge, d, object.ObjMetadataSet{pod, crole}},
				{clMerge, common.DryRunNone, object.ObjMetadataSet{pod, crole, pod}},
				{clMerge, d, object.ObjMetadataSet{crole, pod}},
				{clMerge, d, object.ObjMetadataSet{pod}},
				{clMerge, d, object.ObjMetadataSet{pod, dep}},
				{clReplace, d, object.ObjMetadataSet{pod, dep, crole}},
				{clReplace, d, object.ObjMetadataSet{dep}},
				{clReplace, common.DryRunNone, object.ObjMetadataSet{dep}},
				{clReplace, common.DryRunNone, object.ObjMetadataSet{}},
				{clMerge, common.DryRunNone, nil},
			}}, "client:corpus"); err != nil {
				return err
			}
		}
	}
	// ---- seeded scenarios
	for i := 0; i < nRandom; i++ {
		sc := clScenario{policy: allPolicies[r.Intn(2)]}
		switch k := r.Intn(20); {
		case k < 9: // first run
		case k < 18:
			sc.present, sc.init = true, randApplySet(r, pool, false)
		default:
			sc.present, sc.init = true, randApplySet(r, pool, true)
		}
		exists := sc.present
		var last object.ObjMetadataSet
		for n := 1 + r.Intn(3); n > 0; n-- {
			op := clOp{kind: clMerge, dry: common.DryRunNone}
			if r.Intn(5) < 2 {
				op.dry = allDry[1+r.Intn(2)]
			}
			// Replace is what a run does at its end: the inventory object exists by then
			if exists && r.Intn(5) < 2 {
				op.kind = clReplace
			}
			switch k := r.Intn(10); {
			case k < 6:
				op.objs = randApplySet(r, pool, false)
			case k < 9:
				op.objs = randApplySet(r, pool, true)
			default: // the same set again, reordered
				op.objs = append(object.ObjMetadataSet{}, last...)
				r.Shuffle(len(op.objs), func(a, b int) { op.objs[a], op.objs[b] = op.objs[b], op.objs[a] })
			}
			last = op.objs
			sc.ops = append(sc.ops, op)
			if op.kind == clMerge && op.dry == common.DryRunNone && !isDirtySet(op.objs) {
				exists = true
			}
		}
		if err := add(sc, "client:random"); err != nil {
			return err
		}
	}
	return sh.flush()
}
