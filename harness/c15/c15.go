// Package c15 drives the real identifier codecs (inventory keys and
// depends-on references) and writes the observations as Coq cases.
package c15

import (
	"fmt"
	"math/rand"
	"sort"
	"strings"

	"k8s.io/apimachinery/pkg/apis/meta/v1/unstructured"
	"k8s.io/apimachinery/pkg/runtime/schema"
	"sigs.k8s.io/cli-utils/pkg/apis/actuation"
	"sigs.k8s.io/cli-utils/pkg/common"
	"sigs.k8s.io/cli-utils/pkg/inventory"
	"sigs.k8s.io/cli-utils/pkg/object"
	"sigs.k8s.io/cli-utils/pkg/object/dependson"
	"verifharness/emit"
)

const rbacGroup = "rbac.authorization.k8s.io"

// ---- printing ---------------------------------------------------------------

// Printing.  Parsing literals dominates the evaluation time in Coq (about
// 0.1 ms per byte of a string literal, 2 ms per Definition), so a case file
// defines every distinct token (alphanumeric word or single other byte) once in
// its prelude and prints a string as the concatenation `zc [tok; tok; ...]` of
// token names; identifiers used in a case are bound once with `let`.
type interner struct {
	defs []string
	toks map[string]string
}

func newInterner() *interner { return &interner{toks: map[string]string{}} }

var in = newInterner()

// lit prints a token: emit.Str for printable ASCII, otherwise the bytes in hex,
// decoded by CorrC15.hx.
func lit(s string) string {
	for i := 0; i < len(s); i++ {
		if s[i] < 32 || s[i] > 126 {
			return fmt.Sprintf("(hx \"%x\"%%string)", s)
		}
	}
	return emit.Str(s)
}

func isWordByte(c byte) bool {
	return c >= 'a' && c <= 'z' || c >= 'A' && c <= 'Z' || c >= '0' && c <= '9'
}

func tokens(s string) []string {
	var out []string
	for i := 0; i < len(s); {
		if !isWordByte(s[i]) {
			out = append(out, s[i:i+1])
			i++
			continue
		}
		j := i
		for j < len(s) && isWordByte(s[j]) {
			j++
		}
		out = append(out, s[i:j])
		i = j
	}
	return out
}

func tok(t string) string {
	if n, ok := in.toks[t]; ok {
		return n
	}
	n := fmt.Sprintf("zs%d", len(in.toks))
	in.toks[t] = n
	in.defs = append(in.defs, fmt.Sprintf("Definition %s : string := %s.", n, lit(t)))
	return n
}

func str(s string) string {
	ts := tokens(s)
	if strings.Join(ts, "") != s {
		panic("tokeniser lost bytes")
	}
	switch len(ts) {
	case 0:
		return "EmptyString"
	case 1:
		return tok(ts[0])
	}
	names := make([]string, len(ts))
	for i, t := range ts {
		names[i] = tok(t)
	}
	return "(zc [" + strings.Join(names, "; ") + "])"
}

// identifiers of the case being built, bound by `let`
var (
	lets   []string
	letIdx map[object.ObjMetadata]string
)

func beginCase() { lets, letIdx = nil, map[object.ObjMetadata]string{} }

func endCase(body string) string {
	if len(lets) == 0 {
		return body
	}
	return "(" + strings.Join(lets, " ") + " " + body + ")"
}

func oid(id object.ObjMetadata) string {
	if n, ok := letIdx[id]; ok {
		return n
	}
	n := fmt.Sprintf("i%d", len(letIdx))
	letIdx[id] = n
	lets = append(lets, fmt.Sprintf("let %s := mkOid %s %s %s %s in", n, str(id.Namespace), str(id.Name), str(id.GroupKind.Group), str(id.GroupKind.Kind)))
	return n
}

func oids(l []object.ObjMetadata) string {
	s := make([]string, len(l))
	for i, id := range l {
		s[i] = oid(id)
	}
	return emit.List(s)
}

func resOid(id object.ObjMetadata, err error) string {
	if err != nil {
		return "(@Err oid)"
	}
	return emit.App("Ok", oid(id))
}

func resOids(l []object.ObjMetadata, err error) string {
	if err != nil {
		return "(@Err (list oid))"
	}
	return emit.App("Ok", oids(l))
}

func resStr(s string, err error) string {
	if err != nil {
		return "(@Err string)"
	}
	return emit.App("Ok", str(s))
}

func smap(m map[string]string) string {
	keys := make([]string, 0, len(m))
	for k := range m {
		keys = append(keys, k)
	}
	sort.Strings(keys)
	s := make([]string, len(keys))
	for i, k := range keys {
		s[i] = "(" + str(k) + ", " + str(m[k]) + ")"
	}
	return emit.List(s)
}

func strs(l []string) string {
	s := make([]string, len(l))
	for i, x := range l {
		s[i] = str(x)
	}
	return emit.List(s)
}

func short(id object.ObjMetadata) string {
	return fmt.Sprintf("{ns=%q name=%q group=%q kind=%q}", id.Namespace, id.Name, id.GroupKind.Group, id.GroupKind.Kind)
}

func shorts(l []object.ObjMetadata) string {
	s := make([]string, len(l))
	for i, id := range l {
		s[i] = short(id)
	}
	return "[" + strings.Join(s, " ") + "]"
}

func errS(err error) string {
	if err != nil {
		return "ERR"
	}
	return "ok"
}

// ---- the implementation under observation -------------------------------------

func template(data any) *unstructured.Unstructured {
	u := &unstructured.Unstructured{Object: map[string]any{
		"apiVersion": "v1",
		"kind":       "ConfigMap",
		"metadata": map[string]any{
			"name":      "inventory",
			"namespace": "test-ns",
			"labels":    map[string]any{common.InventoryLabel: "inv-1"},
		},
	}}
	if data != nil {
		u.Object["data"] = data
	}
	return u
}

func dataOf(u *unstructured.Unstructured) map[string]string {
	m, _, err := unstructured.NestedStringMap(u.Object, "data")
	if err != nil {
		return map[string]string{"<data is not a string map>": err.Error()}
	}
	return m
}

// storeOnce: Store on a wrapper, GetObject, Load from a fresh wrapper around
// the object that would be written.
func storeOnce(w inventory.Storage, ids object.ObjMetadataSet, st []actuation.ObjectStatus) (storeErr error, written map[string]string, loaded object.ObjMetadataSet, loadErr error) {
	storeErr = w.Store(ids, st)
	obj, err := w.GetObject()
	if err != nil {
		return storeErr, map[string]string{"<GetObject failed>": err.Error()}, nil, err
	}
	written = dataOf(obj)
	loaded, loadErr = inventory.WrapInventoryObj(obj).Load()
	return
}

const statusJSON = `{"actuation":"Succeeded","reconcile":"Succeeded","strategy":"Apply"}`

func statusFor(id object.ObjMetadata) actuation.ObjectStatus {
	return actuation.ObjectStatus{
		ObjectReference: inventory.ObjectReferenceFromObjMetadata(id),
		Strategy:        actuation.ActuationStrategyApply,
		Actuation:       actuation.ActuationSucceeded,
		Reconcile:       actuation.ReconcileSucceeded,
	}
}

// ---- domain classification ------------------------------------------------------

func isDNS(s string, allowEmpty bool) bool {
	if s == "" {
		return allowEmpty
	}
	for i := 0; i < len(s); i++ {
		c := s[i]
		ok := c >= 'a' && c <= 'z' || c >= 'A' && c <= 'Z' || c >= '0' && c <= '9' || c == '-' || c == '.'
		if !ok {
			return false
		}
	}
	return true
}

// valid path-segment name (apimachinery IsValidPathSegmentName) and not empty
func isPathSegment(s string) bool {
	return s != "" && s != "." && s != ".." && !strings.ContainsAny(s, "/%")
}

// inDomain: the id is one the property quantifies over
func inDomain(id object.ObjMetadata) bool {
	return isDNS(id.Namespace, true) && isDNS(id.GroupKind.Group, true) && isDNS(id.GroupKind.Kind, false) && isPathSegment(id.Name)
}

// encodable: the reference can be written as a depends-on string and read
// back (computed from the fields alone, independently of the codec): kind and
// name not empty, no field contains '/' or ',', and TrimSpace would not touch
// either end (group not starting, name not ending with white space).
func encodable(id object.ObjMetadata) bool {
	if id.GroupKind.Kind == "" || id.Name == "" {
		return false
	}
	if strings.ContainsAny(id.Namespace+id.Name+id.GroupKind.Group+id.GroupKind.Kind, "/,") {
		return false
	}
	edge := id.GroupKind.Group + "/" + id.Name
	return strings.TrimSpace(edge) == edge
}

func allEncodable(ids []object.ObjMetadata) bool {
	for _, id := range ids {
		if !encodable(id) {
			return false
		}
	}
	return true
}

// depClass names the input class of a depends-on case (used by known findings):
// ws-edge = the formatted reference starts or ends with white space (group
// with leading, name with trailing white space) so that TrimSpace changes it;
// comma / slash = a field contains the set or field separator.
func depClass(ids []object.ObjMetadata, inSet bool) string {
	for _, id := range ids {
		edge := id.GroupKind.Group + "/" + id.Name
		if strings.TrimSpace(edge) != edge {
			return "ws-edge"
		}
	}
	for _, id := range ids {
		all := id.Namespace + id.Name + id.GroupKind.Group + id.GroupKind.Kind
		if inSet && strings.Contains(all, ",") {
			return "comma"
		}
		if strings.Contains(all, "/") {
			return "slash"
		}
	}
	return "plain"
}

// parseClass: empty-field = the string has a layout Parse accepts but with an
// empty kind, name or namespace segment.
func parseClass(pieces []string) string {
	for _, p := range pieces {
		f := strings.Split(strings.TrimSpace(p), "/")
		if len(f) == 3 && (f[1] == "" || f[2] == "") {
			return "empty-field"
		}
		if len(f) == 5 && f[1] == "namespaces" && (f[2] == "" || f[3] == "" || f[4] == "") {
			return "empty-field"
		}
	}
	return "plain"
}

// ---- generators -------------------------------------------------------------------

var alphabet = []byte{'a', '-', '.', ':', '_'}

func allNames(maxLen int) []string {
	out := []string{""}
	frontier := []string{""}
	for l := 1; l <= maxLen; l++ {
		var next []string
		for _, p := range frontier {
			for _, c := range alphabet {
				next = append(next, p+string(c))
			}
		}
		out = append(out, next...)
		frontier = next
	}
	return out
}

type shape struct {
	ns, group, kind string
	tag             string
}

var shapes = []shape{
	{"", rbacGroup, "ClusterRole", "rbac/cluster"},
	{"ns-1", rbacGroup, "Role", "rbac/namespaced"},
	{"", rbacGroup, "ClusterRoleBinding", "rbac-binding/cluster"},
	{"ns-1", rbacGroup, "RoleBinding", "rbac-binding/namespaced"},
	{"", "storage.k8s.io", "StorageClass", "plain/cluster"},
	{"ns-1", "", "ConfigMap", "plain/namespaced"},
}

func mk(ns, name, group, kind string) object.ObjMetadata {
	return object.ObjMetadata{Namespace: ns, Name: name, GroupKind: schema.GroupKind{Group: group, Kind: kind}}
}

var spaces = []string{" ", "\t", "\n", "\u00a0", "\u2003", "\u3000", "\u0085", "\r", "\v", "\f", "\u1680", "\u2028", "\u202f", "\u205f"}
var weird = []string{"/", ",", "_", "__", ":", "%", "é", "\xe2\x80", "\x80", "namespaces", ".", "..", "\xc2", "\xe3\x80\x80", "\xe2\x80\x80\x80"}
var plainBits = []string{"a", "b", "x1", "my-app", "sys", "k8s.io", "Role", "v"}

func randToken(r *rand.Rand) string {
	switch k := r.Intn(10); {
	case k < 5:
		return plainBits[r.Intn(len(plainBits))]
	case k < 7:
		return weird[r.Intn(len(weird))]
	case k < 8:
		return spaces[r.Intn(len(spaces))]
	default:
		return string(alphabet[r.Intn(len(alphabet))])
	}
}

func randField(r *rand.Rand, maxTok int) string {
	n := r.Intn(maxTok + 1)
	var b strings.Builder
	for i := 0; i < n; i++ {
		b.WriteString(randToken(r))
	}
	return b.String()
}

// a name that is a valid path segment, drawn from RBAC-like material incl.
// ':' '_' ',' spaces and UTF-8
func randDomainName(r *rand.Rand) string {
	for {
		n := 1 + r.Intn(4)
		var b strings.Builder
		for i := 0; i < n; i++ {
			switch k := r.Intn(12); {
			case k < 6:
				b.WriteString(plainBits[r.Intn(len(plainBits))])
			case k < 8:
				b.WriteByte(alphabet[r.Intn(len(alphabet))])
			case k < 9:
				b.WriteString(spaces[r.Intn(len(spaces))])
			case k < 10:
				b.WriteString(",")
			default:
				b.WriteString([]string{"é", "ü", "\x80", "\xe2\x80", "~", "=", "@"}[r.Intn(7)])
			}
		}
		if s := b.String(); isPathSegment(s) {
			return s
		}
	}
}

func randDomainID(r *rand.Rand) object.ObjMetadata {
	sh := shapes[r.Intn(len(shapes))]
	return mk(sh.ns, randDomainName(r), sh.group, sh.kind)
}

// any id at all: fields from the weird material
func randAnyID(r *rand.Rand) object.ObjMetadata {
	id := mk(randField(r, 2), randField(r, 3), randField(r, 2), randField(r, 2))
	if r.Intn(3) == 0 {
		id.GroupKind = schema.GroupKind{Group: rbacGroup, Kind: []string{"Role", "ClusterRole", "RoleBinding", "ClusterRoleBinding"}[r.Intn(4)]}
	}
	if r.Intn(3) == 0 {
		id.Namespace = ""
	}
	return id
}

func randPad(r *rand.Rand) string {
	if r.Intn(2) == 0 {
		return ""
	}
	n := 1 + r.Intn(2)
	var b strings.Builder
	for i := 0; i < n; i++ {
		b.WriteString(spaces[r.Intn(len(spaces))])
	}
	return b.String()
}

// ---- case builders ------------------------------------------------------------------

type out struct {
	sum   *emit.Summary
	terms []string
	nontr []bool
	dir   string
}

type shard struct {
	o       *out
	prefix  string
	check   string
	imports string // default: the codec modules
	perFile int    // default 700
	cf      *emit.CaseFile
	n       int
}

func (o *out) newShard(prefix, check string) *shard {
	return &shard{o: o, prefix: prefix, check: check}
}

func (s *shard) add(term, text string, nontrivial bool, kind string) error {
	if s.cf == nil {
		imports := s.imports
		if imports == "" {
			imports = "From CliUtils Require Import Base.Strings Model.IdCodec Model.DependsOnCodec Corr.CorrC15."
		}
		s.cf = &emit.CaseFile{Name: fmt.Sprintf("Cases_C15_%s_%d", s.prefix, s.n), Imports: imports, Check: s.check}
		s.n++
	}
	s.cf.Add(term, text)
	s.o.terms = append(s.o.terms, term)
	s.o.nontr = append(s.o.nontr, nontrivial)
	s.o.sum.Count(kind)
	limit := s.perFile
	if limit == 0 {
		limit = 700
	}
	if len(s.cf.Cases) >= limit {
		return s.flush()
	}
	return nil
}

func (s *shard) flush() error {
	if s.cf == nil || len(s.cf.Cases) == 0 {
		return nil
	}
	s.cf.Prelude = strings.Join(in.defs, "\n")
	in = newInterner()
	err := s.cf.Write(s.o.dir, s.o.sum)
	s.cf = nil
	return err
}

func guard(f func()) (panicked bool) {
	defer func() {
		if e := recover(); e != nil {
			panicked = true
		}
	}()
	f()
	return false
}

// nameCase: one identifier through every codec
func nameCase(id object.ObjMetadata) (term, text string, accepted bool, key string) {
	beginCase()
	defer func() { term = endCase(term) }()
	key = id.String()
	parsed, perr := object.ParseObjMetadata(key)
	back, berr := object.FromStringMap(object.ObjMetadataSet{id}.ToStringMap())
	serr, written, loaded, lerr := storeOnce(inventory.WrapInventoryObj(template(nil)), object.ObjMetadataSet{id}, nil)
	dfmt, dferr := dependson.FormatObjMetadata(id)
	var dparsed object.ObjMetadata
	dperr := dferr
	if dferr == nil {
		dparsed, dperr = dependson.ParseObjMetadata(dfmt)
	}
	sfmt, sferr := dependson.FormatDependencySet(dependson.DependencySet{id})
	var dset dependson.DependencySet
	dserr := sferr
	if sferr == nil {
		dset, dserr = dependson.ParseDependencySet(sfmt)
	}
	obs := emit.App("mkIdObs", str(key), resOid(parsed, perr), resOids(back, berr),
		emit.Bool(serr != nil), smap(written), resOids(loaded, lerr),
		resStr(dfmt, dferr), resOid(dparsed, dperr), resOids(dset, dserr))
	term = emit.App("CName", oid(id), obs)
	text = fmt.Sprintf("NAME id=%s key=%q parse=%s store=%s written=%d load=%s depfmt=%s", short(id), key, errS(perr), errS(serr), len(written), errS(lerr), errS(dferr))
	return term, text, serr == nil, key
}

type step struct {
	ids    object.ObjMetadataSet
	status bool
}

func storeCase(prior any, steps []step) (term, text string) {
	beginCase()
	defer func() { term = endCase(term) }()
	tmpl := template(prior)
	pl, plerr := inventory.WrapInventoryObj(tmpl.DeepCopy()).Load()
	var priorT string
	switch p := prior.(type) {
	case nil:
		priorT = "DAbsent"
	case map[string]any:
		m := map[string]string{}
		valid := true
		for k, v := range p {
			s, ok := v.(string)
			if !ok {
				valid = false
			}
			m[k] = s
		}
		if valid {
			priorT = emit.App("DMap", smap(m))
		} else {
			priorT = "DInvalid"
		}
	default:
		priorT = "DInvalid"
	}
	w := inventory.WrapInventoryObj(tmpl)
	var ts, txt []string
	for _, st := range steps {
		var status []actuation.ObjectStatus
		var stT []string
		if st.status {
			for _, id := range st.ids {
				status = append(status, statusFor(id))
				stT = append(stT, "("+oid(id)+", "+str(statusJSON)+")")
			}
		}
		serr, written, loaded, lerr := storeOnce(w, st.ids, status)
		ts = append(ts, emit.App("mkStep", oids(st.ids), emit.List(stT), emit.Bool(serr != nil), smap(written), resOids(loaded, lerr)))
		txt = append(txt, fmt.Sprintf("Store%s=%s written=%d load=%s(%d)", shorts(st.ids), errS(serr), len(written), errS(lerr), len(loaded)))
	}
	return emit.App("CStore", priorT, resOids(pl, plerr), emit.List(ts)), "STORE " + strings.Join(txt, " ; ")
}

func depCase(id object.ObjMetadata, pl, pr string) (term, text string) {
	enc := encodable(id)
	beginCase()
	defer func() { term = endCase(term) }()
	f, ferr := dependson.FormatObjMetadata(id)
	var p object.ObjMetadata
	perr := ferr
	if ferr == nil {
		p, perr = dependson.ParseObjMetadata(pl + f + pr)
	}
	term = emit.App("CDep", emit.Bool(enc), oid(id), str(pl), str(pr), resStr(f, ferr), resOid(p, perr))
	text = fmt.Sprintf("DEP cls=%s enc=%v id=%s pad=%q/%q fmt=%q(%s) parsed=%s %s", depClass([]object.ObjMetadata{id}, false), enc, short(id), pl, pr, f, errS(ferr), errS(perr), short(p))
	return
}

func depParseCase(s string) (term, text string) {
	beginCase()
	defer func() { term = endCase(term) }()
	p, perr := dependson.ParseObjMetadata(s)
	var f string
	ferr := perr
	if perr == nil {
		f, ferr = dependson.FormatObjMetadata(p)
	}
	term = emit.App("CDepParse", str(s), str(strings.TrimSpace(s)), resOid(p, perr), resStr(f, ferr))
	text = fmt.Sprintf("DEPPARSE cls=%s s=%q parsed=%s %s refmt=%q(%s)", parseClass([]string{s}), s, errS(perr), short(p), f, errS(ferr))
	return
}

type padded struct {
	pl string
	id object.ObjMetadata
	pr string
}

func depSetCase(l []padded) (term, text string) {
	beginCase()
	defer func() { term = endCase(term) }()
	var pieces []string
	var ferr error
	var ids []object.ObjMetadata
	for _, x := range l {
		ids = append(ids, x.id)
		f, err := dependson.FormatObjMetadata(x.id)
		if err != nil {
			ferr = err
			break
		}
		pieces = append(pieces, x.pl+f+x.pr)
	}
	joined := strings.Join(pieces, ",")
	if ferr == nil && len(l) > 0 {
		// cross-check with the real FormatDependencySet when there is no padding
		nopad := true
		for _, x := range l {
			if x.pl != "" || x.pr != "" {
				nopad = false
			}
		}
		if nopad {
			j2, err := dependson.FormatDependencySet(dependson.DependencySet(ids))
			if err != nil || j2 != joined {
				joined, ferr = j2, err
			}
		}
	}
	var parsed dependson.DependencySet
	perr := ferr
	if ferr == nil {
		parsed, perr = dependson.ParseDependencySet(joined)
	}
	var lt []string
	for _, x := range l {
		lt = append(lt, "("+str(x.pl)+", "+oid(x.id)+", "+str(x.pr)+")")
	}
	term = emit.App("CDepSet", emit.Bool(allEncodable(ids)), emit.List(lt), resStr(joined, ferr), resOids(parsed, perr))
	text = fmt.Sprintf("DEPSET cls=%s enc=%v ids=%s fmt=%q(%s) parsed=%s %s", depClass(ids, true), allEncodable(ids), shorts(ids), joined, errS(ferr), errS(perr), shorts(parsed))
	return
}

func depSetParseCase(s string) (term, text string) {
	beginCase()
	defer func() { term = endCase(term) }()
	pieces := strings.Split(s, ",")
	norm := make([]string, len(pieces))
	for i, p := range pieces {
		norm[i] = strings.TrimSpace(p)
	}
	parsed, perr := dependson.ParseDependencySet(s)
	var f string
	ferr := perr
	if perr == nil {
		f, ferr = dependson.FormatDependencySet(parsed)
	}
	term = emit.App("CDepSetParse", str(s), str(strings.Join(norm, ",")), resOids(parsed, perr), resStr(f, ferr))
	text = fmt.Sprintf("DEPSETPARSE cls=%s s=%q parsed=%s %s refmt=%q(%s)", parseClass(pieces), s, errS(perr), shorts(parsed), f, errS(ferr))
	return
}

func annotCase(ids []object.ObjMetadata) (term, text string) {
	beginCase()
	defer func() { term = endCase(term) }()
	u := &unstructured.Unstructured{Object: map[string]any{"apiVersion": "v1", "kind": "ConfigMap", "metadata": map[string]any{"name": "x"}}}
	absent, aerr := dependson.ReadAnnotation(u)
	werr := dependson.WriteAnnotation(u, dependson.DependencySet(ids))
	val, found := u.GetAnnotations()[dependson.Annotation]
	if werr == nil && !found {
		werr = fmt.Errorf("annotation not written")
	}
	var read dependson.DependencySet
	rerr := werr
	if werr == nil {
		read, rerr = dependson.ReadAnnotation(u)
	}
	term = emit.App("CAnnot", emit.Bool(allEncodable(ids)), oids(ids), resStr(val, werr), resOids(read, rerr), resOids(absent, aerr))
	text = fmt.Sprintf("ANNOT cls=%s enc=%v ids=%s write=%q(%s) read=%s %s", depClass(ids, true), allEncodable(ids), shorts(ids), val, errS(werr), errS(rerr), shorts(read))
	return
}

// Run is the entry point of the C15 correspondence.
func Run(seed int64, tier, outDir string) (*emit.Summary, error) {
	r := rand.New(rand.NewSource(seed))
	sum := emit.NewSummary("C15", seed, tier)
	o := &out{sum: sum, dir: outDir}
	maxLen, nSets, nMalformed, nDep := 4, 250, 400, 300
	if tier == "thorough" {
		maxLen, nSets, nMalformed, nDep = 5, 2500, 4000, 3000
	}

	// ---- 1. every short name over the critical alphabet, every shape ----------
	names := allNames(maxLen)
	idsh := o.newShard("names", "check_id")
	byKey := map[string][]object.ObjMetadata{}
	acceptedKeys := map[string]object.ObjMetadata{}
	var pool []object.ObjMetadata
	for _, sh := range shapes {
		for _, n := range names {
			id := mk(sh.ns, n, sh.group, sh.kind)
			var term, text, key string
			var accepted bool
			if guard(func() { term, text, accepted, key = nameCase(id) }) {
				sum.ImplFailures = append(sum.ImplFailures, "panic in codec for "+short(id))
				continue
			}
			if err := idsh.add(term, text, n != "", "name:"+sh.tag); err != nil {
				return nil, err
			}
			byKey[key] = append(byKey[key], id)
			if accepted {
				// monitor outside Coq, over the whole enumeration: distinct accepted ids never share a key
				if other, dup := acceptedKeys[key]; dup && other != id {
					sum.ImplFailures = append(sum.ImplFailures, fmt.Sprintf("two identifiers accepted by Store share the key %q: %s and %s", key, short(other), short(id)))
				}
				acceptedKeys[key] = id
				sum.Count("store:accepted")
			} else {
				sum.Count("store:rejected")
			}
			if len(n) <= 3 {
				pool = append(pool, id)
			}
		}
	}
	if err := idsh.flush(); err != nil {
		return nil, err
	}
	sum.Exhaustive = true
	sum.Extra["exhaustive_names"] = fmt.Sprintf("all %d names of length <= %d over {a - . : _} x %d shapes", len(names), maxLen, len(shapes))

	// ---- 2. inventories -----------------------------------------------------------
	invsh := o.newShard("inv", "check_inv")
	addInv := func(term, text string, nontrivial bool, kind string) error {
		return invsh.add(term, text, nontrivial, kind)
	}
	cr := func(n string) object.ObjMetadata { return mk("", n, rbacGroup, "ClusterRole") }
	cmid := func(n string) object.ObjMetadata { return mk("ns-1", n, "", "ConfigMap") }
	// fixed corpus: the former defect witnesses first
	corpus := [][]step{
		{{ids: object.ObjMetadataSet{cr("a_b")}}},
		{{ids: object.ObjMetadataSet{cr("a:_b"), cr("a_:b")}}},
		{{ids: object.ObjMetadataSet{cr("sys:a")}}, {ids: object.ObjMetadataSet{cr("sys:a"), cr("a_b")}}, {ids: object.ObjMetadataSet{cr("sys:b")}, status: true}},
		{{ids: object.ObjMetadataSet{cmid("a__b")}}, {ids: object.ObjMetadataSet{cmid("a:b"), cr("a:b"), cr("a:b")}}},
		{{ids: nil}, {ids: object.ObjMetadataSet{}}},
	}
	for _, c := range corpus {
		term, text := storeCase(nil, c)
		if err := addInv(term, text, true, "store:corpus"); err != nil {
			return nil, err
		}
	}
	// every group of enumerated ids that share one key, as one inventory
	var sharedKeys []string
	for k, l := range byKey {
		if len(l) > 1 {
			sharedKeys = append(sharedKeys, k)
		}
	}
	sort.Strings(sharedKeys)
	sum.Extra["shared_key_groups"] = len(sharedKeys)
	for i, k := range sharedKeys {
		if i >= 400 && tier != "thorough" {
			break
		}
		term, text := storeCase(nil, []step{{ids: byKey[k]}})
		if err := addInv(term, text, true, "store:shared-key-group"); err != nil {
			return nil, err
		}
	}
	priors := []any{nil, nil, "not-a-map", map[string]any{"k": int64(1)},
		map[string]any{"ns-1_old__ConfigMap": ""}, map[string]any{"unparseable": ""},
		map[string]any{"_sys__x_" + rbacGroup + "_ClusterRole": "", "ns_a__b_apps_Deployment": ""}, map[string]any{}}
	for i := 0; i < nSets; i++ {
		nSteps := 1 + r.Intn(3)
		var steps []step
		for j := 0; j < nSteps; j++ {
			n := r.Intn(6)
			var ids object.ObjMetadataSet
			mostlyClean := r.Intn(3) > 0
			for len(ids) < n {
				var id object.ObjMetadata
				switch k := r.Intn(10); {
				case k < 6:
					id = pool[r.Intn(len(pool))]
				case k < 8:
					id = randDomainID(r)
				default:
					id = randAnyID(r)
				}
				if mostlyClean && strings.Contains(id.Namespace+id.Name+id.GroupKind.Group+id.GroupKind.Kind, "_") {
					continue
				}
				ids = append(ids, id)
				if r.Intn(5) == 0 {
					ids = append(ids, id) // repeats
				}
			}
			steps = append(steps, step{ids: ids, status: r.Intn(3) == 0})
		}
		var term, text string
		prior := priors[r.Intn(len(priors))]
		if guard(func() { term, text = storeCase(prior, steps) }) {
			sum.ImplFailures = append(sum.ImplFailures, "panic in Store/GetObject/Load")
			continue
		}
		if err := addInv(term, text, true, "store:random"); err != nil {
			return nil, err
		}
		// ToStringMap / FromStringMap on the first set
		ids := steps[0].ids
		m := ids.ToStringMap()
		var keys []string
		for k := range m {
			keys = append(keys, k)
		}
		sort.Strings(keys)
		back, berr := object.FromStringMap(m)
		beginCase()
		if err := addInv(endCase(emit.App("CStringMap", oids(ids), strs(keys), resOids(back, berr))),
			fmt.Sprintf("STRINGMAP ids=%s keys=%q back=%s", shorts(ids), keys, errS(berr)), len(ids) > 0, "stringmap"); err != nil {
			return nil, err
		}
	}
	// malformed stream for the key parser
	fixedKeys := []string{"", "_", "__", "___", "____", "a", "a_b", "a_b_c", "a_b_c_d", "a_b_c_d_e", "ns_a__b__ConfigMap",
		"_a___b_" + rbacGroup + "_ClusterRole", "ns_na:me_g_k", "ns__g_k", "_____", "é_ü_g_k", "a_\xe2\x80_b_c"}
	for i := 0; i < nMalformed+len(fixedKeys); i++ {
		var s string
		if i < len(fixedKeys) {
			s = fixedKeys[i]
		} else if r.Intn(2) == 0 {
			s = randAnyID(r).String()
		} else {
			n := r.Intn(7)
			parts := make([]string, n)
			for j := range parts {
				parts[j] = randField(r, 2)
			}
			s = strings.Join(parts, "_")
		}
		var term, text string
		if guard(func() {
			p, perr := object.ParseObjMetadata(s)
			var k string
			var rp object.ObjMetadata
			kerr, rerr := perr, perr
			if perr == nil {
				k = p.String()
				rp, rerr = object.ParseObjMetadata(k)
			}
			beginCase()
			term = endCase(emit.App("CIdParse", str(s), resOid(p, perr), resStr(k, kerr), resOid(rp, rerr)))
			text = fmt.Sprintf("IDPARSE s=%q parsed=%s %s restr=%q reparsed=%s", s, errS(perr), short(p), k, errS(rerr))
			if perr == nil {
				sum.Count("idparse:ok")
			} else {
				sum.Count("idparse:err")
			}
		}) {
			sum.ImplFailures = append(sum.ImplFailures, fmt.Sprintf("panic in ParseObjMetadata(%q)", s))
			continue
		}
		if err := addInv(term, text, s != "", "idparse"); err != nil {
			return nil, err
		}
	}
	if err := invsh.flush(); err != nil {
		return nil, err
	}

	// ---- 3. depends-on ---------------------------------------------------------------
	depsh := o.newShard("dep", "check_dep")
	addDep := func(term, text string, kind string) error { return depsh.add(term, text, true, kind) }
	// fixed corpus: the former defect witnesses first (fixed by f7dcdbb), so that a regression is reported again
	{
		term, text := depCase(cr("a "), "", "")
		if err := addDep(term, text, "dep:corpus"); err != nil {
			return nil, err
		}
		for _, w := range []object.ObjMetadata{cr("a\u00a0"), cr("a,b"), mk("", "x/y/z", "g", "namespaces"), mk(",a", "n", "g", "k"), mk("ns", "n", " g", "k")} {
			term, text = depCase(w, "", "")
			if err := addDep(term, text, "dep:corpus"); err != nil {
				return nil, err
			}
			term, text = annotCase([]object.ObjMetadata{cr("ok"), w})
			if err := addDep(term, text, "dep:corpus"); err != nil {
				return nil, err
			}
		}
		term, text = depSetCase([]padded{{"", cr("a,b"), ""}})
		if err := addDep(term, text, "dep:corpus"); err != nil {
			return nil, err
		}
		for _, s := range []string{"g//n", "g/k/", "g/namespaces//k/n", "//", "apps/namespaces/ns/Deployment/"} {
			term, text = depParseCase(s)
			if err := addDep(term, text, "dep:corpus"); err != nil {
				return nil, err
			}
		}
		term, text = annotCase(nil)
		if err := addDep(term, text, "dep:corpus"); err != nil {
			return nil, err
		}
	}
	fixedDeps := []string{"", " ", "a", "a/b", "a/b/c", "a/b/c/d", "a/b/c/d/e", "a/b/c/d/e/f", "/k/n", " /k/n ", "g/namespaces/ns/k/n",
		"g/Namespaces/ns/k/n", "g/namespaces/ns/k", " g/k/n ", "g/k/n,", "\tapps/namespaces/default/Deployment/x\n", "g/k/n\xe2\x80\x80\x80"}
	for i := 0; i < nDep; i++ {
		// Format -> Parse of ids in the quantified domain and of arbitrary ids
		var id object.ObjMetadata
		if r.Intn(3) > 0 {
			id = randDomainID(r)
		} else {
			id = randAnyID(r)
		}
		if encodable(id) {
			sum.Count("dep:encodable")
		} else {
			sum.Count("dep:not-encodable")
		}
		pl, pr := "", ""
		if r.Intn(3) == 0 {
			pl, pr = randPad(r), randPad(r)
		}
		term, text := depCase(id, pl, pr)
		if err := addDep(term, text, "dep:format-parse"); err != nil {
			return nil, err
		}
		// Parse -> Format of strings
		var s string
		if i < len(fixedDeps) {
			s = fixedDeps[i]
		} else {
			switch r.Intn(4) {
			case 0:
				f, _ := dependson.FormatObjMetadata(randAnyID(r))
				s = randPad(r) + f + randPad(r)
			case 1:
				n := r.Intn(7)
				parts := make([]string, n)
				for j := range parts {
					parts[j] = randField(r, 2)
				}
				if n >= 5 && r.Intn(2) == 0 {
					parts[1] = "namespaces"
				}
				s = strings.Join(parts, "/")
			case 2:
				f, _ := dependson.FormatObjMetadata(randDomainID(r))
				s = randPad(r) + f + randPad(r)
			default:
				s = randField(r, 6)
			}
		}
		term, text = depParseCase(s)
		if err := addDep(term, text, "dep:parse-format"); err != nil {
			return nil, err
		}
		// sets
		n := 1 + r.Intn(4)
		var l []padded
		for j := 0; j < n; j++ {
			var id object.ObjMetadata
			if r.Intn(5) == 0 {
				id = randAnyID(r)
			} else if r.Intn(2) == 0 {
				id = pool[r.Intn(len(pool))]
			} else {
				id = randDomainID(r)
			}
			pl, pr := "", ""
			if r.Intn(3) == 0 {
				pl, pr = randPad(r), randPad(r)
			}
			l = append(l, padded{pl, id, pr})
		}
		term, text = depSetCase(l)
		if err := addDep(term, text, "dep:set-format-parse"); err != nil {
			return nil, err
		}
		if i%2 == 0 {
			var ids []object.ObjMetadata
			for _, x := range l {
				ids = append(ids, x.id)
			}
			term, text = annotCase(ids)
			if err := addDep(term, text, "dep:annotation"); err != nil {
				return nil, err
			}
			// a set string assembled from pieces, some malformed
			var pieces []string
			for _, x := range l {
				f, err := dependson.FormatObjMetadata(x.id)
				if err != nil || r.Intn(6) == 0 {
					f = randField(r, 3)
				}
				pieces = append(pieces, x.pl+f+x.pr)
			}
			sep := ","
			if r.Intn(8) == 0 {
				sep = ", "
			}
			s := strings.Join(pieces, sep)
			if r.Intn(10) == 0 {
				s += ","
			}
			term, text = depSetParseCase(s)
			if err := addDep(term, text, "dep:set-parse-format"); err != nil {
				return nil, err
			}
		}
	}
	if err := depsh.flush(); err != nil {
		return nil, err
	}

	// ---- 4. the inventory client over a stateful fake API server ---------------------
	if err := runClient(o, r, tier, pool); err != nil {
		return nil, err
	}

	sum.Evaluations = len(o.terms)
	sum.DistinctNontrivial = emit.Distinct(o.terms, o.nontr)
	sum.Rule = "names: every name up to the systematic length over {a,-,.,:,_} in 6 shapes (the four RBAC kinds and two other kinds, namespaced and cluster-scoped) through String/Parse, ToStringMap/FromStringMap, Store/GetObject/Load and depends-on Format/Parse (non-trivial = non-empty name); " +
		"inventories: former witnesses, every group of enumerated ids sharing a key, seeded Store sequences with repeats/prior data/status, malformed key strings; " +
		"depends-on: seeded ids inside and outside the quantified domain with padding, malformed reference strings, sets, annotations; " +
		"client: the real inventory.ClusterClient over kubectl's stateful fake dynamic client, sequences of first-run Merge / Merge over an existing inventory / Replace in every dry-run strategy and both status policies, apply sets mostly encodable with un-encodable members of every generated kind, each operation followed by GetClusterObjs, every mutating request recorded; distinct = distinct Coq case terms"
	sum.Samples = []any{}
	for _, name := range sum.CaseFiles {
		t := sum.CaseText[name]
		if len(t) > 0 {
			sum.Samples = append(sum.Samples, t[len(t)/2])
		}
	}
	return sum, nil
}
