// Package c20 feeds generated event streams to the real JSON printer and
// writes the parsed output as Coq cases.
package c20

import (
	"bytes"
	"encoding/json"
	"errors"
	"fmt"
	"math/rand"
	"sort"
	"strings"

	"k8s.io/apimachinery/pkg/apis/meta/v1/unstructured"
	"k8s.io/apimachinery/pkg/runtime/schema"
	"k8s.io/cli-runtime/pkg/genericiooptions"
	"sigs.k8s.io/cli-utils/pkg/apply/event"
	"sigs.k8s.io/cli-utils/pkg/apply/prune"
	"sigs.k8s.io/cli-utils/pkg/common"
	pollevent "sigs.k8s.io/cli-utils/pkg/kstatus/polling/event"
	"sigs.k8s.io/cli-utils/pkg/kstatus/status"
	"sigs.k8s.io/cli-utils/pkg/object"
	printcommon "sigs.k8s.io/cli-utils/pkg/print/common"
	"sigs.k8s.io/cli-utils/pkg/printers"
	"sigs.k8s.io/cli-utils/pkg/printers/printer"
	"verifharness/emit"
)

var universe = []object.ObjMetadata{
	{Namespace: "ns1", Name: "a", GroupKind: schema.GroupKind{Group: "", Kind: "ConfigMap"}},
	{Namespace: "ns1", Name: "b", GroupKind: schema.GroupKind{Group: "apps", Kind: "Deployment"}},
	{Namespace: "", Name: "sys:role", GroupKind: schema.GroupKind{Group: "rbac.authorization.k8s.io", Kind: "ClusterRole"}},
	{Namespace: "ns2", Name: "a", GroupKind: schema.GroupKind{Group: "", Kind: "ConfigMap"}},
	{Namespace: "", Name: "ns1", GroupKind: schema.GroupKind{Group: "", Kind: "Namespace"}},
	{Namespace: "ns1", Name: "c", GroupKind: schema.GroupKind{Group: "apps", Kind: "Deployment"}},
}

var (
	actions   = []string{"AcApply", "AcPrune", "AcDelete", "AcWait", "AcInventory"}
	actionStr = []string{"Apply", "Prune", "Delete", "Wait", "Inventory"}
	akinds    = []string{"KApply", "KPrune", "KDelete"}
	akindStr  = []string{"apply", "prune", "delete"}
	astatuses = []string{"StPending", "StSuccessful", "StSkipped", "StFailed"}
	astatStr  = []string{"Pending", "Successful", "Skipped", "Failed"}
	wstatuses = []string{"WPending", "WSuccessful", "WSkipped", "WTimeout", "WFailed"}
	wstatStr  = []string{"Pending", "Successful", "Skipped", "Timeout", "Failed"}
	kstatuses = []string{"KInProgress", "KFailed", "KCurrent", "KTerminating", "KNotFound", "KUnknown"}
	kstatVals = []status.Status{status.InProgressStatus, status.FailedStatus, status.CurrentStatus,
		status.TerminatingStatus, status.NotFoundStatus, status.UnknownStatus}
	results = []string{"ROk", "RErrEvent", "RErrResult", "RErrFormat", "RPanic"}
)

func find(l []string, s string) int {
	for i, x := range l {
		if x == s {
			return i
		}
	}
	return -1
}

// mev mirrors the Coq type event.
type mev struct {
	kind   string // init error group act wait status validation
	groups [][2]int
	nonnil bool
	name   int
	action int
	fin    bool
	ak     int
	id     int
	st     int
	herr   bool // actuation events: the Error field is set
	ids    []int
}

// objFor builds the object the real event factories take the identifier from.
func objFor(id int) *unstructured.Unstructured {
	u := &unstructured.Unstructured{Object: map[string]interface{}{}}
	m := universe[id]
	av := "v1"
	if m.GroupKind.Group != "" {
		av = m.GroupKind.Group + "/v1"
	}
	u.SetAPIVersion(av)
	u.SetKind(m.GroupKind.Kind)
	u.SetNamespace(m.Namespace)
	u.SetName(m.Name)
	return u
}

func (e mev) coq() string {
	switch e.kind {
	case "init":
		var g []string
		for _, x := range e.groups {
			g = append(g, "("+emit.Nat(x[0])+", "+actions[x[1]]+")")
		}
		return emit.App("EInit", emit.List(g))
	case "error":
		return emit.App("EError", emit.Bool(e.nonnil))
	case "group":
		return emit.App("EGroup", emit.Nat(e.name), actions[e.action], emit.Bool(e.fin))
	case "act":
		return emit.App("EAct", akinds[e.ak], emit.Nat(e.id), astatuses[e.st], emit.Bool(e.herr))
	case "wait":
		return emit.App("EWait", emit.Nat(e.id), wstatuses[e.st])
	case "status":
		return emit.App("EStatus", emit.Nat(e.id), kstatuses[e.st])
	case "validation":
		return emit.App("EValidation", emit.NatList(e.ids))
	}
	panic("bad event")
}

var errStream = errors.New("stream error: 100%")

// texts that reach the printers inside error and status messages: format verbs, a trailing
// per cent sign, quotes, backslashes, control characters, HTML-sensitive and non-ASCII runes,
// JSON inside the text (seed C20f: a rendered line used as a format string)
var hostileTexts = []string{
	"plain text",
	"exceeded quota: used 120% of limits.cpu",
	"traffic weight 50%",
	"%s %d %v %!",
	"GET /apis/a%2Fb failed",
	"msg \"quoted\" \n second line",
	"back\\slash and tab\t",
	"<html> & 'apos'",
	"caf\u00e9 \u6f22 \u2028 end",
	"{\"json\":\"inside\"}",
	"100%",
}

func hostile(i int) string {
	return hostileTexts[((i%len(hostileTexts))+len(hostileTexts))%len(hostileTexts)]
}

func groupName(n int) string { return fmt.Sprintf("group-%d", n) }

func (e mev) real() event.Event {
	switch e.kind {
	case "init":
		var ags event.ActionGroupList
		for _, x := range e.groups {
			ags = append(ags, event.ActionGroup{Name: groupName(x[0]), Action: event.ResourceAction(x[1])})
		}
		return event.Event{Type: event.InitType, InitEvent: event.InitEvent{ActionGroups: ags}}
	case "error":
		ev := event.Event{Type: event.ErrorType}
		if e.nonnil {
			ev.ErrorEvent.Err = errStream
		}
		return ev
	case "group":
		st := event.Started
		if e.fin {
			st = event.Finished
		}
		return event.Event{Type: event.ActionGroupType, ActionGroupEvent: event.ActionGroupEvent{
			GroupName: groupName(e.name), Action: event.ResourceAction(e.action), Status: st}}
	case "act":
		var err error
		if e.herr {
			err = fmt.Errorf("reason %d: %s: %s", e.id, astatStr[e.st], hostile(3*e.id+e.st+e.ak))
		}
		// prune / delete events in their usual shapes come from the real event
		// factories of pkg/apply/prune (skipped and failed events carry an error)
		if e.ak > 0 {
			f := prune.CreateEventFactory(e.ak == 2, "group-x")
			switch {
			case e.st == 1 && !e.herr:
				return f.CreateSuccessEvent(objFor(e.id))
			case e.st == 2 && e.herr:
				return f.CreateSkippedEvent(objFor(e.id), err)
			case e.st == 3 && e.herr:
				return f.CreateFailedEvent(universe[e.id], err)
			}
		}
		switch e.ak {
		case 0:
			return event.Event{Type: event.ApplyType, ApplyEvent: event.ApplyEvent{
				Identifier: universe[e.id], Status: event.ApplyEventStatus(e.st), Error: err}}
		case 1:
			return event.Event{Type: event.PruneType, PruneEvent: event.PruneEvent{
				Identifier: universe[e.id], Status: event.PruneEventStatus(e.st), Error: err}}
		default:
			return event.Event{Type: event.DeleteType, DeleteEvent: event.DeleteEvent{
				Identifier: universe[e.id], Status: event.DeleteEventStatus(e.st), Error: err}}
		}
	case "wait":
		return event.Event{Type: event.WaitType, WaitEvent: event.WaitEvent{
			Identifier: universe[e.id], Status: event.WaitEventStatus(e.st)}}
	case "status":
		return event.Event{Type: event.StatusType, StatusEvent: event.StatusEvent{
			Identifier: universe[e.id],
			PollResourceInfo: &pollevent.ResourceStatus{Identifier: universe[e.id], Status: kstatVals[e.st],
				Message: hostile(5*e.id + e.st)}}}
	case "validation":
		ids := object.ObjMetadataSet{}
		for _, i := range e.ids {
			ids = append(ids, universe[i])
		}
		return event.Event{Type: event.ValidationType, ValidationEvent: event.ValidationEvent{
			Identifiers: ids, Error: errors.New("invalid object: " + hostile(len(e.ids)+7*len(ids)))}}
	}
	panic("bad event")
}

// ---- projection of one output line ---------------------------------------------

func idOf(m map[string]interface{}) (int, bool) {
	g, ok1 := m["group"].(string)
	k, ok2 := m["kind"].(string)
	n, ok3 := m["name"].(string)
	ns, ok4 := m["namespace"].(string)
	if !(ok1 && ok2 && ok3 && ok4) {
		return 0, false
	}
	id := object.ObjMetadata{Namespace: ns, Name: n, GroupKind: schema.GroupKind{Group: g, Kind: k}}
	for i, u := range universe {
		if u == id {
			return i, true
		}
	}
	return 0, false
}

func num(m map[string]interface{}, k string) (int, bool) {
	f, ok := m[k].(float64)
	if !ok || f < 0 || f != float64(int(f)) {
		return 0, false
	}
	return int(f), true
}

func keysOK(m map[string]interface{}, allowed ...string) bool {
	for k := range m {
		if k == "timestamp" || k == "type" {
			continue
		}
		if find(allowed, k) < 0 {
			return false
		}
	}
	return true
}

func countsOf(m map[string]interface{}, wait bool) (string, bool) {
	c, ok1 := num(m, "count")
	s, ok2 := num(m, "successful")
	k, ok3 := num(m, "skipped")
	f, ok4 := num(m, "failed")
	if !(ok1 && ok2 && ok3 && ok4) {
		return "", false
	}
	t := "None"
	_, hasT := m["timeout"]
	if wait {
		tv, ok := num(m, "timeout")
		if !ok {
			return "", false
		}
		t = "(Some " + emit.Nat(tv) + ")"
	} else if hasT {
		return "", false
	}
	return emit.App("mkCounts", emit.Nat(c), emit.Nat(s), emit.Nat(k), emit.Nat(f), t), true
}

// project parses one output line; ok=false when it is not a JSON object of
// the expected shape (then the case carries all_json=false).
func project(raw string) (term string, ok bool) {
	var m map[string]interface{}
	dec := json.NewDecoder(strings.NewReader(raw))
	if err := dec.Decode(&m); err != nil || dec.More() {
		return "LError", false
	}
	if _, has := m["timestamp"].(string); !has {
		return "LError", false
	}
	t, _ := m["type"].(string)
	switch t {
	case "validation":
		objs, isList := m["objects"].([]interface{})
		if !isList || !keysOK(m, "objects", "error") {
			return "LError", false
		}
		var ids []int
		for _, o := range objs {
			om, isMap := o.(map[string]interface{})
			if !isMap {
				return "LError", false
			}
			id, found := idOf(om)
			if !found {
				return "LError", false
			}
			ids = append(ids, id)
		}
		if _, isStr := m["error"].(string); !isStr {
			return "LError", false
		}
		return emit.App("LValidation", emit.NatList(ids)), true
	case "apply", "prune", "delete":
		id, found := idOf(m)
		st := find(astatStr, fmt.Sprint(m["status"]))
		if !found || st < 0 || !keysOK(m, "group", "kind", "name", "namespace", "status", "error") {
			return "LError", false
		}
		ev, hasErr := m["error"]
		if _, isStr := ev.(string); hasErr && !isStr {
			return "LError", false
		}
		return emit.App("LAct", akinds[find(akindStr, t)], emit.Nat(id), astatuses[st], emit.Bool(hasErr)), true
	case "wait":
		id, found := idOf(m)
		st := find(wstatStr, fmt.Sprint(m["status"]))
		if !found || st < 0 || !keysOK(m, "group", "kind", "name", "namespace", "status") {
			return "LError", false
		}
		return emit.App("LWait", emit.Nat(id), wstatuses[st]), true
	case "status":
		id, found := idOf(m)
		st := -1
		for i, v := range kstatVals {
			if string(v) == fmt.Sprint(m["status"]) {
				st = i
			}
		}
		if !found || st < 0 || !keysOK(m, "group", "kind", "name", "namespace", "status", "message") {
			return "LError", false
		}
		return emit.App("LStatus", emit.Nat(id), kstatuses[st]), true
	case "error":
		if _, isStr := m["error"].(string); !isStr || !keysOK(m, "error") {
			return "LError", false
		}
		return "LError", true
	case "group":
		a := find(actionStr, fmt.Sprint(m["action"]))
		s := fmt.Sprint(m["status"])
		if a < 0 || (s != "Started" && s != "Finished") ||
			!keysOK(m, "action", "status", "count", "successful", "skipped", "failed", "timeout") {
			return "LError", false
		}
		c := "None"
		if _, has := m["count"]; has {
			cs, good := countsOf(m, a == 3)
			if !good {
				return "LError", false
			}
			c = "(Some " + cs + ")"
		}
		return emit.App("LGroup", actions[a], emit.Bool(s == "Finished"), c), true
	case "summary":
		a := find(actionStr, fmt.Sprint(m["action"]))
		if a < 0 || !keysOK(m, "action", "count", "successful", "skipped", "failed", "timeout") {
			return "LError", false
		}
		cs, good := countsOf(m, a == 3)
		if !good {
			return "LError", false
		}
		return emit.App("LSummary", actions[a], cs), true
	}
	return "LError", false
}

var (
	printerCalls  int
	sharedPrinter printer.Printer
	sharedOut     *bytes.Buffer
	sharedErr     *bytes.Buffer
)

// runPrinter executes the real printer.
func runPrinter(es []mev, printStatus bool) (lines []string, allJSON bool, res int, raw string) {
	// Every third call goes through ONE long-lived printer instance that has already printed
	// the earlier streams given to it: a printer must not carry counters or buffered output
	// from one Print call into the next.
	printerCalls++
	var out, errOut *bytes.Buffer
	var p printer.Printer
	if printerCalls%3 == 0 {
		if sharedPrinter == nil {
			sharedOut, sharedErr = &bytes.Buffer{}, &bytes.Buffer{}
			sharedPrinter = printers.GetPrinter(printers.JSONPrinter,
				genericiooptions.IOStreams{In: &bytes.Buffer{}, Out: sharedOut, ErrOut: sharedErr})
		}
		sharedOut.Reset()
		sharedErr.Reset()
		out, errOut, p = sharedOut, sharedErr, sharedPrinter
	} else {
		out, errOut = &bytes.Buffer{}, &bytes.Buffer{}
		p = printers.GetPrinter(printers.JSONPrinter,
			genericiooptions.IOStreams{In: &bytes.Buffer{}, Out: out, ErrOut: errOut})
	}
	ch := make(chan event.Event, len(es)+1)
	for _, e := range es {
		ch <- e.real()
	}
	close(ch)
	var err error
	panicked := false
	func() {
		defer func() {
			if r := recover(); r != nil {
				panicked = true
			}
		}()
		err = p.Print(ch, common.DryRunNone, printStatus)
	}()
	var re *printcommon.ResultError
	switch {
	case panicked:
		res = 4
	case err == nil:
		res = 0
	case errors.As(err, &re):
		res = 2
	case errors.Is(err, errStream):
		res = 1
	default:
		res = 3
	}
	raw = out.String()
	allJSON = errOut.Len() == 0
	text := raw
	if text != "" {
		if !strings.HasSuffix(text, "\n") {
			allJSON = false
		}
		text = strings.TrimSuffix(text, "\n")
		for _, l := range strings.Split(text, "\n") {
			t, ok := project(l)
			if !ok {
				allJSON = false
			}
			lines = append(lines, t)
		}
	}
	return lines, allJSON, res, raw
}

// ---- generators -----------------------------------------------------------------

type gen struct {
	r   *rand.Rand
	sum *emit.Summary
}

func (g *gen) statusEvents(ids []int, p int) []mev {
	var out []mev
	for _, i := range ids {
		if g.r.Intn(100) < p {
			out = append(out, mev{kind: "status", id: i, st: g.r.Intn(6)})
		}
	}
	return out
}

// grammar: validation* init (group)* [error]; the error may also cut the
// stream anywhere after init.
func (g *gen) wellFormed() []mev {
	r := g.r
	var es []mev
	withStatus := r.Intn(2) == 0
	for i := 0; i < r.Intn(3); i++ {
		n := 1 + r.Intn(2)
		var ids []int
		for j := 0; j < n; j++ {
			ids = append(ids, r.Intn(len(universe)))
		}
		es = append(es, mev{kind: "validation", ids: ids})
		g.sum.Count("event:validation")
	}
	// plan: applier (inventory-add, apply*, wait*, prune*, wait, inventory-set) or destroyer (delete*, wait, delete-inventory)
	type grp struct {
		name, action int
		ids          []int
	}
	var plan []grp
	name := 0
	add := func(action int, ids []int) {
		plan = append(plan, grp{name, action, ids})
		name++
	}
	pick := func() []int {
		n := r.Intn(5)
		perm := r.Perm(len(universe))
		return append([]int{}, perm[:n]...)
	}
	if r.Intn(4) > 0 {
		add(4, nil)
		for i := 0; i < 1+r.Intn(2); i++ {
			ids := pick()
			add(0, ids)
			add(3, ids)
		}
		if r.Intn(2) == 0 {
			ids := pick()
			add(1, ids)
			add(3, ids)
		}
		add(4, nil)
		g.sum.Count("plan:apply")
	} else {
		for i := 0; i < 1+r.Intn(2); i++ {
			ids := pick()
			add(2, ids)
			add(3, ids)
		}
		add(4, nil)
		g.sum.Count("plan:destroy")
	}
	init := mev{kind: "init"}
	for _, p := range plan {
		init.groups = append(init.groups, [2]int{p.name, p.action})
	}
	es = append(es, init)
	// how objects fare: bias per stream so that all-success streams are common
	mode := r.Intn(4) // 0 all succeed, 1 some skipped, 2 anything, 3 mostly failing
	actStatus := func() int {
		switch mode {
		case 0:
			return 1
		case 1:
			return 1 + r.Intn(2)
		case 2:
			return 1 + r.Intn(3)
		}
		return 3 - r.Intn(2)*r.Intn(3)
	}
	waitStatus := func() int {
		switch mode {
		case 0:
			return 1
		case 1:
			return 1 + r.Intn(2)
		case 2:
			return 1 + r.Intn(4)
		}
		return 3 + r.Intn(2)
	}
	cut := -1
	if r.Intn(6) == 0 { // fatal error in the middle of the run
		cut = r.Intn(4 * len(plan))
	}
	emitted := 0
	done := false
	push := func(e mev) {
		if done {
			return
		}
		if cut >= 0 && emitted == cut {
			es = append(es, mev{kind: "error", nonnil: true})
			g.sum.Count("event:error(mid-stream)")
			done = true
			return
		}
		es = append(es, e)
		emitted++
		g.sum.Count("event:" + e.kind)
	}
	for _, p := range plan {
		push(mev{kind: "group", name: p.name, action: p.action, fin: false})
		switch p.action {
		case 0, 1, 2:
			for _, i := range p.ids {
				st := actStatus()
				push(mev{kind: "act", ak: p.action, id: i, st: st, herr: st != 1})
				g.sum.Count("act:" + akindStr[p.action] + "=" + astatStr[st])
				if withStatus && r.Intn(4) == 0 {
					push(mev{kind: "status", id: i, st: r.Intn(6)})
				}
			}
		case 3:
			var pending []int
			for _, i := range p.ids {
				if r.Intn(4) == 0 { // skipped / already reconciled objects get no pending event
					st := []int{1, 2}[r.Intn(2)]
					push(mev{kind: "wait", id: i, st: st})
					g.sum.Count("wait=" + wstatStr[st])
				} else {
					push(mev{kind: "wait", id: i, st: 0})
					g.sum.Count("wait=Pending")
					pending = append(pending, i)
				}
			}
			r.Shuffle(len(pending), func(a, b int) { pending[a], pending[b] = pending[b], pending[a] })
			for _, i := range pending {
				if withStatus {
					for _, s := range g.statusEvents([]int{i, i}, 60) {
						push(s)
					}
				}
				st := waitStatus()
				push(mev{kind: "wait", id: i, st: st})
				g.sum.Count("wait=" + wstatStr[st])
			}
		}
		push(mev{kind: "group", name: p.name, action: p.action, fin: true})
	}
	if !done && r.Intn(8) == 0 {
		es = append(es, mev{kind: "error", nonnil: true})
		g.sum.Count("event:error(final)")
	}
	return es
}

// malformed: events in arbitrary order, including the ones that make the
// printer stop (error events, validation events without identifiers, Pending
// actuation statuses, a nil error) and events after them.
func (g *gen) malformed() []mev {
	r := g.r
	n := r.Intn(14)
	var es []mev
	for i := 0; i < n; i++ {
		var e mev
		switch k := r.Intn(40); {
		case k < 2:
			e = mev{kind: "init", groups: [][2]int{{r.Intn(3), r.Intn(5)}}}
		case k < 4:
			e = mev{kind: "error", nonnil: r.Intn(4) > 0}
		case k < 12:
			e = mev{kind: "group", name: r.Intn(3), action: r.Intn(5), fin: r.Intn(2) == 0}
		case k < 24:
			st := 1 + r.Intn(3)
			if r.Intn(25) == 0 {
				st = 0
			}
			e = mev{kind: "act", ak: r.Intn(3), id: r.Intn(len(universe)), st: st, herr: st != 1}
			if r.Intn(3) == 0 { // odd combinations: Successful with an error, Skipped/Failed without
				e.herr = !e.herr
			}
			g.sum.Count(fmt.Sprintf("malformed-act:%s error-set=%v", astatStr[st], e.herr))
		case k < 32:
			e = mev{kind: "wait", id: r.Intn(len(universe)), st: r.Intn(5)}
		case k < 37:
			e = mev{kind: "status", id: r.Intn(len(universe)), st: r.Intn(6)}
		default:
			var ids []int
			for j := 0; j < r.Intn(3); j++ {
				ids = append(ids, r.Intn(len(universe)))
			}
			if r.Intn(3) > 0 && len(ids) == 0 {
				ids = []int{r.Intn(len(universe))}
			}
			e = mev{kind: "validation", ids: ids}
		}
		es = append(es, e)
		g.sum.Count("malformed-event:" + e.kind)
	}
	return es
}

func corpus() [][]mev {
	return [][]mev{
		// skipped objects carry the skip reason in Error (as ApplyTask and the prune
		// event factory produce them): counted as skipped, not failed, no result error
		{{kind: "group", name: 0, action: 1}, {kind: "act", ak: 1, id: 0, st: 2, herr: true}, {kind: "act", ak: 1, id: 1, st: 1},
			{kind: "group", name: 0, action: 1, fin: true}},
		{{kind: "group", name: 0, action: 2}, {kind: "act", ak: 2, id: 3, st: 2, herr: true}, {kind: "group", name: 0, action: 2, fin: true}},
		{{kind: "group", name: 0, action: 0}, {kind: "act", ak: 0, id: 2, st: 2, herr: true}, {kind: "act", ak: 0, id: 4, st: 1, herr: true},
			{kind: "act", ak: 0, id: 5, st: 3}, {kind: "group", name: 0, action: 0, fin: true}},
		{},
		{{kind: "init"}},
		// only skipped objects: no error
		{{kind: "init", groups: [][2]int{{0, 0}}}, {kind: "group", name: 0, action: 0}, {kind: "act", ak: 0, id: 0, st: 2, herr: true},
			{kind: "group", name: 0, action: 0, fin: true}},
		// a single timeout
		{{kind: "init", groups: [][2]int{{0, 3}}}, {kind: "group", name: 0, action: 3}, {kind: "wait", id: 1, st: 0},
			{kind: "wait", id: 1, st: 3}, {kind: "group", name: 0, action: 3, fin: true}},
		// a single reconcile failure
		{{kind: "group", name: 0, action: 3}, {kind: "wait", id: 1, st: 4}, {kind: "group", name: 0, action: 3, fin: true}},
		// failed delete, then error event
		{{kind: "act", ak: 2, id: 2, st: 3, herr: true}, {kind: "error", nonnil: true}, {kind: "act", ak: 2, id: 3, st: 1}},
		// counters are cumulative over two apply groups
		{{kind: "group", name: 0, action: 0}, {kind: "act", ak: 0, id: 0, st: 1}, {kind: "group", name: 0, action: 0, fin: true},
			{kind: "group", name: 1, action: 0}, {kind: "act", ak: 0, id: 1, st: 3, herr: true}, {kind: "group", name: 1, action: 0, fin: true}},
		// validation event without identifiers; nil error; pending actuation
		{{kind: "validation"}, {kind: "act", ak: 0, id: 0, st: 1}},
		{{kind: "act", ak: 0, id: 0, st: 3, herr: true}, {kind: "error", nonnil: false}},
		{{kind: "act", ak: 1, id: 0, st: 1}, {kind: "act", ak: 1, id: 1, st: 0}, {kind: "act", ak: 1, id: 2, st: 1}},
	}
}

// Run generates and executes the C20 cases.
func Run(seed int64, tier, outDir string) (*emit.Summary, error) {
	r := rand.New(rand.NewSource(seed))
	sum := emit.NewSummary("C20", seed, tier)
	g := &gen{r: r, sum: sum}
	nWF, nMal := 1400, 600
	if tier == "thorough" {
		nWF, nMal = 14000, 6000
	}
	var streams [][]mev
	streams = append(streams, corpus()...)
	for i := 0; i < nWF; i++ {
		streams = append(streams, g.wellFormed())
	}
	nGrammar := len(streams)
	for i := 0; i < nMal; i++ {
		streams = append(streams, g.malformed())
	}
	const perFile = 350
	var cf *emit.CaseFile
	var terms []string
	var nontr []bool
	var sample string
	for i, es := range streams {
		if i%perFile == 0 {
			if cf != nil {
				if err := cf.Write(outDir, sum); err != nil {
					return nil, err
				}
			}
			cf = &emit.CaseFile{Name: fmt.Sprintf("Cases_C20_print%d", i/perFile),
				Imports: "From CliUtils Require Import Model.Stats Model.Printer Corr.CorrC20.", Check: "check_print"}
		}
		ps := r.Intn(2) == 0
		lines, allJSON, res, raw := runPrinter(es, ps)
		var et []string
		for _, e := range es {
			et = append(et, e.coq())
		}
		term := emit.App("PCase", emit.Bool(ps), emit.List(et), emit.List(lines), emit.Bool(allJSON), results[res])
		text := fmt.Sprintf("printStatus=%v events=%s => %s lines=%s", ps, emit.List(et), results[res], emit.List(lines))
		if !allJSON {
			text += " RAW=" + raw
		}
		cf.Add(term, text)
		terms = append(terms, term)
		nontr = append(nontr, len(lines) > 2)
		sum.Count("result:" + results[res])
		if i < nGrammar {
			sum.Count("stream:grammar")
		} else {
			sum.Count("stream:malformed")
		}
		sum.Count(fmt.Sprintf("lines:%s", bucket(len(lines))))
		if i == len(corpus())+3 {
			sample = text
		}
	}
	if cf != nil {
		if err := cf.Write(outDir, sum); err != nil {
			return nil, err
		}
	}
	sum.Evaluations = len(terms)
	sum.DistinctNontrivial = emit.Distinct(terms, nontr)
	sum.Rule = "streams from the event grammar (validation* init groups [error]; apply and destroy plans; every actuation and reconcile outcome; " +
		"with/without status events; error event cutting the run anywhere) plus a malformed stream (any order, stopping events, events after an error); " +
		"status printing on/off at random; non-trivial = more than two output lines; distinct = distinct Coq case terms"
	sum.Samples = []any{sample}
	keys := make([]string, 0, len(sum.Distribution))
	for k := range sum.Distribution {
		keys = append(keys, k)
	}
	sort.Strings(keys)
	return sum, nil
}

func bucket(n int) string {
	switch {
	case n == 0:
		return "0"
	case n <= 5:
		return "1-5"
	case n <= 20:
		return "6-20"
	}
	return ">20"
}
