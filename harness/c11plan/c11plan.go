// Package c11plan is a supplementary, plan-level stream for C11: object sets
// whose depends-on AND apply-time-mutation annotations are valid, malformed,
// duplicated or external, through the real graph.DependencyGraph, Graph.Sort
// and validation.Collector.  The pipeline model does not contain apply-time
// mutation, so this stream has no model side: the Coq check evaluates the
// property ("every object with a bad dependency reference is invalid and named
// by a validation error; nothing else is") on the implementation's output.
package c11plan

import (
	"fmt"
	"math/rand"
	"sort"
	"strings"

	"k8s.io/apimachinery/pkg/apis/meta/v1/unstructured"
	"sigs.k8s.io/cli-utils/pkg/object"
	"sigs.k8s.io/cli-utils/pkg/object/dependson"
	"sigs.k8s.io/cli-utils/pkg/object/graph"
	"sigs.k8s.io/cli-utils/pkg/object/mutation"
	"sigs.k8s.io/cli-utils/pkg/object/validation"
	"verifharness/emit"
)

type spec struct {
	dep  string // none | ok | external | malformed | duplicate
	mut  string // none | ok | external | malformed
	deps []int
	srcs []int
}

func mk(i int) *unstructured.Unstructured {
	return &unstructured.Unstructured{Object: map[string]interface{}{
		"apiVersion": "v1", "kind": "ConfigMap",
		"metadata": map[string]interface{}{"name": fmt.Sprintf("cm-%d", i), "namespace": "ns"},
	}}
}

func idOf(i int) object.ObjMetadata { return object.UnstructuredToObjMetadata(mk(i)) }

func build(i int, s spec) *unstructured.Unstructured {
	u := mk(i)
	ann := map[string]string{}
	switch s.dep {
	case "ok", "external", "duplicate":
		var set dependson.DependencySet
		for _, d := range s.deps {
			set = append(set, idOf(d))
		}
		str, err := dependson.FormatDependencySet(set)
		if err != nil {
			panic(err)
		}
		ann[dependson.Annotation] = str
	case "malformed":
		ann[dependson.Annotation] = "not/a/valid/reference/at/all/x"
	}
	switch s.mut {
	case "ok", "external":
		var m mutation.ApplyTimeMutation
		for k, src := range s.srcs {
			m = append(m, mutation.FieldSubstitution{
				SourceRef:  mutation.ResourceReferenceFromObjMetadata(idOf(src)),
				SourcePath: "$.data.k", TargetPath: fmt.Sprintf("$.data.t%d", k),
			})
		}
		u.SetAnnotations(ann)
		if err := mutation.WriteAnnotation(u, m); err != nil {
			panic(err)
		}
		ann = u.GetAnnotations()
	case "malformed":
		ann[mutation.Annotation] = "{{ not yaml"
	}
	if len(ann) > 0 {
		u.SetAnnotations(ann)
	}
	return u
}

func gen(r *rand.Rand, n int) []spec {
	out := make([]spec, n)
	for i := range out {
		s := spec{dep: "none", mut: "none"}
		lower := func() []int { // acyclic: references only to lower indices
			var l []int
			for j := 0; j < i; j++ {
				if r.Intn(3) == 0 {
					l = append(l, j)
				}
			}
			return l
		}
		switch k := r.Intn(10); {
		case k < 3:
			s.deps = lower()
			if len(s.deps) > 0 {
				s.dep = "ok"
			}
		case k == 3:
			s.dep, s.deps = "external", append(lower(), 90+r.Intn(3))
		case k == 4:
			s.dep = "malformed"
		case k == 5 && i > 0:
			d := r.Intn(i)
			s.dep, s.deps = "duplicate", []int{d, d}
		}
		switch k := r.Intn(10); {
		case k < 2:
			s.srcs = lower()
			if len(s.srcs) > 0 {
				s.mut = "ok"
			}
		case k == 2:
			s.mut, s.srcs = "external", append(lower(), 95+r.Intn(3))
		case k == 3:
			s.mut = "malformed"
		}
		out[i] = s
	}
	return out
}

func ints(l []int) string {
	sort.Ints(l)
	return emit.NatList(l)
}

// AddCases appends the plan-level cases to the summary (one more case file).
func AddCases(sum *emit.Summary, seed int64, tier, outDir string) error {
	r := rand.New(rand.NewSource(seed*7919 + 11))
	cf := &emit.CaseFile{Name: "Cases_C11_plan", Imports: "From CliUtils Require Import Corr.CorrC11Plan.", Check: "check_plan"}
	n := 250
	if tier == "thorough" {
		n = 2500
	}
	// corpus: a bad depends-on on one object and a bad mutation source on another (former miss)
	corpus := [][]spec{
		{{dep: "none", mut: "none"}, {dep: "external", mut: "none", deps: []int{90}}, {dep: "none", mut: "external", srcs: []int{95}}},
		{{dep: "malformed", mut: "none"}, {dep: "none", mut: "malformed"}, {dep: "none", mut: "none"}},
	}
	for c := 0; c < n+len(corpus); c++ {
		var specs []spec
		if c < len(corpus) {
			specs = corpus[c]
		} else {
			specs = gen(r, 2+r.Intn(5))
		}
		var objs object.UnstructuredSet
		var bad []int
		var txt []string
		for i, s := range specs {
			objs = append(objs, build(i, s))
			if s.dep == "external" || s.dep == "malformed" || s.dep == "duplicate" || s.mut == "external" || s.mut == "malformed" {
				bad = append(bad, i)
			}
			txt = append(txt, fmt.Sprintf("%d:dep=%s%v,mut=%s%v", i, s.dep, s.deps, s.mut, s.srcs))
			sum.Count("plan:dep=" + s.dep)
			sum.Count("plan:mut=" + s.mut)
		}
		panicked := false
		var invalid, named []int
		func() {
			defer func() {
				if e := recover(); e != nil {
					panicked = true
				}
			}()
			col := &validation.Collector{}
			g, err := graph.DependencyGraph(objs)
			if err != nil {
				col.Collect(err)
			}
			if _, err := g.Sort(); err != nil {
				col.Collect(err)
			}
			idx := func(id object.ObjMetadata) int {
				for i := range specs {
					if idOf(i) == id {
						return i
					}
				}
				return 99
			}
			seen := map[int]bool{}
			for _, id := range col.InvalidIds {
				if !seen[idx(id)] {
					seen[idx(id)] = true
					invalid = append(invalid, idx(id))
				}
			}
			seenN := map[int]bool{}
			for _, e := range col.Errors {
				if ve, ok := e.(*validation.Error); ok {
					for _, id := range ve.Identifiers() {
						if !seenN[idx(id)] {
							seenN[idx(id)] = true
							named = append(named, idx(id))
						}
					}
				}
			}
		}()
		term := emit.App("PCase", emit.Nat(len(specs)), ints(bad), ints(invalid), ints(named), emit.Bool(panicked))
		cf.Add(term, fmt.Sprintf("plan %s -> invalid=%v named=%v", strings.Join(txt, " "), invalid, named))
	}
	sum.Evaluations += len(cf.Cases)
	sum.DistinctNontrivial += emit.Distinct(cf.Cases, func() []bool {
		b := make([]bool, len(cf.Cases))
		for i := range b {
			b[i] = true
		}
		return b
	}())
	sum.Extra["plan_stream"] = "supplementary plan-level stream (depends-on and apply-time-mutation annotations through graph.DependencyGraph + validation.Collector); monitor only, no model side"
	return cf.Write(outDir, sum)
}
