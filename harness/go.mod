module verifharness

go 1.23

require (
	gopkg.in/evanphx/json-patch.v4 v4.12.0
	k8s.io/apimachinery v0.31.1
	k8s.io/cli-runtime v0.31.1
	k8s.io/client-go v0.31.1
	k8s.io/klog/v2 v2.130.1
	k8s.io/kubectl v0.31.1
	sigs.k8s.io/cli-utils v0.0.0
	sigs.k8s.io/controller-runtime v0.19.0
	sigs.k8s.io/yaml v1.4.0
)

require (
	github.com/MakeNowJust/heredoc v1.0.0 // indirect
	github.com/blang/semver/v4 v4.0.0 // indirect
	github.com/chai2010/gettext-go v1.0.2 // indirect
	github.com/davecgh/go-spew v1.1.2-0.20180830191138-d8f796af33cc // indirect
	github.com/emicklei/go-restful/v3 v3.11.0 // indirect
	github.com/evanphx/json-patch/v5 v5.9.0 // indirect
	github.com/exponent-io/jsonpath v0.0.0-20151013193312-d6023ce2651d // indirect
	github.com/fatih/camelcase v1.0.0 // indirect
	github.com/fxamacker/cbor/v2 v2.7.0 // indirect
	github.com/go-errors/errors v1.4.2 // indirect
	github.com/go-logr/logr v1.4.2 // indirect
	github.com/go-openapi/jsonpointer v0.19.6 // indirect
	github.com/go-openapi/jsonreference v0.20.2 // indirect
	github.com/go-openapi/swag v0.22.4 // indirect
	github.com/gogo/protobuf v1.3.2 // indirect
	github.com/golang/protobuf v1.5.4 // indirect
	github.com/google/btree v1.0.1 // indirect
	github.com/google/gnostic-models v0.6.8 // indirect
	github.com/google/go-cmp v0.6.0 // indirect
	github.com/google/gofuzz v1.2.0 // indirect
	github.com/google/shlex v0.0.0-20191202100458-e7afc7fbc510 // indirect
	github.com/google/uuid v1.6.0 // indirect
	github.com/gorilla/websocket v1.5.0 // indirect
	github.com/gregjones/httpcache v0.0.0-20180305231024-9cad4c3443a7 // indirect
	github.com/imdario/mergo v0.3.13 // indirect
	github.com/jonboulle/clockwork v0.2.2 // indirect
	github.com/josharian/intern v1.0.0 // indirect
	github.com/json-iterator/go v1.1.12 // indirect
	github.com/liggitt/tabwriter v0.0.0-20181228230101-89fcab3d43de // indirect
	github.com/mailru/easyjson v0.7.7 // indirect
	github.com/mitchellh/go-wordwrap v1.0.1 // indirect
	github.com/moby/spdystream v0.4.0 // indirect
	github.com/moby/term v0.5.0 // indirect
	github.com/modern-go/concurrent v0.0.0-20180306012644-bacd9c7ef1dd // indirect
	github.com/modern-go/reflect2 v1.0.2 // indirect
	github.com/monochromegane/go-gitignore v0.0.0-20200626010858-205db1a8cc00 // indirect
	github.com/munnerz/goautoneg v0.0.0-20191010083416-a7dc8b61c822 // indirect
	github.com/mxk/go-flowrate v0.0.0-20140419014527-cca7078d478f // indirect
	github.com/onsi/gomega v1.34.2 // indirect
	github.com/peterbourgon/diskv v2.0.1+incompatible // indirect
	github.com/pkg/errors v0.9.1 // indirect
	github.com/pmezard/go-difflib v1.0.1-0.20181226105442-5d4384ee4fb2 // indirect
	github.com/russross/blackfriday/v2 v2.1.0 // indirect
	github.com/spf13/cobra v1.8.1 // indirect
	github.com/spf13/pflag v1.0.5 // indirect
	github.com/spyzhov/ajson v0.9.4 // indirect
	github.com/stretchr/testify v1.9.0 // indirect
	github.com/x448/float16 v0.8.4 // indirect
	github.com/xlab/treeprint v1.2.0 // indirect
	go.starlark.net v0.0.0-20230525235612-a134d8f9ddca // indirect
	golang.org/x/net v0.28.0 // indirect
	golang.org/x/oauth2 v0.21.0 // indirect
	golang.org/x/sync v0.8.0 // indirect
	golang.org/x/sys v0.24.0 // indirect
	golang.org/x/term v0.23.0 // indirect
	golang.org/x/text v0.17.0 // indirect
	golang.org/x/time v0.3.0 // indirect
	google.golang.org/protobuf v1.34.2 // indirect
	gopkg.in/inf.v0 v0.9.1 // indirect
	gopkg.in/yaml.v2 v2.4.0 // indirect
	gopkg.in/yaml.v3 v3.0.1 // indirect
	k8s.io/api v0.31.1 // indirect
	k8s.io/component-base v0.31.1 // indirect
	k8s.io/kube-openapi v0.0.0-20240228011516-70dd3763d340 // indirect
	k8s.io/utils v0.0.0-20240711033017-18e509b52bc8 // indirect
	sigs.k8s.io/json v0.0.0-20221116044647-bc3834ca7abd // indirect
	sigs.k8s.io/kustomize/api v0.17.2 // indirect
	sigs.k8s.io/kustomize/kyaml v0.17.2 // indirect
	sigs.k8s.io/structured-merge-diff/v4 v4.4.1 // indirect
)

replace sigs.k8s.io/cli-utils => /repo
