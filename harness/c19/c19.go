// Package c19 drives the real ObjMetadataSet operations and inventory.Manager
// and writes the observations as Coq cases.
package c19

import (
	"fmt"
	"math/rand"
	"sort"
	"strconv"
	"strings"

	"k8s.io/apimachinery/pkg/runtime/schema"
	"k8s.io/apimachinery/pkg/types"
	"sigs.k8s.io/cli-utils/pkg/apis/actuation"
	"sigs.k8s.io/cli-utils/pkg/inventory"
	"sigs.k8s.io/cli-utils/pkg/object"
	"verifharness/emit"
)

// universe of identifiers; index = the nat used in the Coq cases
var universe = []object.ObjMetadata{
	{Namespace: "ns1", Name: "a", GroupKind: schema.GroupKind{Group: "", Kind: "ConfigMap"}},
	{Namespace: "ns1", Name: "b", GroupKind: schema.GroupKind{Group: "apps", Kind: "Deployment"}},
	{Namespace: "", Name: "sys:role", GroupKind: schema.GroupKind{Group: "rbac.authorization.k8s.io", Kind: "ClusterRole"}},
	{Namespace: "ns2", Name: "a", GroupKind: schema.GroupKind{Group: "", Kind: "ConfigMap"}},
	{Namespace: "", Name: "ns1", GroupKind: schema.GroupKind{Group: "", Kind: "Namespace"}},
	// neighbours of id 0 that differ from it in exactly one field (a comparison that forgets a field merges them)
	{Namespace: "ns1", Name: "a", GroupKind: schema.GroupKind{Group: "example.io", Kind: "ConfigMap"}},
	{Namespace: "ns1", Name: "a", GroupKind: schema.GroupKind{Group: "", Kind: "Secret"}},
	{Namespace: "ns1", Name: "b", GroupKind: schema.GroupKind{Group: "", Kind: "ConfigMap"}},
}

func idx(id object.ObjMetadata) int {
	for i, u := range universe {
		if u == id {
			return i
		}
	}
	return 99
}

func toSet(l []int) object.ObjMetadataSet {
	if l == nil {
		return nil
	}
	s := make(object.ObjMetadataSet, len(l))
	for i, k := range l {
		s[i] = universe[k]
	}
	return s
}

func fromSet(s object.ObjMetadataSet) []int {
	o := make([]int, len(s))
	for i, id := range s {
		o[i] = idx(id)
	}
	return o
}

func sameInts(a, b []int) bool {
	if len(a) != len(b) {
		return false
	}
	for i := range a {
		if a[i] != b[i] {
			return false
		}
	}
	return true
}

// all lists over {0..k-1} of length <= n
func allLists(k, n int) [][]int {
	out := [][]int{{}}
	frontier := [][]int{{}}
	for l := 1; l <= n; l++ {
		var next [][]int
		for _, p := range frontier {
			for x := 0; x < k; x++ {
				q := append(append([]int{}, p...), x)
				next = append(next, q)
			}
		}
		out = append(out, next...)
		frontier = next
	}
	return out
}

func randList(r *rand.Rand, k, maxLen int) []int {
	n := r.Intn(maxLen + 1)
	l := make([]int, n)
	for i := range l {
		l[i] = r.Intn(k)
	}
	return l
}

func guard(f func()) (panicked bool) {
	defer func() {
		if e := recover(); e != nil {
			panicked = true
		}
	}()
	f()
	return false
}

type setCases struct {
	cf    *emit.CaseFile
	sum   *emit.Summary
	terms []string
	nontr []bool
}

func (sc *setCases) add(term, text string, nontrivial bool, kind string) {
	sc.cf.Add(term, text)
	sc.terms = append(sc.terms, term)
	sc.nontr = append(sc.nontr, nontrivial)
	sc.sum.Count("set:" + kind)
}

// runPair executes every binary operation on (a, b) and records results plus
// whether the operands were left untouched.
func (sc *setCases) runPair(a, b []int) {
	nontriv := len(a)+len(b) > 0
	type binop struct {
		name string
		f    func(x, y object.ObjMetadataSet) object.ObjMetadataSet
	}
	ops := []binop{
		{"SUnion", func(x, y object.ObjMetadataSet) object.ObjMetadataSet { return x.Union(y) }},
		{"SInter", func(x, y object.ObjMetadataSet) object.ObjMetadataSet { return x.Intersection(y) }},
		{"SDiff", func(x, y object.ObjMetadataSet) object.ObjMetadataSet { return x.Diff(y) }},
	}
	for _, op := range ops {
		x, y := toSet(a), toSet(b)
		var out object.ObjMetadataSet
		p := guard(func() { out = op.f(x, y) })
		unchanged := sameInts(fromSet(x), a) && sameInts(fromSet(y), b)
		term := emit.App(op.name, emit.NatList(a), emit.NatList(b), emit.NatList(fromSet(out)), emit.Bool(unchanged), emit.Bool(p))
		sc.add(term, fmt.Sprintf("%s a=%v b=%v -> %v unchanged=%v panic=%v", op.name, a, b, fromSet(out), unchanged, p), nontriv, op.name)
	}
	{
		x, y := toSet(a), toSet(b)
		var out, out2 bool
		p := guard(func() { out = x.Equal(y); out2 = object.ObjMetadataSetEquals(x, y) })
		unchanged := sameInts(fromSet(x), a) && sameInts(fromSet(y), b)
		term := emit.App("SEqual", emit.NatList(a), emit.NatList(b), emit.Bool(out), emit.Bool(out2), emit.Bool(unchanged), emit.Bool(p))
		sc.add(term, fmt.Sprintf("SEqual a=%v b=%v -> %v/%v", a, b, out, out2), nontriv, "SEqual")
	}
	{
		x, y := toSet(a), toSet(b)
		var ha, hb string
		p := guard(func() { ha = x.Hash(); hb = y.Hash() })
		unchanged := sameInts(fromSet(x), a) && sameInts(fromSet(y), b)
		na, _ := strconv.ParseUint(ha, 16, 64)
		nb, _ := strconv.ParseUint(hb, 16, 64)
		term := emit.App("SHash", emit.NatList(a), emit.NatList(b), emit.N(na), emit.N(nb), emit.Bool(unchanged), emit.Bool(p))
		sc.add(term, fmt.Sprintf("SHash a=%v b=%v -> %s %s", a, b, ha, hb), nontriv, "SHash")
	}
}

func (sc *setCases) runUnary(a []int, xid int) {
	nontriv := len(a) > 0
	{
		x := toSet(a)
		var out bool
		p := guard(func() { out = x.Contains(universe[xid]) })
		unchanged := sameInts(fromSet(x), a)
		term := emit.App("SContains", emit.NatList(a), emit.Nat(xid), emit.Bool(out), emit.Bool(unchanged), emit.Bool(p))
		sc.add(term, fmt.Sprintf("SContains a=%v x=%d -> %v", a, xid, out), nontriv, "SContains")
	}
	{
		x := toSet(a)
		var out object.ObjMetadataSet
		p := guard(func() { out = x.Unique() })
		unchanged := sameInts(fromSet(x), a)
		o := fromSet(out)
		sort.Ints(o) // Go map iteration order is unspecified: compared as a sorted list
		term := emit.App("SUnique", emit.NatList(a), emit.NatList(o), emit.Bool(unchanged), emit.Bool(p))
		sc.add(term, fmt.Sprintf("SUnique a=%v -> %v", a, o), nontriv, "SUnique")
	}
	{
		x := toSet(a)
		var out object.ObjMetadataSet
		p := guard(func() { out = x.Remove(universe[xid]) })
		term := emit.App("SRemove", emit.NatList(a), emit.Nat(xid), emit.NatList(fromSet(out)), emit.Bool(p))
		sc.add(term, fmt.Sprintf("SRemove a=%v x=%d -> %v", a, xid, fromSet(out)), nontriv, "SRemove")
	}
	{
		// ToStringMap / FromStringMap round trip as a set
		x := toSet(a)
		var out object.ObjMetadataSet
		var err error
		p := guard(func() { out, err = object.FromStringMap(x.ToStringMap()) })
		o := fromSet(out)
		sort.Ints(o)
		unchanged := sameInts(fromSet(x), a)
		term := emit.App("SStringMap", emit.NatList(a), emit.NatList(o), emit.Bool(err != nil), emit.Bool(unchanged), emit.Bool(p))
		sc.add(term, fmt.Sprintf("SStringMap a=%v -> %v err=%v", a, o, err), nontriv, "SStringMap")
	}
}

// ---- Manager ---------------------------------------------------------------

var strategies = []string{"SApply", "SDelete"}
var actuations = []string{"APending", "ASucceeded", "ASkipped", "AFailed"}
var reconciles = []string{"RPending", "RSucceeded", "RSkipped", "RFailed", "RTimeout"}

func uidStr(u uint64) types.UID {
	if u == 0 {
		return ""
	}
	return types.UID(fmt.Sprintf("u%d", u))
}
func uidNum(u types.UID) uint64 {
	if u == "" {
		return 0
	}
	n, err := strconv.ParseUint(strings.TrimPrefix(string(u), "u"), 10, 64)
	if err != nil {
		return 999999
	}
	return n
}

type mop struct {
	kind string
	id   int
	s, a int // strategy, actuation
	r    int // reconcile
	uid  uint64
	gen  int64
}

func (o mop) coq() string {
	switch o.kind {
	case "OpAdd":
		return emit.App("OpAdd", emit.Nat(o.id), strategies[o.s], actuations[o.a], emit.N(o.uid), emit.Z(o.gen))
	case "OpSetRec":
		return emit.App("OpSetRec", emit.Nat(o.id), reconciles[o.r])
	case "OpIsAct":
		return emit.App("OpIsAct", emit.Nat(o.id), strategies[o.s], actuations[o.a])
	case "OpIsRec":
		return emit.App("OpIsRec", emit.Nat(o.id), reconciles[o.r])
	case "OpListAct":
		return emit.App("OpListAct", strategies[o.s], actuations[o.a])
	case "OpListRec":
		return emit.App("OpListRec", reconciles[o.r])
	case "OpUid", "OpGen", "OpStatus":
		return emit.App(o.kind, emit.Nat(o.id))
	case "OpUids":
		return "(@OpUids nat)"
	}
	panic("bad op")
}

// tablePerm maps the model's table ids 0..n-1 (plain nats on the Coq side) to universe
// entries; redrawn per sequence so that every pair of universe ids (in particular ids that
// differ in one field only) meets in some table.
var tablePerm = []int{0, 1, 2, 3, 4, 5, 6, 7}

func genOp(r *rand.Rand, nIDs int) mop {
	o := mop{id: r.Intn(nIDs), s: r.Intn(2), a: r.Intn(4), r: r.Intn(5)}
	switch k := r.Intn(20); {
	case k < 6:
		o.kind = "OpAdd"
		if o.a == 1 { // succeeded: carries a uid (and a generation for applies)
			o.uid = uint64(r.Intn(4)) // 0 = empty uid
			if o.s == 0 {
				o.gen = int64(r.Intn(5)) - 1
			}
		}
	case k < 9:
		o.kind = "OpSetRec"
	case k < 11:
		o.kind = "OpIsAct"
	case k < 13:
		o.kind = "OpIsRec"
	case k < 15:
		o.kind = "OpListAct"
	case k < 16:
		o.kind = "OpListRec"
	case k < 17:
		o.kind = "OpUid"
	case k < 18:
		o.kind = "OpGen"
	case k < 19:
		o.kind = "OpUids"
	default:
		o.kind = "OpStatus"
	}
	return o
}

func execOp(m *inventory.Manager, o mop) (res string) {
	defer func() {
		if e := recover(); e != nil {
			res = "(@ObPanic nat)"
		}
	}()
	id := universe[tablePerm[o.id]]
	ids := func(s object.ObjMetadataSet) string {
		l := fromSet(s)
		for i, k := range l { // back to the model's ids
			for m, u := range tablePerm {
				if u == k {
					l[i] = m
				}
			}
		}
		return emit.App("ObIds", emit.NatList(l))
	}
	switch o.kind {
	case "OpAdd":
		switch [2]int{o.s, o.a} {
		case [2]int{0, 0}:
			m.AddPendingApply(id)
		case [2]int{0, 1}:
			m.AddSuccessfulApply(id, uidStr(o.uid), o.gen)
		case [2]int{0, 2}:
			m.AddSkippedApply(id)
		case [2]int{0, 3}:
			m.AddFailedApply(id)
		case [2]int{1, 0}:
			m.AddPendingDelete(id)
		case [2]int{1, 1}:
			m.AddSuccessfulDelete(id, uidStr(o.uid))
		case [2]int{1, 2}:
			m.AddSkippedDelete(id)
		case [2]int{1, 3}:
			m.AddFailedDelete(id)
		}
		return "(@ObUnit nat)"
	case "OpSetRec":
		var err error
		switch o.r {
		case 0:
			err = m.SetPendingReconcile(id)
		case 1:
			err = m.SetSuccessfulReconcile(id)
		case 2:
			err = m.SetSkippedReconcile(id)
		case 3:
			err = m.SetFailedReconcile(id)
		case 4:
			err = m.SetTimeoutReconcile(id)
		}
		return emit.App("@ObErr nat", emit.Bool(err != nil))
	case "OpIsAct":
		var b bool
		switch [2]int{o.s, o.a} {
		case [2]int{0, 0}:
			b = m.IsPendingApply(id)
		case [2]int{0, 1}:
			b = m.IsSuccessfulApply(id)
		case [2]int{0, 2}:
			b = m.IsSkippedApply(id)
		case [2]int{0, 3}:
			b = m.IsFailedApply(id)
		case [2]int{1, 0}:
			b = m.IsPendingDelete(id)
		case [2]int{1, 1}:
			b = m.IsSuccessfulDelete(id)
		case [2]int{1, 2}:
			b = m.IsSkippedDelete(id)
		case [2]int{1, 3}:
			b = m.IsFailedDelete(id)
		}
		return emit.App("@ObBool nat", emit.Bool(b))
	case "OpIsRec":
		var b bool
		switch o.r {
		case 0:
			b = m.IsPendingReconcile(id)
		case 1:
			b = m.IsSuccessfulReconcile(id)
		case 2:
			b = m.IsSkippedReconcile(id)
		case 3:
			b = m.IsFailedReconcile(id)
		case 4:
			b = m.IsTimeoutReconcile(id)
		}
		return emit.App("@ObBool nat", emit.Bool(b))
	case "OpListAct":
		switch [2]int{o.s, o.a} {
		case [2]int{0, 0}:
			return ids(m.PendingApplies())
		case [2]int{0, 1}:
			return ids(m.SuccessfulApplies())
		case [2]int{0, 2}:
			return ids(m.SkippedApplies())
		case [2]int{0, 3}:
			return ids(m.FailedApplies())
		case [2]int{1, 0}:
			return ids(m.PendingDeletes())
		case [2]int{1, 1}:
			return ids(m.SuccessfulDeletes())
		case [2]int{1, 2}:
			return ids(m.SkippedDeletes())
		case [2]int{1, 3}:
			return ids(m.FailedDeletes())
		}
	case "OpListRec":
		switch o.r {
		case 0:
			return ids(m.PendingReconciles())
		case 1:
			return ids(m.SuccessfulReconciles())
		case 2:
			return ids(m.SkippedReconciles())
		case 3:
			return ids(m.FailedReconciles())
		case 4:
			return ids(m.TimeoutReconciles())
		}
	case "OpUid":
		u, ok := m.AppliedResourceUID(id)
		return emit.App("@ObUid nat", emit.N(uidNum(u)), emit.Bool(ok))
	case "OpGen":
		g, ok := m.AppliedGeneration(id)
		return emit.App("@ObGen nat", emit.Z(g), emit.Bool(ok))
	case "OpUids":
		set := m.AppliedResourceUIDs()
		var l []uint64
		for _, s := range set.List() {
			l = append(l, uidNum(types.UID(s)))
		}
		sort.Slice(l, func(i, j int) bool { return l[i] < l[j] })
		return emit.App("@ObUids nat", emit.NList(l))
	case "OpStatus":
		st, found := m.ObjectStatus(id)
		if !found {
			return "(@ObStatus nat false SApply APending RPending 0%N 0%Z)"
		}
		return emit.App("@ObStatus nat", "true", strategies[int(st.Strategy)], actuations[int(st.Actuation)],
			reconciles[int(st.Reconcile)], emit.N(uidNum(st.UID)), emit.Z(st.Generation))
	}
	panic("bad op")
}

var _ = actuation.ActuationPending

// Run generates and executes the C19 cases.
func Run(seed int64, tier, outDir string) (*emit.Summary, error) {
	r := rand.New(rand.NewSource(seed))
	sum := emit.NewSummary("C19", seed, tier)
	// string table of the universe for the hash model
	var tab []string
	for i, u := range universe {
		tab = append(tab, fmt.Sprintf("(%d, %s)", i, emit.Str(u.String())))
	}
	sets := &setCases{cf: &emit.CaseFile{Name: "Cases_C19_sets",
		Imports: "From CliUtils Require Import Corr.CorrC19.",
		Prelude: "Definition strtab := " + emit.List(tab) + ".",
		Check:   "(check_set strtab)"}, sum: sum}
	// systematic part: every pair of lists of length <= 2 over 3 ids
	k, n := 3, 2
	randPairs, randLen, seqs, seqLen := 150, 6, 200, 30
	if tier == "thorough" {
		k, n = 3, 3
		randPairs, seqs, seqLen = 1500, 2000, 40
	}
	ls := allLists(k, n)
	for _, a := range ls {
		for _, b := range ls {
			sets.runPair(a, b)
		}
		for x := 0; x < k; x++ {
			sets.runUnary(a, x)
		}
	}
	for i := 0; i < randPairs; i++ {
		a, b := randList(r, len(universe), randLen), randList(r, len(universe), randLen)
		if r.Intn(8) == 0 {
			a = nil // nil slice, as callers often pass
		}
		sets.runPair(a, b)
		sets.runUnary(a, r.Intn(len(universe)))
	}
	sum.Extra["systematic_lists"] = fmt.Sprintf("all pairs of lists of length<=%d over %d ids (%d lists)", n, k, len(ls))
	if err := sets.cf.Write(outDir, sum); err != nil {
		return nil, err
	}

	// Manager op sequences
	tcf := &emit.CaseFile{Name: "Cases_C19_table",
		Imports: "From CliUtils Require Import Model.ActuationTable Corr.CorrC19.",
		Check:   "check_table"}
	var tterms []string
	var tnontr []bool
	// corpus: the former defect witness first (query the uid of a never recorded id)
	corpus := [][]mop{
		{{kind: "OpUid", id: 0}},
		{{kind: "OpAdd", id: 1, s: 0, a: 1, uid: 2, gen: 3}, {kind: "OpUid", id: 0}, {kind: "OpUid", id: 1}},
	}
	for i := 0; i < seqs+len(corpus); i++ {
		var ops []mop
		if i < len(corpus) {
			ops = corpus[i]
		} else {
			nIDs := 2 + r.Intn(3)
			ln := 1 + r.Intn(seqLen)
			tablePerm = r.Perm(len(universe))
			if r.Intn(3) == 0 { // the one-field neighbours of id 0 together
				tablePerm = append([]int{0, 5, 6, 7}, 1, 2, 3, 4)
				r.Shuffle(4, func(a, b int) { tablePerm[a], tablePerm[b] = tablePerm[b], tablePerm[a] })
			}
			for j := 0; j < ln; j++ {
				ops = append(ops, genOp(r, nIDs))
			}
		}
		m := inventory.NewManager()
		var opT, obT, txt []string
		adds, queries := 0, 0
		for _, o := range ops {
			res := execOp(m, o)
			opT = append(opT, o.coq())
			obT = append(obT, res)
			txt = append(txt, o.coq()+"=>"+res)
			if o.kind == "OpAdd" {
				adds++
			} else if o.kind != "OpSetRec" {
				queries++
			}
			sum.Count("table:" + o.kind)
		}
		term := "(" + emit.List(opT) + ", " + emit.List(obT) + ")"
		tcf.Add(term, fmt.Sprintf("table ids->universe %v: ", tablePerm)+strings.Join(txt, " ; "))
		tterms = append(tterms, term)
		tnontr = append(tnontr, adds > 0 && queries > 0)
	}
	if err := tcf.Write(outDir, sum); err != nil {
		return nil, err
	}
	sum.Evaluations = len(sets.terms) + len(tterms)
	sum.DistinctNontrivial = emit.Distinct(sets.terms, sets.nontr) + emit.Distinct(tterms, tnontr)
	sum.Rule = "sets: every pair of id lists up to the systematic length plus seeded random longer lists (with repeats, nil slices); " +
		"non-trivial = at least one operand non-empty; table: seeded random op sequences over 2-4 ids incl. never-recorded ids; " +
		"non-trivial = at least one Add and one query; distinct = distinct Coq case terms"
	sum.Samples = []any{sets.cf.Text[len(sets.cf.Text)/2], tcf.Text[len(tcf.Text)-1]}
	return sum, nil
}
