// Package c18 drives the real jsonpath.Get/Set and ApplyTimeMutator.Mutate on
// generated JSON-shaped objects and writes the observations as Coq cases.
package c18

import (
	"encoding/json"
	"fmt"
	"math"
	"math/big"
	"regexp"
	"sort"
	"strings"

	"verifharness/emit"
)

// TV mirrors the Coq type tv (Model/JsonPath.v). Go values are converted
// through their canonical JSON reading: a number whose JSON text is an integer
// literal is TInt (exact, arbitrary size), any other number is TFlt with the
// exact binary mantissa/exponent of the float64; object members sorted by key.
type TV struct {
	Kind int // 0 null 1 bool 2 int 3 float 4 string 5 array 6 object
	B    bool
	I    *big.Int
	M    int64
	E    int64
	S    string
	A    []TV
	K    []string
	V    []TV
}

func floatTV(f float64) TV {
	b, err := json.Marshal(f)
	if err != nil {
		panic(err)
	}
	txt := string(b)
	if !strings.ContainsAny(txt, ".eE") {
		i, ok := new(big.Int).SetString(txt, 10)
		if !ok {
			panic("bad int text " + txt)
		}
		return TV{Kind: 2, I: i}
	}
	frac, exp := math.Frexp(f)
	m := int64(frac * (1 << 53))
	e := int64(exp - 53)
	for m != 0 && m%2 == 0 {
		m /= 2
		e++
	}
	return TV{Kind: 3, M: m, E: e}
}

func ToTV(v interface{}) TV {
	switch x := v.(type) {
	case nil:
		return TV{Kind: 0}
	case bool:
		return TV{Kind: 1, B: x}
	case int:
		return TV{Kind: 2, I: big.NewInt(int64(x))}
	case int64:
		return TV{Kind: 2, I: big.NewInt(x)}
	case uint64:
		return TV{Kind: 2, I: new(big.Int).SetUint64(x)}
	case float64:
		return floatTV(x)
	case string:
		return TV{Kind: 4, S: x}
	case []interface{}:
		t := TV{Kind: 5, A: make([]TV, len(x))}
		for i, e := range x {
			t.A[i] = ToTV(e)
		}
		return t
	case map[string]interface{}:
		keys := make([]string, 0, len(x))
		for k := range x {
			keys = append(keys, k)
		}
		sort.Strings(keys)
		t := TV{Kind: 6, K: keys, V: make([]TV, len(keys))}
		for i, k := range keys {
			t.V[i] = ToTV(x[k])
		}
		return t
	}
	panic(fmt.Sprintf("ToTV: unexpected Go type %T", v))
}

// cstr prints a Coq string term. Printable ASCII runs become literals; every
// other byte goes through bN with binary N numerals (emit.Str spells such
// strings as unary nat lists, which makes coqc spend seconds per case on the
// multi-line annotation texts).
func cstr(s string) string {
	plain := func(c byte) bool { return c >= 32 && c <= 126 }
	allPlain := true
	for i := 0; i < len(s); i++ {
		if !plain(s[i]) {
			allPlain = false
			break
		}
	}
	lit := func(x string) string { return "\"" + strings.ReplaceAll(x, "\"", "\"\"") + "\"%string" }
	if allPlain {
		return lit(s)
	}
	var parts []string
	i := 0
	for i < len(s) {
		j := i
		if plain(s[i]) {
			for j < len(s) && plain(s[j]) {
				j++
			}
			parts = append(parts, lit(s[i:j]))
		} else {
			var nums []string
			for j < len(s) && !plain(s[j]) {
				nums = append(nums, fmt.Sprintf("%d", s[j]))
				j++
			}
			parts = append(parts, "bN ["+strings.Join(nums, ";")+"]%N")
		}
		i = j
	}
	return "(sc [" + strings.Join(parts, "; ") + "])"
}

func bigZ(i *big.Int) string {
	if i.Sign() < 0 {
		return "(" + i.String() + ")%Z"
	}
	return i.String() + "%Z"
}

func (t TV) Coq() string {
	switch t.Kind {
	case 0:
		return "TNull"
	case 1:
		return emit.App("TBool", emit.Bool(t.B))
	case 2:
		return emit.App("TInt", bigZ(t.I))
	case 3:
		return emit.App("TFlt", emit.Z(t.M), emit.Z(t.E))
	case 4:
		return emit.App("TStr", cstr(t.S))
	case 5:
		items := make([]string, len(t.A))
		for i, e := range t.A {
			items[i] = e.Coq()
		}
		return emit.App("TArr", emit.List(items))
	default:
		items := make([]string, len(t.K))
		for i, k := range t.K {
			items[i] = "(" + cstr(k) + ", " + t.V[i].Coq() + ")"
		}
		return emit.App("TObj", emit.List(items))
	}
}

func TVList(l []TV) string {
	items := make([]string, len(l))
	for i, e := range l {
		items[i] = e.Coq()
	}
	return emit.List(items)
}

// Text is a compact JSON-like rendering for replay files.
func (t TV) Text() string {
	switch t.Kind {
	case 0:
		return "null"
	case 1:
		return fmt.Sprint(t.B)
	case 2:
		return t.I.String()
	case 3:
		return fmt.Sprintf("%d*2^%d", t.M, t.E)
	case 4:
		return fmt.Sprintf("%q", t.S)
	case 5:
		items := make([]string, len(t.A))
		for i, e := range t.A {
			items[i] = e.Text()
		}
		return "[" + strings.Join(items, ",") + "]"
	default:
		items := make([]string, len(t.K))
		for i, k := range t.K {
			items[i] = fmt.Sprintf("%q:%s", k, t.V[i].Text())
		}
		return "{" + strings.Join(items, ",") + "}"
	}
}

// ---- paths ------------------------------------------------------------------

type Seg struct {
	IsKey bool
	K     string
	N     int
}
type Path []Seg

var simpleKey = regexp.MustCompile(`^[A-Za-z_][A-Za-z0-9_]*$`)

// segText renders one segment in the syntax ajson accepts (probed): the dot
// form for plain identifiers, otherwise the single-quoted bracket form with
// backslash escapes. bracket=true forces the bracket form.
func segText(s Seg, bracket bool) string {
	if !s.IsKey {
		return fmt.Sprintf("[%d]", s.N)
	}
	if simpleKey.MatchString(s.K) && !bracket {
		return "." + s.K
	}
	k := strings.ReplaceAll(s.K, `\`, `\\`)
	k = strings.ReplaceAll(k, `'`, `\'`)
	return "['" + k + "']"
}

func (p Path) Text(bracket bool) string {
	var b strings.Builder
	b.WriteString("$")
	for _, s := range p {
		b.WriteString(segText(s, bracket))
	}
	return b.String()
}

func (p Path) Coq() string {
	items := make([]string, len(p))
	for i, s := range p {
		if s.IsKey {
			items[i] = emit.App("Key", cstr(s.K))
		} else {
			items[i] = emit.App("Idx", emit.Nat(s.N))
		}
	}
	return emit.List(items)
}

func (p Path) extend(s Seg) Path {
	q := make(Path, len(p)+1)
	copy(q, p)
	q[len(p)] = s
	return q
}

// allPaths lists the path of every node below the root.
func allPaths(v interface{}, prefix Path, out *[]Path) {
	switch x := v.(type) {
	case map[string]interface{}:
		keys := make([]string, 0, len(x))
		for k := range x {
			keys = append(keys, k)
		}
		sort.Strings(keys)
		for _, k := range keys {
			p := prefix.extend(Seg{IsKey: true, K: k})
			*out = append(*out, p)
			allPaths(x[k], p, out)
		}
	case []interface{}:
		for i, e := range x {
			p := prefix.extend(Seg{N: i})
			*out = append(*out, p)
			allPaths(e, p, out)
		}
	}
}

// navGo follows a path in a Go value (the harness' own oracle for tags and
// expected renderings; not used for verdicts).
func navGo(v interface{}, p Path) (interface{}, bool) {
	for _, s := range p {
		switch x := v.(type) {
		case map[string]interface{}:
			if !s.IsKey {
				return nil, false
			}
			c, ok := x[s.K]
			if !ok {
				return nil, false
			}
			v = c
		case []interface{}:
			if s.IsKey || s.N >= len(x) {
				return nil, false
			}
			v = x[s.N]
		default:
			return nil, false
		}
	}
	return v, true
}

func deepCopy(v interface{}) interface{} {
	switch x := v.(type) {
	case map[string]interface{}:
		m := make(map[string]interface{}, len(x))
		for k, e := range x {
			m[k] = deepCopy(e)
		}
		return m
	case []interface{}:
		l := make([]interface{}, len(x))
		for i, e := range x {
			l[i] = deepCopy(e)
		}
		return l
	}
	return v
}

// tags (informational, printed in the case text): character classes of the fixed codec defects
func scanTags(v interface{}, tags map[string]bool) {
	str := func(s string, key bool) {
		for _, r := range s {
			switch {
			case r == 0x85:
				tags["nel"] = true
			case r == 0x7f || (r >= 0x80 && r <= 0x9f) || r == 0xfffe || r == 0xffff:
				tags["ctrl"] = true
			}
		}
	}
	switch x := v.(type) {
	case string:
		str(x, false)
	case map[string]interface{}:
		for k, e := range x {
			str(k, true)
			scanTags(e, tags)
		}
	case []interface{}:
		for _, e := range x {
			scanTags(e, tags)
		}
	}
}

func tagText(tags map[string]bool) string {
	l := make([]string, 0, len(tags))
	for k := range tags {
		l = append(l, k)
	}
	sort.Strings(l)
	return "tags=[" + strings.Join(l, ",") + "]"
}
