package c18

import (
	"context"
	"encoding/json"
	"fmt"
	"io"
	"net/http"
	"sort"
	"strconv"
	"strings"
	"time"

	"k8s.io/apimachinery/pkg/api/meta"
	"k8s.io/apimachinery/pkg/api/meta/testrestmapper"
	"k8s.io/apimachinery/pkg/apis/meta/v1/unstructured"
	"k8s.io/apimachinery/pkg/runtime"
	"k8s.io/apimachinery/pkg/runtime/schema"
	"k8s.io/cli-runtime/pkg/resource"
	dynamicfake "k8s.io/client-go/dynamic/fake"
	"k8s.io/client-go/rest/fake"
	"k8s.io/kubectl/pkg/scheme"
	"sigs.k8s.io/cli-utils/pkg/apply/cache"
	"sigs.k8s.io/cli-utils/pkg/apply/event"
	"sigs.k8s.io/cli-utils/pkg/apply/info"
	"sigs.k8s.io/cli-utils/pkg/apply/mutator"
	"sigs.k8s.io/cli-utils/pkg/apply/task"
	"sigs.k8s.io/cli-utils/pkg/apply/taskrunner"
	"sigs.k8s.io/cli-utils/pkg/common"
	"sigs.k8s.io/cli-utils/pkg/jsonpath"
	"sigs.k8s.io/cli-utils/pkg/kstatus/status"
	"sigs.k8s.io/cli-utils/pkg/object"
	"sigs.k8s.io/cli-utils/pkg/object/mutation"
	"verifharness/emit"
)

type kindInfo struct {
	apiVersion, group, kind string
	namespaced, known       bool
}

var kinds = []kindInfo{
	{"v1", "", "ConfigMap", true, true},
	{"apps/v1", "apps", "Deployment", true, true},
	{"v1", "", "Service", true, true},
	{"rbac.authorization.k8s.io/v1", "rbac.authorization.k8s.io", "ClusterRole", false, true},
	{"v1", "", "Namespace", false, true},
	{"example.com/v1", "example.com", "Widget", true, false},
}

type refSpec struct {
	ki       kindInfo
	name, ns string
	useGroup bool // reference by Group instead of APIVersion
}

func (r refSpec) coq() string {
	return emit.App("mkRef", cstr(r.ki.group), cstr(r.ki.kind), cstr(r.name), cstr(r.ns))
}
func (r refSpec) text() string {
	return fmt.Sprintf("%s/%s/%s/%s", r.ki.group, r.ki.kind, r.ns, r.name)
}
func (r refSpec) goRef() mutation.ResourceReference {
	rr := mutation.ResourceReference{Kind: r.ki.kind, Name: r.name, Namespace: r.ns}
	if r.useGroup {
		rr.Group = r.ki.group
	} else {
		rr.APIVersion = r.ki.apiVersion
	}
	return rr
}

type pathSpec struct {
	opaque bool
	text   string
	p      Path
}

func (ps pathSpec) coq() string {
	if ps.opaque {
		return "MOpaque"
	}
	return emit.App("MPath", ps.p.Coq())
}

type subSpec struct {
	src          refSpec
	spath, tpath pathSpec
	token        string
	scenario     string
}

type srcSpec struct {
	ref   refSpec
	obj   *unstructured.Unstructured
	stale *unstructured.Unstructured
	where int // 0 cache(current) 1 cache(current)+cluster(stale) 2 cache(not current, stale)+cluster 3 cluster 4 nowhere 5 cache(not current) only
	// verDecoy (Deployments read from the cluster, referenced by apiVersion apps/v1 only): the other served
	// versions of the resource hold DIFFERENT content, so a lookup that ignores the version of the
	// reference reads the wrong object
	verDecoy bool
}

type mutRunner struct {
	sum    *emit.Summary
	mapper meta.RESTMapper
	nSent  int // succeeding mutations seen so far (every fourth also goes through ApplyTask)
}

func newMutRunner(sum *emit.Summary) (*mutRunner, error) {
	m := testrestmapper.TestOnlyStaticRESTMapper(scheme.Scheme, scheme.Scheme.PrioritizedVersionsAllGroups()...)
	return &mutRunner{sum: sum, mapper: m}, nil
}

func mkObj(r refSpec, payload map[string]interface{}) *unstructured.Unstructured {
	md := map[string]interface{}{"name": r.name}
	if r.ns != "" {
		md["namespace"] = r.ns
	}
	content := map[string]interface{}{"apiVersion": r.ki.apiVersion, "kind": r.ki.kind, "metadata": md}
	for k, v := range payload {
		content[k] = v
	}
	return &unstructured.Unstructured{Object: content}
}

// staleOf changes every string and integer leaf below the payload so that a
// lookup served from the wrong place is visible
func staleOf(v interface{}) interface{} {
	switch x := v.(type) {
	case map[string]interface{}:
		m := make(map[string]interface{}, len(x))
		for k, e := range x {
			m[k] = staleOf(e)
		}
		return m
	case []interface{}:
		l := make([]interface{}, len(x))
		for i, e := range x {
			l[i] = staleOf(e)
		}
		return l
	case string:
		return x + "~stale"
	case int64:
		return int64(7)
	}
	return v
}

func staleObj(o *unstructured.Unstructured) *unstructured.Unstructured {
	c := o.DeepCopy()
	for k, v := range c.Object {
		if k == "apiVersion" || k == "kind" || k == "metadata" {
			continue
		}
		c.Object[k] = staleOf(v)
	}
	return c
}

type countingRT struct{ n *int }

func (c countingRT) RoundTrip(req *http.Request) (*http.Response, error) {
	*c.n++
	return &http.Response{StatusCode: 500, Header: http.Header{"Content-Type": []string{"application/json"}},
		Body: io.NopCloser(strings.NewReader(`{"kind":"Status","apiVersion":"v1","status":"Failure","code":500}`))}, nil
}

// canonJSON: encoding/json with sorted keys; numbers as Go prints them (json.Number verbatim)
func canonJSON(v interface{}) string {
	b, err := json.Marshal(v)
	if err != nil {
		return "!" + err.Error()
	}
	return string(b)
}

// dropNulls removes null-valued map entries (the create path of kubectl apply does not transmit them;
// that is the library's serialisation, not the task's doing) — copies, the input is left alone
func dropNulls(v interface{}) interface{} {
	switch x := v.(type) {
	case map[string]interface{}:
		m := map[string]interface{}{}
		for k, e := range x {
			if e != nil {
				m[k] = dropNulls(e)
			}
		}
		return m
	case []interface{}:
		l := make([]interface{}, len(x))
		for i, e := range x {
			l[i] = dropNulls(e)
		}
		return l
	}
	return v
}

func firstDiff(a, b string) string {
	i := 0
	for i < len(a) && i < len(b) && a[i] == b[i] {
		i++
	}
	lo := i - 60
	if lo < 0 {
		lo = 0
	}
	return fmt.Sprintf("first difference at byte %d: sent=…%s want=…%s", i, clip(a[lo:], 160), clip(b[lo:], 160))
}

// creatingRT answers kubectl's client-side apply of a new object: GET 404, POST echoes and keeps the body.
type creatingRT struct {
	bodies *[][]byte
	other  *int
}

func (c creatingRT) RoundTrip(req *http.Request) (*http.Response, error) {
	hdr := http.Header{"Content-Type": []string{"application/json"}}
	switch req.Method {
	case http.MethodGet:
		return &http.Response{StatusCode: 404, Header: hdr,
			Body: io.NopCloser(strings.NewReader(`{"kind":"Status","apiVersion":"v1","status":"Failure","reason":"NotFound","code":404}`))}, nil
	case http.MethodPost:
		b, _ := io.ReadAll(req.Body)
		*c.bodies = append(*c.bodies, b)
		return &http.Response{StatusCode: 201, Header: hdr, Body: io.NopCloser(strings.NewReader(string(b)))}, nil
	}
	*c.other++
	return &http.Response{StatusCode: 500, Header: hdr,
		Body: io.NopCloser(strings.NewReader(`{"kind":"Status","apiVersion":"v1","status":"Failure","code":500}`))}, nil
}

// applySent runs the real ApplyTask on an object whose mutation succeeds and returns the object that
// reached the API server (mutation campaign, apply_task.go: the task must send the MUTATED copy, and the
// caller's manifest must stay as it was). ok=false: not exactly one create request / not one success event.
func (mr *mutRunner) applySent(tgt *unstructured.Unstructured, atm *mutator.ApplyTimeMutator, fdc *dynamicfake.FakeDynamicClient) (map[string]interface{}, string) {
	var bodies [][]byte
	other := 0
	ih := info.NewHelper(mr.mapper, func(*meta.RESTMapping) (resource.RESTClient, error) {
		return &fake.RESTClient{
			NegotiatedSerializer: resource.UnstructuredPlusDefaultContentConfig().NegotiatedSerializer,
			Client:               &http.Client{Transport: creatingRT{&bodies, &other}},
		}, nil
	})
	eventCh := make(chan event.Event, 64)
	tc := taskrunner.NewTaskContext(eventCh, cache.NewResourceCacheMap())
	at := &task.ApplyTask{
		TaskName:       "apply-0",
		DynamicClient:  fdc,
		InfoHelper:     ih,
		Mapper:         mr.mapper,
		Objects:        object.UnstructuredSet{tgt},
		Mutators:       []mutator.Interface{atm},
		DryRunStrategy: common.DryRunNone,
	}
	at.Start(tc)
	select {
	case <-tc.TaskChannel():
	case <-time.After(20 * time.Second):
		return nil, "ApplyTask did not finish within 20s"
	}
	okEv, otherEv := 0, 0
	for {
		select {
		case e := <-eventCh:
			if e.Type == event.ApplyType && e.ApplyEvent.Status == event.ApplySuccessful {
				okEv++
			} else {
				otherEv++
			}
			continue
		default:
		}
		break
	}
	if len(bodies) != 1 || other != 0 || okEv != 1 || otherEv != 0 {
		return nil, fmt.Sprintf("ApplyTask with a succeeding mutation: %d create requests, %d other requests, %d success events, %d other events", len(bodies), other, okEv, otherEv)
	}
	var sent map[string]interface{}
	dec := json.NewDecoder(strings.NewReader(string(bodies[0])))
	dec.UseNumber() // numbers are compared as written (2^53+1 must arrive as 2^53+1)
	if err := dec.Decode(&sent); err != nil {
		return nil, "ApplyTask sent a body that is not JSON"
	}
	if md, ok := sent["metadata"].(map[string]interface{}); ok {
		if an, ok := md["annotations"].(map[string]interface{}); ok {
			delete(an, "kubectl.kubernetes.io/last-applied-configuration")
			if len(an) == 0 {
				delete(md, "annotations")
			}
		}
	}
	return sent, ""
}

// env builds a fresh mutator over a fresh cache and fake cluster (Mutate
// writes to the cache, so every run gets its own)
func (mr *mutRunner) env(srcs []srcSpec, withCache bool) (*mutator.ApplyTimeMutator, *dynamicfake.FakeDynamicClient) {
	var clusterObjs []runtime.Object
	var rc cache.ResourceCache
	if withCache {
		rc = cache.NewResourceCacheMap()
	}
	for _, s := range srcs {
		id := object.UnstructuredToObjMetadata(s.obj)
		switch s.where {
		case 0:
			if rc != nil {
				rc.Put(id, cache.ResourceStatus{Resource: s.obj.DeepCopy(), Status: status.CurrentStatus})
			}
		case 1:
			if rc != nil {
				rc.Put(id, cache.ResourceStatus{Resource: s.obj.DeepCopy(), Status: status.CurrentStatus})
			}
			clusterObjs = append(clusterObjs, s.stale.DeepCopy())
		case 2:
			if rc != nil {
				rc.Put(id, cache.ResourceStatus{Resource: s.stale.DeepCopy(), Status: status.InProgressStatus})
			}
			clusterObjs = append(clusterObjs, s.obj.DeepCopy())
		case 3:
			clusterObjs = append(clusterObjs, s.obj.DeepCopy())
		case 5:
			if rc != nil {
				rc.Put(id, cache.ResourceStatus{Resource: s.stale.DeepCopy(), Status: status.InProgressStatus})
			}
		}
	}
	fdc := dynamicfake.NewSimpleDynamicClient(scheme.Scheme, clusterObjs...)
	// The static test mapper resolves a version-less apps/Deployment reference
	// to apps/v1beta1 and the fake tracker is keyed by version (a real API
	// server serves every version): store the object under the older versions too.
	decoy := map[object.ObjMetadata]*unstructured.Unstructured{}
	for _, s := range srcs {
		if s.verDecoy && (s.where == 2 || s.where == 3) {
			decoy[object.UnstructuredToObjMetadata(s.obj)] = s.stale
		}
	}
	for _, o := range clusterObjs {
		u := o.(*unstructured.Unstructured)
		if u.GetKind() == "Deployment" {
			other := u
			if d, ok := decoy[object.UnstructuredToObjMetadata(u)]; ok {
				other = d
			}
			for _, ver := range []string{"v1beta1", "v1beta2"} {
				_ = fdc.Tracker().Create(schema.GroupVersionResource{Group: "apps", Version: ver, Resource: "deployments"}, other.DeepCopy(), u.GetNamespace())
			}
		}
	}
	atm := &mutator.ApplyTimeMutator{Client: fdc, Mapper: mr.mapper}
	if rc != nil {
		atm.ResourceCache = rc
	}
	return atm, fdc
}

func classify(err error) int {
	if err == nil {
		return 0
	}
	m := err.Error()
	switch {
	case strings.HasPrefix(m, "failed to read annotation"):
		return 1
	case strings.HasPrefix(m, "invalid self-reference"):
		return 2
	case strings.HasPrefix(m, "failed to identify source object mapping"):
		return 3
	case strings.HasPrefix(m, "failed to get source object"):
		return 4
	case strings.HasPrefix(m, "failed to read field") && strings.Contains(m, "from target object"):
		return 5
	case strings.HasPrefix(m, "failed to read field") && strings.Contains(m, "from source object"):
		return 6
	case strings.HasPrefix(m, "source field ("):
		return 6
	case strings.HasPrefix(m, "token is specified"):
		return 7
	case strings.HasPrefix(m, "failed to set field in target object"):
		return 8
	}
	return 9
}

// applyObserve runs the real ApplyTask on an object whose mutation is
// expected to fail and reports what it did: 1 = exactly one apply-failed
// event, recorded as failed apply, no request of any kind sent; 2 = else.
func (mr *mutRunner) applyObserve(tgt *unstructured.Unstructured, atm *mutator.ApplyTimeMutator, fdc *dynamicfake.FakeDynamicClient) int {
	reqs := 0
	ih := info.NewHelper(mr.mapper, func(*meta.RESTMapping) (resource.RESTClient, error) {
		return &fake.RESTClient{
			NegotiatedSerializer: resource.UnstructuredPlusDefaultContentConfig().NegotiatedSerializer,
			Client:               &http.Client{Transport: countingRT{&reqs}},
		}, nil
	})
	eventCh := make(chan event.Event, 64)
	tc := taskrunner.NewTaskContext(eventCh, cache.NewResourceCacheMap())
	at := &task.ApplyTask{
		TaskName:       "apply-0",
		DynamicClient:  fdc,
		InfoHelper:     ih,
		Mapper:         mr.mapper,
		Objects:        object.UnstructuredSet{tgt},
		Mutators:       []mutator.Interface{atm},
		DryRunStrategy: common.DryRunNone,
	}
	at.Start(tc)
	select {
	case <-tc.TaskChannel():
	case <-time.After(20 * time.Second):
		mr.sum.ImplFailures = append(mr.sum.ImplFailures, "ApplyTask did not finish within 20s")
		return 2
	}
	failedEv, otherEv := 0, 0
	for {
		select {
		case e := <-eventCh:
			if e.Type == event.ApplyType && e.ApplyEvent.Status == event.ApplyFailed {
				failedEv++
			} else {
				otherEv++
			}
			continue
		default:
		}
		break
	}
	mutating := 0
	for _, a := range fdc.Actions() {
		if a.GetVerb() != "get" {
			mutating++
		}
	}
	id := object.UnstructuredToObjMetadata(tgt)
	if tc.InventoryManager().IsFailedApply(id) && failedEv == 1 && otherEv == 0 && reqs == 0 && mutating == 0 {
		return 1
	}
	return 2
}

type mutScenario struct {
	self      refSpec
	payload   map[string]interface{}
	subs      []subSpec
	annotMode int // 0 written by WriteAnnotation, 1 none, 2 unparsable, 3 hand-written yaml
	rawAnnot  string
	srcs      []srcSpec
	withCache bool
	kind      string
}

func expectedRender(v interface{}) (string, bool) {
	switch x := v.(type) {
	case float64:
		t := floatTV(x)
		if t.Kind == 2 {
			return "", false // reads back as an integer; the model renders it itself
		}
		return strconv.FormatFloat(x, 'g', -1, 64), true
	case map[string]interface{}, []interface{}:
		b, err := json.Marshal(x)
		if err != nil {
			return "", false
		}
		return string(b), true
	}
	return "", false
}

func (mr *mutRunner) run(s *caseSink, sc mutScenario) {
	tgt := mkObj(sc.self, sc.payload)
	var annotCoq string
	switch sc.annotMode {
	case 1:
		annotCoq = "ANone"
	case 2:
		tgt.SetAnnotations(map[string]string{mutation.Annotation: sc.rawAnnot})
		annotCoq = "ABad"
	default:
		if sc.annotMode == 3 {
			tgt.SetAnnotations(map[string]string{mutation.Annotation: sc.rawAnnot})
		} else {
			subs := mutation.ApplyTimeMutation{}
			for _, sub := range sc.subs {
				subs = append(subs, mutation.FieldSubstitution{SourceRef: sub.src.goRef(), SourcePath: sub.spath.text,
					TargetPath: sub.tpath.text, Token: sub.token})
			}
			// WriteAnnotation (sigs.k8s.io/yaml) folds U+0085 and refuses U+007F /
			// C1 / U+FFFE / U+FFFF in paths and tokens (reported, outside C18:
			// Mutate only reads the annotation). Fall back to a hand-written JSON
			// annotation with \uXXXX escapes, which ReadAnnotation accepts.
			roundTrips := func() bool {
				back, err := mutation.ReadAnnotation(tgt)
				if err != nil || len(back) != len(subs) {
					return false
				}
				for i := range subs {
					if back[i] != subs[i] {
						return false
					}
				}
				return true
			}
			if err := mutation.WriteAnnotation(tgt, subs); err != nil || !roundTrips() {
				mr.sum.Count("mut:annotation-written-by-hand(WriteAnnotation lossy)")
				jb, jerr := json.Marshal(subs)
				if jerr != nil {
					mr.sum.Count("mut:skipped-annotation")
					return
				}
				var b strings.Builder
				for _, r := range string(jb) {
					if r == 0x7f || (r >= 0x80 && r <= 0x9f) || r == 0xfffe || r == 0xffff {
						fmt.Fprintf(&b, "\\u%04x", r)
					} else {
						b.WriteRune(r)
					}
				}
				tgt.SetAnnotations(map[string]string{mutation.Annotation: b.String()})
				if !roundTrips() {
					mr.sum.Count("mut:skipped-annotation")
					return
				}
			}
		}
		items := make([]string, len(sc.subs))
		for i, sub := range sc.subs {
			items[i] = emit.App("mkSub", sub.src.coq(), sub.spath.coq(), sub.tpath.coq(), cstr(sub.token))
		}
		annotCoq = emit.App("ASubs", emit.List(items))
	}
	before := ToTV(tgt.Object)

	// the implementation
	atm, _ := mr.env(sc.srcs, sc.withCache)
	work := tgt.DeepCopy()
	var mutated bool
	var err error
	panicked := func() (p bool) {
		defer func() {
			if e := recover(); e != nil {
				p = true
			}
		}()
		mutated, _, err = atm.Mutate(context.TODO(), work)
		return false
	}()
	if panicked {
		mr.sum.ImplFailures = append(mr.sum.ImplFailures, "Mutate panicked: "+sc.kind)
		return
	}
	errc := classify(err)
	after := ToTV(work.Object)
	applied := 0
	if err != nil {
		atm2, fdc2 := mr.env(sc.srcs, sc.withCache)
		applied = mr.applyObserve(tgt.DeepCopy(), atm2, fdc2)
	} else if mutated && mr.nSent%4 == 0 {
		// every fourth succeeding mutation also goes through the real ApplyTask: what reaches the API
		// server must be the mutator's result, and the caller's manifest must be left as it was
		atm2, fdc2 := mr.env(sc.srcs, sc.withCache)
		manifest := tgt.DeepCopy()
		sent, msg := mr.applySent(manifest, atm2, fdc2)
		// shallow copies: the mutated tree may hold Go ints, which DeepCopy refuses
		want := map[string]interface{}{}
		for k, v := range work.Object {
			want[k] = v
		}
		if md, ok := want["metadata"].(map[string]interface{}); ok {
			if an, ok := md["annotations"].(map[string]interface{}); ok && len(an) == 0 {
				md2 := map[string]interface{}{}
				for k, v := range md {
					if k != "annotations" {
						md2[k] = v
					}
				}
				want["metadata"] = md2
			}
		}
		switch {
		case msg != "":
			mr.sum.ImplFailures = append(mr.sum.ImplFailures, msg+": "+sc.kind)
		case canonJSON(dropNulls(sent)) != canonJSON(dropNulls(want)):
			mr.sum.ImplFailures = append(mr.sum.ImplFailures, "ApplyTask sent an object that differs from the mutator's result: "+sc.kind+
				" "+firstDiff(canonJSON(dropNulls(sent)), canonJSON(dropNulls(want))))
		case ToTV(manifest.Object).Coq() != before.Coq():
			mr.sum.ImplFailures = append(mr.sum.ImplFailures, "ApplyTask changed the caller's manifest: "+sc.kind)
		default:
			mr.sum.Count("mut:applied-through-ApplyTask")
		}
	}
	if err == nil && mutated {
		mr.nSent++
	}

	// environment as Coq tables
	var cacheItems, clusterItems []string
	rendSeen := map[string]bool{}
	var rendItems []string
	addRend := func(o *unstructured.Unstructured) {
		for _, sub := range sc.subs {
			if sub.spath.opaque {
				continue
			}
			if v, ok := navGo(o.Object, sub.spath.p); ok {
				if txt, ok := expectedRender(v); ok {
					term := "(" + ToTV(v).Coq() + ", " + cstr(txt) + ")"
					if !rendSeen[term] {
						rendSeen[term] = true
						rendItems = append(rendItems, term)
					}
				}
			}
		}
	}
	tags := map[string]bool{}
	scanTags(tgt.Object, tags)
	for _, src := range sc.srcs {
		objT, staleT := ToTV(src.obj.Object).Coq(), ToTV(src.stale.Object).Coq()
		ref := src.ref.coq()
		addRend(src.obj)
		addRend(src.stale)
		scanTags(src.obj.Object, tags)
		switch src.where {
		case 0:
			cacheItems = append(cacheItems, "("+ref+", "+objT+", true)")
		case 1:
			cacheItems = append(cacheItems, "("+ref+", "+objT+", true)")
			clusterItems = append(clusterItems, "("+ref+", "+staleT+")")
		case 2:
			cacheItems = append(cacheItems, "("+ref+", "+staleT+", false)")
			clusterItems = append(clusterItems, "("+ref+", "+objT+")")
		case 3:
			clusterItems = append(clusterItems, "("+ref+", "+objT+")")
		case 5:
			cacheItems = append(cacheItems, "("+ref+", "+staleT+", false)")
		}
	}
	if !sc.withCache {
		cacheItems = nil
	}
	var scopeItems []string
	for _, k := range kinds {
		if k.known {
			scopeItems = append(scopeItems, "("+cstr(k.group)+", "+cstr(k.kind)+", "+emit.Bool(k.namespaced)+")")
		}
	}
	// tag: a source reference without namespace that resolves to the target
	for _, sub := range sc.subs {
		if sub.src.ns == "" && sub.src.ki.namespaced && sub.src.ki.known && sub.src.ki.group == sc.self.ki.group &&
			sub.src.ki.kind == sc.self.ki.kind && sub.src.name == sc.self.name && sc.self.ns != "" {
			tags["selfref-implicit-ns"] = true
		}
	}
	term := emit.App("CMut", sc.self.coq(), annotCoq, before.Coq(), emit.List(scopeItems), emit.List(cacheItems),
		emit.List(clusterItems), emit.List(rendItems), emit.Nat(errc), emit.Bool(mutated), after.Coq(), emit.Nat(applied))
	var subTexts []string
	for _, sub := range sc.subs {
		subTexts = append(subTexts, fmt.Sprintf("{src=%s spath=%q tpath=%q token=%q %s}", sub.src.text(), sub.spath.text, sub.tpath.text, sub.token, sub.scenario))
	}
	var whereTexts []string
	for _, src := range sc.srcs {
		vd := ""
		if src.verDecoy {
			vd = "+other-versions-differ"
		}
		whereTexts = append(whereTexts, fmt.Sprintf("%s@%d%s", src.ref.text(), src.where, vd))
	}
	errText := ""
	if err != nil {
		errText = err.Error()
		if len(errText) > 160 {
			errText = errText[:160]
		}
	}
	text := fmt.Sprintf("MUT %s self=%s annot=%d subs=%v sources=%v cache=%v -> errc=%d mutated=%v applied=%d err=%q %s before=%s after=%s",
		sc.kind, sc.self.text(), sc.annotMode, subTexts, whereTexts, sc.withCache, errc, mutated, applied, errText, tagText(tags), clip(before.Text(), 500), clip(after.Text(), 500))
	distKind := sc.kind
	if len(sc.subs) > 1 && !strings.HasPrefix(sc.kind, "corpus") {
		distKind = "multi"
	}
	s.add(term, text, len(sc.subs) > 0, fmt.Sprintf("mut:%s:err=%d", distKind, errc))
	s.sum.Count(fmt.Sprintf("mut-errclass:%d", errc))
	s.sum.Count(fmt.Sprintf("mut-subs:%d", len(sc.subs)))
	for _, src := range sc.srcs {
		s.sum.Count(fmt.Sprintf("mut-source-where:%d", src.where))
		if src.verDecoy {
			s.sum.Count("mut-source-other-versions-differ")
		}
	}
}

func clip(s string, n int) string {
	if len(s) > n {
		return s[:n] + "..."
	}
	return s
}

func keyPath(names ...string) Path {
	p := Path{}
	for _, n := range names {
		p = append(p, Seg{IsKey: true, K: n})
	}
	return p
}

func modelled(p Path, bracket bool) pathSpec { return pathSpec{text: p.Text(bracket), p: p} }

var cmKI, depKI, svcKI, crKI, widgetKI = kinds[0], kinds[1], kinds[2], kinds[3], kinds[5]

func (mr *mutRunner) corpus(s *caseSink) {
	self := refSpec{ki: depKI, name: "tgt", ns: "test"}
	payload := func() map[string]interface{} {
		return map[string]interface{}{"spec": map[string]interface{}{
			"url": "http://${ip}:${port}/${ip}", "n": int64(1), "rep": "aaaa", "list": []interface{}{"x", int64(2)}}}
	}
	srcRef := refSpec{ki: svcKI, name: "src", ns: "test"}
	srcPayload := map[string]interface{}{"status": map[string]interface{}{
		"ip": "10.0.0.7", "port": int64(8080), "big": int64(9007199254740993), "ratio": 0.5, "huge": 1e21,
		"two": 2.0, "obj": map[string]interface{}{"b": []interface{}{int64(1), "2", nil}, "a": "<&>"}, "nul": nil, "yes": true, "str1": "1"}}
	src := func(where int) []srcSpec {
		o := mkObj(srcRef, srcPayload)
		return []srcSpec{{ref: srcRef, obj: o, stale: staleObj(o), where: where}}
	}
	implicit := refSpec{ki: svcKI, name: "src", ns: ""}
	one := func(kind string, sub subSpec, where int) {
		sub.scenario = kind
		mr.run(s, mutScenario{self: self, payload: payload(), subs: []subSpec{sub}, srcs: src(where), withCache: true, kind: "corpus-" + kind})
	}
	// the former defect through the mutator: 2^53+1 copied exactly
	one("big-int", subSpec{src: srcRef, spath: modelled(keyPath("status", "big"), false), tpath: modelled(keyPath("spec", "n"), false)}, 0)
	// token replacement, every occurrence, every value class
	for _, f := range []string{"ip", "port", "big", "ratio", "huge", "two", "obj", "nul", "yes", "str1"} {
		one("token-"+f, subSpec{src: implicit, spath: modelled(keyPath("status", f), false), tpath: modelled(keyPath("spec", "url"), false), token: "${ip}"}, 3)
		one("whole-"+f, subSpec{src: srcRef, spath: modelled(keyPath("status", f), true), tpath: modelled(Path{{IsKey: true, K: "spec"}, {IsKey: true, K: "list"}, {N: 1}}, false)}, 2)
	}
	one("token-overlap", subSpec{src: srcRef, spath: modelled(keyPath("status", "ip"), false), tpath: modelled(keyPath("spec", "rep"), false), token: "aa"}, 1)
	one("token-absent", subSpec{src: srcRef, spath: modelled(keyPath("status", "ip"), false), tpath: modelled(keyPath("spec", "rep"), false), token: "${nope}"}, 1)
	// rejections
	one("token-nonstring", subSpec{src: srcRef, spath: modelled(keyPath("status", "ip"), false), tpath: modelled(keyPath("spec", "n"), false), token: "${ip}"}, 0)
	one("target-missing", subSpec{src: srcRef, spath: modelled(keyPath("status", "ip"), false), tpath: modelled(keyPath("spec", "nope"), false)}, 0)
	one("source-path-missing", subSpec{src: srcRef, spath: modelled(keyPath("status", "nope"), false), tpath: modelled(keyPath("spec", "n"), false)}, 0)
	one("source-missing", subSpec{src: srcRef, spath: modelled(keyPath("status", "ip"), false), tpath: modelled(keyPath("spec", "n"), false)}, 4)
	one("source-not-current-only", subSpec{src: srcRef, spath: modelled(keyPath("status", "ip"), false), tpath: modelled(keyPath("spec", "n"), false)}, 5)
	one("several-target-matches", subSpec{src: srcRef, spath: modelled(keyPath("status", "ip"), false), tpath: pathSpec{opaque: true, text: "$.spec.*"}}, 0)
	one("several-source-matches", subSpec{src: srcRef, spath: pathSpec{opaque: true, text: "$.status['ip','port']"}, tpath: modelled(keyPath("spec", "n"), false)}, 0)
	one("empty-target-path", subSpec{src: srcRef, spath: modelled(keyPath("status", "ip"), false), tpath: pathSpec{opaque: true, text: ""}}, 0)
	one("no-mapping", subSpec{src: refSpec{ki: widgetKI, name: "src", ns: "test"}, spath: modelled(keyPath("status", "ip"), false), tpath: modelled(keyPath("spec", "n"), false)}, 0)
	one("self-explicit", subSpec{src: refSpec{ki: depKI, name: "tgt", ns: "test", useGroup: true}, spath: modelled(keyPath("spec", "n"), false), tpath: modelled(keyPath("spec", "rep"), false)}, 0)
	// former defect (fixed): self reference through the implicit namespace; the live copy of the target is in the cache
	{
		live := mkObj(self, map[string]interface{}{"spec": map[string]interface{}{"n": int64(99), "rep": "LIVE"}})
		mr.run(s, mutScenario{self: self, payload: payload(), kind: "corpus-self-implicit", withCache: true,
			subs: []subSpec{{src: refSpec{ki: depKI, name: "tgt", ns: ""}, spath: modelled(keyPath("spec", "n"), false), tpath: modelled(keyPath("spec", "rep"), false), scenario: "self-implicit"}},
			srcs: []srcSpec{{ref: self, obj: live, stale: staleObj(live), where: 0}}})
	}
	// a reference by apiVersion reads THAT version of the resource: the other served versions hold other content
	{
		depRef := refSpec{ki: depKI, name: "dsrc", ns: "test"}
		o := mkObj(depRef, srcPayload)
		for _, where := range []int{2, 3} {
			mr.run(s, mutScenario{self: self, payload: payload(), kind: "corpus-version-of-reference", withCache: true,
				subs: []subSpec{{src: depRef, spath: modelled(keyPath("status", "ip"), false), tpath: modelled(keyPath("spec", "rep"), false), scenario: "version-of-reference"}},
				srcs: []srcSpec{{ref: depRef, obj: o, stale: staleObj(o), where: where, verDecoy: true}}})
		}
	}
	// annotation forms
	mr.run(s, mutScenario{self: self, payload: payload(), annotMode: 1, srcs: src(0), withCache: true, kind: "corpus-no-annotation"})
	mr.run(s, mutScenario{self: self, payload: payload(), annotMode: 2, rawAnnot: "{{not yaml", srcs: src(0), withCache: true, kind: "corpus-bad-annotation"})
	mr.run(s, mutScenario{self: self, payload: payload(), annotMode: 2, rawAnnot: "- sourceRef: 5\n", srcs: src(0), withCache: true, kind: "corpus-bad-annotation"})
	mr.run(s, mutScenario{self: self, payload: payload(), annotMode: 3, srcs: src(3), withCache: false, kind: "corpus-yaml-annotation",
		rawAnnot: "- sourceRef:\n    kind: Service\n    name: src\n  sourcePath: $.status.port\n  targetPath: $.spec.url\n  token: ${port}\n" +
			"- sourceRef:\n    apiVersion: v1\n    kind: Service\n    name: src\n    namespace: test\n  sourcePath: $.status.ip\n  targetPath: $.spec.url\n  token: ${ip}\n",
		subs: []subSpec{
			{src: implicit, spath: modelled(keyPath("status", "port"), false), tpath: modelled(keyPath("spec", "url"), false), token: "${port}", scenario: "yaml"},
			{src: srcRef, spath: modelled(keyPath("status", "ip"), false), tpath: modelled(keyPath("spec", "url"), false), token: "${ip}", scenario: "yaml"}}})
	// second substitution fails after the first one was carried out
	mr.run(s, mutScenario{self: self, payload: payload(), srcs: src(0), withCache: true, kind: "corpus-second-fails",
		subs: []subSpec{
			{src: srcRef, spath: modelled(keyPath("status", "ip"), false), tpath: modelled(keyPath("spec", "rep"), false), scenario: "ok"},
			{src: srcRef, spath: modelled(keyPath("status", "ip"), false), tpath: modelled(keyPath("spec", "nope"), false), scenario: "target-missing"}}})
}

func leafPaths(v interface{}, want func(interface{}) bool) []Path {
	var all []Path
	allPaths(v, nil, &all)
	var out []Path
	for _, p := range all {
		if x, ok := navGo(v, p); ok && want(x) {
			out = append(out, p)
		}
	}
	return out
}

var tokens = []string{"${ip}", "${port}", "aa", "${t}", "$(x)", "zz-none", "a", "e"}

func (mr *mutRunner) opaquePath(g *gen, obj map[string]interface{}, top string) pathSpec {
	cands := []string{"", "a", "$." + top + "[", "$." + top + ".*", "$.." + "zz_nomatch", "$." + top + "[0,1]", "$." + top + "[0:2]", "$." + top + "..*", "$$", "$." + top + "[?(@.x)]"}
	for try := 0; try < 10; try++ {
		c := cands[g.r.Intn(len(cands))]
		vals, err, _ := getGuarded(deepCopy(obj).(map[string]interface{}), c)
		if c == "" || err != nil || len(vals) != 1 {
			return pathSpec{opaque: true, text: c}
		}
	}
	return pathSpec{opaque: true, text: ""}
}

func (mr *mutRunner) randomCase(s *caseSink, g *gen) {
	r := g.r
	tk := []kindInfo{cmKI, depKI, depKI, crKI}[r.Intn(4)]
	self := refSpec{ki: tk, name: "tgt"}
	if tk.namespaced {
		self.ns = "test"
	}
	spec := g.object(3)
	spec["url"] = "http://${ip}:${port}/${ip}"
	spec["rep"] = []string{"aaaa", "${t}${t}", "x$(x)y", "no token here", ""}[r.Intn(5)]
	payload := map[string]interface{}{"spec": spec}
	tgtObj := mkObj(self, payload).Object

	nSrc := 1 + r.Intn(2)
	var srcs []srcSpec
	for i := 0; i < nSrc; i++ {
		ki := []kindInfo{cmKI, svcKI, depKI, crKI}[r.Intn(4)]
		ref := refSpec{ki: ki, name: fmt.Sprintf("src%d", i)}
		if ki.namespaced {
			ref.ns = []string{"test", "test", "other"}[r.Intn(3)]
		}
		st := g.object(3)
		st["ip"] = "10.0.0.7"
		st["port"] = int64(8080)
		o := mkObj(ref, map[string]interface{}{"status": st})
		where := []int{0, 0, 1, 2, 3, 3}[r.Intn(6)]
		srcs = append(srcs, srcSpec{ref: ref, obj: o, stale: staleObj(o), where: where,
			verDecoy: ki.kind == "Deployment" && (where == 2 || where == 3) && r.Intn(2) == 0})
	}
	sc := mutScenario{self: self, payload: payload, srcs: srcs, withCache: r.Intn(8) != 0}
	switch r.Intn(40) {
	case 0:
		sc.annotMode, sc.kind = 1, "no-annotation"
		mr.run(s, sc)
		return
	case 1:
		sc.annotMode, sc.kind, sc.rawAnnot = 2, "bad-annotation", []string{"{{", "- sourceRef: x\n", "sourceRef: {}\n"}[r.Intn(3)]
		mr.run(s, sc)
		return
	}
	nSubs := []int{1, 1, 1, 1, 1, 1, 2, 2, 3}[r.Intn(9)]
	kindsSeen := []string{}
	var extra []srcSpec
	for i := 0; i < nSubs; i++ {
		si := r.Intn(len(srcs))
		src := &srcs[si]
		sub := subSpec{src: src.ref}
		sub.src.useGroup = r.Intn(2) == 0
		if src.verDecoy {
			sub.src.useGroup = false // by apiVersion apps/v1: that version must be the one that is read
		}
		if src.ref.ki.namespaced && src.ref.ns == self.ns && r.Intn(2) == 0 {
			sub.src.ns = "" // implicit namespace
		}
		srcTree := src.obj.Object
		var sAll []Path
		allPaths(srcTree["status"], keyPath("status"), &sAll)
		sAll = append(sAll, keyPath("status"), keyPath("metadata", "name"))
		sub.spath = modelled(sAll[r.Intn(len(sAll))], r.Intn(3) == 0)
		var tAll []Path
		allPaths(tgtObj["spec"], keyPath("spec"), &tAll)
		tStr := leafPaths(tgtObj, func(x interface{}) bool { _, ok := x.(string); return ok })
		var tStrSpec []Path
		for _, p := range tStr {
			if len(p) > 0 && p[0].K == "spec" {
				tStrSpec = append(tStrSpec, p)
			}
		}
		sub.tpath = modelled(tAll[r.Intn(len(tAll))], r.Intn(3) == 0)
		scen := "whole"
		switch x := r.Intn(100); {
		case x < 30:
			scen = "whole"
		case x < 55:
			scen = "token"
			sub.tpath = modelled(tStrSpec[r.Intn(len(tStrSpec))], r.Intn(3) == 0)
			sub.token = tokens[r.Intn(len(tokens))]
		case x < 60:
			scen = "token-any-target"
			sub.token = tokens[r.Intn(len(tokens))]
		case x < 66:
			scen = "target-no-match"
			sub.tpath = modelled(g.malformedPath(tgtObj, tAll), false)
		case x < 72:
			scen = "source-no-match"
			sub.spath = modelled(g.malformedPath(srcTree, sAll), false)
		case x < 76:
			scen = "target-opaque"
			sub.tpath = mr.opaquePath(g, tgtObj, "spec")
		case x < 80:
			scen = "source-opaque"
			sub.spath = mr.opaquePath(g, srcTree, "status")
		case x < 84:
			scen = "source-missing"
			src.where = []int{4, 5}[r.Intn(2)]
		case x < 87:
			scen = "no-mapping"
			sub.src.ki = widgetKI
		case x < 89:
			scen = "empty-name"
			sub.src.name = ""
		case x < 92:
			scen = "self-explicit"
			sub.src = self
			sub.src.useGroup = r.Intn(2) == 0
			sub.spath = modelled(tAll[r.Intn(len(tAll))], false)
		case x < 94:
			scen = "self-implicit"
			sub.src = self
			sub.src.ns = ""
			sub.spath = modelled(tAll[r.Intn(len(tAll))], false)
			// the live copy of the target, so that the lookup can succeed
			live := mkObj(self, map[string]interface{}{"spec": staleOf(deepCopy(spec))})
			if len(extra) == 0 { // one live copy, however many substitutions refer to it
				extra = append(extra, srcSpec{ref: self, obj: live, stale: staleObj(live), where: []int{0, 3}[r.Intn(2)]})
			}
		case x < 97:
			scen = "other-namespace"
			sub.src.ns = "elsewhere"
		default:
			scen = "whole-metadata"
			sub.tpath = modelled(keyPath("metadata", "name"), false)
		}
		sub.scenario = scen
		kindsSeen = append(kindsSeen, scen)
		sc.subs = append(sc.subs, sub)
	}
	sc.srcs = append(append([]srcSpec{}, srcs...), extra...)
	sort.Strings(kindsSeen)
	sc.kind = strings.Join(kindsSeen, "+")
	mr.run(s, sc)
}

var _ = jsonpath.Get
