package c18

import (
	"fmt"
	"math/rand"
	"strings"

	"sigs.k8s.io/cli-utils/pkg/jsonpath"
	"verifharness/emit"
)

// ---- generators ------------------------------------------------------------------

var keyPalette = []string{
	"a", "b", "c", "spec", "data", "list", "name", "k_1",
	"y", "no", "on", "null", "true", "~", "007", "1e3",
	"a.b", "a b", " lead", "a'b", `a"b`, `a\b`, "a,b", "a:b", "*", "a]b", "a[b", "(x)", "?(x)",
	"$", "@", "-", "a-b", "", "length", "[0]", "a/b", "a=b", "a#b",
	"\u00e9", "\U0001F600", "\u2028", "k\u0085n", "k\x7f\u009f",
}

var strPalette = []string{
	"", "x", "hello world", "1", "-1", "true", "false", "null", "~", "1e3", "0x10", "007", "-0", ".5", "1.0",
	"yes", "no", "on", "y", "a: b", "- x", "#c", " lead", "trail ", "line\nbreak", "tab\there", "cr\r\n",
	"\u2028sep\u2029", "\u00e9\U0001F600", "\u00a0nbsp", "\ufeffbom", "<&>", `back\slash`, `"q"`, "'", "''", "\x00\x01\x1f",
	"{}", "[]", "{a: 1}", "[1, 2]", "!!str x", "&anchor", "*alias", "? key", "| block", "> fold", "%dir", "@at", "`tick",
	"${t} and ${t}", "aaa", "$(x)-$(x)$(x)", "http://${ip}:${port}/${ip}", "9007199254740993", "1e400", "0o17", "1_000", ".inf", ".nan",
	"2001-12-14", "0b1", "<<",
}

// strings with the characters the yaml read-back used to fold or refuse (fixed defects)
var findingStrings = []string{"a\u0085b", "del\x7f", "c1\u0080", "c1\u009f", "nc\ufffe", "nc\uffff"}

var intPalette = []int64{
	0, 1, -1, 2, 42, 255, -128, 2147483647, 2147483648, -2147483649, 4294967296,
	9007199254740991, 9007199254740992, 9007199254740993, -9007199254740993,
	1000000000000000000, 9223372036854775806, 9223372036854775807, -9223372036854775807, -9223372036854775808,
}

// a few float64 values; integer-valued ones stay below 2^63 (their JSON text is
// an integer literal and they come back as ints, which is JSON-equal)
var floatPalette = []float64{0.5, -0.25, 1.5, 2.0, -3.0, 1e21, -1e21, 1e-7, 123456.789, 1e300, 4096.0}

type gen struct {
	r *rand.Rand
}

func (g *gen) pick(l []string) string { return l[g.r.Intn(len(l))] }

func (g *gen) str() string {
	if g.r.Intn(25) == 0 {
		return g.pick(findingStrings)
	}
	return g.pick(strPalette)
}

func (g *gen) leaf() interface{} {
	switch g.r.Intn(10) {
	case 0:
		return nil
	case 1:
		return g.r.Intn(2) == 0
	case 2, 3:
		return intPalette[g.r.Intn(len(intPalette))]
	case 4:
		return floatPalette[g.r.Intn(len(floatPalette))]
	case 5:
		if g.r.Intn(2) == 0 {
			return map[string]interface{}{}
		}
		return []interface{}{}
	default:
		return g.str()
	}
}

func (g *gen) value(depth int) interface{} {
	if depth <= 0 || g.r.Intn(10) < 4 {
		return g.leaf()
	}
	if g.r.Intn(2) == 0 {
		return g.object(depth)
	}
	n := g.r.Intn(4)
	l := make([]interface{}, n)
	for i := range l {
		l[i] = g.value(depth - 1)
	}
	return l
}

func (g *gen) object(depth int) map[string]interface{} {
	n := g.r.Intn(5)
	m := make(map[string]interface{}, n)
	for i := 0; i < n; i++ {
		m[g.pick(keyPalette)] = g.value(depth - 1)
	}
	return m
}

// root objects always have a few members so that there are paths to take
func (g *gen) root() map[string]interface{} {
	m := g.object(4)
	for len(m) < 2 {
		m[g.pick(keyPalette)] = g.value(3)
	}
	return m
}

// a value of one of the Go types jsonpath.Set accepts (ints as `int`), or a
// uint64 beyond 2^63-1, which it refuses
func (g *gen) setValue() interface{} {
	switch g.r.Intn(12) {
	case 0:
		return nil
	case 1:
		return g.r.Intn(2) == 0
	case 2, 3:
		return int(intPalette[g.r.Intn(len(intPalette))])
	case 4:
		return floatPalette[g.r.Intn(len(floatPalette))]
	case 5:
		return g.object(2)
	case 6:
		n := g.r.Intn(3)
		l := make([]interface{}, n)
		for i := range l {
			l[i] = g.value(1)
		}
		return l
	case 7:
		if g.r.Intn(3) == 0 {
			return []uint64{9223372036854775808, 18446744073709551615}[g.r.Intn(2)]
		}
		return g.str()
	default:
		return g.str()
	}
}

func numericKey(k string) bool {
	if k == "" {
		return false
	}
	for _, c := range k {
		if c < '0' || c > '9' {
			return false
		}
	}
	return true
}

// malformedPath derives a path that selects nothing in v: a missing member, an
// index past the end, a key into an array, an index into an object, a step
// below a scalar. It stays inside the typed subset the model covers: no
// numeric or "length" key on arrays, no index whose decimal text is a member
// name (ajson would resolve those, see notes/C18.md).
func (g *gen) malformedPath(v interface{}, paths []Path) Path {
	for try := 0; try < 20; try++ {
		var base Path
		if len(paths) > 0 && g.r.Intn(4) > 0 {
			base = paths[g.r.Intn(len(paths))]
		}
		node, _ := navGo(v, base)
		switch x := node.(type) {
		case map[string]interface{}:
			if g.r.Intn(2) == 0 {
				k := "zz_missing"
				if _, ok := x[k]; !ok {
					return base.extend(Seg{IsKey: true, K: k})
				}
			} else {
				n := g.r.Intn(3)
				if _, ok := x[fmt.Sprint(n)]; !ok {
					return base.extend(Seg{N: n})
				}
			}
		case []interface{}:
			if g.r.Intn(2) == 0 {
				return base.extend(Seg{N: len(x) + g.r.Intn(2)})
			}
			return base.extend(Seg{IsKey: true, K: []string{"a", "zz", "spec"}[g.r.Intn(3)]})
		default:
			if len(base) == 0 {
				continue
			}
			if g.r.Intn(2) == 0 {
				return base.extend(Seg{IsKey: true, K: "a"})
			}
			return base.extend(Seg{N: 0})
		}
	}
	return Path{Seg{IsKey: true, K: "zz_missing"}}
}

// ---- running the implementation ------------------------------------------------------

type caseSink struct {
	cf    *emit.CaseFile
	sum   *emit.Summary
	terms *[]string
	nontr *[]bool
}

func (s *caseSink) add(term, text string, nontrivial bool, kind string) {
	s.cf.Add(term, text)
	*s.terms = append(*s.terms, term)
	*s.nontr = append(*s.nontr, nontrivial)
	s.sum.Count(kind)
}

func getGuarded(obj map[string]interface{}, expr string) (vals []interface{}, err error, panicked bool) {
	defer func() {
		if e := recover(); e != nil {
			panicked = true
		}
	}()
	vals, err = jsonpath.Get(obj, expr)
	return
}

func setGuarded(obj map[string]interface{}, expr string, v interface{}) (n int, err error, panicked bool) {
	defer func() {
		if e := recover(); e != nil {
			panicked = true
		}
	}()
	n, err = jsonpath.Set(obj, expr, v)
	return
}

func tvOfVals(vals []interface{}) []TV {
	out := make([]TV, len(vals))
	for i, v := range vals {
		out[i] = ToTV(v)
	}
	return out
}

func runGet(s *caseSink, obj map[string]interface{}, p Path, bracket bool, kind string) {
	expr := p.Text(bracket)
	work := deepCopy(obj).(map[string]interface{})
	vals, err, panicked := getGuarded(work, expr)
	if panicked {
		s.sum.ImplFailures = append(s.sum.ImplFailures, "jsonpath.Get panicked on "+expr)
		return
	}
	n := len(vals)
	if err != nil {
		n, vals = 99, nil
	}
	tags := map[string]bool{}
	scanTags(obj, tags)
	before := ToTV(obj)
	if after := ToTV(work); after.Coq() != before.Coq() {
		s.sum.ImplFailures = append(s.sum.ImplFailures, "jsonpath.Get changed its input on "+expr)
	}
	term := emit.App("CGet", p.Coq(), before.Coq(), emit.Nat(n), TVList(tvOfVals(vals)))
	text := fmt.Sprintf("GET %s on %s -> n=%d %s", expr, clip(before.Text(), 500), n, tagText(tags))
	s.add(term, text, n == 1, "get:"+kind)
}

func runSet(s *caseSink, obj map[string]interface{}, p Path, bracket bool, v interface{}, kind string) {
	expr := p.Text(bracket)
	before := ToTV(obj)
	work := deepCopy(obj).(map[string]interface{})
	bvals, berr, p1 := getGuarded(work, expr)
	nb := len(bvals)
	if berr != nil {
		nb = 99
	}
	n, err, p2 := setGuarded(work, expr, deepCopy(v))
	if p1 || p2 {
		s.sum.ImplFailures = append(s.sum.ImplFailures, "jsonpath panicked on "+expr)
		return
	}
	errc := 0
	if err != nil {
		switch {
		case strings.Contains(err.Error(), "unsupported value type"):
			errc = 1
		case strings.Contains(err.Error(), "failed to unmarshal jsonpath result"):
			errc = 2
		default:
			errc = 3
		}
	}
	after := ToTV(work)
	rvals, rerr, p3 := getGuarded(work, expr)
	if p3 {
		s.sum.ImplFailures = append(s.sum.ImplFailures, "jsonpath.Get panicked after Set on "+expr)
		return
	}
	rbn := len(rvals)
	if rerr != nil {
		rbn, rvals = 99, nil
	}
	tags := map[string]bool{}
	scanTags(obj, tags)
	scanTags(v, tags)
	vt := ToTV(v)
	term := emit.App("CSet", p.Coq(), vt.Coq(), before.Coq(), emit.Nat(nb), emit.Nat(n), emit.Nat(errc),
		after.Coq(), emit.Nat(rbn), TVList(tvOfVals(rvals)))
	text := fmt.Sprintf("SET %s := %s (%T) on %s -> n=%d errc=%d after=%s readback(n=%d)=%s %s",
		expr, clip(vt.Text(), 300), v, clip(before.Text(), 500), n, errc, clip(after.Text(), 500), rbn, clip(fmt.Sprint(textsOf(rvals)), 300), tagText(tags))
	s.add(term, text, n == 1, fmt.Sprintf("set:%s:n=%d,err=%d", kind, n, errc))
	s.sum.Count("set-value:" + fmt.Sprintf("%T", v))
}

func textsOf(vals []interface{}) []string {
	out := make([]string, len(vals))
	for i, v := range vals {
		out[i] = ToTV(v).Text()
	}
	return out
}

// corpus: former and current witnesses, always first
func (s *caseSink) corpus() {
	k := func(names ...string) Path {
		p := Path{}
		for _, n := range names {
			p = append(p, Seg{IsKey: true, K: n})
		}
		return p
	}
	// former defect (fixed): 2^53+1 written through float64 read back as 2^53
	runSet(s, map[string]interface{}{"spec": map[string]interface{}{"n": int64(1)}}, k("spec", "n"), false, 9007199254740993, "corpus")
	runSet(s, map[string]interface{}{"spec": map[string]interface{}{"n": int64(1)}}, k("spec", "n"), false, -9007199254740993, "corpus")
	runSet(s, map[string]interface{}{"spec": map[string]interface{}{"n": "x"}}, k("spec", "n"), true, 9223372036854775807, "corpus")
	runSet(s, map[string]interface{}{"spec": map[string]interface{}{"n": "x"}}, k("spec", "n"), true, -9223372036854775808, "corpus")
	runSet(s, map[string]interface{}{"big": int64(9007199254740993), "t": "old"}, k("t"), false, "new", "corpus")
	// former defects (fixed): NEL folded to a space (written value, sibling, key), DEL / C1 / non-characters refused
	runSet(s, map[string]interface{}{"t": "old"}, k("t"), false, "a\u0085b", "corpus")
	runSet(s, map[string]interface{}{"sib": "a\u0085b", "t": "old"}, k("t"), false, "new", "corpus")
	runSet(s, map[string]interface{}{"sib": "x\x7f", "t": "old"}, k("t"), false, "new", "corpus")
	runSet(s, map[string]interface{}{"t": "old"}, k("t"), false, "c1\u0080", "corpus")
	runSet(s, map[string]interface{}{"k\ufffe": int64(1), "t": "old"}, k("t"), false, "new", "corpus")
	runSet(s, map[string]interface{}{"k\u0085": "a \u0085 b", "t": "old"}, k("t"), false, "\u0085", "corpus")
	runSet(s, map[string]interface{}{"t": "old"}, k("t"), false, map[string]interface{}{"\u007f\u0080": []interface{}{"\uffff\u0085"}}, "corpus")
	runGet(s, map[string]interface{}{"t": "a\u0085b"}, k("t"), false, "corpus")
	runGet(s, map[string]interface{}{"t": "x\x7f", "u": "fine"}, k("t"), false, "corpus")
	runGet(s, map[string]interface{}{"t": "x\x7f", "u": "fine"}, k("u"), false, "corpus")
	// values Set cannot carry
	runSet(s, map[string]interface{}{"t": "old"}, k("t"), false, uint64(9223372036854775808), "corpus")
	// yaml-looking strings stay strings
	for _, v := range []string{"1", "true", "null", "~", "1e3", "0x10", "007", "", " ", "a: b", "\u2028"} {
		runSet(s, map[string]interface{}{"t": int64(5), "u": []interface{}{"1", "null", "~"}}, k("t"), false, v, "corpus")
	}
}

// Run is the entry point used by cmd/C18.
func Run(seed int64, tier, outDir string) (*emit.Summary, error) {
	sum := emit.NewSummary("C18", seed, tier)
	r := rand.New(rand.NewSource(seed))
	g := &gen{r: r}
	scale := 1
	if tier == "thorough" {
		scale = 10
	}
	var terms []string
	var nontr []bool

	newFile := func(name, check string) *caseSink {
		return &caseSink{cf: &emit.CaseFile{Name: name, Imports: "From CliUtils Require Import Model.JsonPath Model.Mutator Corr.CorrC18.",
			Check: check}, sum: sum, terms: &terms, nontr: &nontr}
	}
	var files []*caseSink
	flush := func(s *caseSink) error {
		if len(s.cf.Cases) == 0 {
			return nil
		}
		files = append(files, s)
		return s.cf.Write(outDir, sum)
	}

	// ---- jsonpath level ----
	nTrees := 36 * scale
	fileNo := 0
	js := newFile(fmt.Sprintf("Cases_C18_jsonpath_%d", fileNo), "check_set")
	js.corpus()
	for i := 0; i < nTrees; i++ {
		obj := g.root()
		var paths []Path
		allPaths(obj, nil, &paths)
		// every path into the tree
		for _, p := range paths {
			runGet(js, obj, p, r.Intn(3) == 0, "existing")
		}
		for j := 0; j < 4; j++ {
			runGet(js, obj, g.malformedPath(obj, paths), r.Intn(3) == 0, "no-match")
		}
		// writes: every value class at random existing paths, plus non-matching paths
		for j := 0; j < 14 && len(paths) > 0; j++ {
			runSet(js, obj, paths[r.Intn(len(paths))], r.Intn(3) == 0, g.setValue(), "existing")
		}
		for j := 0; j < 3; j++ {
			runSet(js, obj, g.malformedPath(obj, paths), r.Intn(3) == 0, g.setValue(), "no-match")
		}
		if len(js.cf.Cases) >= 600 {
			if err := flush(js); err != nil {
				return nil, err
			}
			fileNo++
			js = newFile(fmt.Sprintf("Cases_C18_jsonpath_%d", fileNo), "check_set")
		}
	}
	if err := flush(js); err != nil {
		return nil, err
	}

	// ---- mutator level ----
	mr, err := newMutRunner(sum)
	if err != nil {
		return nil, err
	}
	nMut := 440 * scale
	fileNo = 0
	ms := newFile(fmt.Sprintf("Cases_C18_mutate_%d", fileNo), "check_mut")
	mr.corpus(ms)
	for i := 0; i < nMut; i++ {
		mr.randomCase(ms, g)
		if len(ms.cf.Cases) >= 70 {
			if err := flush(ms); err != nil {
				return nil, err
			}
			fileNo++
			ms = newFile(fmt.Sprintf("Cases_C18_mutate_%d", fileNo), "check_mut")
		}
	}
	if err := flush(ms); err != nil {
		return nil, err
	}

	sum.Evaluations = len(terms)
	sum.DistinctNontrivial = emit.Distinct(terms, nontr)
	sum.Rule = "non-trivial = a Get/Set whose path selects a node, or a Mutate with at least one substitution; distinct = distinct Coq case terms"
	for _, f := range files {
		for i := 0; i < len(f.cf.Text) && len(sum.Samples) < 12; i += 97 {
			sum.Samples = append(sum.Samples, f.cf.Text[i])
		}
	}
	return sum, nil
}
