package c17

import (
	"context"
	"fmt"
	"k8s.io/apimachinery/pkg/api/meta"
	"math/rand"
	"sync"

	apierrors "k8s.io/apimachinery/pkg/api/errors"
	"k8s.io/apimachinery/pkg/apis/meta/v1/unstructured"
	"k8s.io/apimachinery/pkg/labels"
	"k8s.io/apimachinery/pkg/runtime/schema"
	"sigs.k8s.io/cli-utils/pkg/kstatus/polling/event"
	"sigs.k8s.io/cli-utils/pkg/kstatus/polling/statusreaders"
	"sigs.k8s.io/cli-utils/pkg/kstatus/status"
	"sigs.k8s.io/cli-utils/pkg/object"
	"sigs.k8s.io/controller-runtime/pkg/client"
)

// Second engine stream: the readings are not scripted but produced by the real
// status readers (Deployment -> ReplicaSets -> Pods, StatefulSet -> Pods,
// generic) over a scripted per-round cluster snapshot.  A recording wrapper
// notes what the readers returned; that is the model's input.

func init() {
	for _, n := range []string{"p1", "p2", "p3", "p4"} {
		universe = append(universe, object.ObjMetadata{Namespace: "ns1", Name: n, GroupKind: schema.GroupKind{Kind: "Pod"}})
	}
	for _, n := range []string{"r1", "r2", "r3"} {
		universe = append(universe, object.ObjMetadata{Namespace: "ns1", Name: n, GroupKind: schema.GroupKind{Group: "apps", Kind: "ReplicaSet"}})
	}
	for _, n := range []string{"q1", "q2"} {
		universe = append(universe, object.ObjMetadata{Namespace: "ns2", Name: n, GroupKind: schema.GroupKind{Kind: "Pod"}})
	}
	// a kind the REST mapper does not know yet (a custom resource applied together with its CRD):
	// validateIdentifiers must let it pass and the engine polls it like any other identifier
	noMatchID = len(universe)
	universe = append(universe, object.ObjMetadata{Namespace: "ns2", Name: "w", GroupKind: schema.GroupKind{Group: "custom.example.com", Kind: "Widget"}})
	// a kind for which the REST mapper fails with something else than "no match": validateIdentifiers
	// must give up with that error
	mapperErrID = len(universe)
	universe = append(universe, object.ObjMetadata{Namespace: "ns2", Name: "b", GroupKind: schema.GroupKind{Group: "custom.example.com", Kind: "Broken"}})
}

var noMatchID, mapperErrID int

// preID: identifiers that only make validateIdentifiers fail; they are never polled.
func preID(i int) bool { return i == invalidID || i == mapperErrID }

// engineMapper is the mapper handed to the engine: the static one, except that the kind Broken makes it
// fail with an error that is not a NoMatch error.
type brokenKindMapper struct{ meta.RESTMapper }

func (m brokenKindMapper) RESTMapping(gk schema.GroupKind, versions ...string) (*meta.RESTMapping, error) {
	if gk.Kind == "Broken" {
		return nil, fmt.Errorf("discovery unavailable e997")
	}
	return m.RESTMapper.RESTMapping(gk, versions...)
}

type snapshot struct {
	objs    []*unstructured.Unstructured
	getErr  map[object.ObjMetadata]*merr
	listErr map[string]*merr // by kind
}

// realFailures: observations on the real status readers that are not part of the engine model's
// input (the reading must carry the object that was read).
var (
	realMu       sync.Mutex
	realFailures []string
)

type realEnv struct {
	*env
	snaps []snapshot
	// ctxErrs counts the context errors this cluster reader has answered with: a status reader that
	// receives one must hand it on (nil status, the error), never turn it into a status
	ctxErrs int
}

func (e *realEnv) snap() *snapshot {
	if e.cur < 0 || e.cur >= len(e.snaps) {
		return &snapshot{}
	}
	return &e.snaps[e.cur]
}

func (e *realEnv) Get(_ context.Context, key client.ObjectKey, obj *unstructured.Unstructured) error {
	gk := obj.GroupVersionKind().GroupKind()
	id := object.ObjMetadata{Namespace: key.Namespace, Name: key.Name, GroupKind: gk}
	s := e.snap()
	if m := s.getErr[id]; m != nil {
		if m.isCtx() {
			e.ctxErrs++
		}
		return m.goErr()
	}
	for _, o := range s.objs {
		if object.UnstructuredToObjMetadata(o) == id {
			obj.Object = o.DeepCopy().Object
			return nil
		}
	}
	return apierrors.NewNotFound(schema.GroupResource{Group: gk.Group, Resource: gk.Kind}, key.Name)
}

func (e *realEnv) ListNamespaceScoped(_ context.Context, list *unstructured.UnstructuredList, ns string, sel labels.Selector) error {
	kind := list.GroupVersionKind().Kind
	s := e.snap()
	if m := s.listErr[kind]; m != nil {
		if m.isCtx() {
			e.ctxErrs++
		}
		return m.goErr()
	}
	for _, o := range s.objs {
		if o.GetKind() == kind && o.GetNamespace() == ns && sel.Matches(labels.Set(o.GetLabels())) {
			list.Items = append(list.Items, *o.DeepCopy())
		}
	}
	return nil
}

func mkObj(apiVersion, kind, ns, name string, gen int64, lbls map[string]string) *unstructured.Unstructured {
	u := &unstructured.Unstructured{Object: map[string]interface{}{"apiVersion": apiVersion, "kind": kind}}
	u.SetNamespace(ns)
	u.SetName(name)
	if gen != 0 {
		u.SetGeneration(gen)
	}
	if lbls != nil {
		u.SetLabels(lbls)
	}
	return u
}

func sel(k, v string) map[string]interface{} {
	return map[string]interface{}{"matchLabels": map[string]interface{}{k: v}}
}

type podSt struct {
	name  string
	phase int // 0 Running+Ready, 1 Pending, 2 Failed (phase; kstatus: Current), 3 Running not ready, 4 Running with a crash-looping container (kstatus: Failed)
}
type rsSt struct {
	name         string
	gen          int64
	replicas     int64
	ready        int64
	pods         []podSt
	observedLags bool
}
type depSt struct {
	present  bool
	gen      int64
	replicas int64
	ready    int64
	lag      bool
	conds    bool
	rss      []rsSt
}

func pod(ns string, p podSt, lk, lv string) *unstructured.Unstructured {
	u := mkObj("v1", "Pod", ns, p.name, 0, map[string]string{lk: lv})
	phase := []string{"Running", "Pending", "Failed", "Running", "Running"}[p.phase]
	st := map[string]interface{}{"phase": phase}
	if p.phase == 4 {
		st["containerStatuses"] = []interface{}{map[string]interface{}{"name": "c",
			"state": map[string]interface{}{"waiting": map[string]interface{}{"reason": "CrashLoopBackOff"}}}}
	}
	if p.phase == 0 {
		st["conditions"] = []interface{}{map[string]interface{}{"type": "Ready", "status": "True"}}
	}
	u.Object["status"] = st
	return u
}

func (d depSt) objects(name string) []*unstructured.Unstructured {
	if !d.present {
		return nil
	}
	u := mkObj("apps/v1", "Deployment", "ns1", name, d.gen, nil)
	u.Object["spec"] = map[string]interface{}{"replicas": d.replicas, "selector": sel("app", name)}
	og := d.gen
	if d.lag {
		og--
	}
	st := map[string]interface{}{"observedGeneration": og, "replicas": d.replicas, "updatedReplicas": d.replicas,
		"readyReplicas": d.ready, "availableReplicas": d.ready}
	if d.conds {
		st["conditions"] = []interface{}{
			map[string]interface{}{"type": "Available", "status": "True"},
			map[string]interface{}{"type": "Progressing", "status": "True", "reason": "NewReplicaSetAvailable"},
		}
	}
	u.Object["status"] = st
	out := []*unstructured.Unstructured{u}
	for _, r := range d.rss {
		ru := mkObj("apps/v1", "ReplicaSet", "ns1", r.name, r.gen, map[string]string{"app": name})
		ru.Object["spec"] = map[string]interface{}{"replicas": r.replicas, "selector": sel("rs", r.name)}
		rog := r.gen
		if r.observedLags {
			rog--
		}
		ru.Object["status"] = map[string]interface{}{"observedGeneration": rog, "replicas": r.replicas,
			"readyReplicas": r.ready, "availableReplicas": r.ready, "fullyLabeledReplicas": r.replicas}
		out = append(out, ru)
		for _, p := range r.pods {
			out = append(out, pod("ns1", p, "rs", r.name))
		}
	}
	return out
}

func genDep(r *rand.Rand, rsNames, podNames []string) depSt {
	d := depSt{present: true, gen: int64(1 + r.Intn(2)), replicas: int64(1 + r.Intn(2)), conds: r.Intn(3) > 0}
	d.ready = d.replicas * int64(r.Intn(2))
	pn := 0
	for i := 0; i < r.Intn(len(rsNames)+1); i++ {
		rs := rsSt{name: rsNames[i], gen: 1, replicas: d.replicas}
		rs.ready = rs.replicas * int64(r.Intn(2))
		for j := 0; j < r.Intn(3) && pn < len(podNames); j++ {
			rs.pods = append(rs.pods, podSt{name: podNames[pn], phase: r.Intn(5)})
			pn++
		}
		d.rss = append(d.rss, rs)
	}
	return d
}

func mutDep(r *rand.Rand, d depSt, rsNames, podNames []string) depSt {
	n := d
	n.rss = append([]rsSt(nil), d.rss...)
	for i := range n.rss {
		n.rss[i].pods = append([]podSt(nil), d.rss[i].pods...)
	}
	switch r.Intn(10) {
	case 0, 1, 2, 3:
	case 4:
		n.present = !n.present
		if n.present && n.gen == 0 {
			return genDep(r, rsNames, podNames)
		}
	case 5:
		n.gen++ // spec edited; status may or may not follow
		n.lag = r.Intn(2) == 0
	case 6:
		n.lag = false
		n.ready = n.replicas
		n.conds = true
	case 7:
		if len(n.rss) > 0 {
			i := r.Intn(len(n.rss))
			n.rss[i].ready = n.rss[i].replicas - n.rss[i].ready
		}
	case 8:
		if len(n.rss) > 0 {
			i := r.Intn(len(n.rss))
			if len(n.rss[i].pods) > 0 {
				j := r.Intn(len(n.rss[i].pods))
				n.rss[i].pods[j].phase = r.Intn(5)
			}
		}
	default:
		if len(n.rss) > 0 && r.Intn(2) == 0 {
			n.rss = n.rss[:len(n.rss)-1]
		} else {
			return genDep(r, rsNames, podNames)
		}
	}
	return n
}

var realReader = statusreaders.NewStatusReader(mapper)

// runReal builds a random history of cluster snapshots, runs the engine with
// the real status readers, and returns the scenario reconstructed from what
// the readers returned together with the observed event stream.
func runReal(r *rand.Rand, maxPolls int) (*scenario, observation) {
	sc := &scenario{}
	cands := []int{2, 3, 6, 0, 5}
	perm := r.Perm(len(cands))
	n := 1 + r.Intn(4)
	for i := 0; i < n; i++ {
		sc.ids = append(sc.ids, cands[perm[i]])
	}
	depA := genDep(r, []string{"r1", "r2"}, []string{"p1", "p2"})
	depB := genDep(r, []string{"r3"}, []string{"p3", "p4"})
	cmGen := int64(1)
	cmBroken := r.Intn(3) == 0
	ssReady := int64(0)
	ssGen := int64(1)
	ssPods := []podSt{{name: "q1", phase: 1}}
	np := 1 + r.Intn(maxPolls)
	var snaps []snapshot
	for k := 0; k < np; k++ {
		if k > 0 {
			depA = mutDep(r, depA, []string{"r1", "r2"}, []string{"p1", "p2"})
			depB = mutDep(r, depB, []string{"r3"}, []string{"p3", "p4"})
			if r.Intn(5) == 0 {
				cmGen++
			}
			if r.Intn(2) == 0 {
				ssReady = 1 - ssReady
				ssPods[0].phase = r.Intn(5)
			}
			if r.Intn(4) == 0 {
				ssGen++ // spec change already observed by the controller: only the generation differs
			}
			if r.Intn(6) == 0 {
				if len(ssPods) == 1 {
					ssPods = append(ssPods, podSt{name: "q2", phase: r.Intn(5)})
				} else {
					ssPods = ssPods[:1]
				}
			}
		}
		s := snapshot{getErr: map[object.ObjMetadata]*merr{}, listErr: map[string]*merr{}}
		s.objs = append(s.objs, depA.objects("a")...)
		s.objs = append(s.objs, depB.objects("b")...)
		if r.Intn(8) > 0 {
			cm := mkObj("v1", "ConfigMap", "ns1", "a", cmGen, nil)
			if cmBroken {
				// status.Compute fails on it (conditions is not a list): the reading is Unknown with an
				// error, and must still carry the object so that a generation change is seen
				cm.Object["status"] = map[string]interface{}{"conditions": map[string]interface{}{"x": "y"}}
			}
			s.objs = append(s.objs, cm)
		}
		s.objs = append(s.objs, mkObj("v1", "ConfigMap", "ns2", "a", 0, nil))
		ss := mkObj("apps/v1", "StatefulSet", "ns2", "s", ssGen, nil)
		ss.Object["spec"] = map[string]interface{}{"replicas": int64(1), "selector": sel("ss", "s"),
			"updateStrategy": map[string]interface{}{"type": "RollingUpdate"}}
		ss.Object["status"] = map[string]interface{}{"observedGeneration": ssGen, "replicas": int64(1),
			"readyReplicas": ssReady, "currentReplicas": int64(1), "updatedReplicas": int64(1),
			"currentRevision": "x", "updateRevision": "x"}
		s.objs = append(s.objs, ss)
		for _, p := range ssPods {
			s.objs = append(s.objs, pod("ns2", p, "ss", "s"))
		}
		// read errors attached to a resource (status Unknown with an error)
		if r.Intn(7) == 0 {
			e := genErr(r, false)
			s.getErr[universe[sc.ids[r.Intn(len(sc.ids))]]] = &e
		}
		if r.Intn(9) == 0 {
			e := genErr(r, false)
			s.listErr[[]string{"ReplicaSet", "Pod"}[r.Intn(2)]] = &e
		}
		snaps = append(snaps, s)
		sc.polls = append(sc.polls, pollScript{reads: map[int]reading{}})
	}
	// ending
	last := &sc.polls[np-1]
	switch k := r.Intn(8); {
	case k < 3:
	case k < 4:
		c := r.Intn(len(sc.ids) + 1)
		last.cancel = &c
	case k < 5:
		e := genErr(r, false)
		last.sync = &e
	case k < 6:
		e := genErr(r, true)
		snaps[np-1].getErr[universe[sc.ids[r.Intn(len(sc.ids))]]] = &e
	case k < 7:
		e := genErr(r, true)
		snaps[np-1].listErr[[]string{"ReplicaSet", "Pod"}[r.Intn(2)]] = &e
	default:
		e := genErr(r, true)
		last.sync = &e
	}

	re := &realEnv{snaps: snaps}
	base := &env{}
	re.env = base
	base.read = func(ctx context.Context, e *env, round int, id object.ObjMetadata) (*event.ResourceStatus, error) {
		ctxBefore := re.ctxErrs
		rs, err := realReader.ReadStatus(ctx, re, id)
		if re.ctxErrs > ctxBefore && err == nil {
			st := "nil"
			if rs != nil {
				st = fmt.Sprintf("%s, %d generated", rs.Status, len(rs.GeneratedResources))
			}
			realMu.Lock()
			realFailures = append(realFailures, fmt.Sprintf("status reader of %s got a context error from the cluster reader and returned a status (%s) instead of the error", id, st))
			realMu.Unlock()
		}
		p := &sc.polls[round]
		i := idx(id)
		if _, seen := p.reads[i]; !seen {
			p.order = append(p.order, i)
		}
		if err != nil {
			c := classify(err)
			p.reads[i] = reading{err: &c}
			return nil, err
		}
		if rs == nil {
			return nil, fmt.Errorf("e997")
		}
		if round >= 0 && round < len(snaps) && snaps[round].getErr[id] == nil && rs.Status != status.NotFoundStatus {
			for _, o := range snaps[round].objs {
				if object.UnstructuredToObjMetadata(o) == id {
					if rs.Resource == nil || rs.Resource.GetGeneration() != o.GetGeneration() {
						realMu.Lock()
						realFailures = append(realFailures, fmt.Sprintf("status reader returned a reading for %s without the object it read (generation %d lost): status=%s error=%v",
							id, o.GetGeneration(), rs.Status, rs.Error))
						realMu.Unlock()
					}
					break
				}
			}
		}
		m := fromEvent(rs)
		p.reads[i] = reading{rs: &m}
		return rs, nil
	}
	obs := runEngineWith(sc, base, re)
	return sc, obs
}
