package c17

import (
	"context"
	"fmt"
	"math/rand"
	"strings"
	"sync"
	"sync/atomic"
	"time"

	"k8s.io/apimachinery/pkg/api/meta"
	"k8s.io/apimachinery/pkg/apis/meta/v1/unstructured"
	"k8s.io/apimachinery/pkg/labels"
	"k8s.io/apimachinery/pkg/runtime/schema"
	"sigs.k8s.io/cli-utils/pkg/kstatus/polling/engine"
	"sigs.k8s.io/cli-utils/pkg/kstatus/polling/event"
	"sigs.k8s.io/cli-utils/pkg/object"
	"sigs.k8s.io/cli-utils/pkg/testutil"
	"sigs.k8s.io/controller-runtime/pkg/client"
	"verifharness/emit"
)

// reading mirrors the Coq type reading.
type reading struct {
	rs  *mrs
	err *merr
}

func (r reading) coq() string {
	if r.err != nil {
		return emit.App("RErr", r.err.coq())
	}
	return emit.App("RStatus", r.rs.coq())
}

// pollScript mirrors pdata: Sync error, cancellation index, readings per id.
type pollScript struct {
	sync   *merr
	cancel *int
	reads  map[int]reading
	order  []int // ids in emission order (for printing)
}

func (p pollScript) coq() string {
	s, c := optErr(p.sync), "None"
	if p.cancel != nil {
		c = "(Some " + emit.Nat(*p.cancel) + ")"
	}
	var l []string
	for _, i := range p.order {
		l = append(l, "("+emit.Nat(i)+", "+p.reads[i].coq()+")")
	}
	return "(" + s + ", " + c + ", " + emit.List(l) + ")"
}

func (p pollScript) text() string {
	var b strings.Builder
	b.WriteString("poll{")
	if p.sync != nil {
		b.WriteString("sync=" + p.sync.coq() + " ")
	}
	if p.cancel != nil {
		fmt.Fprintf(&b, "cancel@%d ", *p.cancel)
	}
	for _, i := range p.order {
		r := p.reads[i]
		if r.err != nil {
			fmt.Fprintf(&b, "%d:ERR %s ", i, r.err.coq())
		} else {
			fmt.Fprintf(&b, "%d:%s ", i, r.rs.text())
		}
	}
	b.WriteString("}")
	return b.String()
}

type scenario struct {
	ids   []int
	pre   *merr  // error of validateIdentifiers / factory
	preBy string // "factory" | "invalid-id"
	polls []pollScript
	// customReaders: the engine is configured with two custom status readers (StatefulSet, Deployment)
	// in front of the default one; which reader is asked is checked by the readers themselves
	customReaders bool
}

type taggedItem struct {
	tag  int
	kind int // 0 upd, 1 err, 2 close
	rs   mrs
	err  merr
}

func (t taggedItem) coq() string {
	switch t.kind {
	case 0:
		return "(" + emit.Nat(t.tag) + ", Upd " + t.rs.coq() + ")"
	case 1:
		return "(" + emit.Nat(t.tag) + ", Err " + t.err.coq() + ")"
	}
	return "(" + emit.Nat(t.tag) + ", Close)"
}
func (t taggedItem) text() string {
	switch t.kind {
	case 0:
		return fmt.Sprintf("#%d Upd%s", t.tag, t.rs.text())
	case 1:
		return "Err " + t.err.coq()
	}
	return "Close"
}

type observation struct {
	items []taggedItem
	reads []int
	fatal *merr
	hang  bool
}

// env is the scripted environment of one run: it is the ClusterReader (Sync is
// the per-round barrier: it advances the script) and the StatusReader.
type env struct {
	mu     sync.Mutex
	sc     *scenario
	cur    int
	iter   int
	cancel context.CancelFunc
	reads  []int
	fatal  *merr
	tags   map[*event.ResourceStatus]int
	// read produces the status for (round, id); nil = take it from the script
	read func(ctx context.Context, e *env, round int, id object.ObjMetadata) (*event.ResourceStatus, error)
}

func (e *env) noteErr(m merr) error {
	if !m.isCtx() && e.fatal == nil {
		c := m
		e.fatal = &c
	}
	return m.goErr()
}

func (e *env) Sync(ctx context.Context) error {
	e.mu.Lock()
	defer e.mu.Unlock()
	if ctx.Err() != nil {
		return ctx.Err()
	}
	e.cur++
	e.iter = 0
	if e.cur >= len(e.sc.polls) {
		e.cancel() // script exhausted: the caller cancels between two rounds
		return ctx.Err()
	}
	e.reads = append(e.reads, 0)
	p := e.sc.polls[e.cur]
	if p.sync != nil {
		return e.noteErr(*p.sync)
	}
	if p.cancel != nil && *p.cancel == 0 {
		e.cancel()
	}
	return nil
}

func (e *env) Get(context.Context, client.ObjectKey, *unstructured.Unstructured) error { return nil }
func (e *env) ListNamespaceScoped(context.Context, *unstructured.UnstructuredList, string, labels.Selector) error {
	return nil
}
func (e *env) ListClusterScoped(context.Context, *unstructured.UnstructuredList, labels.Selector) error {
	return nil
}

func (e *env) Supports(schema.GroupKind) bool { return true }

// kindReader is a custom status reader for one kind (PollerEngine.StatusReaders): the engine must hand
// every identifier of that kind to the first reader that supports it and everything else to the default
// reader. Asked about another kind it fails with an error the script does not contain.
type kindReader struct {
	e    *env
	kind string
}

func (k *kindReader) Supports(gk schema.GroupKind) bool { return gk.Kind == k.kind }
func (k *kindReader) ReadStatus(ctx context.Context, cr engine.ClusterReader, id object.ObjMetadata) (*event.ResourceStatus, error) {
	if id.GroupKind.Kind != k.kind {
		return nil, fmt.Errorf("reader of %s asked about %s e994", k.kind, id.GroupKind.Kind)
	}
	return k.e.readStatus(ctx, cr, id)
}
func (k *kindReader) ReadStatusForObject(context.Context, engine.ClusterReader, *unstructured.Unstructured) (*event.ResourceStatus, error) {
	return nil, fmt.Errorf("not used")
}

var customKinds = []string{"StatefulSet", "Deployment"}

func (e *env) ReadStatus(ctx context.Context, cr engine.ClusterReader, id object.ObjMetadata) (*event.ResourceStatus, error) {
	if e.sc.customReaders {
		for _, k := range customKinds {
			if id.GroupKind.Kind == k {
				return nil, fmt.Errorf("default reader asked about %s although a custom reader supports it e995", k)
			}
		}
	}
	return e.readStatus(ctx, cr, id)
}

func (e *env) readStatus(ctx context.Context, _ engine.ClusterReader, id object.ObjMetadata) (*event.ResourceStatus, error) {
	e.mu.Lock()
	defer e.mu.Unlock()
	p := e.sc.polls[e.cur]
	k := e.iter
	e.iter++
	if p.cancel != nil && *p.cancel == k+1 {
		defer e.cancel()
	}
	if e.read != nil {
		rs, err := e.read(ctx, e, e.cur, id)
		if err != nil {
			c := classify(err)
			if !c.isCtx() && e.fatal == nil {
				e.fatal = &c
			}
			return nil, err
		}
		e.tags[rs] = e.cur
		e.reads[e.cur]++
		return rs, nil
	}
	r, ok := p.reads[idx(id)]
	if !ok {
		return nil, e.noteErr(merr{kind: 2, code: 0})
	}
	if r.err != nil {
		return nil, e.noteErr(*r.err)
	}
	rs := toEvent(*r.rs)
	e.tags[rs] = e.cur
	e.reads[e.cur]++
	return rs, nil
}

func (e *env) ReadStatusForObject(context.Context, engine.ClusterReader, *unstructured.Unstructured) (*event.ResourceStatus, error) {
	return nil, fmt.Errorf("not used")
}

var mapper = testutil.NewFakeRESTMapper(
	schema.GroupVersionKind{Group: "", Version: "v1", Kind: "ConfigMap"},
	schema.GroupVersionKind{Group: "", Version: "v1", Kind: "Pod"},
	schema.GroupVersionKind{Group: "apps", Version: "v1", Kind: "Deployment"},
	schema.GroupVersionKind{Group: "apps", Version: "v1", Kind: "ReplicaSet"},
	schema.GroupVersionKind{Group: "apps", Version: "v1", Kind: "StatefulSet"},
)

var engineRuns atomic.Int64
var errCallerShutdown = fmt.Errorf("caller is shutting down")

// runEngine executes the real PollerEngine.Poll against the scripted
// environment and records everything that arrives on the event channel.
func runEngine(sc *scenario) observation {
	e := &env{}
	return runEngineWith(sc, e, e)
}

// runEngineWith: cr is the ClusterReader handed to the engine (the env itself,
// or a snapshot reader embedding it).
func runEngineWith(sc *scenario, e *env, cr engine.ClusterReader) observation {
	// every other run the caller's context carries a cancellation CAUSE (context.WithCancelCause):
	// ctx.Err() is still context.Canceled, context.Cause(ctx) is the caller's own error (seed C17f)
	var ctx context.Context
	var cancel context.CancelFunc
	if engineRuns.Add(1)%2 == 1 {
		c, cc := context.WithCancelCause(context.Background())
		ctx, cancel = c, func() { cc(errCallerShutdown) }
	} else {
		ctx, cancel = context.WithCancel(context.Background())
	}
	defer cancel()
	e.sc, e.cur, e.cancel, e.tags = sc, -1, cancel, map[*event.ResourceStatus]int{}
	var obs observation
	pe := engine.PollerEngine{
		Mapper:              brokenKindMapper{mapper},
		DefaultStatusReader: e,
		StatusReaders:       []engine.StatusReader{},
		ClusterReaderFactory: engine.ClusterReaderFactoryFunc(func(client.Reader, meta.RESTMapper, object.ObjMetadataSet) (engine.ClusterReader, error) {
			if sc.pre != nil && sc.preBy == "factory" {
				e.mu.Lock()
				defer e.mu.Unlock()
				c := *sc.pre
				e.fatal = &c
				return nil, sc.pre.goErr()
			}
			return cr, nil
		}),
	}
	if sc.customReaders {
		for _, k := range customKinds {
			pe.StatusReaders = append(pe.StatusReaders, &kindReader{e: e, kind: k})
		}
	}
	ids := make(object.ObjMetadataSet, len(sc.ids))
	for i, k := range sc.ids {
		ids[i] = universe[k]
	}
	ch := pe.Poll(ctx, ids, engine.Options{PollInterval: time.Millisecond})
	watchdog := time.NewTimer(10 * time.Second)
	defer watchdog.Stop()
loop:
	for {
		select {
		case ev, ok := <-ch:
			if !ok {
				obs.items = append(obs.items, taggedItem{kind: 2})
				break loop
			}
			switch ev.Type {
			case event.ResourceUpdateEvent:
				e.mu.Lock()
				tag, known := e.tags[ev.Resource]
				e.mu.Unlock()
				if !known {
					tag = 9999
				}
				obs.items = append(obs.items, taggedItem{tag: tag, kind: 0, rs: fromEvent(ev.Resource)})
			case event.ErrorEvent:
				obs.items = append(obs.items, taggedItem{kind: 1, err: classify(ev.Error)})
			default:
				obs.items = append(obs.items, taggedItem{kind: 1, err: merr{kind: 2, code: 998}})
			}
		case <-watchdog.C:
			obs.hang = true
			break loop
		}
	}
	e.mu.Lock()
	obs.reads = append([]int(nil), e.reads...)
	obs.fatal = e.fatal
	e.mu.Unlock()
	if sc.pre != nil && sc.preBy == "invalid-id" {
		obs.fatal = sc.pre
	}
	return obs
}

func (sc *scenario) coq(obs observation) string {
	var ps, its []string
	for _, p := range sc.polls {
		ps = append(ps, p.coq())
	}
	for _, it := range obs.items {
		its = append(its, it.coq())
	}
	return emit.App("ECase", emit.NatList(sc.ids), optErr(sc.pre), emit.List(ps), emit.List(its),
		emit.NatList(obs.reads), optErr(obs.fatal))
}

func (sc *scenario) text(obs observation) string {
	var b strings.Builder
	fmt.Fprintf(&b, "ids=%v", sc.ids)
	if sc.customReaders {
		b.WriteString(" custom-readers")
	}
	if sc.pre != nil {
		fmt.Fprintf(&b, " pre=%s(%s)", sc.pre.coq(), sc.preBy)
	}
	for _, p := range sc.polls {
		b.WriteString(" " + p.text())
	}
	b.WriteString(" => ")
	for _, it := range obs.items {
		b.WriteString(it.text() + " ")
	}
	fmt.Fprintf(&b, "reads=%v fatal=%s", obs.reads, optErr(obs.fatal))
	return b.String()
}

// ---- generators ---------------------------------------------------------------

var polledIDs = []int{0, 2, 3, 5, 6}

func i64(v int64) *int64   { return &v }
func str(s string) *string { return &s }

func genLeaf(r *rand.Rand, id int) mrs {
	m := mrs{id: id, st: r.Intn(6), msg: fmt.Sprintf("m%d", r.Intn(3))}
	switch r.Intn(4) {
	case 0:
	case 1:
		m.gen = i64(0)
	default:
		m.gen = i64(int64(1 + r.Intn(3)))
	}
	if r.Intn(5) == 0 {
		m.err = str(fmt.Sprintf("boom%d", r.Intn(2)))
		m.st = 5
	}
	return m
}

func genRS(r *rand.Rand, id int) mrs {
	m := genLeaf(r, id)
	if r.Intn(3) == 0 { // generated ReplicaSets with Pods
		n := 1 + r.Intn(2)
		for i := 0; i < n; i++ {
			k := genLeaf(r, 4)
			if r.Intn(2) == 0 {
				for j := 0; j < 1+r.Intn(2); j++ {
					k.kids = append(k.kids, genLeaf(r, 1))
				}
			}
			m.kids = append(m.kids, k)
		}
	}
	return m
}

// mutate returns the next reading for a resource: often the same content (in a
// fresh object), otherwise one observable or unobservable difference.
func mutate(r *rand.Rand, m mrs) mrs {
	n := m.clone()
	switch r.Intn(14) {
	case 0, 1, 2, 3, 4:
		// unchanged
	case 5:
		n.st = r.Intn(6)
	case 6:
		n.msg = fmt.Sprintf("m%d", r.Intn(3))
	case 7:
		// nil object <-> generation 0: invisible to ResourceStatusEqual
		if n.gen == nil {
			n.gen = i64(0)
		} else if *n.gen == 0 {
			n.gen = nil
		} else {
			n.gen = i64(*n.gen + 1)
		}
	case 8:
		if n.gen == nil {
			n.gen = i64(int64(1 + r.Intn(2)))
		} else {
			n.gen = i64(*n.gen + int64(r.Intn(2)))
		}
	case 9:
		if n.err == nil {
			n.err = str("boom0")
		} else if r.Intn(2) == 0 {
			n.err = nil
		} else {
			n.err = str("boom1")
		}
	case 10:
		if len(n.kids) > 0 {
			i := r.Intn(len(n.kids))
			n.kids[i] = mutate(r, n.kids[i])
		} else {
			n.kids = append(n.kids, genLeaf(r, 4))
		}
	case 11:
		if len(n.kids) > 1 { // reorder
			n.kids[0], n.kids[1] = n.kids[1], n.kids[0]
		} else if len(n.kids) == 1 {
			n.kids = nil
		}
	case 12:
		if len(n.kids) > 0 && len(n.kids[0].kids) > 0 {
			n.kids[0].kids[0].st = r.Intn(6)
		} else {
			n.kids = append(n.kids, genLeaf(r, 1))
		}
	default:
		return genRS(r, m.id)
	}
	return n
}

func genErr(r *rand.Rand, ctxClass bool) merr {
	if ctxClass {
		return merr{kind: r.Intn(2), wrap: r.Intn(2) == 0}
	}
	return merr{kind: 2, code: 1 + r.Intn(5)}
}

func genScenario(r *rand.Rand, maxPolls int, sum *emit.Summary) *scenario {
	sc := &scenario{customReaders: r.Intn(3) == 0}
	if sc.customReaders {
		sum.Count("engine:custom-status-readers")
	}
	n := r.Intn(5)
	perm := r.Perm(len(polledIDs))
	for i := 0; i < n; i++ {
		sc.ids = append(sc.ids, polledIDs[perm[i]])
	}
	if n > 0 && r.Intn(8) == 0 { // repeated identifier
		sc.ids = append(sc.ids, sc.ids[r.Intn(n)])
		sum.Count("engine:duplicate-id")
	}
	if r.Intn(6) == 0 { // a kind unknown to the REST mapper, anywhere in the list: polled like the others
		at := r.Intn(len(sc.ids) + 1)
		sc.ids = append(sc.ids[:at], append([]int{noMatchID}, sc.ids[at:]...)...)
		sum.Count("engine:unknown-kind-identifier")
	}
	switch k := r.Intn(40); {
	case k < 2:
		e := genErr(r, r.Intn(3) == 0)
		sc.pre, sc.preBy = &e, "factory"
		sum.Count("engine:factory-error")
	case k < 3:
		sc.ids = append(sc.ids, invalidID)
		sc.pre, sc.preBy = &merr{kind: 2, code: 999}, "invalid-id"
		sum.Count("engine:invalid-identifier")
	case k < 4: // the REST mapper fails (not a NoMatch error) for one identifier, anywhere in the list
		at := r.Intn(len(sc.ids) + 1)
		sc.ids = append(sc.ids[:at], append([]int{mapperErrID}, sc.ids[at:]...)...)
		sc.pre, sc.preBy = &merr{kind: 2, code: 997}, "invalid-id"
		sum.Count("engine:mapper-error")
	}
	malformed := r.Intn(12) == 0
	cur := map[int]mrs{}
	for _, i := range sc.ids {
		if !preID(i) {
			cur[i] = genRS(r, i)
		}
	}
	np := 1 + r.Intn(maxPolls)
	for k := 0; k < np; k++ {
		p := pollScript{reads: map[int]reading{}}
		for _, i := range sc.ids {
			if _, seen := p.reads[i]; seen || preID(i) {
				continue
			}
			if k > 0 {
				cur[i] = mutate(r, cur[i])
			}
			c := cur[i].clone()
			if malformed && r.Intn(4) == 0 {
				c.id = polledIDs[r.Intn(len(polledIDs))]
			}
			p.reads[i] = reading{rs: &c}
			p.order = append(p.order, i)
		}
		sc.polls = append(sc.polls, p)
	}
	if malformed {
		sum.Count("engine:malformed-identifier-in-reading")
	}
	// how the run ends
	last := &sc.polls[np-1]
	nid := len(sc.ids)
	switch k := r.Intn(12); {
	case k < 3:
		sum.Count("engine:end=script-end(cancel between rounds)")
	case k < 5:
		c := r.Intn(nid + 1)
		last.cancel = &c
		sum.Count("engine:end=cancel-inside-round")
	case k < 6:
		e := genErr(r, true)
		last.sync = &e
		sum.Count("engine:end=sync-context-error")
	case k < 8:
		e := genErr(r, false)
		last.sync = &e
		sum.Count("engine:end=sync-fatal")
	case k < 9 && nid > 0:
		e := genErr(r, true)
		last.reads[sc.ids[r.Intn(nid)]] = reading{err: &e}
		sum.Count("engine:end=read-context-error")
	case nid > 0:
		e := genErr(r, false)
		last.reads[sc.ids[r.Intn(nid)]] = reading{err: &e}
		if r.Intn(3) == 0 { // a second failing read later in the same round
			e2 := genErr(r, false)
			last.reads[sc.ids[r.Intn(nid)]] = reading{err: &e2}
		}
		sum.Count("engine:end=read-fatal")
	default:
		sum.Count("engine:end=script-end(cancel between rounds)")
	}
	// rounds after the end of the run must not be looked at
	if r.Intn(4) == 0 && (last.cancel != nil || last.sync != nil) {
		extra := pollScript{reads: map[int]reading{}}
		for _, i := range sc.ids {
			if _, seen := extra.reads[i]; seen || preID(i) {
				continue
			}
			c := genRS(r, i)
			extra.reads[i] = reading{rs: &c}
			extra.order = append(extra.order, i)
		}
		sc.polls = append(sc.polls, extra)
		sum.Count("engine:script-continues-after-end")
	}
	return sc
}

// corpus: fixed scenarios run first on every run.
func corpus() []*scenario {
	leaf := func(id, st int, msg string, gen *int64) mrs { return mrs{id: id, st: st, msg: msg, gen: gen} }
	mk := func(ids []int, rounds ...[]mrs) *scenario {
		sc := &scenario{ids: ids}
		for _, rd := range rounds {
			p := pollScript{reads: map[int]reading{}}
			for i := range rd {
				c := rd[i]
				p.reads[c.id] = reading{rs: &c}
				p.order = append(p.order, c.id)
			}
			sc.polls = append(sc.polls, p)
		}
		return sc
	}
	withKids := func(m mrs, kids ...mrs) mrs { m.kids = kids; return m }
	withErr := func(m mrs, e string) mrs { m.err = &e; return m }
	return []*scenario{
		// nil object vs generation 0 is not a change; generation 0 -> 1 is
		mk([]int{2}, []mrs{leaf(2, 0, "m", nil)}, []mrs{leaf(2, 0, "m", i64(0))}, []mrs{leaf(2, 0, "m", i64(1))}, []mrs{leaf(2, 0, "m", i64(1))}),
		// only the generation changes
		mk([]int{2, 0}, []mrs{leaf(2, 2, "m", i64(1)), leaf(0, 2, "", i64(1))}, []mrs{leaf(2, 2, "m", i64(2)), leaf(0, 2, "", i64(1))}),
		// generated resources: reorder, deep change, length change
		mk([]int{2}, []mrs{withKids(leaf(2, 0, "m", i64(1)), withKids(leaf(4, 0, "a", i64(1)), leaf(1, 0, "p", i64(1))), leaf(4, 2, "b", i64(1)))},
			[]mrs{withKids(leaf(2, 0, "m", i64(1)), leaf(4, 2, "b", i64(1)), withKids(leaf(4, 0, "a", i64(1)), leaf(1, 0, "p", i64(1))))},
			[]mrs{withKids(leaf(2, 0, "m", i64(1)), leaf(4, 2, "b", i64(1)), withKids(leaf(4, 0, "a", i64(1)), leaf(1, 2, "p", i64(1))))},
			[]mrs{withKids(leaf(2, 0, "m", i64(1)), leaf(4, 2, "b", i64(1)), withKids(leaf(4, 0, "a", i64(1)), leaf(1, 2, "p", i64(1))))},
			[]mrs{withKids(leaf(2, 0, "m", i64(1)), leaf(4, 2, "b", i64(1)))}),
		// error appears, changes text, disappears
		mk([]int{5}, []mrs{leaf(5, 5, "", nil)}, []mrs{withErr(leaf(5, 5, "", nil), "x")}, []mrs{withErr(leaf(5, 5, "", nil), "x")},
			[]mrs{withErr(leaf(5, 5, "", nil), "y")}, []mrs{leaf(5, 5, "", nil)}),
		// repeated identifier
		mk([]int{2, 2, 0}, []mrs{leaf(2, 0, "m", i64(1)), leaf(0, 2, "", i64(1))}, []mrs{leaf(2, 2, "m", i64(1)), leaf(0, 2, "", i64(1))}),
		// nothing to poll
		mk([]int{}, []mrs{}, []mrs{}),
		// message only
		mk([]int{3}, []mrs{leaf(3, 0, "1/2 ready", i64(1))}, []mrs{leaf(3, 0, "2/2 ready", i64(1))}, []mrs{leaf(3, 0, "2/2 ready", i64(1))}),
		// a kind the REST mapper does not know (custom resource next to its CRD) is polled like any other
		mk([]int{noMatchID, 2}, []mrs{leaf(noMatchID, 4, "Resource not found", nil), leaf(2, 0, "m", i64(1))},
			[]mrs{leaf(noMatchID, 2, "ok", i64(1)), leaf(2, 0, "m", i64(1))}),
		// custom status readers for two kinds in front of the default reader
		func() *scenario {
			sc := mk([]int{2, 6, 0}, []mrs{leaf(2, 0, "m", i64(1)), leaf(6, 0, "s", i64(1)), leaf(0, 2, "", i64(1))},
				[]mrs{leaf(2, 2, "m", i64(1)), leaf(6, 0, "s", i64(2)), leaf(0, 2, "", i64(1))})
			sc.customReaders = true
			return sc
		}(),
		// the REST mapper fails otherwise: one error event, nothing polled
		func() *scenario {
			sc := mk([]int{2, mapperErrID}, []mrs{leaf(2, 0, "m", i64(1))})
			sc.pre, sc.preBy = &merr{kind: 2, code: 997}, "invalid-id"
			return sc
		}(),
	}
}
