// Package c17 drives the real polling engine, aggregator and collector and
// writes the observations as Coq cases.
package c17

import (
	"context"
	"errors"
	"fmt"
	"regexp"
	"strconv"
	"strings"

	"k8s.io/apimachinery/pkg/apis/meta/v1/unstructured"
	"k8s.io/apimachinery/pkg/runtime/schema"
	"sigs.k8s.io/cli-utils/pkg/kstatus/polling/event"
	"sigs.k8s.io/cli-utils/pkg/kstatus/status"
	"sigs.k8s.io/cli-utils/pkg/object"
	"verifharness/emit"
)

// universe of identifiers, numbered in the order of event.ResourceStatuses.Less
// (namespace, group, kind, name); index 7 is the invalid one (namespaced kind
// without namespace) and is used only to make validateIdentifiers fail.
var universe = []object.ObjMetadata{
	{Namespace: "ns1", Name: "a", GroupKind: schema.GroupKind{Group: "", Kind: "ConfigMap"}},
	{Namespace: "ns1", Name: "p", GroupKind: schema.GroupKind{Group: "", Kind: "Pod"}},
	{Namespace: "ns1", Name: "a", GroupKind: schema.GroupKind{Group: "apps", Kind: "Deployment"}},
	{Namespace: "ns1", Name: "b", GroupKind: schema.GroupKind{Group: "apps", Kind: "Deployment"}},
	{Namespace: "ns1", Name: "r", GroupKind: schema.GroupKind{Group: "apps", Kind: "ReplicaSet"}},
	{Namespace: "ns2", Name: "a", GroupKind: schema.GroupKind{Group: "", Kind: "ConfigMap"}},
	{Namespace: "ns2", Name: "s", GroupKind: schema.GroupKind{Group: "apps", Kind: "StatefulSet"}},
	{Namespace: "", Name: "x", GroupKind: schema.GroupKind{Group: "apps", Kind: "Deployment"}},
}

const invalidID = 7

func idx(id object.ObjMetadata) int {
	for i, u := range universe {
		if u == id {
			return i
		}
	}
	return 99
}

var statuses = []status.Status{status.InProgressStatus, status.FailedStatus, status.CurrentStatus,
	status.TerminatingStatus, status.NotFoundStatus, status.UnknownStatus}
var statusNames = []string{"InProgress", "Failed", "Current", "Terminating", "NotFound", "Unknown"}

func statusIdx(s status.Status) int {
	for i, x := range statuses {
		if x == s {
			return i
		}
	}
	return -1
}

// mrs mirrors the Coq record rstatus.
type mrs struct {
	id   int
	st   int
	msg  string
	gen  *int64
	err  *string
	kids []mrs
}

func (r mrs) coq() string {
	g, e := "None", "None"
	if r.gen != nil {
		g = "(Some " + emit.Z(*r.gen) + ")"
	}
	if r.err != nil {
		e = "(Some " + emit.Str(*r.err) + ")"
	}
	k := make([]string, len(r.kids))
	for i, c := range r.kids {
		k[i] = r.kids[i].coq()
		_ = c
	}
	return emit.App("RS", emit.Nat(r.id), statusNames[r.st], emit.Str(r.msg), g, e, emit.List(k))
}

func (r mrs) text() string {
	var b strings.Builder
	fmt.Fprintf(&b, "{%d %s %q", r.id, statusNames[r.st], r.msg)
	if r.gen != nil {
		fmt.Fprintf(&b, " gen=%d", *r.gen)
	} else {
		b.WriteString(" gen=nil")
	}
	if r.err != nil {
		fmt.Fprintf(&b, " err=%q", *r.err)
	}
	if len(r.kids) > 0 {
		b.WriteString(" kids=[")
		for _, k := range r.kids {
			b.WriteString(k.text())
		}
		b.WriteString("]")
	}
	b.WriteString("}")
	return b.String()
}

func (r mrs) clone() mrs {
	c := r
	if r.gen != nil {
		g := *r.gen
		c.gen = &g
	}
	if r.err != nil {
		e := *r.err
		c.err = &e
	}
	c.kids = make([]mrs, len(r.kids))
	for i := range r.kids {
		c.kids[i] = r.kids[i].clone()
	}
	return c
}

// toEvent builds a fresh event.ResourceStatus for the model record.
func toEvent(r mrs) *event.ResourceStatus {
	rs := &event.ResourceStatus{Identifier: universe[r.id], Status: statuses[r.st], Message: r.msg}
	if r.gen != nil {
		u := &unstructured.Unstructured{Object: map[string]interface{}{}}
		u.SetName(universe[r.id].Name)
		if *r.gen != 0 {
			u.SetGeneration(*r.gen)
		}
		rs.Resource = u
	}
	if r.err != nil {
		rs.Error = errors.New(*r.err)
	}
	for _, k := range r.kids {
		rs.GeneratedResources = append(rs.GeneratedResources, toEvent(k))
	}
	return rs
}

// fromEvent projects a real ResourceStatus onto the model record.
func fromEvent(rs *event.ResourceStatus) mrs {
	r := mrs{id: idx(rs.Identifier), st: statusIdx(rs.Status), msg: rs.Message}
	if rs.Resource != nil {
		g := rs.Resource.GetGeneration()
		r.gen = &g
	}
	if rs.Error != nil {
		e := rs.Error.Error()
		r.err = &e
	}
	for _, k := range rs.GeneratedResources {
		r.kids = append(r.kids, fromEvent(k))
	}
	return r
}

// merr mirrors the Coq type err.
type merr struct {
	kind int // 0 canceled, 1 deadline, 2 other
	code int
	wrap bool
}

func (e merr) coq() string {
	switch e.kind {
	case 0:
		return "ECanceled"
	case 1:
		return "EDeadline"
	}
	return emit.App("EOther", emit.Nat(e.code))
}
func (e merr) isCtx() bool { return e.kind < 2 }
func (e merr) goErr() error {
	var base error
	switch e.kind {
	case 0:
		base = context.Canceled
	case 1:
		base = context.DeadlineExceeded
	default:
		return fmt.Errorf("e%d", e.code)
	}
	if e.wrap {
		return fmt.Errorf("list failed: %w", base)
	}
	return base
}

var errCode = regexp.MustCompile(`e(\d+)$`)

func classify(err error) merr {
	if err == nil { // an error event that carries no error
		return merr{kind: 2, code: 996}
	}
	if errors.Is(err, context.Canceled) {
		return merr{kind: 0}
	}
	if errors.Is(err, context.DeadlineExceeded) {
		return merr{kind: 1}
	}
	if m := errCode.FindStringSubmatch(err.Error()); m != nil {
		n, _ := strconv.Atoi(m[1])
		return merr{kind: 2, code: n}
	}
	return merr{kind: 2, code: 999}
}

func optErr(e *merr) string {
	if e == nil {
		return "None"
	}
	return "(Some " + e.coq() + ")"
}
