package c17

import (
	"fmt"
	"math/rand"
	"strings"
	"sync"
	"time"

	"sigs.k8s.io/cli-utils/pkg/kstatus/polling/aggregator"
	"sigs.k8s.io/cli-utils/pkg/kstatus/polling/collector"
	"sigs.k8s.io/cli-utils/pkg/kstatus/polling/event"
	"sigs.k8s.io/cli-utils/pkg/kstatus/status"
	"sigs.k8s.io/cli-utils/pkg/object"
	"verifharness/emit"
)

// ---- aggregator: exhaustive -------------------------------------------------

func allStatusLists(maxLen int) [][]int {
	out := [][]int{{}}
	frontier := [][]int{{}}
	for l := 1; l <= maxLen; l++ {
		var next [][]int
		for _, p := range frontier {
			for s := 0; s < 6; s++ {
				next = append(next, append(append([]int{}, p...), s))
			}
		}
		out = append(out, next...)
		frontier = next
	}
	return out
}

func statusList(l []int) string {
	s := make([]string, len(l))
	for i, x := range l {
		s[i] = statusNames[x]
	}
	return emit.List(s)
}

func runAggregator(maxLen int, outDir string, sum *emit.Summary) (terms []string, nontr []bool, err error) {
	lists := allStatusLists(maxLen)
	const perFile = 1600
	var cf *emit.CaseFile
	flush := func() error {
		if cf != nil && len(cf.Cases) > 0 {
			return cf.Write(outDir, sum)
		}
		return nil
	}
	for n, l := range lists {
		if n%perFile == 0 {
			if err := flush(); err != nil {
				return nil, nil, err
			}
			cf = &emit.CaseFile{Name: fmt.Sprintf("Cases_C17_agg%d", n/perFile),
				Imports: "From CliUtils Require Import Model.Engine Corr.CorrC17.", Check: "check_agg"}
		}
		rss := make([]*event.ResourceStatus, len(l))
		for i, s := range l {
			rss[i] = &event.ResourceStatus{Identifier: universe[i%len(universe)], Status: statuses[s]}
		}
		var in []*event.ResourceStatus
		if len(l) > 0 {
			in = rss // the empty list is passed as a nil slice
		}
		res := make([]int, 6)
		var txt []string
		for d := 0; d < 6; d++ {
			var got status.Status
			func() {
				defer func() {
					if e := recover(); e != nil {
						got = "PANIC"
					}
				}()
				got = aggregator.AggregateStatus(in, statuses[d])
			}()
			res[d] = statusIdx(got)
			if res[d] < 0 {
				sum.ImplFailures = append(sum.ImplFailures, fmt.Sprintf("AggregateStatus(%v, %s) returned %q", l, statusNames[d], got))
				res[d] = 0
			}
			txt = append(txt, statusNames[d]+"->"+string(got))
			sum.Count("agg:result=" + string(got))
		}
		term := "(" + statusList(l) + ", " + statusList(res) + ")"
		cf.Add(term, fmt.Sprintf("AggregateStatus %s desired: %s", statusList(l), strings.Join(txt, " ")))
		terms = append(terms, term)
		nontr = append(nontr, len(l) > 0)
	}
	return terms, nontr, flush()
}

// ---- collector ----------------------------------------------------------------

type cev struct {
	kind int // 0 update 1 error 2 sync
	rs   mrs
	err  merr
}

func (c cev) coq() string {
	switch c.kind {
	case 0:
		return emit.App("CUpdate", c.rs.coq())
	case 1:
		return emit.App("CError", c.err.coq())
	}
	return "CSync"
}

var etypes = []string{"TUpdate", "TError", "TSync"}

func runCollector(r *rand.Rand, n int, outDir string, sum *emit.Summary) (terms []string, nontr []bool, err error) {
	var cf *emit.CaseFile
	all := []int{0, 1, 2, 3, 4, 5, 6}
	for c := 0; c < n; c++ {
		if c%600 == 0 {
			if cf != nil {
				if err := cf.Write(outDir, sum); err != nil {
					return nil, nil, err
				}
			}
			cf = &emit.CaseFile{Name: fmt.Sprintf("Cases_C17_collector%d", c/600),
				Imports: "From CliUtils Require Import Model.Engine Model.Collector Corr.CorrC17.", Check: "check_collector"}
		}
		var ids []int
		for _, i := range all {
			if r.Intn(2) == 0 {
				ids = append(ids, i)
			}
		}
		r.Shuffle(len(ids), func(i, j int) { ids[i], ids[j] = ids[j], ids[i] })
		if len(ids) > 0 && r.Intn(6) == 0 {
			ids = append(ids, ids[0])
		}
		ne := r.Intn(12)
		var es []cev
		for i := 0; i < ne; i++ {
			switch k := r.Intn(10); {
			case k < 7:
				id := all[r.Intn(len(all))] // may be outside the initial set
				if len(ids) > 0 && r.Intn(3) > 0 {
					id = ids[r.Intn(len(ids))]
				}
				es = append(es, cev{kind: 0, rs: genRS(r, id)})
			case k < 9:
				es = append(es, cev{kind: 1, err: genErr(r, r.Intn(4) == 0)})
			default:
				es = append(es, cev{kind: 2})
			}
		}
		set := make(object.ObjMetadataSet, len(ids))
		for i, k := range ids {
			set[i] = universe[k]
		}
		col := collector.NewResourceStatusCollector(set)
		ch := make(chan event.Event)
		// every other history is consumed through an observer (how cmd/status follows the collector):
		// it must be told about every event, after the event has been taken into the collector
		var done <-chan collector.ListenerResult
		notified, early := 0, 0
		if c%2 == 0 {
			done = col.Listen(ch)
		} else {
			done = col.ListenWithObserver(ch, collector.ObserverFunc(func(rsc *collector.ResourceStatusCollector, e event.Event) {
				notified++
				// observations are taken while the history goes on, not only at its end
				if o := rsc.LatestObservation(); o.LastEventType != e.Type {
					early++
				}
				if rsc.LastEventType != e.Type || (e.Type == event.ResourceUpdateEvent && rsc.ResourceStatuses[e.Resource.Identifier] != e.Resource) {
					early++
				}
			}))
		}
		var results []merr
		var wg sync.WaitGroup
		wg.Add(1)
		go func() {
			defer wg.Done()
			for res := range done {
				results = append(results, classify(res.Err))
			}
		}()
		hang := false
		for _, e := range es {
			var ev event.Event
			switch e.kind {
			case 0:
				ev = event.Event{Type: event.ResourceUpdateEvent, Resource: toEvent(e.rs)}
			case 1:
				ev = event.Event{Type: event.ErrorEvent, Error: e.err.goErr()}
			default:
				ev = event.Event{Type: event.SyncEvent}
			}
			select {
			case ch <- ev:
			case <-time.After(5 * time.Second):
				hang = true
			}
			if hang {
				break
			}
			sum.Count("collector:event=" + etypes[e.kind])
		}
		if hang { // the collector goroutine is stuck: do not wait for it
			sum.ImplFailures = append(sum.ImplFailures, fmt.Sprintf("collector did not accept an event within 5s (ids=%v, %d events, observer=%v)", ids, len(es), c%2 == 1))
			if len(sum.ImplFailures) > 3 {
				break
			}
			continue
		}
		close(ch)
		finished := make(chan struct{})
		go func() { wg.Wait(); close(finished) }()
		stuck := false
		select {
		case <-finished:
		case <-time.After(5 * time.Second): // the collector took the last event and never came back
			stuck = true
		}
		if stuck {
			sum.ImplFailures = append(sum.ImplFailures, fmt.Sprintf("collector did not finish within 5s after its event channel was closed (ids=%v, %d events, observer=%v)", ids, len(es), c%2 == 1))
			if len(sum.ImplFailures) > 3 {
				break
			}
			continue
		}
		if c%2 == 1 && (notified != len(es) || early != 0) {
			sum.ImplFailures = append(sum.ImplFailures, fmt.Sprintf("collector observer: %d events, %d notifications, %d of them before the event was recorded (ids=%v)", len(es), notified, early, ids))
		}
		obs := col.LatestObservation()
		var sts, est, rst []string
		for _, rs := range obs.ResourceStatuses {
			sts = append(sts, fromEvent(rs).coq())
		}
		for _, e := range es {
			est = append(est, e.coq())
		}
		for _, e := range results {
			rst = append(rst, e.coq())
		}
		var oe *merr
		if obs.Error != nil {
			c := classify(obs.Error)
			oe = &c
		}
		lt := int(obs.LastEventType)
		if lt < 0 || lt > 2 {
			lt = 0
		}
		term := emit.App("CCase", emit.NatList(ids), emit.List(est), emit.List(sts), etypes[lt], optErr(oe), emit.List(rst))
		cf.Add(term, fmt.Sprintf("collector ids=%v events=%s => %s last=%s err=%s", ids, emit.List(est), emit.List(sts), etypes[lt], optErr(oe)))
		terms = append(terms, term)
		nontr = append(nontr, ne > 0)
	}
	return terms, nontr, cf.Write(outDir, sum)
}

// ---- Run ------------------------------------------------------------------------

// Run generates and executes the C17 cases.
func Run(seed int64, tier, outDir string) (*emit.Summary, error) {
	r := rand.New(rand.NewSource(seed))
	sum := emit.NewSummary("C17", seed, tier)
	nEngine, nReal, maxPolls, aggLen, nColl := 900, 300, 8, 4, 600
	if tier == "thorough" {
		nEngine, nReal, maxPolls, aggLen, nColl = 9000, 3000, 12, 5, 6000
	}

	// 1. engine, scripted status reader
	var scs []*scenario
	scs = append(scs, corpus()...)
	for i := 0; i < nEngine; i++ {
		scs = append(scs, genScenario(r, maxPolls, sum))
	}
	for i := 0; i < nReal; i++ {
		scs = append(scs, nil) // placeholders for the real-reader stream
	}
	realSeeds := make([]int64, nReal)
	for i := range realSeeds {
		realSeeds[i] = r.Int63()
	}
	obs := make([]observation, len(scs))
	var wg sync.WaitGroup
	sem := make(chan struct{}, 12)
	base := len(scs) - nReal
	for i := range scs {
		wg.Add(1)
		sem <- struct{}{}
		go func(i int) {
			defer wg.Done()
			defer func() { <-sem }()
			if i >= base {
				scs[i], obs[i] = runReal(rand.New(rand.NewSource(realSeeds[i-base])), maxPolls)
			} else {
				obs[i] = runEngine(scs[i])
			}
		}(i)
	}
	wg.Wait()
	var eterms []string
	var enontr []bool
	const perFile = 200
	var cf *emit.CaseFile
	for i, sc := range scs {
		if i%perFile == 0 {
			if cf != nil {
				if err := cf.Write(outDir, sum); err != nil {
					return nil, err
				}
			}
			cf = &emit.CaseFile{Name: fmt.Sprintf("Cases_C17_engine%d", i/perFile),
				Imports: "From CliUtils Require Import Model.Engine Corr.CorrC17.", Check: "check_engine"}
		}
		o := obs[i]
		if i == 0 {
			realMu.Lock()
			seen := map[string]bool{}
			for _, f := range realFailures {
				if !seen[f] && len(seen) < 10 {
					seen[f] = true
					sum.ImplFailures = append(sum.ImplFailures, f)
				}
			}
			realMu.Unlock()
		}
		if o.hang {
			sum.ImplFailures = append(sum.ImplFailures, "event channel not closed within 10s: "+sc.text(o))
		}
		term := sc.coq(o)
		cf.Add(term, sc.text(o))
		eterms = append(eterms, term)
		nu := 0
		for _, it := range o.items {
			if it.kind == 0 {
				nu++
				sum.Count("engine:item=update")
			} else if it.kind == 1 {
				sum.Count("engine:item=error")
			}
		}
		sum.Count(fmt.Sprintf("engine:rounds-started=%d", len(o.reads)))
		if i >= base {
			sum.Count("engine:stream=real-status-readers")
		} else {
			sum.Count("engine:stream=scripted-status-reader")
		}
		enontr = append(enontr, len(sc.polls) > 1 && nu > 0)
	}
	if cf != nil {
		if err := cf.Write(outDir, sum); err != nil {
			return nil, err
		}
	}

	// 2. aggregator, exhaustive
	aterms, anontr, err := runAggregator(aggLen, outDir, sum)
	if err != nil {
		return nil, err
	}
	// 3. collector
	cterms, cnontr, err := runCollector(r, nColl, outDir, sum)
	if err != nil {
		return nil, err
	}

	sum.Evaluations = len(eterms) + len(aterms)*6 + len(cterms)
	sum.DistinctNontrivial = emit.Distinct(eterms, enontr) + emit.Distinct(aterms, anontr)*6 + emit.Distinct(cterms, cnontr)
	sum.Exhaustive = false
	sum.Extra["aggregator"] = fmt.Sprintf("exhaustive: all %d status lists of length <= %d over 6 statuses x 6 desired statuses", len(aterms), aggLen)
	sum.Rule = "engine: seeded scripts of 1..N rounds over 0-5 identifiers (repeats, generated-resource trees, invisible and visible mutations, " +
		"every way a run can end) run through the real PollerEngine.Poll with a 1ms interval, plus a stream through the real status readers; " +
		"non-trivial = more than one round and at least one update; aggregator: every list (one evaluation per desired status), non-trivial = non-empty; " +
		"collector: random event lists, non-trivial = at least one event; distinct = distinct Coq case terms"
	sum.Samples = []any{scs[len(corpus())].text(obs[len(corpus())]), "aggregator: " + aterms[len(aterms)/2], "collector: " + cterms[len(cterms)/2]}
	return sum, nil
}
