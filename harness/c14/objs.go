package c14

import (
	"fmt"
	"math/rand"
	"strings"

	"k8s.io/apimachinery/pkg/apis/meta/v1/unstructured"
	"sigs.k8s.io/cli-utils/pkg/multierror"
	"sigs.k8s.io/cli-utils/pkg/object"
	"sigs.k8s.io/cli-utils/pkg/object/dependson"
	"sigs.k8s.io/cli-utils/pkg/object/graph"
	"sigs.k8s.io/cli-utils/pkg/object/mutation"
	"sigs.k8s.io/cli-utils/pkg/object/validation"
	"verifharness/emit"
)

const (
	annAbsent = iota
	annBad
	annDeps
)

// the apply-time-mutation annotation
const (
	mutAbsent = iota
	mutBad    // present, yaml.Unmarshal into ApplyTimeMutation fails
	mutSrcs   // present and parsed: one source reference per substitution (possibly none)
)

// msrc is the source reference of one substitution.
type msrc struct {
	id     int  // table index of SourceRef.ToObjMetadata()
	viaAPI bool // written with apiVersion (GROUP/v1) instead of group
}

const (
	specNone      = iota
	specFull      // spec.group and spec.names.kind, both strings
	specGroupOnly // spec.group only
	specKindOnly  // spec.names.kind only
	specBadGroup  // spec.group is a number
)

// ospec describes one object of a SortObjs input.
type ospec struct {
	id     int
	annot  int
	bad    string // annotation text when annot == annBad
	badDeps  []int  // when set: the malformed text is these references with one blank entry inserted
	badK     int
	badBlank string
	deps   []int
	spec   int
	sg, sk string
	mut    int
	mbad   string // annotation text when mut == mutBad
	srcs   []msrc // when mut == mutSrcs, in annotation order
}

// annotation texts that mutation.ReadAnnotation rejects: broken YAML, a scalar,
// a mapping instead of a list, wrongly typed members
var badMuts = []string{
	"{{ not yaml",
	"not-a-list",
	"sourceRef: {kind: ConfigMap, name: a}",
	"- sourceRef: 7",
	"- [1, 2]",
	"- sourceRef:\n    kind: [x]\n",
	"- sourceRef: {kind: ConfigMap, name: a}\n  sourcePath: {a: b}\n",
}

// mutYAML writes the annotation by hand (every string double-quoted, so that
// names like "y" or "n" stay strings): group or apiVersion form per reference,
// namespace omitted when empty (ResourceReference.Namespace is omitempty).
func mutYAML(tab *table, srcs []msrc) string {
	if len(srcs) == 0 {
		return "[]"
	}
	var b strings.Builder
	for k, m := range srcs {
		id := tab.ids[m.id]
		fmt.Fprintf(&b, "- sourceRef:\n    kind: %q\n", id.GroupKind.Kind)
		if m.viaAPI {
			av := "v1"
			if id.GroupKind.Group != "" {
				av = id.GroupKind.Group + "/v1"
			}
			fmt.Fprintf(&b, "    apiVersion: %q\n", av)
		} else if id.GroupKind.Group != "" {
			fmt.Fprintf(&b, "    group: %q\n", id.GroupKind.Group)
		}
		fmt.Fprintf(&b, "    name: %q\n", id.Name)
		if id.Namespace != "" {
			fmt.Fprintf(&b, "    namespace: %q\n", id.Namespace)
		}
		fmt.Fprintf(&b, "  sourcePath: \"$.status.f%d\"\n  targetPath: \"$.spec.g%d\"\n", k, k%2)
		if k%2 == 1 {
			fmt.Fprintf(&b, "  token: \"${t%d}\"\n", k)
		}
	}
	return b.String()
}

func (o ospec) srcIDs() []int {
	l := make([]int, len(o.srcs))
	for i, m := range o.srcs {
		l[i] = m.id
	}
	return l
}

var badAnnots = []string{"not-a-reference", "", "a/b", "apps/namespace/ns1/Deployment/x", "/ConfigMap/a,", "a/b/c/d"}

func (o ospec) clone() ospec {
	c := o
	c.deps = append([]int(nil), o.deps...)
	c.srcs = append([]msrc(nil), o.srcs...)
	return c
}

// badText is the text of a malformed depends-on annotation.
func (o ospec) badText(tab *table) string {
	if o.badDeps == nil {
		return o.bad
	}
	parts := make([]string, 0, len(o.badDeps)+1)
	for i, d := range o.badDeps {
		if i == o.badK {
			parts = append(parts, o.badBlank)
		}
		str, err := dependson.FormatObjMetadata(tab.ids[d])
		if err != nil {
			panic("c14: FormatObjMetadata: " + err.Error())
		}
		parts = append(parts, str)
	}
	if o.badK >= len(o.badDeps) {
		parts = append(parts, o.badBlank)
	}
	return strings.Join(parts, ",")
}

func (o ospec) build(tab *table) *unstructured.Unstructured {
	id := tab.ids[o.id]
	apiVersion := "v1"
	if id.GroupKind.Group != "" {
		apiVersion = id.GroupKind.Group + "/v1"
	}
	meta := map[string]interface{}{"name": id.Name}
	if id.Namespace != "" {
		meta["namespace"] = id.Namespace
	}
	ann := map[string]interface{}{}
	switch o.mut {
	case mutBad:
		ann[mutation.Annotation] = o.mbad
	case mutSrcs:
		ann[mutation.Annotation] = mutYAML(tab, o.srcs)
	}
	switch o.annot {
	case annBad:
		ann[dependson.Annotation] = o.badText(tab)
	case annDeps:
		parts := make([]string, len(o.deps))
		for i, d := range o.deps {
			s, err := dependson.FormatObjMetadata(tab.ids[d])
			if err != nil {
				panic("c14: FormatObjMetadata: " + err.Error())
			}
			parts[i] = s
		}
		ann[dependson.Annotation] = strings.Join(parts, ",")
	}
	if len(ann) > 0 {
		meta["annotations"] = ann
	}
	u := &unstructured.Unstructured{Object: map[string]interface{}{
		"apiVersion": apiVersion,
		"kind":       id.GroupKind.Kind,
		"metadata":   meta,
	}}
	switch o.spec {
	case specFull:
		u.Object["spec"] = map[string]interface{}{"group": o.sg, "names": map[string]interface{}{"kind": o.sk}}
	case specGroupOnly:
		u.Object["spec"] = map[string]interface{}{"group": o.sg}
	case specKindOnly:
		u.Object["spec"] = map[string]interface{}{"names": map[string]interface{}{"kind": o.sk}}
	case specBadGroup:
		u.Object["spec"] = map[string]interface{}{"group": int64(7), "names": map[string]interface{}{"kind": o.sk}}
	}
	return u
}

func (o ospec) coq(tab *table) string {
	var a string
	switch o.annot {
	case annAbsent:
		a = "NoAnnot"
	case annBad:
		a = "BadAnnot"
	default:
		a = emit.App("Deps", emit.NatList(o.deps))
	}
	var m string
	switch o.mut {
	case mutAbsent:
		m = "NoMut"
	case mutBad:
		m = "BadMut"
	default:
		m = emit.App("Muts", emit.NatList(o.srcIDs()))
	}
	crd := "None"
	if isCRDGK(tab.ids[o.id].GroupKind) && o.spec == specFull {
		crd = "(Some (" + emit.Str(o.sg) + ", " + emit.Str(o.sk) + "))"
	}
	return emit.App("mkObj", emit.Nat(o.id), a, m, crd)
}

func (o ospec) text(tab *table) string {
	s := fmt.Sprintf("%d", o.id)
	var extra []string
	switch o.annot {
	case annBad:
		extra = append(extra, fmt.Sprintf("bad-annot %q", o.badText(tab)))
	case annDeps:
		extra = append(extra, fmt.Sprintf("deps %v", o.deps))
	}
	switch o.mut {
	case mutBad:
		extra = append(extra, fmt.Sprintf("bad-mut %q", o.mbad))
	case mutSrcs:
		l := make([]string, len(o.srcs))
		for i, m := range o.srcs {
			l[i] = fmt.Sprintf("%d", m.id)
			if m.viaAPI {
				l[i] += "v" // reference written with apiVersion
			}
		}
		extra = append(extra, "muts ["+strings.Join(l, " ")+"]")
	}
	switch o.spec {
	case specFull:
		extra = append(extra, fmt.Sprintf("spec %s/%s", o.sg, o.sk))
	case specGroupOnly:
		extra = append(extra, "spec group-only")
	case specKindOnly:
		extra = append(extra, "spec kind-only")
	case specBadGroup:
		extra = append(extra, "spec group-not-a-string")
	}
	if len(extra) > 0 {
		s += "{" + strings.Join(extra, "; ") + "}"
	}
	return s
}

func objsTerm(tab *table, objs []ospec) string {
	if len(objs) == 0 {
		return "(@nil (obj nat))"
	}
	s := make([]string, len(objs))
	for i, o := range objs {
		s[i] = o.coq(tab)
	}
	return emit.List(s)
}

func objsText(tab *table, objs []ospec) string {
	s := make([]string, len(objs))
	for i, o := range objs {
		s[i] = o.text(tab)
	}
	return "[" + strings.Join(s, " ") + "]"
}

func buildObjs(tab *table, objs []ospec) object.UnstructuredSet {
	us := make(object.UnstructuredSet, len(objs))
	for i, o := range objs {
		us[i] = o.build(tab)
	}
	return us
}

type oobs struct {
	sets     [][]int
	cyc      bool
	cycIDs   []int
	bad      []int
	isErr    bool
	panicked bool
	// graph.DependencyGraph on the same objects
	edges [][2]int // Dependencies(id) of every table id, adjacency order kept
	dgBad []int    // ids named by its error, in order
}

// setsToIdx maps returned objects to table indices and checks that every
// returned pointer is one of the input pointers.
func (h *harness) setsToIdx(tab *table, in object.UnstructuredSet, sets []object.UnstructuredSet, what string) [][]int {
	known := map[*unstructured.Unstructured]bool{}
	for _, u := range in {
		known[u] = true
	}
	out := make([][]int, len(sets))
	for i, s := range sets {
		out[i] = make([]int, len(s))
		for j, u := range s {
			if !known[u] {
				h.fail(what + " returned an object pointer that is not one of the inputs: " + idText(object.UnstructuredToObjMetadata(u)))
			}
			out[i][j] = tab.ix(object.UnstructuredToObjMetadata(u))
		}
	}
	return out
}

// splitErr flattens an error of SortObjs into (cyclic ids, other ids).
func (h *harness) splitErr(tab *table, err error, o *oobs) {
	if err == nil {
		return
	}
	o.isErr = true
	for _, e := range multierror.Unwrap(err) {
		ve, ok := e.(*validation.Error)
		if !ok {
			h.fail(fmt.Sprintf("SortObjs returned an error element that is not *validation.Error: %T %v", e, e))
			continue
		}
		if _, isCyc := ve.Unwrap().(graph.CyclicDependencyError); isCyc {
			if o.cyc {
				h.fail("SortObjs returned two cyclic dependency errors")
			}
			o.cyc = true
			o.cycIDs = tab.ixs(ve.Identifiers())
		} else {
			o.bad = append(o.bad, tab.ixs(ve.Identifiers())...)
		}
	}
}

func (h *harness) observeObjs(tab *table, objs []ospec) oobs {
	var o oobs
	us := buildObjs(tab, objs)
	var sets []object.UnstructuredSet
	var err error
	o.panicked = guard(func() { sets, err = graph.SortObjs(us) })
	o.sets = h.setsToIdx(tab, us, sets, "SortObjs")
	h.splitErr(tab, err, &o)
	h.checkMutRead(tab, objs, us)

	// DependencyGraph itself: its edges and its own error
	var g *graph.Graph
	var gerr error
	if guard(func() { g, gerr = graph.DependencyGraph(us) }) {
		o.panicked = true
	}
	if g == nil {
		h.fail("DependencyGraph returned a nil graph")
		return o
	}
	for i, id := range tab.ids {
		for _, to := range g.Dependencies(id) {
			o.edges = append(o.edges, [2]int{i, tab.ix(to)})
		}
	}
	if gerr != nil {
		for _, e := range multierror.Unwrap(gerr) {
			ve, ok := e.(*validation.Error)
			if !ok {
				h.fail(fmt.Sprintf("DependencyGraph returned an error element that is not *validation.Error: %T %v", e, e))
				continue
			}
			o.dgBad = append(o.dgBad, tab.ixs(ve.Identifiers())...)
		}
	}
	return o
}

// checkMutRead is a sanity check of the HARNESS: the hand-written annotation
// text must be read by mutation.ReadAnnotation as the generator meant it
// (rejected / the intended source ids in order), because the case handed to
// Coq describes the annotation "as DependencyGraph reads it".
func (h *harness) checkMutRead(tab *table, objs []ospec, us object.UnstructuredSet) {
	for i, o := range objs {
		if mutation.HasAnnotation(us[i]) != (o.mut != mutAbsent) {
			h.fail("harness: HasAnnotation disagrees with the generated object " + o.text(tab))
			continue
		}
		if o.mut == mutAbsent {
			continue
		}
		subs, err := mutation.ReadAnnotation(us[i])
		if o.mut == mutBad {
			if err == nil {
				h.fail(fmt.Sprintf("harness: mutation annotation meant to be rejected is accepted: %q", o.mbad))
			}
			continue
		}
		if err != nil {
			h.fail(fmt.Sprintf("harness: generated mutation annotation is rejected: %v: %q", err, mutYAML(tab, o.srcs)))
			continue
		}
		ok := len(subs) == len(o.srcs)
		for k := 0; ok && k < len(subs); k++ {
			ok = subs[k].SourceRef.ToObjMetadata() == tab.ids[o.srcs[k].id]
		}
		if !ok {
			h.fail(fmt.Sprintf("harness: generated mutation annotation is read differently: %q => %v", mutYAML(tab, o.srcs), subs))
		}
	}
}

func (o oobs) cycTerm() string {
	if !o.cyc {
		return "None"
	}
	return "(Some " + emit.NatList(o.cycIDs) + ")"
}

func (o oobs) text() string {
	s := fmt.Sprintf("sets=%v", o.sets)
	if o.cyc {
		s += fmt.Sprintf(" cyc=%v", o.cycIDs)
	}
	if len(o.bad) > 0 {
		s += fmt.Sprintf(" bad=%v", o.bad)
	}
	s += fmt.Sprintf(" dg{edges=%s bad=%v}", edgesText(o.edges), o.dgBad)
	if o.panicked {
		s += " PANIC"
	}
	return s
}

// a remembered SortObjs input, reused for the ReverseSortObjs cases
type objInput struct {
	tab   *table
	objs  []ospec
	label string
	isErr bool
}

// label is the distribution key, prefix/detail only go into the case text.
func (h *harness) emitObjCase(sk *sink, tab *table, label, prefix, detail string, ins [][]ospec) error {
	return h.emitObjCaseCost(sk, tab, label, prefix, detail, ins, false)
}

func (h *harness) emitObjCaseCost(sk *sink, tab *table, label, prefix, detail string, ins [][]ospec, big bool) error {
	cost := len(ins)
	runs := make([]string, len(ins))
	txt := []string{prefix + "objs " + label + detail + " " + tab.text()}
	nontriv := false
	for i, objs := range ins {
		o := h.observeObjs(tab, objs)
		runs[i] = emit.App("mkORun", objsTerm(tab, objs), natLists(o.sets), o.cycTerm(), emit.NatList(o.bad),
			pairList(o.edges), emit.NatList(o.dgBad), emit.Bool(o.panicked))
		txt = append(txt, fmt.Sprintf("run objs=%s => %s", objsText(tab, objs), o.text()))
		if i == 0 {
			if big {
				ne := len(objs) // implicit edges, roughly
				for _, x := range objs {
					ne += len(x.deps) + len(x.srcs)
				}
				// measured: object sets are sparser than the estimate suggests
				cost = len(ins) * (1 + bigCost(len(objs), ne, len(o.sets), len(o.cycIDs))/2)
			}
			if o.cyc {
				h.sum.Count("objs:cyclic")
			} else {
				h.sum.Count("objs:acyclic")
			}
			if len(o.bad) > 0 {
				h.sum.Count("objs:annotation-error")
			}
			h.sum.Count(fmt.Sprintf("objs:sets=%d", len(o.sets)))
			h.objInputs = append(h.objInputs, objInput{tab, objs, label, o.isErr})
			for _, x := range objs {
				if x.annot != annAbsent || x.mut != mutAbsent {
					nontriv = true
				}
			}
			h.countAnnots(objs)
			if len(o.sets) > 1 {
				nontriv = true
			}
		}
	}
	h.sum.Count("objs:" + label)
	term := emit.App("OCase", tab.name, emit.List(runs))
	return sk.addCost([]*table{tab}, term, strings.Join(txt, " || "), len(ins), cost, nontriv)
}

// countAnnots records which annotation kinds the objects of one case (first
// presentation) carry, per object.
func (h *harness) countAnnots(objs []ospec) {
	inSet := map[int]bool{}
	for _, o := range objs {
		inSet[o.id] = true
	}
	for _, o := range objs {
		d := [...]string{"absent", "unparseable", "refs"}[o.annot]
		m := [...]string{"absent", "unparseable", "sources"}[o.mut]
		h.sum.Count("annot:depends-on=" + d + " mutation=" + m)
		if o.mut == mutSrcs {
			seen := map[int]bool{}
			dup, ext, in, api := false, false, false, false
			for _, s := range o.srcs {
				if seen[s.id] {
					dup = true
				}
				seen[s.id] = true
				if inSet[s.id] {
					in = true
				} else {
					ext = true
				}
				api = api || s.viaAPI
			}
			if len(o.srcs) == 0 {
				h.sum.Count("annot:mutation empty-list")
			}
			if in {
				h.sum.Count("annot:mutation in-set-source")
			}
			if dup {
				h.sum.Count("annot:mutation duplicate-source")
			}
			if ext {
				h.sum.Count("annot:mutation external-source")
			}
			if api {
				h.sum.Count("annot:mutation apiVersion-form")
			}
			if seen[o.id] {
				h.sum.Count("annot:mutation self-source")
			}
			if o.annot == annDeps {
				for _, d := range o.deps {
					if seen[d] {
						h.sum.Count("annot:same-target-via-depends-on-and-mutation")
						break
					}
				}
			}
		}
		if o.annot == annDeps {
			seen := map[int]bool{}
			dup, ext := false, false
			for _, d := range o.deps {
				if seen[d] {
					dup = true
				}
				seen[d] = true
				if !inSet[d] {
					ext = true
				}
			}
			if dup {
				h.sum.Count("annot:depends-on duplicate-ref")
			}
			if ext {
				h.sum.Count("annot:depends-on external-ref")
			}
		}
	}
}

// present lists the objects in the given order with every annotation's
// references shuffled.
func present(r *rand.Rand, objs []ospec, order []int) []ospec {
	out := make([]ospec, len(order))
	for i, k := range order {
		c := objs[k].clone()
		r.Shuffle(len(c.deps), func(a, b int) { c.deps[a], c.deps[b] = c.deps[b], c.deps[a] })
		r.Shuffle(len(c.srcs), func(a, b int) { c.srcs[a], c.srcs[b] = c.srcs[b], c.srcs[a] })
		out[i] = c
	}
	return out
}

// how one edge of a digraph is written down
const (
	viaDep = iota
	viaMut
	viaBoth
)

// edgesToObjsVia encodes a digraph on vertices 0..n-1, edge k as a depends-on
// reference, a mutation source, or both (via[k]).
func edgesToObjsVia(r *rand.Rand, n int, es [][2]int, via []int) []ospec {
	objs := make([]ospec, n)
	for i := range objs {
		objs[i] = ospec{id: i}
	}
	for k, e := range es {
		o := &objs[e[0]]
		if via[k] == viaDep || via[k] == viaBoth {
			o.annot = annDeps
			o.deps = append(o.deps, e[1])
		}
		if via[k] == viaMut || via[k] == viaBoth {
			o.mut = mutSrcs
			o.srcs = append(o.srcs, msrc{id: e[1], viaAPI: r.Intn(3) == 0})
			// a repeated source is legal
			if r.Intn(6) == 0 {
				o.srcs = append(o.srcs, msrc{id: e[1], viaAPI: r.Intn(2) == 0})
			}
		}
	}
	return objs
}

func randVia(r *rand.Rand, n int) []int {
	v := make([]int, n)
	for i := range v {
		v[i] = r.Intn(3)
	}
	return v
}

// edgesToObjs encodes a digraph on vertices 0..n-1 as depends-on annotations.
func edgesToObjs(n int, es [][2]int) []ospec {
	objs := make([]ospec, n)
	for i := range objs {
		objs[i] = ospec{id: i}
	}
	for _, e := range es {
		objs[e[0]].annot = annDeps
		objs[e[0]].deps = append(objs[e[0]].deps, e[1])
	}
	return objs
}

// ---- random object sets ------------------------------------------------------

type scenario struct {
	tab  *table
	objs []ospec
	tags []string
}

func genScenario(r *rand.Rand, name string, cyclic bool) scenario {
	n := 6 + r.Intn(35)
	var ids []object.ObjMetadata
	seen := map[object.ObjMetadata]bool{}
	var rank []int // per table index
	addID := func(id object.ObjMetadata, rk int) int {
		if seen[id] {
			return -1
		}
		seen[id] = true
		ids = append(ids, id)
		rank = append(rank, rk)
		return len(ids) - 1
	}
	tags := map[string]bool{}
	var objs []ospec

	// Namespace objects
	var nsNames []string
	for _, k := range r.Perm(4)[:r.Intn(4)] {
		nm := fmt.Sprintf("ns%d", k)
		nsNames = append(nsNames, nm)
		objs = append(objs, ospec{id: addID(mkID("", "Namespace", "", nm), 1)})
	}
	homes := append(append([]string{}, nsNames...), "default", "other")
	pickNS := func() string {
		if r.Intn(5) == 0 {
			return ""
		}
		return homes[r.Intn(len(homes))]
	}
	nsObjIn := map[string][]int{} // namespace name -> indices (into objs) of objects living in it
	// CRDs and their custom resources
	for k, nc := 0, r.Intn(4); k < nc; k++ {
		g, kd := fmt.Sprintf("g%d.example.com", k), fmt.Sprintf("Kind%d", k)
		crd := ospec{id: addID(mkID("apiextensions.k8s.io", "CustomResourceDefinition", "", strings.ToLower(kd)+"s."+g), 2), sg: g, sk: kd}
		switch x := r.Intn(16); {
		case x < 11:
			crd.spec = specFull
		case x < 13:
			crd.spec = specNone
			tags["crd-without-spec"] = true
		case x < 14:
			crd.spec = specGroupOnly
			tags["crd-partial-spec"] = true
		case x < 15:
			crd.spec = specKindOnly
			tags["crd-partial-spec"] = true
		default:
			crd.spec = specBadGroup
			tags["crd-partial-spec"] = true
		}
		objs = append(objs, crd)
		for c, ncr := 0, r.Intn(4); c < ncr; c++ {
			ns := pickNS()
			i := addID(mkID(g, kd, ns, fmt.Sprintf("cr%d", c)), 3+r.Intn(4))
			if i < 0 {
				continue
			}
			if crd.spec == specFull {
				tags["crd-edge"] = true
			}
			objs = append(objs, ospec{id: i})
		}
	}
	// a Namespace object that itself carries metadata.namespace (it then
	// depends on that namespace's Namespace object, if present)
	if r.Intn(8) == 0 {
		ns := homes[r.Intn(len(homes))]
		if i := addID(mkID("", "Namespace", ns, "nested"), 3); i >= 0 {
			objs = append(objs, ospec{id: i})
			tags["namespace-with-namespace"] = true
		}
	}
	// ordinary objects
	for len(objs) < n {
		gk := plainKinds[r.Intn(len(plainKinds))]
		ns := pickNS()
		rk := 3 + r.Intn(4)
		if ns == "" && r.Intn(2) == 0 {
			rk = 0
		}
		i := addID(mkID(gk.Group, gk.Kind, ns, namePool[r.Intn(len(namePool))]), rk)
		if i < 0 {
			continue
		}
		objs = append(objs, ospec{id: i})
	}
	for oi, o := range objs {
		ns := ids[o.id].Namespace
		if ns != "" && containsString(nsNames, ns) {
			tags["ns-edge"] = true
			nsObjIn[ns] = append(nsObjIn[ns], oi)
		}
	}
	// identifiers that are in the table but not in the object list
	var ext []int
	for k, ne := 0, 1+r.Intn(3); k < ne; k++ {
		gk := plainKinds[r.Intn(len(plainKinds))]
		if i := addID(mkID(gk.Group, gk.Kind, pickNS(), fmt.Sprintf("ext%d", k)), 9); i >= 0 {
			ext = append(ext, i)
		}
	}
	addDep := func(oi, to int) {
		if containsInt(objs[oi].deps, to) {
			return
		}
		objs[oi].annot = annDeps
		objs[oi].deps = append(objs[oi].deps, to)
	}
	// a reference to a source object of an apply-time mutation (repeats are
	// only added by the dedicated step below)
	addMut := func(oi, to int) {
		for _, m := range objs[oi].srcs {
			if m.id == to {
				return
			}
		}
		objs[oi].mut = mutSrcs
		objs[oi].srcs = append(objs[oi].srcs, msrc{id: to, viaAPI: r.Intn(4) == 0})
	}
	// share of the explicit dependencies of this scenario that are written as
	// mutation sources (0: a depends-on-only scenario as before)
	pMut := []float64{0, 0.25, 0.5, 0.85}[r.Intn(4)]
	addRef := func(oi, to int) {
		if r.Float64() >= pMut {
			addDep(oi, to)
			return
		}
		addMut(oi, to)
		tags["mut-source"] = true
		if r.Intn(4) == 0 {
			// the same dependency through both annotations
			addDep(oi, to)
			tags["dep-and-mut-same-target"] = true
		}
	}
	lowerThan := func(rk int) []int {
		var l []int
		for _, o := range objs {
			if rank[o.id] < rk && !containsInt(l, o.id) {
				l = append(l, o.id)
			}
		}
		return l
	}
	rankedDeps := func(oi int) {
		cands := lowerThan(rank[objs[oi].id])
		if len(cands) == 0 {
			return
		}
		for k := 1 + r.Intn(3); k > 0; k-- {
			addRef(oi, cands[r.Intn(len(cands))])
		}
	}
	// explicit dependencies along the ranking (never close a cycle, also not
	// together with the implicit namespace and CRD edges)
	pExp := 0.15 + r.Float64()*0.5
	for oi := range objs {
		if r.Float64() < pExp {
			rankedDeps(oi)
			if objs[oi].annot == annDeps {
				tags["explicit-dep"] = true
			}
			if objs[oi].annot == annDeps && objs[oi].mut == mutSrcs {
				tags["dep-and-mut-same-object"] = true
			}
		}
	}
	if cyclic {
		for f, nf := 0, 1+r.Intn(3); f < nf; f++ {
			what := r.Intn(6)
			if f == 0 && what == 5 {
				what = r.Intn(5)
			}
			switch what {
			case 0: // self reference
				oi := r.Intn(len(objs))
				addRef(oi, objs[oi].id)
				tags["self-dep"] = true
			case 1: // 2-cycle
				a, b := r.Intn(len(objs)), r.Intn(len(objs))
				addRef(a, objs[b].id)
				addRef(b, objs[a].id)
			case 2: // ring
				ln := 3 + r.Intn(3)
				ring := r.Perm(len(objs))[:ln]
				for i := range ring {
					addRef(ring[i], objs[ring[(i+1)%ln]].id)
				}
			case 3, 4: // a Namespace depends on an object living in it
				var cand []string
				for ns := range nsObjIn {
					cand = append(cand, ns)
				}
				if len(cand) == 0 {
					oi := r.Intn(len(objs))
					addRef(oi, objs[oi].id)
					break
				}
				sortStrings(cand)
				ns := cand[r.Intn(len(cand))]
				inside := nsObjIn[ns]
				for oi, o := range objs {
					if ids[o.id] == mkID("", "Namespace", "", ns) {
						addRef(oi, objs[inside[r.Intn(len(inside))]].id)
						tags["namespace-depends-on-member"] = true
					}
				}
			case 5: // arbitrary extra edge
				addRef(r.Intn(len(objs)), objs[r.Intn(len(objs))].id)
			}
		}
	}
	// external dependencies
	if len(ext) > 0 && r.Intn(5) < 2 {
		for k := 1 + r.Intn(2); k > 0; k-- {
			addDep(r.Intn(len(objs)), ext[r.Intn(len(ext))])
		}
		tags["external-dep"] = true
	}
	// mutation sources that are not part of the object set
	if len(ext) > 0 && pMut > 0 && r.Intn(5) < 2 {
		for k := 1 + r.Intn(2); k > 0; k-- {
			addMut(r.Intn(len(objs)), ext[r.Intn(len(ext))])
		}
		tags["mut-external-source"] = true
	}
	// a source used by two substitutions of one annotation (legal)
	if pMut > 0 && r.Intn(10) < 4 {
		var with []int
		for oi, o := range objs {
			if len(o.srcs) > 0 {
				with = append(with, oi)
			}
		}
		if len(with) > 0 {
			oi := with[r.Intn(len(with))]
			m := objs[oi].srcs[r.Intn(len(objs[oi].srcs))]
			m.viaAPI = !m.viaAPI
			objs[oi].srcs = append(objs[oi].srcs, m)
			tags["mut-duplicate-source"] = true
		}
	}
	// a reference repeated within one annotation
	if r.Intn(10) < 3 {
		var with []int
		for oi, o := range objs {
			if o.annot == annDeps {
				with = append(with, oi)
			}
		}
		if len(with) > 0 {
			oi := with[r.Intn(len(with))]
			d := objs[oi].deps[r.Intn(len(objs[oi].deps))]
			objs[oi].deps = append(objs[oi].deps, d)
			tags["dup-dep"] = true
		}
	}
	// annotations that do not parse
	if r.Intn(10) < 3 {
		for k := 1 + r.Intn(2); k > 0; k-- {
			oi := r.Intn(len(objs))
			objs[oi].annot, objs[oi].deps, objs[oi].bad = annBad, nil, badAnnots[r.Intn(len(badAnnots))]
		}
		tags["bad-annot"] = true
	}
	// a well-formed reference list spoilt by a blank entry ("a,,b", "a, ,b", "a,"): the whole
	// annotation is malformed, although every non-blank entry names an object of the set
	if r.Intn(10) < 2 {
		for oi := range objs {
			if objs[oi].annot == annDeps && len(objs[oi].deps) > 0 && r.Intn(2) == 0 {
				objs[oi].badDeps = append([]int(nil), objs[oi].deps...)
				objs[oi].badK = 1 + r.Intn(len(objs[oi].deps))
				objs[oi].badBlank = []string{"", " ", "\n"}[r.Intn(3)]
				objs[oi].annot, objs[oi].deps, objs[oi].bad = annBad, nil, "blank-entry"
				tags["bad-annot-blank-entry"] = true
				break
			}
		}
	}
	// mutation annotations that do not parse / that parse to no substitution
	if pMut > 0 && r.Intn(10) < 3 {
		for k := 1 + r.Intn(2); k > 0; k-- {
			oi := r.Intn(len(objs))
			objs[oi].mut, objs[oi].srcs, objs[oi].mbad = mutBad, nil, badMuts[r.Intn(len(badMuts))]
		}
		tags["mut-bad-annot"] = true
	}
	if pMut > 0 && r.Intn(10) < 2 {
		oi := r.Intn(len(objs))
		if objs[oi].mut == mutAbsent {
			objs[oi].mut = mutSrcs
			tags["mut-empty-list"] = true
		}
	}
	// the same id twice, with a different annotation
	if r.Intn(10) < 3 {
		for k := 1 + r.Intn(2); k > 0; k-- {
			src := r.Intn(len(objs))
			c := objs[src].clone()
			c.annot, c.deps, c.bad = annAbsent, nil, ""
			c.mut, c.srcs, c.mbad = mutAbsent, nil, ""
			objs = append(objs, c)
			if r.Intn(3) > 0 {
				rankedDeps(len(objs) - 1)
			}
		}
		tags["dup-object"] = true
	}
	// an object that is not a CRD but carries spec.group / spec.names.kind of
	// another object's kind: must not provide anything
	if r.Intn(4) == 0 {
		var plain []int
		for oi, o := range objs {
			gk := ids[o.id].GroupKind
			if !isCRDGK(gk) && !isNamespaceGK(gk) && o.spec == specNone {
				plain = append(plain, oi)
			}
		}
		if len(plain) >= 2 {
			a, b := plain[r.Intn(len(plain))], plain[r.Intn(len(plain))]
			gk := ids[objs[b].id].GroupKind
			objs[a].spec, objs[a].sg, objs[a].sk = specFull, gk.Group, gk.Kind
			tags["non-crd-with-crd-spec"] = true
		}
	}
	r.Shuffle(len(objs), func(i, j int) { objs[i], objs[j] = objs[j], objs[i] })
	var tl []string
	for t := range tags {
		tl = append(tl, t)
	}
	sortStrings(tl)
	return scenario{tab: newTable(name, ids), objs: objs, tags: tl}
}

func (h *harness) objCases(r *rand.Rand, mult int) error {
	fam := &family{base: "Cases_C14_objs"}
	mk := func(limit int) *sink {
		return &sink{fam: fam, check: "check_objs", limit: limit, outDir: h.outDir, sum: h.sum}
	}
	exh, smp, big := mk(1050), mk(800), mk(bigBudget)
	h.osinks = []*sink{exh, smp, big}

	// ---- corpus
	if err := h.emitObjCase(exh, h.t3, "corpus-empty", "", "", [][]ospec{{}, {}}); err != nil {
		return err
	}
	{
		// former defect witness (fixed in /repo e20796b): two CRDs that define
		// the same group/kind; the custom resource must wait for both, in
		// either order of the object list
		tab := newTable("Tamb", []object.ObjMetadata{
			mkID("apiextensions.k8s.io", "CustomResourceDefinition", "", "a.example.com"),
			mkID("apiextensions.k8s.io", "CustomResourceDefinition", "", "b.example.com"),
			mkID("", "ConfigMap", "default", "cm"),
			mkID("example.com", "Foo", "default", "cr"),
		})
		crdA := ospec{id: 0, annot: annDeps, deps: []int{2}, spec: specFull, sg: "example.com", sk: "Foo"}
		crdB := ospec{id: 1, spec: specFull, sg: "example.com", sk: "Foo"}
		cm, cr := ospec{id: 2}, ospec{id: 3}
		if err := h.emitObjCase(exh, tab, "corpus-ambiguous-provider", "ambiguous-provider: ", "",
			[][]ospec{{crdA, crdB, cm, cr}, {crdB, crdA, cm, cr}}); err != nil {
			return err
		}
	}
	{
		// same for two Namespace-kind objects carrying one name (the second
		// one has a metadata.namespace): the member waits for both
		tab := newTable("Tambns", []object.ObjMetadata{
			mkID("", "Namespace", "", "nsx"),
			mkID("", "Namespace", "other", "nsx"),
			mkID("", "ConfigMap", "nsx", "cm"),
			mkID("", "ConfigMap", "zz", "y"),
		})
		ns0 := ospec{id: 0, annot: annDeps, deps: []int{3}}
		ns1, cm, y := ospec{id: 1}, ospec{id: 2}, ospec{id: 3}
		if err := h.emitObjCase(exh, tab, "corpus-ambiguous-provider", "ambiguous-provider: ", "",
			[][]ospec{{ns0, ns1, cm, y}, {ns1, ns0, cm, y}, {cm, y, ns1, ns0}}); err != nil {
			return err
		}
	}

	// ---- corpus for the apply-time-mutation pass
	{
		tab := newTable("Tmut", []object.ObjMetadata{
			mkID("", "ConfigMap", "ns1", "a"),
			mkID("", "ConfigMap", "ns1", "b"),
			mkID("apps", "Deployment", "ns1", "web"),
			mkID("", "Secret", "ns1", "s"),
			mkID("", "ConfigMap", "ns1", "ext"), // never part of the object list
			mkID("", "ConfigMap", "", "b"),      // never part of the object list: "b" without a namespace
			mkID("rbac.authorization.k8s.io", "ClusterRole", "", "cr"),
		})
		src := func(ids ...int) []msrc {
			l := make([]msrc, len(ids))
			for i, id := range ids {
				l[i] = msrc{id: id}
			}
			return l
		}
		rev := func(l []ospec) []ospec {
			o := make([]ospec, len(l))
			for i := range l {
				o[len(l)-1-i] = l[i]
			}
			return o
		}
		plain := func(id int) ospec { return ospec{id: id} }
		corpus := []struct {
			label string
			objs  []ospec
		}{
			// (a) the depends-on pass fails on one object, the mutation pass on
			// another: both are reported and the mutation edges 2->1, 3->1 exist
			{"corpus-mut-two-failing-passes", []ospec{
				{id: 0, annot: annDeps, deps: []int{4}}, plain(1),
				{id: 2, mut: mutSrcs, srcs: src(1, 4)}, {id: 3, mut: mutSrcs, srcs: src(1)}}},
			{"corpus-mut-two-failing-passes", []ospec{
				{id: 0, annot: annBad, bad: "not-a-reference"}, plain(1),
				{id: 2, mut: mutBad, mbad: "{{ not yaml"}, {id: 3, annot: annDeps, deps: []int{1}, mut: mutSrcs, srcs: src(0)}}},
			// (b) a repeated source is not an error (also once by group and once by apiVersion)
			{"corpus-mut-duplicate-source", []ospec{
				{id: 0, mut: mutSrcs, srcs: src(1, 1)}, plain(1),
				{id: 2, mut: mutSrcs, srcs: []msrc{{id: 1, viaAPI: true}, {id: 1}, {id: 3}, {id: 3, viaAPI: true}}}, plain(3)}},
			// (c) one dependency through both annotations
			{"corpus-mut-same-edge-twice", []ospec{
				{id: 0, annot: annDeps, deps: []int{1}, mut: mutSrcs, srcs: src(1)}, plain(1),
				{id: 2, annot: annDeps, deps: []int{0}, mut: mutSrcs, srcs: src(0, 1)}}},
			// a sourceRef without namespace on a namespaced object names the
			// cluster-scoped id (5), not ns1/b (1): reported as external
			{"corpus-mut-namespace-omitted", []ospec{
				{id: 0, mut: mutSrcs, srcs: src(5)}, plain(1), {id: 2, mut: mutSrcs, srcs: src(6)}, plain(6)}},
			// a cycle closed by a mutation source; a self source
			{"corpus-mut-cycle", []ospec{
				{id: 0, annot: annDeps, deps: []int{1}}, {id: 1, mut: mutSrcs, srcs: src(0)},
				{id: 2, mut: mutSrcs, srcs: src(2)}, plain(3)}},
			// rejected by both passes: named twice; an empty substitution list
			{"corpus-mut-both-annotations-bad", []ospec{
				{id: 0, annot: annDeps, deps: []int{4}, mut: mutSrcs, srcs: src(4)},
				{id: 1, annot: annBad, bad: "a/b", mut: mutBad, mbad: "- sourceRef: 7"},
				{id: 2, mut: mutSrcs}, plain(3)}},
		}
		for _, c := range corpus {
			if err := h.emitObjCase(exh, tab, c.label, c.label+": ", "", [][]ospec{c.objs, rev(c.objs)}); err != nil {
				return err
			}
		}
	}

	// ---- 1. exhaustive on T3 (no Namespace object: no implicit edges)
	for n := 0; n <= 3; n++ {
		ps := perms(n)
		for mask := 0; mask < 1<<(n*n); mask++ {
			if n == 0 {
				continue // the empty list is the corpus case above
			}
			objs := edgesToObjs(n, maskEdges(n, mask))
			var ins [][]ospec
			for _, p := range ps {
				ins = append(ins, present(r, objs, p))
			}
			if err := h.emitObjCase(exh, h.t3, fmt.Sprintf("exhaustive-n%d", n), "", "", ins); err != nil {
				return err
			}
			// the same digraph with its edges written as mutation sources,
			// depends-on references or both: every assignment for n <= 2, one
			// random assignment for n = 3
			es := maskEdges(n, mask)
			if len(es) == 0 {
				continue
			}
			var vias [][]int
			if n <= 2 {
				total := 1
				for range es {
					total *= 3
				}
				for code := 1; code < total; code++ { // code 0 = all depends-on = the case above
					v := make([]int, len(es))
					for k, c := 0, code; k < len(es); k, c = k+1, c/3 {
						v[k] = c % 3
					}
					vias = append(vias, v)
				}
			} else {
				v := randVia(r, len(es))
				v[r.Intn(len(v))] = viaMut + r.Intn(2)
				vias = append(vias, v)
			}
			for _, v := range vias {
				mobjs := edgesToObjsVia(r, n, es, v)
				var mins [][]ospec
				for _, p := range ps {
					mins = append(mins, present(r, mobjs, p))
				}
				if err := h.emitObjCase(exh, h.t3, fmt.Sprintf("exhaustive-via-n%d", n), "", "", mins); err != nil {
					return err
				}
			}
		}
	}
	if err := exh.flush(); err != nil {
		return err
	}

	// ---- 2. sampled 4- and 5-object sets
	for _, cfg := range []struct {
		n, count int
		tab      *table
	}{{4, 300 * mult, h.t4}, {5, 200 * mult, h.t5}} {
		for i := 0; i < cfg.count; i++ {
			es := randMaskEdges(r, cfg.n)
			objs := edgesToObjs(cfg.n, es)
			lab := "sample"
			if i%2 == 1 {
				objs = edgesToObjsVia(r, cfg.n, es, randVia(r, len(es)))
				lab = "sample-via"
			}
			var ins [][]ospec
			for k := 0; k < 3; k++ {
				ins = append(ins, present(r, objs, r.Perm(cfg.n)))
			}
			if err := h.emitObjCase(smp, cfg.tab, fmt.Sprintf("%s-n%d", lab, cfg.n), "", "", ins); err != nil {
				return err
			}
		}
	}
	if err := smp.flush(); err != nil {
		return err
	}

	// ---- 3. random object sets
	for i := 0; i < 60*mult; i++ {
		sc := genScenario(r, fmt.Sprintf("To%d", i), i%2 == 1)
		for _, t := range sc.tags {
			h.sum.Count("objs:" + t)
		}
		label := "random-ranked"
		if i%2 == 1 {
			label = "random-with-cycles"
		}
		detail := ""
		if len(sc.tags) > 0 {
			detail = "(" + strings.Join(sc.tags, ",") + ")"
		}
		// the first presentation keeps the generated order
		ins := [][]ospec{sc.objs, present(r, sc.objs, r.Perm(len(sc.objs)))}
		if err := h.emitObjCaseCost(big, sc.tab, label, "", detail, ins, true); err != nil {
			return err
		}
	}
	return big.flush()
}

func containsString(l []string, x string) bool {
	for _, y := range l {
		if x == y {
			return true
		}
	}
	return false
}
