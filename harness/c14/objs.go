package c14

import (
	"fmt"
	"math/rand"
	"strings"

	"k8s.io/apimachinery/pkg/apis/meta/v1/unstructured"
	"sigs.k8s.io/cli-utils/pkg/multierror"
	"sigs.k8s.io/cli-utils/pkg/object"
	"sigs.k8s.io/cli-utils/pkg/object/dependson"
	"sigs.k8s.io/cli-utils/pkg/object/graph"
	"sigs.k8s.io/cli-utils/pkg/object/validation"
	"verifharness/emit"
)

const (
	annAbsent = iota
	annBad
	annDeps
)

const (
	specNone      = iota
	specFull      // spec.group and spec.names.kind, both strings
	specGroupOnly // spec.group only
	specKindOnly  // spec.names.kind only
	specBadGroup  // spec.group is a number
)

// ospec describes one object of a SortObjs input.
type ospec struct {
	id     int
	annot  int
	bad    string // annotation text when annot == annBad
	deps   []int
	spec   int
	sg, sk string
}

var badAnnots = []string{"not-a-reference", "", "a/b", "apps/namespace/ns1/Deployment/x", "/ConfigMap/a,", "a/b/c/d"}

func (o ospec) clone() ospec {
	c := o
	c.deps = append([]int(nil), o.deps...)
	return c
}

func (o ospec) build(tab *table) *unstructured.Unstructured {
	id := tab.ids[o.id]
	apiVersion := "v1"
	if id.GroupKind.Group != "" {
		apiVersion = id.GroupKind.Group + "/v1"
	}
	meta := map[string]interface{}{"name": id.Name}
	if id.Namespace != "" {
		meta["namespace"] = id.Namespace
	}
	switch o.annot {
	case annBad:
		meta["annotations"] = map[string]interface{}{dependson.Annotation: o.bad}
	case annDeps:
		parts := make([]string, len(o.deps))
		for i, d := range o.deps {
			s, err := dependson.FormatObjMetadata(tab.ids[d])
			if err != nil {
				panic("c14: FormatObjMetadata: " + err.Error())
			}
			parts[i] = s
		}
		meta["annotations"] = map[string]interface{}{dependson.Annotation: strings.Join(parts, ",")}
	}
	u := &unstructured.Unstructured{Object: map[string]interface{}{
		"apiVersion": apiVersion,
		"kind":       id.GroupKind.Kind,
		"metadata":   meta,
	}}
	switch o.spec {
	case specFull:
		u.Object["spec"] = map[string]interface{}{"group": o.sg, "names": map[string]interface{}{"kind": o.sk}}
	case specGroupOnly:
		u.Object["spec"] = map[string]interface{}{"group": o.sg}
	case specKindOnly:
		u.Object["spec"] = map[string]interface{}{"names": map[string]interface{}{"kind": o.sk}}
	case specBadGroup:
		u.Object["spec"] = map[string]interface{}{"group": int64(7), "names": map[string]interface{}{"kind": o.sk}}
	}
	return u
}

func (o ospec) coq(tab *table) string {
	var a string
	switch o.annot {
	case annAbsent:
		a = "NoAnnot"
	case annBad:
		a = "BadAnnot"
	default:
		a = emit.App("Deps", emit.NatList(o.deps))
	}
	crd := "None"
	if isCRDGK(tab.ids[o.id].GroupKind) && o.spec == specFull {
		crd = "(Some (" + emit.Str(o.sg) + ", " + emit.Str(o.sk) + "))"
	}
	return emit.App("mkObj", emit.Nat(o.id), a, crd)
}

func (o ospec) text(tab *table) string {
	s := fmt.Sprintf("%d", o.id)
	var extra []string
	switch o.annot {
	case annBad:
		extra = append(extra, fmt.Sprintf("bad-annot %q", o.bad))
	case annDeps:
		extra = append(extra, fmt.Sprintf("deps %v", o.deps))
	}
	switch o.spec {
	case specFull:
		extra = append(extra, fmt.Sprintf("spec %s/%s", o.sg, o.sk))
	case specGroupOnly:
		extra = append(extra, "spec group-only")
	case specKindOnly:
		extra = append(extra, "spec kind-only")
	case specBadGroup:
		extra = append(extra, "spec group-not-a-string")
	}
	if len(extra) > 0 {
		s += "{" + strings.Join(extra, "; ") + "}"
	}
	return s
}

func objsTerm(tab *table, objs []ospec) string {
	if len(objs) == 0 {
		return "(@nil (obj nat))"
	}
	s := make([]string, len(objs))
	for i, o := range objs {
		s[i] = o.coq(tab)
	}
	return emit.List(s)
}

func objsText(tab *table, objs []ospec) string {
	s := make([]string, len(objs))
	for i, o := range objs {
		s[i] = o.text(tab)
	}
	return "[" + strings.Join(s, " ") + "]"
}

func buildObjs(tab *table, objs []ospec) object.UnstructuredSet {
	us := make(object.UnstructuredSet, len(objs))
	for i, o := range objs {
		us[i] = o.build(tab)
	}
	return us
}

type oobs struct {
	sets     [][]int
	cyc      bool
	cycIDs   []int
	bad      []int
	isErr    bool
	panicked bool
}

// setsToIdx maps returned objects to table indices and checks that every
// returned pointer is one of the input pointers.
func (h *harness) setsToIdx(tab *table, in object.UnstructuredSet, sets []object.UnstructuredSet, what string) [][]int {
	known := map[*unstructured.Unstructured]bool{}
	for _, u := range in {
		known[u] = true
	}
	out := make([][]int, len(sets))
	for i, s := range sets {
		out[i] = make([]int, len(s))
		for j, u := range s {
			if !known[u] {
				h.fail(what + " returned an object pointer that is not one of the inputs: " + idText(object.UnstructuredToObjMetadata(u)))
			}
			out[i][j] = tab.ix(object.UnstructuredToObjMetadata(u))
		}
	}
	return out
}

// splitErr flattens an error of SortObjs into (cyclic ids, other ids).
func (h *harness) splitErr(tab *table, err error, o *oobs) {
	if err == nil {
		return
	}
	o.isErr = true
	for _, e := range multierror.Unwrap(err) {
		ve, ok := e.(*validation.Error)
		if !ok {
			h.fail(fmt.Sprintf("SortObjs returned an error element that is not *validation.Error: %T %v", e, e))
			continue
		}
		if _, isCyc := ve.Unwrap().(graph.CyclicDependencyError); isCyc {
			if o.cyc {
				h.fail("SortObjs returned two cyclic dependency errors")
			}
			o.cyc = true
			o.cycIDs = tab.ixs(ve.Identifiers())
		} else {
			o.bad = append(o.bad, tab.ixs(ve.Identifiers())...)
		}
	}
}

func (h *harness) observeObjs(tab *table, objs []ospec) oobs {
	var o oobs
	us := buildObjs(tab, objs)
	var sets []object.UnstructuredSet
	var err error
	o.panicked = guard(func() { sets, err = graph.SortObjs(us) })
	o.sets = h.setsToIdx(tab, us, sets, "SortObjs")
	h.splitErr(tab, err, &o)
	return o
}

func (o oobs) cycTerm() string {
	if !o.cyc {
		return "None"
	}
	return "(Some " + emit.NatList(o.cycIDs) + ")"
}

func (o oobs) text() string {
	s := fmt.Sprintf("sets=%v", o.sets)
	if o.cyc {
		s += fmt.Sprintf(" cyc=%v", o.cycIDs)
	}
	if len(o.bad) > 0 {
		s += fmt.Sprintf(" bad=%v", o.bad)
	}
	if o.panicked {
		s += " PANIC"
	}
	return s
}

// a remembered SortObjs input, reused for the ReverseSortObjs cases
type objInput struct {
	tab   *table
	objs  []ospec
	label string
	isErr bool
}

// label is the distribution key, prefix/detail only go into the case text.
func (h *harness) emitObjCase(sk *sink, tab *table, label, prefix, detail string, ins [][]ospec) error {
	return h.emitObjCaseCost(sk, tab, label, prefix, detail, ins, false)
}

func (h *harness) emitObjCaseCost(sk *sink, tab *table, label, prefix, detail string, ins [][]ospec, big bool) error {
	cost := len(ins)
	runs := make([]string, len(ins))
	txt := []string{prefix + "objs " + label + detail + " " + tab.text()}
	nontriv := false
	for i, objs := range ins {
		o := h.observeObjs(tab, objs)
		runs[i] = emit.App("mkORun", objsTerm(tab, objs), natLists(o.sets), o.cycTerm(), emit.NatList(o.bad), emit.Bool(o.panicked))
		txt = append(txt, fmt.Sprintf("run objs=%s => %s", objsText(tab, objs), o.text()))
		if i == 0 {
			if big {
				ne := len(objs) // implicit edges, roughly
				for _, x := range objs {
					ne += len(x.deps)
				}
				// measured: object sets are sparser than the estimate suggests
				cost = len(ins) * (1 + bigCost(len(objs), ne, len(o.sets), len(o.cycIDs))/2)
			}
			if o.cyc {
				h.sum.Count("objs:cyclic")
			} else {
				h.sum.Count("objs:acyclic")
			}
			if len(o.bad) > 0 {
				h.sum.Count("objs:annotation-error")
			}
			h.sum.Count(fmt.Sprintf("objs:sets=%d", len(o.sets)))
			h.objInputs = append(h.objInputs, objInput{tab, objs, label, o.isErr})
			for _, x := range objs {
				if x.annot != annAbsent {
					nontriv = true
				}
			}
			if len(o.sets) > 1 {
				nontriv = true
			}
		}
	}
	h.sum.Count("objs:" + label)
	term := emit.App("OCase", tab.name, emit.List(runs))
	return sk.addCost([]*table{tab}, term, strings.Join(txt, " || "), len(ins), cost, nontriv)
}

// present lists the objects in the given order with every annotation's
// references shuffled.
func present(r *rand.Rand, objs []ospec, order []int) []ospec {
	out := make([]ospec, len(order))
	for i, k := range order {
		c := objs[k].clone()
		r.Shuffle(len(c.deps), func(a, b int) { c.deps[a], c.deps[b] = c.deps[b], c.deps[a] })
		out[i] = c
	}
	return out
}

// edgesToObjs encodes a digraph on vertices 0..n-1 as depends-on annotations.
func edgesToObjs(n int, es [][2]int) []ospec {
	objs := make([]ospec, n)
	for i := range objs {
		objs[i] = ospec{id: i}
	}
	for _, e := range es {
		objs[e[0]].annot = annDeps
		objs[e[0]].deps = append(objs[e[0]].deps, e[1])
	}
	return objs
}

// ---- random object sets ------------------------------------------------------

type scenario struct {
	tab  *table
	objs []ospec
	tags []string
}

func genScenario(r *rand.Rand, name string, cyclic bool) scenario {
	n := 6 + r.Intn(35)
	var ids []object.ObjMetadata
	seen := map[object.ObjMetadata]bool{}
	var rank []int // per table index
	addID := func(id object.ObjMetadata, rk int) int {
		if seen[id] {
			return -1
		}
		seen[id] = true
		ids = append(ids, id)
		rank = append(rank, rk)
		return len(ids) - 1
	}
	tags := map[string]bool{}
	var objs []ospec

	// Namespace objects
	var nsNames []string
	for _, k := range r.Perm(4)[:r.Intn(4)] {
		nm := fmt.Sprintf("ns%d", k)
		nsNames = append(nsNames, nm)
		objs = append(objs, ospec{id: addID(mkID("", "Namespace", "", nm), 1)})
	}
	homes := append(append([]string{}, nsNames...), "default", "other")
	pickNS := func() string {
		if r.Intn(5) == 0 {
			return ""
		}
		return homes[r.Intn(len(homes))]
	}
	nsObjIn := map[string][]int{} // namespace name -> indices (into objs) of objects living in it
	// CRDs and their custom resources
	for k, nc := 0, r.Intn(4); k < nc; k++ {
		g, kd := fmt.Sprintf("g%d.example.com", k), fmt.Sprintf("Kind%d", k)
		crd := ospec{id: addID(mkID("apiextensions.k8s.io", "CustomResourceDefinition", "", strings.ToLower(kd)+"s."+g), 2), sg: g, sk: kd}
		switch x := r.Intn(16); {
		case x < 11:
			crd.spec = specFull
		case x < 13:
			crd.spec = specNone
			tags["crd-without-spec"] = true
		case x < 14:
			crd.spec = specGroupOnly
			tags["crd-partial-spec"] = true
		case x < 15:
			crd.spec = specKindOnly
			tags["crd-partial-spec"] = true
		default:
			crd.spec = specBadGroup
			tags["crd-partial-spec"] = true
		}
		objs = append(objs, crd)
		for c, ncr := 0, r.Intn(4); c < ncr; c++ {
			ns := pickNS()
			i := addID(mkID(g, kd, ns, fmt.Sprintf("cr%d", c)), 3+r.Intn(4))
			if i < 0 {
				continue
			}
			if crd.spec == specFull {
				tags["crd-edge"] = true
			}
			objs = append(objs, ospec{id: i})
		}
	}
	// a Namespace object that itself carries metadata.namespace (it then
	// depends on that namespace's Namespace object, if present)
	if r.Intn(8) == 0 {
		ns := homes[r.Intn(len(homes))]
		if i := addID(mkID("", "Namespace", ns, "nested"), 3); i >= 0 {
			objs = append(objs, ospec{id: i})
			tags["namespace-with-namespace"] = true
		}
	}
	// ordinary objects
	for len(objs) < n {
		gk := plainKinds[r.Intn(len(plainKinds))]
		ns := pickNS()
		rk := 3 + r.Intn(4)
		if ns == "" && r.Intn(2) == 0 {
			rk = 0
		}
		i := addID(mkID(gk.Group, gk.Kind, ns, namePool[r.Intn(len(namePool))]), rk)
		if i < 0 {
			continue
		}
		objs = append(objs, ospec{id: i})
	}
	for oi, o := range objs {
		ns := ids[o.id].Namespace
		if ns != "" && containsString(nsNames, ns) {
			tags["ns-edge"] = true
			nsObjIn[ns] = append(nsObjIn[ns], oi)
		}
	}
	// identifiers that are in the table but not in the object list
	var ext []int
	for k, ne := 0, 1+r.Intn(3); k < ne; k++ {
		gk := plainKinds[r.Intn(len(plainKinds))]
		if i := addID(mkID(gk.Group, gk.Kind, pickNS(), fmt.Sprintf("ext%d", k)), 9); i >= 0 {
			ext = append(ext, i)
		}
	}
	addDep := func(oi, to int) {
		if containsInt(objs[oi].deps, to) {
			return
		}
		objs[oi].annot = annDeps
		objs[oi].deps = append(objs[oi].deps, to)
	}
	lowerThan := func(rk int) []int {
		var l []int
		for _, o := range objs {
			if rank[o.id] < rk && !containsInt(l, o.id) {
				l = append(l, o.id)
			}
		}
		return l
	}
	rankedDeps := func(oi int) {
		cands := lowerThan(rank[objs[oi].id])
		if len(cands) == 0 {
			return
		}
		for k := 1 + r.Intn(3); k > 0; k-- {
			addDep(oi, cands[r.Intn(len(cands))])
		}
	}
	// explicit dependencies along the ranking (never close a cycle, also not
	// together with the implicit namespace and CRD edges)
	pExp := 0.15 + r.Float64()*0.5
	for oi := range objs {
		if r.Float64() < pExp {
			rankedDeps(oi)
			if objs[oi].annot == annDeps {
				tags["explicit-dep"] = true
			}
		}
	}
	if cyclic {
		for f, nf := 0, 1+r.Intn(3); f < nf; f++ {
			what := r.Intn(6)
			if f == 0 && what == 5 {
				what = r.Intn(5)
			}
			switch what {
			case 0: // self reference
				oi := r.Intn(len(objs))
				addDep(oi, objs[oi].id)
				tags["self-dep"] = true
			case 1: // 2-cycle
				a, b := r.Intn(len(objs)), r.Intn(len(objs))
				addDep(a, objs[b].id)
				addDep(b, objs[a].id)
			case 2: // ring
				ln := 3 + r.Intn(3)
				ring := r.Perm(len(objs))[:ln]
				for i := range ring {
					addDep(ring[i], objs[ring[(i+1)%ln]].id)
				}
			case 3, 4: // a Namespace depends on an object living in it
				var cand []string
				for ns := range nsObjIn {
					cand = append(cand, ns)
				}
				if len(cand) == 0 {
					oi := r.Intn(len(objs))
					addDep(oi, objs[oi].id)
					break
				}
				sortStrings(cand)
				ns := cand[r.Intn(len(cand))]
				inside := nsObjIn[ns]
				for oi, o := range objs {
					if ids[o.id] == mkID("", "Namespace", "", ns) {
						addDep(oi, objs[inside[r.Intn(len(inside))]].id)
						tags["namespace-depends-on-member"] = true
					}
				}
			case 5: // arbitrary extra edge
				addDep(r.Intn(len(objs)), objs[r.Intn(len(objs))].id)
			}
		}
	}
	// external dependencies
	if len(ext) > 0 && r.Intn(5) < 2 {
		for k := 1 + r.Intn(2); k > 0; k-- {
			addDep(r.Intn(len(objs)), ext[r.Intn(len(ext))])
		}
		tags["external-dep"] = true
	}
	// a reference repeated within one annotation
	if r.Intn(10) < 3 {
		var with []int
		for oi, o := range objs {
			if o.annot == annDeps {
				with = append(with, oi)
			}
		}
		if len(with) > 0 {
			oi := with[r.Intn(len(with))]
			d := objs[oi].deps[r.Intn(len(objs[oi].deps))]
			objs[oi].deps = append(objs[oi].deps, d)
			tags["dup-dep"] = true
		}
	}
	// annotations that do not parse
	if r.Intn(10) < 3 {
		for k := 1 + r.Intn(2); k > 0; k-- {
			oi := r.Intn(len(objs))
			objs[oi].annot, objs[oi].deps, objs[oi].bad = annBad, nil, badAnnots[r.Intn(len(badAnnots))]
		}
		tags["bad-annot"] = true
	}
	// the same id twice, with a different annotation
	if r.Intn(10) < 3 {
		for k := 1 + r.Intn(2); k > 0; k-- {
			src := r.Intn(len(objs))
			c := objs[src].clone()
			c.annot, c.deps, c.bad = annAbsent, nil, ""
			objs = append(objs, c)
			if r.Intn(3) > 0 {
				rankedDeps(len(objs) - 1)
			}
		}
		tags["dup-object"] = true
	}
	// an object that is not a CRD but carries spec.group / spec.names.kind of
	// another object's kind: must not provide anything
	if r.Intn(4) == 0 {
		var plain []int
		for oi, o := range objs {
			gk := ids[o.id].GroupKind
			if !isCRDGK(gk) && !isNamespaceGK(gk) && o.spec == specNone {
				plain = append(plain, oi)
			}
		}
		if len(plain) >= 2 {
			a, b := plain[r.Intn(len(plain))], plain[r.Intn(len(plain))]
			gk := ids[objs[b].id].GroupKind
			objs[a].spec, objs[a].sg, objs[a].sk = specFull, gk.Group, gk.Kind
			tags["non-crd-with-crd-spec"] = true
		}
	}
	r.Shuffle(len(objs), func(i, j int) { objs[i], objs[j] = objs[j], objs[i] })
	var tl []string
	for t := range tags {
		tl = append(tl, t)
	}
	sortStrings(tl)
	return scenario{tab: newTable(name, ids), objs: objs, tags: tl}
}

func (h *harness) objCases(r *rand.Rand, mult int) error {
	fam := &family{base: "Cases_C14_objs"}
	mk := func(limit int) *sink {
		return &sink{fam: fam, check: "check_objs", limit: limit, outDir: h.outDir, sum: h.sum}
	}
	exh, smp, big := mk(1050), mk(800), mk(bigBudget)
	h.osinks = []*sink{exh, smp, big}

	// ---- corpus
	if err := h.emitObjCase(exh, h.t3, "corpus-empty", "", "", [][]ospec{{}, {}}); err != nil {
		return err
	}
	{
		// former defect witness (fixed in /repo e20796b): two CRDs that define
		// the same group/kind; the custom resource must wait for both, in
		// either order of the object list
		tab := newTable("Tamb", []object.ObjMetadata{
			mkID("apiextensions.k8s.io", "CustomResourceDefinition", "", "a.example.com"),
			mkID("apiextensions.k8s.io", "CustomResourceDefinition", "", "b.example.com"),
			mkID("", "ConfigMap", "default", "cm"),
			mkID("example.com", "Foo", "default", "cr"),
		})
		crdA := ospec{id: 0, annot: annDeps, deps: []int{2}, spec: specFull, sg: "example.com", sk: "Foo"}
		crdB := ospec{id: 1, spec: specFull, sg: "example.com", sk: "Foo"}
		cm, cr := ospec{id: 2}, ospec{id: 3}
		if err := h.emitObjCase(exh, tab, "corpus-ambiguous-provider", "ambiguous-provider: ", "",
			[][]ospec{{crdA, crdB, cm, cr}, {crdB, crdA, cm, cr}}); err != nil {
			return err
		}
	}
	{
		// same for two Namespace-kind objects carrying one name (the second
		// one has a metadata.namespace): the member waits for both
		tab := newTable("Tambns", []object.ObjMetadata{
			mkID("", "Namespace", "", "nsx"),
			mkID("", "Namespace", "other", "nsx"),
			mkID("", "ConfigMap", "nsx", "cm"),
			mkID("", "ConfigMap", "zz", "y"),
		})
		ns0 := ospec{id: 0, annot: annDeps, deps: []int{3}}
		ns1, cm, y := ospec{id: 1}, ospec{id: 2}, ospec{id: 3}
		if err := h.emitObjCase(exh, tab, "corpus-ambiguous-provider", "ambiguous-provider: ", "",
			[][]ospec{{ns0, ns1, cm, y}, {ns1, ns0, cm, y}, {cm, y, ns1, ns0}}); err != nil {
			return err
		}
	}

	// ---- 1. exhaustive on T3 (no Namespace object: no implicit edges)
	for n := 0; n <= 3; n++ {
		ps := perms(n)
		for mask := 0; mask < 1<<(n*n); mask++ {
			if n == 0 {
				continue // the empty list is the corpus case above
			}
			objs := edgesToObjs(n, maskEdges(n, mask))
			var ins [][]ospec
			for _, p := range ps {
				ins = append(ins, present(r, objs, p))
			}
			if err := h.emitObjCase(exh, h.t3, fmt.Sprintf("exhaustive-n%d", n), "", "", ins); err != nil {
				return err
			}
		}
	}
	if err := exh.flush(); err != nil {
		return err
	}

	// ---- 2. sampled 4- and 5-object sets
	for _, cfg := range []struct {
		n, count int
		tab      *table
	}{{4, 300 * mult, h.t4}, {5, 200 * mult, h.t5}} {
		for i := 0; i < cfg.count; i++ {
			objs := edgesToObjs(cfg.n, randMaskEdges(r, cfg.n))
			var ins [][]ospec
			for k := 0; k < 3; k++ {
				ins = append(ins, present(r, objs, r.Perm(cfg.n)))
			}
			if err := h.emitObjCase(smp, cfg.tab, fmt.Sprintf("sample-n%d", cfg.n), "", "", ins); err != nil {
				return err
			}
		}
	}
	if err := smp.flush(); err != nil {
		return err
	}

	// ---- 3. random object sets
	for i := 0; i < 60*mult; i++ {
		sc := genScenario(r, fmt.Sprintf("To%d", i), i%2 == 1)
		for _, t := range sc.tags {
			h.sum.Count("objs:" + t)
		}
		label := "random-ranked"
		if i%2 == 1 {
			label = "random-with-cycles"
		}
		detail := ""
		if len(sc.tags) > 0 {
			detail = "(" + strings.Join(sc.tags, ",") + ")"
		}
		// the first presentation keeps the generated order
		ins := [][]ospec{sc.objs, present(r, sc.objs, r.Perm(len(sc.objs)))}
		if err := h.emitObjCaseCost(big, sc.tab, label, "", detail, ins, true); err != nil {
			return err
		}
	}
	return big.flush()
}

func containsString(l []string, x string) bool {
	for _, y := range l {
		if x == y {
			return true
		}
	}
	return false
}
