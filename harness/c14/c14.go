package c14

import (
	"fmt"
	"math/rand"

	"sigs.k8s.io/cli-utils/pkg/object"
	"verifharness/emit"
)

type harness struct {
	sum    *emit.Summary
	outDir string

	t3, t4, t5, th *table

	gsinks, osinks []*sink
	objInputs      []objInput
	failSeen       map[string]bool
}

func (h *harness) fail(msg string) {
	if h.failSeen[msg] {
		return
	}
	h.failSeen[msg] = true
	if len(h.sum.ImplFailures) < 50 {
		h.sum.ImplFailures = append(h.sum.ImplFailures, msg)
	}
}

// Run generates and executes the C14 cases.
func Run(seed int64, tier, outDir string) (*emit.Summary, error) {
	r := rand.New(rand.NewSource(seed))
	sum := emit.NewSummary("C14", seed, tier)
	mult := 1
	if tier == "thorough" {
		mult = 10
	}
	h := &harness{sum: sum, outDir: outDir, failSeen: map[string]bool{}}
	// index order differs from the ordering.less order (2 < 1 < 0) and the
	// kinds are mixed; all namespaced, no Namespace object, no CRD
	h.t3 = newTable("T3", []object.ObjMetadata{
		mkID("apps", "Deployment", "ns1", "b"),
		mkID("", "ConfigMap", "ns1", "a"),
		mkID("", "ConfigMap", "ns0", "z"),
	})
	h.t4 = newTable("T4", []object.ObjMetadata{
		mkID("batch", "Job", "ns1", "j"),
		mkID("", "Secret", "ns1", "s"),
		mkID("rbac.authorization.k8s.io", "ClusterRole", "", "cr"),
		mkID("apps", "Deployment", "ns0", "d"),
	})
	h.t5 = newTable("T5", []object.ObjMetadata{
		mkID("example.org", "Widget", "ns1", "w"),
		mkID("apps", "StatefulSet", "ns1", "db"),
		mkID("", "Service", "ns1", "db"),
		mkID("admissionregistration.k8s.io", "ValidatingWebhookConfiguration", "", "hook"),
		mkID("", "ServiceAccount", "ns0", "sa"),
	})
	h.th = newTable("TH", []object.ObjMetadata{
		mkID("apps", "Deployment", "ns1", "web"),
		mkID("", "ConfigMap", "ns1", "a"),
		mkID("", "ConfigMap", "ns1", "ab"),
		mkID("", "ConfigMap", "ns0", "z"),
		mkID("", "Namespace", "", "ns1"),
		mkID("", "Secret", "ns1", "s"),
		mkID("batch", "Job", "ns1", "j"),
		mkID("foo", "Deployment", "ns1", "web"),
		mkID("extensions", "Deployment", "ns1", "web"),
		mkID("apiextensions.k8s.io", "CustomResourceDefinition", "", "foos.example.com"),
		mkID("example.com", "Foo", "ns1", "f"),
		mkID("rbac.authorization.k8s.io", "ClusterRole", "", "cr"),
		mkID("admissionregistration.k8s.io", "ValidatingWebhookConfiguration", "", "hook"),
		mkID("", "Pod", "Ns1", "p"),
	})

	if err := h.graphCases(r, mult); err != nil {
		return nil, err
	}
	if err := h.objCases(r, mult); err != nil {
		return nil, err
	}

	misc := &sink{fam: &family{base: "Cases_C14_misc"}, check: "check_misc", limit: 300, outDir: outDir, sum: sum}
	if err := h.revObjsCases(r, misc, 150*mult); err != nil {
		return nil, err
	}
	if err := h.hydrateCases(r, misc, 150*mult); err != nil {
		return nil, err
	}
	if err := h.revListCases(r, misc, 100*mult); err != nil {
		return nil, err
	}
	pool := lessPool()
	if err := h.sortIdsCases(r, misc, pool, 150*mult); err != nil {
		return nil, err
	}
	if err := misc.flush(); err != nil {
		return nil, err
	}
	less := &sink{fixed: "Cases_C14_less", check: "check_misc", outDir: outDir, sum: sum}
	if err := h.lessCases(less, pool); err != nil {
		return nil, err
	}
	if err := less.flush(); err != nil {
		return nil, err
	}

	all := append(append([]*sink{}, h.gsinks...), h.osinks...)
	all = append(all, misc, less)
	perFile := map[string]string{}
	for _, s := range all {
		sum.Evaluations += s.evals
		sum.DistinctNontrivial += emit.Distinct(s.terms, s.nontr)
		for _, f := range sortedKeys(s.perF) {
			perFile[f] = fmt.Sprintf("%d cases, %d runs", s.perF[f][0], s.perF[f][1])
		}
	}
	sum.Extra["per_file"] = perFile
	sum.Exhaustive = true
	sum.Extra["exhaustive"] = "Graph.Sort and SortObjs: every digraph (all 2^(n*n) edge subsets incl. self-loops) on n = 0..3 vertices, " +
		"each presented with ALL n! orders of the vertex/object list (edge / reference order shuffled per presentation); " +
		fmt.Sprintf("ordering.less: all %d ordered pairs over a pool of %d ids covering every kind of the ordering table", len(pool.ids)*len(pool.ids), len(pool.ids))
	sum.Rule = "graph: one case = one digraph presented in several orders (runs) to graph.New/AddVertex/AddEdge/Sort: fixed corpus, " +
		"exhaustive n<=3 x all permutations, seeded samples of 4/5-vertex digraphs (random density, 3 permutations), seeded random graphs of 6..40 mixed-kind vertices " +
		"(half DAGs along a random ranking, half with self-loops/2-cycles/rings/back edges; duplicate AddEdge/AddVertex, vertices only introduced by AddEdge; 2 orders); " +
		"objs: the same for graph.SortObjs AND graph.DependencyGraph (adjacency lists via Dependencies, error ids) on unstructured objects whose edges are written as depends-on references, " +
		"as apply-time-mutation sources (group or apiVersion form, repeated sources) or both (every assignment for n<=2, one random assignment per 3-vertex digraph, half of the 4/5-vertex samples), " +
		"a fixed corpus for the mutation pass (two failing passes, duplicate source, one edge through both annotations, namespace-less sourceRef, mutation-closed cycle, both annotations bad), " +
		"plus random sets of 6..40 objects with Namespace objects and members, " +
		"CRDs (with/without spec) and custom resources, external / duplicate references, unparsable annotations of both kinds, empty substitution lists, duplicate objects, explicit and implicit cycles " +
		"(a random share 0/25/50/85% of the explicit dependencies of a set is written as mutation sources); " +
		"misc: ReverseSortObjs next to SortObjs on a sample of those inputs, HydrateSetList on Sort() layers with object subsets, ReverseSetList, " +
		"SortableMetas.Less on all ordered pairs of the pool, sort.Sort(SortableMetas) on random lists; " +
		"evaluations = runs (one real Sort/SortObjs(+DependencyGraph) call each) + misc cases; non-trivial = at least one edge / annotation / non-empty list; distinct = distinct Coq case terms"
	var samples []any
	for _, s := range []*sink{h.gsinks[2], h.osinks[2], misc} {
		if n := len(s.terms); n > 0 {
			samples = append(samples, lastText(s))
		}
	}
	sum.Samples = samples
	return sum, nil
}

func lastText(s *sink) string {
	// texts live in the summary, per file; take the last case of the sink's last file
	keys := sortedKeys(s.perF)
	if len(keys) == 0 {
		return ""
	}
	t := s.sum.CaseText[keys[len(keys)-1]]
	if len(t) == 0 {
		return ""
	}
	x := t[len(t)-1]
	if len(x) > 1500 {
		x = x[:1500] + "..."
	}
	return x
}
