// Package c14 drives the real graph.Graph.Sort, graph.SortObjs,
// graph.ReverseSortObjs, graph.HydrateSetList, graph.ReverseSetList and the
// ordering package, and writes the observations as Coq cases for CorrC14.v.
package c14

import (
	"fmt"
	"math/rand"
	"sort"
	"strings"

	"k8s.io/apimachinery/pkg/runtime/schema"
	"sigs.k8s.io/cli-utils/pkg/object"
	"verifharness/emit"
)

const imports = "From CliUtils Require Import Model.ObjId Model.Graph Model.DepGraph Corr.CorrC14."

// noIdx is printed for an identifier the implementation returned although it
// is not part of the case's table (never expected; makes the case fail).
const noIdx = 999

// ---- identifier tables -----------------------------------------------------

type table struct {
	name string
	ids  []object.ObjMetadata
	idx  map[object.ObjMetadata]int
	// when set: one definition per id, named <name><i>, instead of one list
	perID bool
}

func newTable(name string, ids []object.ObjMetadata) *table {
	t := &table{name: name, ids: ids, idx: map[object.ObjMetadata]int{}}
	for i, id := range ids {
		if _, dup := t.idx[id]; dup {
			panic("c14: duplicate id in table " + name + ": " + idText(id))
		}
		t.idx[id] = i
	}
	return t
}

func (t *table) ix(id object.ObjMetadata) int {
	if i, ok := t.idx[id]; ok {
		return i
	}
	return noIdx
}

func (t *table) ixs(s object.ObjMetadataSet) []int {
	o := make([]int, len(s))
	for i, id := range s {
		o[i] = t.ix(id)
	}
	return o
}

func (t *table) def() string {
	if t.perID {
		var b strings.Builder
		for i, id := range t.ids {
			fmt.Fprintf(&b, "Definition %s%d := %s.\n", t.name, i, idTerm(id))
		}
		return b.String()
	}
	items := make([]string, len(t.ids))
	for i, id := range t.ids {
		items[i] = idTerm(id)
	}
	if len(items) == 0 {
		return fmt.Sprintf("Definition %s : list id := [].", t.name)
	}
	return fmt.Sprintf("Definition %s := %s.", t.name, emit.List(items))
}

func (t *table) text() string {
	s := make([]string, len(t.ids))
	for i, id := range t.ids {
		s[i] = fmt.Sprintf("%d=%s", i, idText(id))
	}
	return t.name + "{" + strings.Join(s, " ") + "}"
}

func mkID(group, kind, ns, name string) object.ObjMetadata {
	return object.ObjMetadata{Namespace: ns, Name: name, GroupKind: schema.GroupKind{Group: group, Kind: kind}}
}

func idTerm(id object.ObjMetadata) string {
	return emit.App("mkId", emit.Str(id.GroupKind.Group), emit.Str(id.GroupKind.Kind), emit.Str(id.Namespace), emit.Str(id.Name))
}

func idText(id object.ObjMetadata) string {
	return fmt.Sprintf("%s/%s/%s/%s", id.GroupKind.Group, id.GroupKind.Kind, id.Namespace, id.Name)
}

// ---- Gallina printing ------------------------------------------------------

func natLists(ll [][]int) string {
	s := make([]string, len(ll))
	for i, l := range ll {
		s[i] = emit.NatList(l)
	}
	return emit.List(s)
}

func pairList(es [][2]int) string {
	s := make([]string, len(es))
	for i, e := range es {
		s[i] = fmt.Sprintf("(%d, %d)", e[0], e[1])
	}
	return emit.List(s)
}

func edgesText(es [][2]int) string {
	s := make([]string, len(es))
	for i, e := range es {
		s[i] = fmt.Sprintf("%d>%d", e[0], e[1])
	}
	return "[" + strings.Join(s, " ") + "]"
}

// layers with every layer sorted: the order inside a layer returned by
// Graph.Sort is Go map iteration order; the text shows it canonically so that
// a replayed case has the same text.
func canonLayers(ll [][]int) [][]int {
	o := make([][]int, len(ll))
	for i, l := range ll {
		o[i] = emit.SortedInts(l)
	}
	return o
}

// ---- small combinatorics ---------------------------------------------------

func perms(n int) [][]int {
	if n == 0 {
		return [][]int{{}}
	}
	var out [][]int
	var rec func(cur []int, used []bool)
	rec = func(cur []int, used []bool) {
		if len(cur) == n {
			out = append(out, append([]int(nil), cur...))
			return
		}
		for i := 0; i < n; i++ {
			if !used[i] {
				used[i] = true
				rec(append(cur, i), used)
				used[i] = false
			}
		}
	}
	rec(nil, make([]bool, n))
	return out
}

func shuffledInts(r *rand.Rand, l []int) []int {
	o := append([]int{}, l...)
	r.Shuffle(len(o), func(i, j int) { o[i], o[j] = o[j], o[i] })
	return o
}

func shuffledEdges(r *rand.Rand, l [][2]int) [][2]int {
	o := append([][2]int{}, l...)
	r.Shuffle(len(o), func(i, j int) { o[i], o[j] = o[j], o[i] })
	return o
}

func containsInt(l []int, x int) bool {
	for _, y := range l {
		if x == y {
			return true
		}
	}
	return false
}

func guard(f func()) (panicked bool) {
	defer func() {
		if e := recover(); e != nil {
			panicked = true
		}
	}()
	f()
	return false
}

// ---- kinds -------------------------------------------------------------------

// every kind of the ordering table (orderFirst then orderLast)
var listedKinds = []schema.GroupKind{
	{Group: "", Kind: "Namespace"},
	{Group: "", Kind: "ResourceQuota"},
	{Group: "storage.k8s.io", Kind: "StorageClass"},
	{Group: "apiextensions.k8s.io", Kind: "CustomResourceDefinition"},
	{Group: "admissionregistration.k8s.io", Kind: "MutatingWebhookConfiguration"},
	{Group: "", Kind: "ServiceAccount"},
	{Group: "extensions", Kind: "PodSecurityPolicy"},
	{Group: "policy", Kind: "PodSecurityPolicy"},
	{Group: "rbac.authorization.k8s.io", Kind: "Role"},
	{Group: "rbac.authorization.k8s.io", Kind: "ClusterRole"},
	{Group: "rbac.authorization.k8s.io", Kind: "RoleBinding"},
	{Group: "rbac.authorization.k8s.io", Kind: "ClusterRoleBinding"},
	{Group: "", Kind: "ConfigMap"},
	{Group: "", Kind: "Secret"},
	{Group: "", Kind: "Service"},
	{Group: "", Kind: "LimitRange"},
	{Group: "scheduling.k8s.io", Kind: "PriorityClass"},
	{Group: "extensions", Kind: "Deployment"},
	{Group: "apps", Kind: "Deployment"},
	{Group: "apps", Kind: "StatefulSet"},
	{Group: "batch", Kind: "CronJob"},
	{Group: "policy", Kind: "PodDisruptionBudget"},
	{Group: "admissionregistration.k8s.io", Kind: "ValidatingWebhookConfiguration"},
}

var unlistedKinds = []schema.GroupKind{
	{Group: "", Kind: "Pod"},
	{Group: "batch", Kind: "Job"},
	{Group: "foo", Kind: "Deployment"},
	{Group: "apps", Kind: "DaemonSet"},
	{Group: "zeta.io", Kind: "Alpha"},
	{Group: "", Kind: "Endpoints"},
	{Group: "example.org", Kind: "Widget"},
}

var nsPool = []string{"", "ns0", "ns1", "default", "kube-system", "Ns1"}
var namePool = []string{"a", "ab", "b", "B", "z", "x1", "web", "db", "cfg", "a-1"}

func isNamespaceGK(gk schema.GroupKind) bool { return gk.Group == "" && gk.Kind == "Namespace" }
func isCRDGK(gk schema.GroupKind) bool {
	return gk.Group == "apiextensions.k8s.io" && gk.Kind == "CustomResourceDefinition"
}

// kinds usable for ordinary objects of SortObjs cases (no implicit provider)
var plainKinds = func() []schema.GroupKind {
	var o []schema.GroupKind
	for _, gk := range append(append([]schema.GroupKind{}, listedKinds...), unlistedKinds...) {
		if !isNamespaceGK(gk) && !isCRDGK(gk) {
			o = append(o, gk)
		}
	}
	return o
}()

// ---- case sinks --------------------------------------------------------------

// family hands out consecutive file numbers to the sinks of one file family
// (Cases_C14_graph_0, _1, ...).
type family struct {
	base string
	next int
}

// sink collects cases of one check function and rotates to a new file when
// the run budget of the current one is used up.
type sink struct {
	fam    *family
	fixed  string // fixed file name (no rotation) when non-empty
	check  string
	limit  int
	outDir string
	sum    *emit.Summary

	cf   *emit.CaseFile
	runs int
	cost int // evaluation cost units of the open file (= runs unless addCost is used)
	defs map[string]bool

	terms []string
	nontr []bool
	evals int
	perF  map[string][2]int // file -> cases, runs
}

func (s *sink) open() {
	name := s.fixed
	if name == "" {
		name = fmt.Sprintf("%s_%d", s.fam.base, s.fam.next)
		s.fam.next++
	}
	s.cf = &emit.CaseFile{Name: name, Imports: imports, Check: s.check}
	s.runs, s.cost = 0, 0
	s.defs = map[string]bool{}
}

func (s *sink) flush() error {
	if s.cf == nil {
		return nil
	}
	if s.perF == nil {
		s.perF = map[string][2]int{}
	}
	s.perF[s.cf.Name] = [2]int{len(s.cf.Cases), s.runs}
	err := s.cf.Write(s.outDir, s.sum)
	s.cf = nil
	return err
}

// add appends one case costing `runs` evaluations; tabs are the tables its
// term refers to by name.
func (s *sink) add(tabs []*table, term, text string, runs int, nontrivial bool) error {
	return s.addCost(tabs, term, text, runs, runs, nontrivial)
}

// addCost is add with an explicit cost estimate (the file budget `limit` is
// compared with the accumulated cost, not with the number of runs).
func (s *sink) addCost(tabs []*table, term, text string, runs, cost int, nontrivial bool) error {
	if s.cf != nil && s.fixed == "" && s.runs > 0 && s.cost+cost > s.limit {
		if err := s.flush(); err != nil {
			return err
		}
	}
	if s.cf == nil {
		s.open()
	}
	for _, t := range tabs {
		if !s.defs[t.name] {
			s.defs[t.name] = true
			s.cf.Prelude += t.def() + "\n"
		}
	}
	s.cf.Add(term, text)
	s.runs += runs
	s.cost += cost
	s.evals += runs
	s.terms = append(s.terms, term)
	s.nontr = append(s.nontr, nontrivial)
	return nil
}

func sortedKeys(m map[string][2]int) []string {
	var k []string
	for x := range m {
		k = append(k, x)
	}
	sort.Strings(k)
	return k
}

func sortStrings(l []string) { sort.Strings(l) }
