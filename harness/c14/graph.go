package c14

import (
	"fmt"
	"math/rand"
	"strings"

	"sigs.k8s.io/cli-utils/pkg/object"
	"sigs.k8s.io/cli-utils/pkg/object/graph"
	"sigs.k8s.io/cli-utils/pkg/object/validation"
	"verifharness/emit"
)

// cost budget (see bigCost) of one file of big random cases
const bigBudget = 900

const maxBigEdges = 120

// one presentation of a graph: AddVertex calls then AddEdge calls
type gin struct {
	vs []int
	es [][2]int
}

type gobs struct {
	layers   [][]int
	cyc      bool
	cycIDs   []int
	cycEdges [][2]int
	panicked bool
}

// observeGraph builds the graph with the real code and sorts it.
func (h *harness) observeGraph(tab *table, in gin) gobs {
	var o gobs
	var layers []object.ObjMetadataSet
	var err error
	o.panicked = guard(func() {
		g := graph.New()
		for _, v := range in.vs {
			g.AddVertex(tab.ids[v])
		}
		for _, e := range in.es {
			g.AddEdge(tab.ids[e[0]], tab.ids[e[1]])
		}
		layers, err = g.Sort()
	})
	o.layers = make([][]int, len(layers))
	for i, l := range layers {
		o.layers[i] = tab.ixs(l)
	}
	if err != nil {
		ve, ok := err.(*validation.Error)
		if !ok {
			h.fail(fmt.Sprintf("Graph.Sort returned an error that is not *validation.Error: %T %v", err, err))
			return o
		}
		cde, ok := ve.Unwrap().(graph.CyclicDependencyError)
		if !ok {
			h.fail(fmt.Sprintf("Graph.Sort error cause is not CyclicDependencyError: %T", ve.Unwrap()))
			return o
		}
		o.cyc = true
		o.cycIDs = tab.ixs(ve.Identifiers())
		for _, e := range cde.Edges {
			o.cycEdges = append(o.cycEdges, [2]int{tab.ix(e.From), tab.ix(e.To)})
		}
	}
	return o
}

func (o gobs) cycTerm() string {
	if !o.cyc {
		return "None"
	}
	return "(Some (" + emit.NatList(o.cycIDs) + ", " + pairList(o.cycEdges) + "))"
}

func (o gobs) text() string {
	s := fmt.Sprintf("layers=%v", canonLayers(o.layers))
	if o.cyc {
		s += fmt.Sprintf(" cyc{ids=%v edges=%s}", o.cycIDs, edgesText(o.cycEdges))
	}
	if o.panicked {
		s += " PANIC"
	}
	return s
}

// emitGraphCase runs every presentation and writes one GCase.
func (h *harness) emitGraphCase(sk *sink, tab *table, label string, ins []gin) error {
	return h.emitGraphCaseCost(sk, tab, label, ins, false)
}

// bigCost estimates the evaluation cost of one run in Coq: the monitor's
// reachability closure dominates, about nv^2 * ne * (reach set size) steps;
// 100 units are roughly 1.5 s.
func bigCost(nv, ne, layers, ncyc int) int {
	return 1 + nv*nv*ne*(layers+ncyc)/10000
}

func (h *harness) emitGraphCaseCost(sk *sink, tab *table, label string, ins []gin, big bool) error {
	cost := len(ins)
	runs := make([]string, len(ins))
	txt := []string{"graph " + label + " " + tab.text()}
	for i, in := range ins {
		o := h.observeGraph(tab, in)
		runs[i] = emit.App("mkGRun", emit.NatList(in.vs), pairList(in.es), natLists(o.layers), o.cycTerm(), emit.Bool(o.panicked))
		txt = append(txt, fmt.Sprintf("run vs=%v es=%s => %s", in.vs, edgesText(in.es), o.text()))
		if i == 0 {
			if big {
				cost = len(ins) * bigCost(len(tab.ids), len(in.es), len(o.layers), len(o.cycIDs))
			}
			if o.cyc {
				h.sum.Count("graph:cyclic")
			} else {
				h.sum.Count("graph:acyclic")
			}
			h.sum.Count(fmt.Sprintf("graph:layers=%d", len(o.layers)))
		}
	}
	h.sum.Count("graph:" + label)
	term := emit.App("GCase", tab.name, emit.List(runs))
	nontriv := len(ins) > 0 && len(ins[0].es) > 0
	return sk.addCost([]*table{tab}, term, strings.Join(txt, " || "), len(ins), cost, nontriv)
}

// every digraph on the first n vertices of tab: edge i->j iff bit i*n+j of mask
func maskEdges(n int, mask int) [][2]int {
	var es [][2]int
	for i := 0; i < n; i++ {
		for j := 0; j < n; j++ {
			if mask&(1<<(i*n+j)) != 0 {
				es = append(es, [2]int{i, j})
			}
		}
	}
	return es
}

func randMaskEdges(r *rand.Rand, n int) [][2]int {
	p := r.Float64() * r.Float64() * 1.3
	var es [][2]int
	for i := 0; i < n; i++ {
		for j := 0; j < n; j++ {
			if r.Float64() < p {
				es = append(es, [2]int{i, j})
			}
		}
	}
	return es
}

func upto(n int) []int {
	o := make([]int, n)
	for i := range o {
		o[i] = i
	}
	return o
}

// randomGraphTable draws n distinct ids of mixed kinds, namespaces and names.
func randomGraphTable(r *rand.Rand, name string, n int) *table {
	seen := map[object.ObjMetadata]bool{}
	var ids []object.ObjMetadata
	for len(ids) < n {
		var gk = listedKinds[0]
		if r.Intn(4) == 0 {
			gk = unlistedKinds[r.Intn(len(unlistedKinds))]
		} else {
			gk = listedKinds[r.Intn(len(listedKinds))]
		}
		id := mkID(gk.Group, gk.Kind, nsPool[r.Intn(len(nsPool))], namePool[r.Intn(len(namePool))])
		if !seen[id] {
			seen[id] = true
			ids = append(ids, id)
		}
	}
	return newTable(name, ids)
}

// randomDAGEdges: edges only from a higher to a strictly lower level of a
// random ranking with `depth` levels.
func randomDAGEdges(r *rand.Rand, n int) ([][2]int, []int) {
	depth := 1 + r.Intn(n)
	if r.Intn(3) == 0 {
		depth = 1 + r.Intn(4)
	}
	level := make([]int, n)
	for i := range level {
		level[i] = r.Intn(depth)
	}
	p := 0.03 + r.Float64()*0.3
	var es [][2]int
	for i := 0; i < n; i++ {
		for j := 0; j < n; j++ {
			if level[i] > level[j] && r.Float64() < p {
				es = append(es, [2]int{i, j})
			}
		}
	}
	// cap the density of large graphs (the Coq monitor's reachability closure
	// is cubic): keep a random subset of at most maxBigEdges edges
	if len(es) > maxBigEdges {
		es = shuffledEdges(r, es)[:maxBigEdges]
	}
	return es, level
}

func hasEdge(es [][2]int, e [2]int) bool {
	for _, x := range es {
		if x == e {
			return true
		}
	}
	return false
}

// addCycles adds a few cycle-making edges: self-loops, 2-cycles, longer
// rings and plain back edges.
func addCycles(r *rand.Rand, n int, es [][2]int) [][2]int {
	add := func(a, b int) {
		if !hasEdge(es, [2]int{a, b}) {
			es = append(es, [2]int{a, b})
		}
	}
	k := 1 + r.Intn(3)
	for f := 0; f < k; f++ {
		what := r.Intn(4)
		if f == 0 && what == 3 {
			what = r.Intn(3) // the first feature always closes a cycle
		}
		switch what {
		case 0:
			v := r.Intn(n)
			add(v, v)
		case 1:
			a, b := r.Intn(n), r.Intn(n)
			add(a, b)
			add(b, a)
		case 2:
			ln := 3 + r.Intn(4)
			if ln > n {
				ln = n
			}
			ring := r.Perm(n)[:ln]
			for i := range ring {
				add(ring[i], ring[(i+1)%ln])
			}
		case 3:
			add(r.Intn(n), r.Intn(n))
		}
	}
	return es
}

func (h *harness) graphCases(r *rand.Rand, mult int) error {
	fam := &family{base: "Cases_C14_graph"}
	mk := func(limit int) *sink {
		return &sink{fam: fam, check: "check_graph", limit: limit, outDir: h.outDir, sum: h.sum}
	}
	exh, smp, big := mk(1050), mk(800), mk(bigBudget)
	h.gsinks = []*sink{exh, smp, big}

	// ---- fixed corpus
	t3 := h.t3
	corpus := []struct {
		label string
		tab   *table
		vs    []int
		es    [][2]int
	}{
		{"corpus-empty", t3, nil, nil},
		{"corpus-self-loop", t3, []int{0}, [][2]int{{0, 0}}},
		{"corpus-2cycle-dependent-independent", h.t4, []int{0, 1, 2, 3}, [][2]int{{0, 1}, {1, 0}, {2, 0}}},
		{"corpus-diamond", h.t4, []int{0, 1, 2, 3}, [][2]int{{0, 1}, {0, 2}, {1, 3}, {2, 3}}},
		{"corpus-chain5", h.t5, []int{0, 1, 2, 3, 4}, [][2]int{{0, 1}, {1, 2}, {2, 3}, {3, 4}}},
	}
	for _, c := range corpus {
		ins := []gin{{c.vs, c.es}, {shuffledInts(r, c.vs), shuffledEdges(r, c.es)}, {shuffledInts(r, c.vs), shuffledEdges(r, c.es)}}
		if err := h.emitGraphCase(exh, c.tab, c.label, ins); err != nil {
			return err
		}
	}

	// ---- 1. exhaustive: n = 0..3, all edge subsets, all vertex permutations
	for n := 0; n <= 3; n++ {
		ps := perms(n)
		for mask := 0; mask < 1<<(n*n); mask++ {
			es := maskEdges(n, mask)
			var ins []gin
			for _, p := range ps {
				ins = append(ins, gin{append([]int{}, p...), shuffledEdges(r, es)})
			}
			if err := h.emitGraphCase(exh, t3, fmt.Sprintf("exhaustive-n%d", n), ins); err != nil {
				return err
			}
		}
	}
	if err := exh.flush(); err != nil {
		return err
	}

	// ---- 2. sampled 4- and 5-vertex graphs, 3 random permutations each
	for _, cfg := range []struct {
		n, count int
		tab      *table
	}{{4, 300 * mult, h.t4}, {5, 200 * mult, h.t5}} {
		for i := 0; i < cfg.count; i++ {
			es := randMaskEdges(r, cfg.n)
			var ins []gin
			for k := 0; k < 3; k++ {
				ins = append(ins, gin{r.Perm(cfg.n), shuffledEdges(r, es)})
			}
			if err := h.emitGraphCase(smp, cfg.tab, fmt.Sprintf("sample-n%d", cfg.n), ins); err != nil {
				return err
			}
		}
	}
	if err := smp.flush(); err != nil {
		return err
	}

	// ---- 3. random graphs with 6..40 vertices
	for i := 0; i < 60*mult; i++ {
		n := 6 + r.Intn(35)
		tab := randomGraphTable(r, fmt.Sprintf("Tg%d", i), n)
		es, _ := randomDAGEdges(r, n)
		label := "random-dag"
		if i%2 == 1 {
			es = addCycles(r, n, es)
			label = "random-cyclic"
		}
		vs := upto(n)
		// duplicate AddEdge calls
		if len(es) > 0 && r.Intn(2) == 0 {
			for k := 1 + r.Intn(3); k > 0; k-- {
				es = append(es, es[r.Intn(len(es))])
			}
			h.sum.Count("graph:dup-AddEdge")
		}
		// duplicate AddVertex calls
		if r.Intn(2) == 0 {
			for k := 1 + r.Intn(3); k > 0; k-- {
				vs = append(vs, r.Intn(n))
			}
			h.sum.Count("graph:dup-AddVertex")
		}
		// vertices that are never AddVertex'ed (they only exist when an edge
		// mentions them)
		if r.Intn(2) == 0 {
			drop := map[int]bool{}
			for k := 1 + r.Intn(4); k > 0; k-- {
				drop[r.Intn(n)] = true
			}
			var kept []int
			for _, v := range vs {
				if !drop[v] {
					kept = append(kept, v)
				}
			}
			vs = kept
			h.sum.Count("graph:edge-adds-vertex")
		}
		ins := []gin{{vs, es}, {shuffledInts(r, vs), shuffledEdges(r, es)}}
		if err := h.emitGraphCaseCost(big, tab, label, ins, true); err != nil {
			return err
		}
	}
	return big.flush()
}
