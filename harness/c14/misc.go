package c14

import (
	"fmt"
	"math/rand"
	"sort"
	"strings"

	"k8s.io/apimachinery/pkg/apis/meta/v1/unstructured"
	"sigs.k8s.io/cli-utils/pkg/object"
	"sigs.k8s.io/cli-utils/pkg/object/graph"
	"sigs.k8s.io/cli-utils/pkg/ordering"
	"verifharness/emit"
)

// ---- ReverseSortObjs next to SortObjs ---------------------------------------

func (h *harness) revObjsCase(sk *sink, in objInput) error {
	us := buildObjs(in.tab, in.objs)
	us2 := append(object.UnstructuredSet{}, us...)
	var apply, rev []object.UnstructuredSet
	var aerr, rerr error
	p := guard(func() {
		apply, aerr = graph.SortObjs(us)
		rev, rerr = graph.ReverseSortObjs(us2)
	})
	a := h.setsToIdx(in.tab, us, apply, "SortObjs")
	rv := h.setsToIdx(in.tab, us2, rev, "ReverseSortObjs")
	term := emit.App("RevObjs", in.tab.name, objsTerm(in.tab, in.objs), natLists(a), emit.Bool(aerr != nil),
		natLists(rv), emit.Bool(rerr != nil), emit.Bool(p))
	text := fmt.Sprintf("ReverseSortObjs err=%v (%s) %s objs=%s => apply=%v apply_err=%v reverse=%v panic=%v",
		rerr != nil, in.label, in.tab.text(), objsText(in.tab, in.objs), a, aerr != nil, rv, p)
	h.sum.Count(fmt.Sprintf("misc:RevObjs err=%v", rerr != nil))
	return sk.add([]*table{in.tab}, term, text, 1, len(in.objs) > 0)
}

func (h *harness) revObjsCases(r *rand.Rand, sk *sink, total int) error {
	var chosen, rest []objInput
	for _, in := range h.objInputs {
		if strings.HasPrefix(in.label, "corpus") || strings.HasPrefix(in.label, "random") {
			chosen = append(chosen, in)
		} else {
			rest = append(rest, in)
		}
	}
	if len(chosen) > total*2/3 {
		// keep the corpus, sample the random sets
		r.Shuffle(len(chosen)-2, func(i, j int) { chosen[2+i], chosen[2+j] = chosen[2+j], chosen[2+i] })
		chosen = chosen[:total*2/3]
	}
	// fill up with small inputs, half of them erroneous and half error-free
	var bad, good []objInput
	for _, in := range rest {
		if in.isErr {
			bad = append(bad, in)
		} else {
			good = append(good, in)
		}
	}
	r.Shuffle(len(bad), func(i, j int) { bad[i], bad[j] = bad[j], bad[i] })
	r.Shuffle(len(good), func(i, j int) { good[i], good[j] = good[j], good[i] })
	for k := 0; len(chosen) < total && (k < len(bad) || k < len(good)); k++ {
		if k < len(good) {
			chosen = append(chosen, good[k])
		}
		if k < len(bad) && len(chosen) < total {
			chosen = append(chosen, bad[k])
		}
	}
	for _, in := range chosen {
		if err := h.revObjsCase(sk, in); err != nil {
			return err
		}
	}
	return nil
}

// ---- HydrateSetList -----------------------------------------------------------

func (h *harness) hydrateCases(r *rand.Rand, sk *sink, count int) error {
	tab := h.th
	for c := 0; c < count; c++ {
		// a random graph over a random subset of the table
		n := r.Intn(13)
		if n > len(tab.ids) {
			n = len(tab.ids)
		}
		verts := r.Perm(len(tab.ids))[:n]
		var es [][2]int
		if n > 0 {
			local, _ := randomDAGEdges(r, n)
			if r.Intn(3) == 0 {
				local = addCycles(r, n, local)
			}
			for _, e := range local {
				es = append(es, [2]int{verts[e[0]], verts[e[1]]})
			}
		}
		g := graph.New()
		for _, v := range verts {
			g.AddVertex(tab.ids[v])
		}
		for _, e := range es {
			g.AddEdge(tab.ids[e[0]], tab.ids[e[1]])
		}
		idSetList, _ := g.Sort()
		layers := make([][]int, len(idSetList))
		for i, l := range idSetList {
			layers[i] = tab.ixs(l)
		}
		// objects: a random subset of the table ids (also ids in no layer)
		var ids []int
		switch r.Intn(8) {
		case 0: // empty object list
		case 1: // exactly the vertices
			ids = shuffledInts(r, verts)
		default:
			p := r.Float64()
			for _, v := range r.Perm(len(tab.ids)) {
				if r.Float64() < p {
					ids = append(ids, v)
				}
			}
		}
		dup := false
		if len(ids) > 0 && r.Intn(4) == 0 {
			ids = append(ids, ids[r.Intn(len(ids))])
			dup = true
		}
		objs := make(object.UnstructuredSet, len(ids))
		for i, v := range ids {
			objs[i] = ospec{id: v}.build(tab)
		}
		var out []object.UnstructuredSet
		p := guard(func() { out = graph.HydrateSetList(idSetList, objs) })
		o := h.setsToIdx(tab, objs, out, "HydrateSetList")
		term := emit.App("Hydrate", tab.name, natLists(layers), emit.NatList(ids), natLists(o), emit.Bool(p))
		text := fmt.Sprintf("HydrateSetList %s layers=%v objs=%v => %v panic=%v", tab.name, canonLayers(layers), ids, o, p)
		h.sum.Count("misc:Hydrate")
		if dup {
			h.sum.Count("misc:Hydrate dup-object")
		}
		if len(out) < len(layers) {
			h.sum.Count("misc:Hydrate layer-dropped")
		}
		if err := sk.add([]*table{tab}, term, text, 1, len(layers) > 0 && len(ids) > 0); err != nil {
			return err
		}
	}
	return nil
}

// ---- ReverseSetList -------------------------------------------------------------

func (h *harness) revListCases(r *rand.Rand, sk *sink, count int) error {
	const nObj = 12
	pool := make([]*unstructured.Unstructured, nObj)
	num := map[*unstructured.Unstructured]int{}
	for i := range pool {
		pool[i] = ospec{id: i % len(h.th.ids)}.build(h.th)
		num[pool[i]] = i
	}
	fixed := [][][]int{{}, {{}}, {{3}}, {{}, {}}, {{1, 2}}, {{1}, {2}}, {{1, 2, 3}, {}, {4, 5}}}
	for c := 0; c < count; c++ {
		var l [][]int
		if c < len(fixed) {
			l = fixed[c]
		} else {
			for k := r.Intn(7); k > 0; k-- {
				inner := []int{}
				for m := r.Intn(6); m > 0; m-- {
					inner = append(inner, r.Intn(nObj))
				}
				l = append(l, inner)
			}
		}
		setList := make([]object.UnstructuredSet, len(l))
		for i, inner := range l {
			setList[i] = make(object.UnstructuredSet, len(inner))
			for j, k := range inner {
				setList[i][j] = pool[k]
			}
		}
		if l == nil {
			l = [][]int{}
		}
		p := guard(func() { graph.ReverseSetList(setList) })
		out := make([][]int, len(setList))
		for i, s := range setList {
			out[i] = make([]int, len(s))
			for j, u := range s {
				out[i][j] = num[u]
			}
		}
		term := emit.App("RevList", natLists(l), natLists(out), emit.Bool(p))
		h.sum.Count("misc:RevList")
		if err := sk.add(nil, term, fmt.Sprintf("ReverseSetList %v => %v panic=%v", l, out, p), 1, len(l) > 0); err != nil {
			return err
		}
	}
	return nil
}

// ---- ordering.less ---------------------------------------------------------------

func lessPool() *table {
	var ids []object.ObjMetadata
	// every kind of the ordering table once
	for i, gk := range listedKinds {
		ns := "ns1"
		if i%3 == 0 {
			ns = ""
		}
		ids = append(ids, mkID(gk.Group, gk.Kind, ns, "x"))
	}
	ids = append(ids,
		// kinds the table does not list
		mkID("", "Pod", "ns1", "x"),
		mkID("batch", "Job", "ns1", "x"),
		mkID("zeta.io", "Alpha", "", "x"),
		mkID("aaa.io", "Zed", "ns1", "x"),
		// the same kind under a third, unlisted group
		mkID("foo", "Deployment", "ns1", "x"),
		// one group-kind, different namespaces and names
		mkID("", "ConfigMap", "", "a"),
		mkID("", "ConfigMap", "ns1", "a"),
		mkID("", "ConfigMap", "ns1", "ab"),
		mkID("", "ConfigMap", "ns1", "B"),
		mkID("", "ConfigMap", "ns1", "b"),
		mkID("", "ConfigMap", "Ns1", "a"),
		mkID("", "ConfigMap", "ns10", "a"),
		mkID("", "ConfigMap", "ns", "z"),
		// namespaces / names / groups extending one another with characters that sort
		// below and above the separators a joined key would use ('-' '.' < '/' < digits < ':' < letters < '_')
		mkID("", "ConfigMap", "ns-1", "a"),
		mkID("", "ConfigMap", "ns.1", "a"),
		mkID("", "ConfigMap", "ns", "a"),
		mkID("", "ConfigMap", "ns", "a-b"),
		mkID("", "ConfigMap", "ns", "a.b"),
		mkID("", "ConfigMap", "ns", "a:b"),
		mkID("", "ConfigMap", "ns", "a_b"),
		mkID("", "ConfigMap", "ns", "a0"),
		mkID("", "ConfigMap", "n", "s-1"),
		mkID("foo-bar", "Deployment", "ns1", "x"),
		mkID("foo.bar", "Deployment", "ns1", "x"),
		mkID("fo", "oDeployment", "ns1", "x"),
		// unlisted kind, namespace/name ties
		mkID("foo", "Deployment", "ns1", "xy"),
		mkID("foo", "Deployment", "ns0", "y"),
	)
	t := newTable("P", ids)
	t.perID = true
	return t
}

func (h *harness) lessCases(sk *sink, pool *table) error {
	for i, a := range pool.ids {
		for j, b := range pool.ids {
			ab := ordering.SortableMetas{a, b}.Less(0, 1)
			ba := ordering.SortableMetas{b, a}.Less(0, 1)
			term := emit.App("Less", fmt.Sprintf("P%d", i), fmt.Sprintf("P%d", j), emit.Bool(ab), emit.Bool(ba))
			text := fmt.Sprintf("Less a=%s b=%s => a<b=%v b<a=%v", idText(a), idText(b), ab, ba)
			h.sum.Count("misc:Less")
			if err := sk.add([]*table{pool}, term, text, 1, i != j); err != nil {
				return err
			}
		}
	}
	return nil
}

func (h *harness) sortIdsCases(r *rand.Rand, sk *sink, pool *table, count int) error {
	for c := 0; c < count; c++ {
		n := r.Intn(13)
		l := make([]int, n)
		for i := range l {
			l[i] = r.Intn(len(pool.ids))
		}
		ids := make([]object.ObjMetadata, n)
		for i, k := range l {
			ids[i] = pool.ids[k]
		}
		sort.Sort(ordering.SortableMetas(ids))
		name := func(k int) string { return fmt.Sprintf("P%d", k) }
		in := make([]string, n)
		out := make([]string, n)
		outIdx := make([]int, n)
		for i := range l {
			in[i] = name(l[i])
			outIdx[i] = pool.ix(ids[i])
			out[i] = name(outIdx[i])
		}
		term := emit.App("SortIds", emit.List(in), emit.List(out))
		h.sum.Count("misc:SortIds")
		if err := sk.add([]*table{pool}, term, fmt.Sprintf("SortIds (pool indices) %v => %v", l, outIdx), 1, n > 1); err != nil {
			return err
		}
	}
	return nil
}
