package kstatus

import (
	"fmt"
	"math"
	"math/rand"
	"strings"

	"k8s.io/apimachinery/pkg/apis/meta/v1/unstructured"
	"k8s.io/kubectl/pkg/polymorphichelpers"
	"sigs.k8s.io/cli-utils/pkg/kstatus/status"
	"verifharness/emit"
)

const importsC08 = "From CliUtils Require Import Base.Json Model.KStatus Model.KubectlRollout Corr.CorrKStatus Corr.CorrC08."

var _ = status.CurrentStatus

func intAt(obj map[string]interface{}, dotted string, def int64) int64 {
	var cur interface{} = obj
	for _, p := range strings.Split(dotted, ".") {
		m, ok := cur.(map[string]interface{})
		if !ok {
			return def
		}
		cur, ok = m[p]
		if !ok {
			return def
		}
	}
	if v, ok := cur.(int64); ok {
		return v
	}
	return def
}

func allInt32(v interface{}) bool {
	switch x := v.(type) {
	case int64:
		return x >= math.MinInt32 && x <= math.MaxInt32
	case []interface{}:
		for _, e := range x {
			if !allInt32(e) {
				return false
			}
		}
	case map[string]interface{}:
		for _, e := range x {
			if !allInt32(e) {
				return false
			}
		}
	}
	return true
}

// kubectlOracle runs the real rollout status viewer of kubectl on the object.
func kubectlOracle(obj map[string]interface{}) (string, string) {
	kind, _ := obj["kind"].(string)
	var v polymorphichelpers.StatusViewer
	switch kind {
	case "Deployment":
		v = &polymorphichelpers.DeploymentStatusViewer{}
	case "DaemonSet":
		v = &polymorphichelpers.DaemonSetStatusViewer{}
	case "StatefulSet":
		v = &polymorphichelpers.StatefulSetStatusViewer{}
	default:
		return "None", ""
	}
	if !allInt32(obj) {
		return "None", ""
	}
	var res, short string
	func() {
		defer func() {
			if e := recover(); e != nil {
				res, short = "None", "kubectl-panic"
			}
		}()
		_, done, err := v.Status(&unstructured.Unstructured{Object: CopyObj(obj)}, 0)
		switch {
		case err != nil && strings.HasPrefix(err.Error(), "failed to convert"):
			res, short = "None", "kubectl-unconvertible"
		case err != nil:
			res, short = "(Some KError)", "kubectl=error"
		case done:
			res, short = "(Some KDone)", "kubectl=done"
		default:
			res, short = "(Some KWaiting)", "kubectl=waiting"
		}
	}()
	return res, short
}

func hasCondTrue(obj map[string]interface{}, ty string) bool {
	st, _ := obj["status"].(map[string]interface{})
	l, _ := st["conditions"].([]interface{})
	for _, c := range l {
		if m, ok := c.(map[string]interface{}); ok && m["type"] == ty && m["status"] == "True" {
			return true
		}
	}
	return false
}

// rsLagMarker: the known finding — a ReplicaSet reported Current while
// status.replicas < spec.replicas although every count the rule does compare
// is fine.
func rsLagMarker(obj map[string]interface{}, o Obs) string {
	if obj["kind"] != "ReplicaSet" || o.Class != 0 || o.Status != "Current" {
		return ""
	}
	spec := intAt(obj, "spec.replicas", 1)
	if intAt(obj, "status.replicas", 0) < spec &&
		intAt(obj, "status.fullyLabeledReplicas", 0) >= spec &&
		intAt(obj, "status.availableReplicas", 0) >= spec &&
		intAt(obj, "status.readyReplicas", 0) >= spec &&
		!hasCondTrue(obj, "ReplicaFailure") {
		return " [rs-status-replicas-lag]"
	}
	return ""
}

type c8rec struct {
	sh  *shard
	sum *emit.Summary
}

func (rc *c8rec) add(part, tag string, obj map[string]interface{}) {
	o := Observe(obj)
	k, kshort := kubectlOracle(obj)
	term := "(K8 " + JV(obj) + " " + emit.Bool(o.W) + " " + o.Coq() + " " + emit.Bool(o.Unchanged) + " " + emit.Bool(o.Same) + " " + k + ")"
	kind, _ := obj["kind"].(string)
	text := fmt.Sprintf("c08 %s %s | %s w=%v -> %s %s%s", kind, tag, Text(obj), o.W, o.Short(), kshort, rsLagMarker(obj, o))
	rc.sh.add(term, text, true)
	rc.sum.Count("part:" + part)
	rc.sum.Count("kind:" + kind + ":" + o.Short())
	if kshort != "" {
		rc.sum.Count(kind + ":" + kshort)
	}
	if o.Ambiguous {
		rc.sum.ImplFailures = append(rc.sum.ImplFailures, "harness: ambiguous creation timestamp in "+tag)
	}
}

func workload(apiVersion, kind string) map[string]interface{} {
	obj := map[string]interface{}{"apiVersion": apiVersion, "kind": kind,
		"metadata": map[string]interface{}{"name": "x", "namespace": "ns", "generation": int64(2)}}
	setPath(obj, "status.observedGeneration", int64(2))
	return obj
}

// grid3 enumerates n counts over {absent,1,2}.
func grid3(n int, f func(cs []cnt)) {
	vals := []cnt{nil, ci(1), ci(2)}
	idx := make([]int, n)
	for {
		cs := make([]cnt, n)
		for i := range cs {
			cs[i] = vals[idx[i]]
		}
		f(cs)
		k := 0
		for k < n {
			idx[k]++
			if idx[k] < len(vals) {
				break
			}
			idx[k] = 0
			k++
		}
		if k == n {
			return
		}
	}
}

// systematicC08: exhaustive boundary grids for the four replica-counting kinds.
func systematicC08(rc *c8rec, thorough bool) {
	// Deployment: counts x condition variants
	depConds := map[string][]interface{}{
		"ok":             {cond("Progressing", "True", "NewReplicaSetAvailable"), cond("Available", "True", "MinimumReplicasAvailable")},
		"not-available":  {cond("Progressing", "True", "NewReplicaSetAvailable"), cond("Available", "False", "MinimumReplicasUnavailable")},
		"no-available":   {cond("Progressing", "True", "NewReplicaSetAvailable")},
		"deadline":       {cond("Available", "True", "x"), cond("Progressing", "False", "ProgressDeadlineExceeded")},
		"still-updating": {cond("Available", "True", "x"), cond("Progressing", "True", "ReplicaSetUpdated")},
	}
	for _, name := range []string{"ok", "not-available", "no-available", "deadline", "still-updating"} {
		grid3(5, func(cs []cnt) {
			obj := workload("apps/v1", "Deployment")
			setPath(obj, "spec.progressDeadlineSeconds", int64(600))
			setPath(obj, "spec.strategy.type", "RollingUpdate")
			tag := putCounts(obj, []string{"spec.replicas", "status.replicas", "status.updatedReplicas", "status.readyReplicas", "status.availableReplicas"}, cs)
			addConds(obj, Copy(depConds[name]).([]interface{}))
			rc.add("grid-Deployment", "grid "+name+" "+tag, obj)
		})
	}
	// ReplicaSet
	for _, fail := range []string{"none", "ReplicaFailure"} {
		grid3(5, func(cs []cnt) {
			obj := workload("apps/v1", "ReplicaSet")
			tag := putCounts(obj, []string{"spec.replicas", "status.replicas", "status.fullyLabeledReplicas", "status.readyReplicas", "status.availableReplicas"}, cs)
			if fail != "none" {
				addConds(obj, []interface{}{cond("ReplicaFailure", "True", "FailedCreate")})
			}
			rc.add("grid-ReplicaSet", "grid "+fail+" "+tag, obj)
		})
	}
	// StatefulSet
	for _, variant := range []string{"rev-equal", "rev-differ", "partition1", "partition0-ru"} {
		grid3(5, func(cs []cnt) {
			obj := workload("apps/v1", "StatefulSet")
			setPath(obj, "spec.updateStrategy.type", "RollingUpdate")
			tag := putCounts(obj, []string{"spec.replicas", "status.replicas", "status.readyReplicas", "status.currentReplicas", "status.updatedReplicas"}, cs)
			switch variant {
			case "rev-equal":
				setPath(obj, "status.currentRevision", "r1")
				setPath(obj, "status.updateRevision", "r1")
			case "rev-differ":
				setPath(obj, "status.currentRevision", "r1")
				setPath(obj, "status.updateRevision", "r2")
			case "partition1":
				setPath(obj, "spec.updateStrategy.rollingUpdate.partition", int64(1))
				setPath(obj, "status.currentRevision", "r1")
				setPath(obj, "status.updateRevision", "r2")
			case "partition0-ru":
				setPath(obj, "spec.updateStrategy.rollingUpdate.partition", int64(0))
				setPath(obj, "status.currentRevision", "r1")
				setPath(obj, "status.updateRevision", "r1")
			}
			rc.add("grid-StatefulSet", "grid "+variant+" "+tag, obj)
		})
	}
	// DaemonSet
	grid3(5, func(cs []cnt) {
		obj := workload("apps/v1", "DaemonSet")
		setPath(obj, "spec.updateStrategy.type", "RollingUpdate")
		tag := putCounts(obj, []string{"status.desiredNumberScheduled", "status.currentNumberScheduled", "status.updatedNumberScheduled", "status.numberAvailable", "status.numberReady"}, cs)
		rc.add("grid-DaemonSet", "grid "+tag, obj)
	})
}

func corpusC08() []base {
	return []base{
		// known finding witness: first
		{"rs-lag-witness", Parse(`{"apiVersion":"apps/v1","kind":"ReplicaSet","metadata":{"name":"r","generation":1},"spec":{"replicas":2},
			"status":{"observedGeneration":1,"replicas":0,"fullyLabeledReplicas":2,"availableReplicas":2,"readyReplicas":2}}`)},
		{"rs-lag-witness-default-spec", Parse(`{"apiVersion":"extensions/v1beta1","kind":"ReplicaSet","metadata":{"name":"r"},
			"status":{"fullyLabeledReplicas":1,"availableReplicas":1,"readyReplicas":1}}`)},
		{"sts-partition-wrap", Parse(`{"apiVersion":"apps/v1","kind":"StatefulSet","metadata":{"name":"s"},"spec":{"replicas":-9223372036854775808,"updateStrategy":{"rollingUpdate":{"partition":1}}},
			"status":{"replicas":-9223372036854775808,"readyReplicas":0,"updatedReplicas":5}}`)},
		{"sts-partition-minus1", Parse(`{"apiVersion":"apps/v1","kind":"StatefulSet","metadata":{"name":"s","generation":1},"spec":{"replicas":2,"updateStrategy":{"type":"RollingUpdate","rollingUpdate":{"partition":-1}}},
			"status":{"observedGeneration":1,"replicas":2,"readyReplicas":2,"currentReplicas":2,"updatedReplicas":2,"currentRevision":"a","updateRevision":"a"}}`)},
		{"sts-observed-zero", Parse(`{"apiVersion":"apps/v1","kind":"StatefulSet","metadata":{"name":"s","generation":0},"spec":{"replicas":1,"updateStrategy":{"type":"RollingUpdate"}},
			"status":{"observedGeneration":0,"replicas":1,"readyReplicas":1,"currentReplicas":1,"updatedReplicas":1,"currentRevision":"a","updateRevision":"a"}}`)},
		{"deploy-second-progressing-deadline", Parse(`{"apiVersion":"apps/v1","kind":"Deployment","metadata":{"name":"d","generation":1},"spec":{"replicas":1,"progressDeadlineSeconds":600},
			"status":{"observedGeneration":1,"replicas":1,"updatedReplicas":1,"readyReplicas":1,"availableReplicas":1,
			"conditions":[{"type":"Progressing","status":"True","reason":"NewReplicaSetAvailable"},{"type":"Available","status":"True"},{"type":"Progressing","status":"False","reason":"ProgressDeadlineExceeded"}]}}`)},
		{"deploy-spec-zero", Parse(`{"apiVersion":"apps/v1","kind":"Deployment","metadata":{"name":"d","generation":1},"spec":{"replicas":0,"progressDeadlineSeconds":600},
			"status":{"observedGeneration":1,"conditions":[{"type":"Progressing","status":"True","reason":"NewReplicaSetAvailable"},{"type":"Available","status":"True"}]}}`)},
	}
}

// RunC08: fixed corpus, boundary grids, seeded samples of the full field grid
// of every kind (incl. extreme values), kubectl viewers as second oracle.
func RunC08(seed int64, tier, outDir string) (*emit.Summary, error) {
	r := rand.New(rand.NewSource(seed))
	sum := emit.NewSummary("C08", seed, tier)
	rc := &c8rec{sh: newShard("Cases_C08", importsC08, "check_C08", 450), sum: sum}
	for _, b := range corpusC08() {
		rc.add("corpus", b.name, b.obj)
	}
	for _, b := range Bases() {
		rc.add("bases", b.name, b.obj)
	}
	systematicC08(rc, tier == "thorough")
	n := 2400
	if tier == "thorough" {
		n = 40000
	}
	// kinds evenly, the four replica-counting kinds twice
	order := []int{0, 1, 2, 3, 4, 5, 0, 2, 6, 7, 8, 9, 1, 3, 4, 5}
	for i := 0; i < n; i++ {
		obj, tag := genKindPoint(r, order[i%len(order)])
		rc.add("sample", tag, obj)
	}
	if err := rc.sh.write(outDir, sum); err != nil {
		return nil, err
	}
	sum.Evaluations = len(rc.sh.terms)
	sum.DistinctNontrivial = emit.Distinct(rc.sh.terms, rc.sh.nontr)
	sum.Rule = "every case is one object without generic signal (no deletion, generations equal or absent, no true Reconciling/Stalled) so that the kind rule decides; " +
		"corpus (known-finding witness first); exhaustive boundary grids counts in {absent,1,2}^5 x condition/revision/partition variants for Deployment, ReplicaSet, StatefulSet, DaemonSet; " +
		"seeded samples of the full field grid of every kind (counts in {absent,0..3} near-complete or uniform, extreme/negative values, every condition/reason/phase/strategy value); " +
		"Deployment/DaemonSet/StatefulSet points with int32 values are also given to the real kubectl StatusViewers. non-trivial = all; distinct = distinct Coq case terms"
	sum.Samples = []any{rc.sh.files[0].Text[0], rc.sh.files[1].Text[7], rc.sh.files[len(rc.sh.files)-1].Text[3]}
	if err := runReaders(r, "C08", tier, outDir, sum); err != nil {
		return nil, err
	}
	return sum, nil
}
