package kstatus

import (
	"fmt"
	"math/rand"

	"k8s.io/apimachinery/pkg/apis/meta/v1/unstructured"
	"sigs.k8s.io/cli-utils/pkg/kstatus/status"
	"verifharness/emit"
)

const importsC07 = "From CliUtils Require Import Base.Json Model.KStatus Corr.CorrKStatus Corr.CorrC07."

// stdLists enumerates every ordered list of at most n standard conditions
// (Reconciling, Stalled, Ready) with every truth value.
func stdLists(n int) [][]interface{} {
	var atoms []interface{}
	for _, ty := range stdTypes {
		for _, st := range truthValues {
			atoms = append(atoms, cond(ty, st, "R"))
		}
	}
	out := [][]interface{}{{}}
	frontier := [][]interface{}{{}}
	for l := 1; l <= n; l++ {
		var next [][]interface{}
		for _, p := range frontier {
			for _, a := range atoms {
				q := append(append([]interface{}{}, p...), Copy(a))
				next = append(next, q)
			}
		}
		out = append(out, next...)
		frontier = next
	}
	return out
}

func augmentOnce(obj map[string]interface{}) (err error, panicText string) {
	defer func() {
		if e := recover(); e != nil {
			panicText = fmt.Sprint(e)
		}
	}()
	return status.Augment(&unstructured.Unstructured{Object: obj}), ""
}

// augmentCase runs Compute, Augment (on a copy), Compute on the output.
func augmentCase(obj map[string]interface{}) (term, text string, resultOK bool) {
	before := Observe(CopyObj(obj))
	work := CopyObj(obj)
	err, pt := augmentOnce(work)
	result := "None"
	after := Obs{Class: 1}
	t := ""
	if err == nil && pt == "" {
		resultOK = true
		result = "(Some " + JV(work) + ")"
		after = Observe(CopyObj(work))
		// the formatted clock value Augment used
		if len(before.Conds) > 0 {
			if st, ok := work["status"].(map[string]interface{}); ok {
				if l, ok := st["conditions"].([]interface{}); ok {
					for _, c := range l {
						if m, ok := c.(map[string]interface{}); ok && m["type"] == before.Conds[0][0] {
							if s, ok := m["lastUpdateTime"].(string); ok {
								t = s
							}
						}
					}
				}
			}
		}
	}
	term = "(AC " + JV(obj) + " " + emit.Bool(before.W) + " " + qs(t) + " " + qs(before.Reason) + " " + qs(before.Message) + " " +
		before.Coq() + " " + result + " " + after.Coq() + " " + emit.Bool(pt != "") + ")"
	text = fmt.Sprintf("augment %s w=%v before=%s -> ", Text(obj), before.W, before.Short())
	switch {
	case pt != "":
		text += "PANIC(" + pt + ")"
	case err != nil:
		text += "error"
	default:
		text += Text(work["status"]) + " after=" + after.Short()
	}
	return
}

// augment corpus: shapes of status.conditions that drive every branch of Augment
func augmentCorpus() []map[string]interface{} {
	mk := func(kind, conds string, rest string) map[string]interface{} {
		st := `"status":{` + rest
		if conds != "" {
			if rest != "" {
				st += ","
			}
			st += `"conditions":` + conds
		}
		st += "}"
		return Parse(`{"apiVersion":"example.com/v1","kind":"` + kind + `","metadata":{"name":"x"},` + st + `}`)
	}
	dep := func(conds string, ready int) map[string]interface{} {
		c := ""
		if conds != "" {
			c = `,"conditions":` + conds
		}
		return Parse(fmt.Sprintf(`{"apiVersion":"apps/v1","kind":"Deployment","metadata":{"name":"d","generation":1},"spec":{"replicas":1},
		 "status":{"observedGeneration":1,"replicas":1,"updatedReplicas":1,"readyReplicas":%d,"availableReplicas":1%s}}`, ready, c))
	}
	return []map[string]interface{}{
		mk("Widget", "", ""),
		mk("Widget", `[]`, ""),
		mk("Widget", `null`, ""),
		mk("Widget", `"x"`, ""),
		mk("Widget", `[{"type":"Ready","status":"False","reason":"r","message":"m"}]`, `"x":1`),
		mk("Widget", `[{"type":"Ready","status":"Unknown"},{"type":"Other","status":"True","extra":{"a":[1,2]}}]`, ""),
		mk("Widget", `[{"type":"Reconciling","status":"False","lastTransitionTime":"old","lastUpdateTime":"old"},{"type":"Ready","status":"False"}]`, ""),
		mk("Widget", `[{"type":"Reconciling","status":"True","lastTransitionTime":"old"}]`, ""),
		mk("Widget", `[{"type":"Stalled","status":"True","reason":"x"},{"type":"Reconciling","status":"True"}]`, ""),
		mk("Widget", `[{"type":"Reconciling","status":"False"},{"type":"Stalled","status":"True"},{"type":"Stalled","status":"False"}]`, ""),
		mk("Widget", `[{"type":"Ready","status":"False"},"notamap"]`, ""),
		mk("Widget", `[{"type":"Ready","status":"False"},{"status":"True"}]`, ""),
		mk("Widget", `[{"type":"Ready","status":"False"},{"type":null}]`, ""),
		mk("Widget", `[null,{"type":"Ready","status":"False"}]`, ""),
		mk("Widget", `[{"type":"Ready","status":"True"},"notamap"]`, ""),
		Parse(`{"apiVersion":"example.com/v1","kind":"Widget","metadata":{"name":"x"},"status":null}`),
		Parse(`{"apiVersion":"example.com/v1","kind":"Widget","metadata":{"name":"x"},"status":"str"}`),
		Parse(`{"apiVersion":"example.com/v1","kind":"Widget","metadata":{"name":"x"}}`),
		Parse(`{"apiVersion":"v1","kind":"ConfigMap","metadata":{"name":"x"},"status":null}`),
		Parse(`{"apiVersion":"example.com/v1","kind":"Widget","metadata":{"name":"x","generation":2},"status":{"observedGeneration":1,"conditions":[{"type":"Reconciling","status":5}]}}`),
		Parse(`{"apiVersion":"example.com/v1","kind":"Widget","metadata":{"name":"x","generation":2},"status":{"observedGeneration":1,"conditions":[{"type":"Stalled","status":5},7]}}`),
		Parse(`{"apiVersion":"example.com/v1","kind":"Widget","metadata":{"name":"x","generation":2},"status":{"observedGeneration":1,"conditions":[{"type":"Stalled","status":"True"}]}}`),
		Parse(`{"apiVersion":"example.com/v1","kind":"Widget","metadata":{"name":"x","deletionTimestamp":"2020-01-01T00:00:00Z"},"status":{"conditions":[{"type":"Ready","status":"False"}]}}`),
		dep("", 0),
		dep(`[{"type":"Available","status":"True","lastTransitionTime":"t0"}]`, 0),
		dep(`[{"type":"Available","status":"True"},{"type":"Reconciling","status":"False","reason":"old","message":"old"}]`, 0),
		dep(`[{"type":"Available","status":"True"}]`, 1),
		dep(`[{"type":"Progressing","status":"False","reason":"ProgressDeadlineExceeded"},{"type":"Stalled","status":"False"}]`, 1),
		Parse(`{"apiVersion":"v1","kind":"Pod","metadata":{"name":"p"},"status":{"phase":"Running","containerStatuses":[{"name":"c","state":{"waiting":{"reason":"CrashLoopBackOff"}}}]}}`),
		Parse(`{"apiVersion":"v1","kind":"Pod","metadata":{"name":"p"},"status":{"phase":"Weird"}}`),
	}
}

// RunC07: the generic cross product on Compute, and Augment cases.
func RunC07(seed int64, tier, outDir string) (*emit.Summary, error) {
	r := rand.New(rand.NewSource(seed))
	sum := emit.NewSummary("C07", seed, tier)
	sh := newShard("Cases_C07", importsC07, "check_C07", 650)
	add := func(part string, obj map[string]interface{}, tag string) {
		o := Observe(obj)
		sh.add(KCase(obj, o), caseText(tag, obj, o), true)
		sum.Count("compute:" + part)
		sum.Count("outcome:" + o.Short())
		if o.Ambiguous {
			sum.ImplFailures = append(sum.ImplFailures, "harness: ambiguous creation timestamp in "+tag)
		}
	}
	allKinds := append(append([]gk{}, legacyKinds...), customKinds...)
	// A1: kinds x deletion x generation x the four decisive short lists
	short := [][]interface{}{{}, {cond("Reconciling", "True", "R")}, {cond("Stalled", "True", "R")}, {cond("Ready", "False", "R")}}
	for _, k := range allKinds {
		for _, del := range deletionChoices {
			for _, gen := range generationChoices {
				for _, std := range short {
					obj, tag := buildGeneric(r, k, del, gen, Copy(std).([]interface{}))
					add("A1-kinds*deletion*generation", obj, tag)
				}
			}
		}
	}
	// A2: every ordered list of <= 2 standard conditions x every kind, generic state quiet
	quietDel := []string{"absent", "empty"}
	quietGen := []string{"absent", "equal", "gen-only", "observed-only"}
	lists := stdLists(2)
	for _, std := range lists {
		for _, k := range allKinds {
			obj, tag := buildGeneric(r, k, quietDel[r.Intn(2)], quietGen[r.Intn(4)], Copy(std).([]interface{}))
			add("A2-all-lists<=2*kinds", obj, tag)
		}
	}
	// A3: random points of the full product, lists up to 3, odd status strings
	nA3, nAug := 600, 500
	if tier == "thorough" {
		nA3, nAug = 20000, 6000
	}
	for i := 0; i < nA3; i++ {
		obj, tag := genGeneric(r)
		add("A3-random", obj, tag)
	}
	if err := sh.write(outDir, sum); err != nil {
		return nil, err
	}

	// B: Augment
	ash := newShard("Cases_C07_augment", importsC07, "check_C07_augment", 250)
	addAug := func(part string, obj map[string]interface{}) {
		term, text, ok := augmentCase(obj)
		ash.add(term, text, true)
		sum.Count("augment:" + part)
		if ok {
			sum.Count("augment-result:ok")
		} else {
			sum.Count("augment-result:error")
		}
	}
	for _, obj := range augmentCorpus() {
		addAug("corpus", obj)
	}
	for i := 0; i < nAug; i++ {
		switch i % 4 {
		case 0:
			obj, _ := genGeneric(r)
			addAug("random-generic", obj)
		case 1:
			obj, _ := genKindPoint(r, i/4)
			addAug("kind-point", obj)
		case 2:
			// kind point with pre-existing standard conditions that are not true
			obj, _ := genKindPoint(r, i/4)
			insertStd(r, obj, []interface{}{cond(pick(r, "Reconciling", "Stalled"), pick(r, "False", "Unknown"), "Old"), cond("Foreign", "True", "F")})
			addAug("kind-point+stale-std", obj)
		default:
			// malformed neighbourhood of an augment corpus object
			c := augmentCorpus()
			m := randomMutant(r, base{"aug", c[r.Intn(len(c))]})
			addAug("malformed", m.obj)
		}
	}
	if err := ash.write(outDir, sum); err != nil {
		return nil, err
	}
	sum.Evaluations = len(sh.terms) + len(ash.terms)
	sum.DistinctNontrivial = emit.Distinct(sh.terms, sh.nontr) + emit.Distinct(ash.terms, ash.nontr)
	sum.Rule = "Compute cases: every kind of legacyTypes (16) + 8 kinds outside the table x deletionTimestamp {absent,\"\",set,int,null} x " +
		"generation/observedGeneration {absent,gen-only,observed-only,equal,different,float,string,null} x {no, true Reconciling, true Stalled, Ready=False} (A1); " +
		"every ordered list of <=2 standard conditions (Reconciling/Stalled/Ready x True/False/Unknown) x every kind with a quiet generic state (A2); " +
		"seeded random points with lists <=3 and odd status strings (A3); each on a kind-specific status drawn from the C08 grid, standard conditions " +
		"interleaved with the kind's own. Augment cases: fixed corpus of condition-list shapes + seeded kind points / generic points / malformed. " +
		"non-trivial = all; distinct = distinct Coq case terms"
	sum.Extra["std_lists_le2"] = len(lists)
	sum.Extra["kinds"] = len(allKinds)
	sum.Samples = []any{sh.files[0].Text[1], sh.files[len(sh.files)-1].Text[0], ash.files[0].Text[4]}
	if err := runReaders(r, "C07", tier, outDir, sum); err != nil {
		return nil, err
	}
	return sum, nil
}
