// Package kstatus drives the real status.Compute / status.Augment of
// sigs.k8s.io/cli-utils/pkg/kstatus/status and writes the observations as
// Coq cases for the C07, C08 and C09 checks.
package kstatus

import (
	"fmt"
	"math"
	"reflect"
	"sort"
	"strings"

	utiljson "k8s.io/apimachinery/pkg/util/json"
)

// JV prints a JSON-shaped Go value as a Gallina term of type Base.Json.jv.
// Map keys are emitted in sorted order (Go maps have no order).
func JV(v interface{}) string {
	var b strings.Builder
	writeJV(&b, v)
	return b.String()
}

func coqStr(b *strings.Builder, s string) {
	plain := true
	for i := 0; i < len(s); i++ {
		if s[i] < 32 || s[i] > 126 {
			plain = false
			break
		}
	}
	if plain {
		b.WriteByte('"')
		b.WriteString(strings.ReplaceAll(s, "\"", "\"\""))
		b.WriteByte('"')
		return
	}
	b.WriteString("(bytes_str [")
	for i := 0; i < len(s); i++ {
		if i > 0 {
			b.WriteByte(';')
		}
		fmt.Fprintf(b, "%d", s[i])
	}
	b.WriteString("]%nat)")
}

func coqZ(n int64) string {
	if n < 0 {
		return fmt.Sprintf("(%d)%%Z", n)
	}
	return fmt.Sprintf("%d%%Z", n)
}

func writeJV(b *strings.Builder, v interface{}) {
	switch x := v.(type) {
	case nil:
		b.WriteString("JNull")
	case bool:
		if x {
			b.WriteString("(JBool true)")
		} else {
			b.WriteString("(JBool false)")
		}
	case int64:
		b.WriteString("(JInt " + coqZ(x) + ")")
	case float64:
		// opaque to the model: mantissa * 2^exp
		fr, exp := math.Frexp(x)
		m := int64(fr * (1 << 53))
		b.WriteString("(JFloat " + coqZ(m) + " " + coqZ(int64(exp-53)) + ")")
	case string:
		b.WriteString("(JStr ")
		coqStr(b, x)
		b.WriteString(")")
	case []interface{}:
		b.WriteString("(JArr [")
		for i, e := range x {
			if i > 0 {
				b.WriteString("; ")
			}
			writeJV(b, e)
		}
		b.WriteString("])")
	case map[string]interface{}:
		keys := make([]string, 0, len(x))
		for k := range x {
			keys = append(keys, k)
		}
		sort.Strings(keys)
		b.WriteString("(JObj [")
		for i, k := range keys {
			if i > 0 {
				b.WriteString("; ")
			}
			b.WriteString("(")
			coqStr(b, k)
			b.WriteString(", ")
			writeJV(b, x[k])
			b.WriteString(")")
		}
		b.WriteString("])")
	default:
		panic(fmt.Sprintf("JV: not a JSON-shaped value: %T", v))
	}
}

// Copy is a deep copy of a JSON-shaped value (own code: independent of the
// library's DeepCopyJSONValue, which the code under test also uses).
func Copy(v interface{}) interface{} {
	switch x := v.(type) {
	case []interface{}:
		o := make([]interface{}, len(x))
		for i, e := range x {
			o[i] = Copy(e)
		}
		return o
	case map[string]interface{}:
		o := make(map[string]interface{}, len(x))
		for k, e := range x {
			o[k] = Copy(e)
		}
		return o
	default:
		return x
	}
}

func CopyObj(m map[string]interface{}) map[string]interface{} {
	return Copy(m).(map[string]interface{})
}

func Same(a, b interface{}) bool { return reflect.DeepEqual(a, b) }

// Parse reads a JSON text the way the unstructured decoder does: integers
// become int64, other numbers float64.
func Parse(text string) map[string]interface{} {
	var m map[string]interface{}
	if err := utiljson.Unmarshal([]byte(text), &m); err != nil {
		panic("bad base object: " + err.Error() + "\n" + text)
	}
	return m
}

// Text renders a value compactly for replay files and known-finding regexes.
func Text(v interface{}) string {
	switch x := v.(type) {
	case nil:
		return "null"
	case string:
		return fmt.Sprintf("%q", x)
	case float64:
		return fmt.Sprintf("%gf", x)
	case []interface{}:
		s := make([]string, len(x))
		for i, e := range x {
			s[i] = Text(e)
		}
		return "[" + strings.Join(s, ",") + "]"
	case map[string]interface{}:
		keys := make([]string, 0, len(x))
		for k := range x {
			keys = append(keys, k)
		}
		sort.Strings(keys)
		s := make([]string, len(keys))
		for i, k := range keys {
			s[i] = k + ":" + Text(x[k])
		}
		return "{" + strings.Join(s, ",") + "}"
	default:
		return fmt.Sprint(x)
	}
}
