package kstatus

// Reader-level stream shared by the C07, C08 and C09 runners: the real
// statusreaders.NewDefaultStatusReader(mapper) — the status reader used by the
// StatusPoller, the StatusWatcher and the applier — over an in-memory
// ClusterReader holding a top-level object (Deployment -> ReplicaSets -> Pods,
// ReplicaSet -> Pods, StatefulSet -> Pods, any other kind through the generic
// reader) and 0..3 selected pods per controller.  Cases are evaluated by
// Corr/CorrKStatusReader.v against Model/KStatusReader.v.

import (
	"context"
	"encoding/json"
	"errors"
	"fmt"
	"math/rand"
	"regexp"
	"sort"
	"strings"

	apierrors "k8s.io/apimachinery/pkg/api/errors"
	metav1 "k8s.io/apimachinery/pkg/apis/meta/v1"
	"k8s.io/apimachinery/pkg/apis/meta/v1/unstructured"
	"k8s.io/apimachinery/pkg/labels"
	"k8s.io/apimachinery/pkg/runtime/schema"
	"sigs.k8s.io/cli-utils/pkg/kstatus/polling/event"
	"sigs.k8s.io/cli-utils/pkg/kstatus/polling/statusreaders"
	"sigs.k8s.io/cli-utils/pkg/kstatus/status"
	"sigs.k8s.io/cli-utils/pkg/object"
	"sigs.k8s.io/cli-utils/pkg/testutil"
	"sigs.k8s.io/controller-runtime/pkg/client"
	"verifharness/emit"
)

const importsReader = "From CliUtils Require Import Base.Json Model.KStatus Model.KStatusReader Corr.CorrKStatus Corr.CorrKStatusReader."

// error classes of Model/KStatusReader.v `lerr`
const (
	lOk = iota
	lErr
	lNotFound
	lCtx
)

var lerrName = []string{"LOk", "LErr", "LNotFound", "LCtx"}

func scriptedErr(class int, what string) error {
	switch class {
	case lErr:
		return fmt.Errorf("scripted failure of %s", what)
	case lNotFound:
		return apierrors.NewNotFound(schema.GroupResource{Resource: what}, "x")
	case lCtx:
		if len(what)%2 == 0 {
			return context.Canceled
		}
		return fmt.Errorf("%s: %w", what, context.DeadlineExceeded)
	}
	return nil
}

// ---- the in-memory cluster --------------------------------------------------

// centry is one stored object. bucket (the Kind a list call finds it under),
// ns, name and labels are what the harness intended when it built the object:
// the fake does not read them back from a possibly malformed tree.
type centry struct {
	bucket string
	gk     schema.GroupKind
	ns     string
	name   string
	labels map[string]string
	obj    map[string]interface{}
	flavor string
}

type fakeCluster struct {
	entries []*centry
	listErr map[string]int // by bucket
	getErr  int
	lists   int
}

func (f *fakeCluster) Get(_ context.Context, key client.ObjectKey, obj *unstructured.Unstructured) error {
	if f.getErr != lOk {
		return scriptedErr(f.getErr, "get")
	}
	gk := obj.GroupVersionKind().GroupKind()
	for _, e := range f.entries {
		if e.gk == gk && e.ns == key.Namespace && e.name == key.Name {
			obj.Object = CopyObj(e.obj)
			return nil
		}
	}
	return apierrors.NewNotFound(schema.GroupResource{Group: gk.Group, Resource: gk.Kind}, key.Name)
}

func (f *fakeCluster) ListNamespaceScoped(_ context.Context, list *unstructured.UnstructuredList, ns string, sel labels.Selector) error {
	f.lists++
	bucket := list.GroupVersionKind().Kind
	if c := f.listErr[bucket]; c != lOk {
		return scriptedErr(c, "list "+bucket)
	}
	for _, e := range f.entries {
		if e.bucket == bucket && e.ns == ns && sel.Matches(labels.Set(e.labels)) {
			list.Items = append(list.Items, unstructured.Unstructured{Object: CopyObj(e.obj)})
		}
	}
	return nil
}

func (f *fakeCluster) ListClusterScoped(ctx context.Context, list *unstructured.UnstructuredList, sel labels.Selector) error {
	return errors.New("cluster scoped list is not used by the readers")
}

func (f *fakeCluster) Sync(context.Context) error { return nil }

// ---- harness-side inputs of the model ----------------------------------------

// selectorOf: does spec.selector denote a usable label selector?  The same
// apimachinery steps the readers take (NestedMap, JSON round trip into
// metav1.LabelSelector, LabelSelectorAsSelector); the model takes the answer
// as the input `sel`.
func selectorOf(obj map[string]interface{}) (s labels.Selector, ok bool) {
	defer func() {
		if e := recover(); e != nil {
			s, ok = nil, false
		}
	}()
	m, found, err := unstructured.NestedMap(obj, "spec", "selector")
	if err != nil || !found {
		return nil, false
	}
	b, err := json.Marshal(m)
	if err != nil {
		return nil, false
	}
	var ls metav1.LabelSelector
	if err := json.Unmarshal(b, &ls); err != nil {
		return nil, false
	}
	sel, err := metav1.LabelSelectorAsSelector(&ls)
	if err != nil {
		return nil, false
	}
	return sel, true
}

const (
	rkDeployment = iota
	rkPodCtl
	rkGeneric
)

func readerKindOf(obj map[string]interface{}) int {
	gk := (&unstructured.Unstructured{Object: obj}).GroupVersionKind().GroupKind()
	switch {
	case gk.Group == "apps" && gk.Kind == "Deployment":
		return rkDeployment
	case gk.Group == "apps" && (gk.Kind == "StatefulSet" || gk.Kind == "ReplicaSet"):
		return rkPodCtl
	}
	return rkGeneric
}

// rnode mirrors Model/KStatusReader.v `node`.
type rnode struct {
	e    *centry
	w    bool
	amb  bool
	sel  bool
	lst  int
	kids []*rnode
}

// expect builds the tree the reader of kind rk will see below e: the objects
// of the generated kind in e's namespace matching e's selector, sorted the way
// event.ResourceStatuses sorts (namespace, group, kind, name: here name).
func (f *fakeCluster) expect(e *centry, rk int) *rnode {
	n := &rnode{e: e, sel: true}
	n.w, n.amb = window(CopyObj(e.obj))
	if rk == rkGeneric {
		return n
	}
	bucket, child := "Pod", rkGeneric
	if rk == rkDeployment {
		bucket, child = "ReplicaSet", rkPodCtl
	}
	sel, ok := selectorOf(CopyObj(e.obj))
	n.sel = ok
	n.lst = f.listErr[bucket]
	if !ok || n.lst != lOk {
		return n
	}
	ns := (&unstructured.Unstructured{Object: e.obj}).GetNamespace()
	for _, k := range f.entries {
		if k.bucket == bucket && k.ns == ns && sel.Matches(labels.Set(k.labels)) {
			n.kids = append(n.kids, f.expect(k, child))
		}
	}
	sort.SliceStable(n.kids, func(i, j int) bool { return n.kids[i].e.name < n.kids[j].e.name })
	return n
}

func (n *rnode) coq() string {
	ks := make([]string, len(n.kids))
	for i, k := range n.kids {
		ks[i] = k.coq()
	}
	return "(Node " + JV(n.e.obj) + " " + emit.Bool(n.w) + " " + emit.Bool(n.sel) + " " + lerrName[n.lst] + " " + emit.List(ks) + ")"
}

func (n *rnode) ambiguous() bool {
	if n.amb {
		return true
	}
	for _, k := range n.kids {
		if k.ambiguous() {
			return true
		}
	}
	return false
}

// ---- observation ---------------------------------------------------------------

var podsFailedRE = regexp.MustCompile(`^([0-9]+) pods have failed$`)

func ridCoq(id object.ObjMetadata) string {
	return "(" + qs(id.Namespace) + ", " + qs(id.GroupKind.Group) + ", " + qs(id.GroupKind.Kind) + ", " + qs(id.Name) + ")"
}

func msgClass(rs *event.ResourceStatus) string {
	if m := podsFailedRE.FindStringSubmatch(rs.Message); m != nil && len(m[1]) < 6 {
		return "(OMPodsFailed " + m[1] + "%nat)"
	}
	if rs.Message == "Resource not found" {
		return "OMNotFound"
	}
	if rs.Error != nil {
		if rs.Message == "" {
			return "OMEmpty"
		}
		return "OMOther"
	}
	if rs.Resource != nil {
		c, res, _, _ := computeOnce(CopyObj(rs.Resource.Object))
		if c == 0 && res.Message == rs.Message {
			return "OMCompute"
		}
	}
	return "OMOther"
}

// robsCoq renders a reader result as a Corr/CorrKStatusReader.v `robs`.
func robsCoq(rs *event.ResourceStatus, err error, panicText string) string {
	switch {
	case panicText != "":
		return "ROPanic"
	case rs == nil && err != nil && (errors.Is(err, context.Canceled) || errors.Is(err, context.DeadlineExceeded)):
		return "RONil"
	case rs == nil || err != nil:
		return "ROBad"
	}
	gs := make([]string, len(rs.GeneratedResources))
	for i, g := range rs.GeneratedResources {
		if g == nil {
			gs[i] = "ROBad"
		} else {
			gs[i] = robsCoq(g, nil, "")
		}
	}
	return "(RORes " + ridCoq(rs.Identifier) + " " + qs(string(rs.Status)) + " " + emit.Bool(rs.Error != nil) + " " + msgClass(rs) + " " + emit.List(gs) + ")"
}

func robsShort(rs *event.ResourceStatus, err error, panicText string) string {
	switch {
	case panicText != "":
		return "PANIC(" + panicText + ")"
	case rs == nil:
		return fmt.Sprintf("(nil, %v)", err)
	case err != nil:
		return fmt.Sprintf("(result, %v)", err)
	}
	s := string(rs.Status)
	if rs.Error != nil {
		s += " error=" + fmt.Sprintf("%.60q", rs.Error.Error())
	}
	if rs.Message != "" {
		s += fmt.Sprintf(" %.60q", rs.Message)
	}
	if len(rs.GeneratedResources) > 0 {
		var g []string
		for _, x := range rs.GeneratedResources {
			if x == nil {
				g = append(g, "nil")
			} else {
				g = append(g, x.Identifier.Name+"="+robsShort(x, nil, ""))
			}
		}
		s += " generated[" + strings.Join(g, "; ") + "]"
	}
	return s
}

// resourceOK: the Resource field carries the object that was read (absent on NotFound).
func resourceOK(rs *event.ResourceStatus, n *rnode) bool {
	if rs == nil {
		return true
	}
	if rs.Status == status.NotFoundStatus {
		return rs.Resource == nil
	}
	if rs.Resource == nil || !Same(rs.Resource.Object, n.e.obj) {
		return false
	}
	if len(rs.GeneratedResources) != len(n.kids) {
		return true // the comparison with the model reports this
	}
	for i, g := range rs.GeneratedResources {
		if g != nil && !resourceOK(g, n.kids[i]) {
			return false
		}
	}
	return true
}

type readerCall func() (*event.ResourceStatus, error)

func callReader(c readerCall) (rs *event.ResourceStatus, err error, panicText string) {
	defer func() {
		if e := recover(); e != nil {
			rs, err, panicText = nil, nil, fmt.Sprint(e)
		}
	}()
	rs, err = c()
	return rs, err, ""
}

// ---- scenarios -------------------------------------------------------------------

type scenario struct {
	tag       string
	cluster   *fakeCluster
	top       *centry
	byID      bool
	topAbsent bool
}

func (sc *scenario) add(e *centry) *centry {
	sc.cluster.entries = append(sc.cluster.entries, e)
	return e
}

func decorate(obj map[string]interface{}, ns, name string, lbls map[string]string) {
	setPath(obj, "metadata.name", name)
	setPath(obj, "metadata.namespace", ns)
	if lbls != nil {
		l := map[string]interface{}{}
		for k, v := range lbls {
			l[k] = v
		}
		setPath(obj, "metadata.labels", l)
	}
}

func matchLabels(kv ...string) map[string]interface{} {
	m := map[string]interface{}{}
	for i := 0; i+1 < len(kv); i += 2 {
		m[kv[i]] = kv[i+1]
	}
	return map[string]interface{}{"matchLabels": m}
}

// putSelector writes spec.selector; most draws give the plain matchLabels
// form, the rest the other accepted forms and the rejected ones.
func putSelector(r *rand.Rand, obj map[string]interface{}, key, val string, good bool) string {
	c := r.Intn(20)
	if good && c >= 16 {
		c = 0
	}
	switch {
	case c < 14:
		setPath(obj, "spec.selector", matchLabels(key, val))
		return "sel=matchLabels"
	case c == 14:
		setPath(obj, "spec.selector", map[string]interface{}{"matchExpressions": []interface{}{
			map[string]interface{}{"key": key, "operator": "In", "values": []interface{}{val, "zz"}}}})
		return "sel=matchExpressions"
	case c == 15:
		setPath(obj, "spec.selector", map[string]interface{}{})
		return "sel=everything"
	case c == 16:
		if sp, ok := obj["spec"].(map[string]interface{}); ok {
			delete(sp, "selector")
		}
		return "sel=missing"
	case c == 17:
		setPath(obj, "spec.selector", pickAny(r, "str", nil, int64(3), []interface{}{}))
		return "sel=not-a-map"
	case c == 18:
		setPath(obj, "spec.selector", map[string]interface{}{"matchLabels": map[string]interface{}{key: pickAny(r, int64(1), true, []interface{}{val})}})
		return "sel=matchLabels-value-not-string"
	default:
		setPath(obj, "spec.selector", pickAny(r,
			map[string]interface{}{"matchExpressions": []interface{}{map[string]interface{}{"key": key, "operator": "Near", "values": []interface{}{val}}}},
			map[string]interface{}{"matchLabels": map[string]interface{}{key: "not a label value!"}},
			map[string]interface{}{"matchExpressions": "x"}))
		return "sel=rejected"
	}
}

func pickAny(r *rand.Rand, xs ...interface{}) interface{} { return xs[r.Intn(len(xs))] }

var podBaseCache map[string]map[string]interface{}

func podBase(name string) map[string]interface{} {
	if podBaseCache == nil {
		podBaseCache = map[string]map[string]interface{}{}
		for _, b := range Bases() {
			if strings.HasPrefix(b.name, "pod-") {
				podBaseCache[b.name] = b.obj
			}
		}
	}
	o := CopyObj(podBaseCache[name])
	// fresh timestamps (the cached base would age during a long run)
	if md, ok := o["metadata"].(map[string]interface{}); ok {
		if _, has := md["creationTimestamp"]; has {
			if name == "pod-pending-unsched-new" {
				md["creationTimestamp"] = futureTS()
			} else {
				md["creationTimestamp"] = pastTS()
			}
		}
	}
	return o
}

// statusMutant replaces 1..2 nodes under .status / .spec (metadata stays
// intact: the fake cluster has to find the object).
func statusMutant(r *rand.Rand, obj map[string]interface{}, roots ...string) (map[string]interface{}, string) {
	reps := replacements()
	tag := ""
	for k := 1 + r.Intn(2); k > 0; k-- {
		var ps, all []path
		paths(obj, nil, &all)
		for _, p := range all {
			for _, root := range roots {
				if p[0].key == root {
					ps = append(ps, p)
				}
			}
		}
		if len(ps) == 0 {
			break
		}
		p := ps[r.Intn(len(ps))]
		v := reps[r.Intn(len(reps))]
		obj = setAt(obj, p, Copy(v), false)
		tag += fmt.Sprintf(" %s:=%s", p, Text(v))
	}
	return obj, tag
}

// computeBreaker makes status.Compute return an error while leaving
// metadata.name/namespace/labels and spec.selector alone.
func computeBreaker(r *rand.Rand, obj map[string]interface{}) string {
	switch r.Intn(8) {
	case 0:
		setPath(obj, "status.conditions", "x")
		return "conditions=string"
	case 1:
		setPath(obj, "status.conditions", map[string]interface{}{"type": "Ready"})
		return "conditions=map"
	case 2:
		setPath(obj, "status.conditions", []interface{}{int64(7)})
		return "conditions=[7]"
	case 3:
		setPath(obj, "status.conditions", []interface{}{map[string]interface{}{"type": int64(1), "status": "True"}})
		return "condition-type=int"
	case 4:
		setPath(obj, "metadata.generation", float64(2))
		setPath(obj, "status.observedGeneration", int64(2))
		return "generation=float"
	case 5:
		setPath(obj, "metadata.generation", int64(2))
		setPath(obj, "status.observedGeneration", "2")
		return "observedGeneration=string"
	case 6:
		setPath(obj, "metadata.deletionTimestamp", int64(5))
		return "deletionTimestamp=int"
	default:
		obj["status"] = "broken"
		return "status=string"
	}
}

// genPod: healthy / crash-looping (Failed) / unschedulable beyond the window
// (Failed) / unschedulable inside the window (InProgress) / malformed / a
// random Pod point / terminating / succeeded.
func genPod(r *rand.Rand) (map[string]interface{}, string) {
	switch r.Intn(12) {
	case 0, 1:
		return podBase("pod-running-ready"), "healthy"
	case 2, 3, 4:
		return podBase("pod-running-notready"), "crashloop"
	case 5, 6:
		return podBase("pod-pending-unsched-old"), "unschedulable-old"
	case 7:
		return podBase("pod-pending-unsched-new"), "unschedulable-fresh"
	case 8:
		b := podBase(pick(r, "pod-running-notready", "pod-pending-unsched-old", "pod-running-ready"))
		o, t := statusMutant(r, b, "status")
		return o, "malformed" + t
	case 9:
		o, t := genKindPoint(r, 4)
		return o, "point(" + t + ")"
	case 10:
		o := podBase("pod-running-notready")
		setPath(o, "metadata.deletionTimestamp", pastTS())
		return o, "terminating"
	default:
		return podBase("pod-succeeded"), "succeeded"
	}
}

func controllerPoint(r *rand.Rand, kind string, profile string) (map[string]interface{}, string) {
	idx := map[string]int{"Deployment": 0, "ReplicaSet": 1, "StatefulSet": 2}[kind]
	k := gk{"apps/v1", kind}
	// weights per profile: C07 generic signals, C08 kind points, C09 malformed
	wGeneric, wPoint := 4, 3 // rest (of 10): malformed
	switch profile {
	case "C08":
		wGeneric, wPoint = 2, 6
	case "C09":
		wGeneric, wPoint = 2, 2
	}
	c := r.Intn(10)
	switch {
	case c < wGeneric:
		del := deletionChoices[[]int{0, 0, 1, 2, 2, 2, 3, 4}[r.Intn(8)]]
		gen := generationChoices[[]int{0, 3, 3, 1, 2, 4, 4, 4, 5, 6, 7, 8, 9, 11, 12}[r.Intn(15)]]
		var std []interface{}
		for n := r.Intn(3); n > 0; n-- {
			std = append(std, cond(stdTypes[r.Intn(3)], truthValues[r.Intn(3)], "R"))
		}
		obj, tag := buildGeneric(r, k, del, gen, std)
		return obj, "generic " + tag
	case c < wGeneric+wPoint:
		obj, tag := genKindPoint(r, idx)
		obj["apiVersion"] = "apps/v1"
		return obj, "point " + tag
	default:
		obj, tag := genKindPoint(r, idx)
		obj["apiVersion"] = "apps/v1"
		if r.Intn(4) == 0 {
			applyDeletion(obj, "set")
			tag += " deletion=set"
		}
		return obj, "malformed-base " + tag
	}
}

// genScenario draws one cluster.
func genScenario(r *rand.Rand, profile string) *scenario {
	sc := &scenario{cluster: &fakeCluster{listErr: map[string]int{}}}
	ns := "ns"
	kinds := []string{"Deployment", "Deployment", "Deployment", "ReplicaSet", "ReplicaSet", "StatefulSet", "StatefulSet", "StatefulSet", "other", "other"}
	kind := kinds[r.Intn(len(kinds))]
	var obj map[string]interface{}
	var tag string
	malformed := false
	if kind == "other" {
		if r.Intn(2) == 0 {
			obj, tag = genGeneric(r)
		} else {
			obj, tag = genKindPoint(r, 3+r.Intn(7))
		}
		decorate(obj, ns, "top", map[string]string{"tier": "top"})
		if r.Intn(3) == 0 {
			tag += " " + putSelector(r, obj, "app", "a", false)
		}
		if r.Intn(5) == 0 {
			malformed = true
		}
	} else {
		obj, tag = controllerPoint(r, kind, profile)
		malformed = strings.HasPrefix(tag, "malformed-base")
		decorate(obj, ns, "top", map[string]string{"tier": "top"})
		tag += " " + putSelector(r, obj, "app", "a", r.Intn(4) > 0)
	}
	if malformed {
		switch r.Intn(3) {
		case 0:
			m := randomMutant(r, base{"top", obj})
			obj, tag = m.obj, tag+" "+m.tag
		case 1:
			tag += " " + computeBreaker(r, obj)
		default:
			var t string
			obj, t = statusMutant(r, obj, "status", "spec")
			tag += " mutated" + t
		}
	}
	u := &unstructured.Unstructured{Object: obj}
	sc.top = &centry{bucket: u.GetKind(), gk: u.GroupVersionKind().GroupKind(), ns: u.GetNamespace(), name: u.GetName(),
		labels: map[string]string{"tier": "top"}, obj: obj, flavor: kind}
	sc.tag = kind + " " + tag

	pods := 0
	addPods := func(n int, lbls map[string]string, where string) string {
		t := ""
		for i := 0; i < n; i++ {
			p, flavor := genPod(r)
			name := fmt.Sprintf("p%d", pods)
			pods++
			decorate(p, where, name, lbls)
			sc.add(&centry{bucket: "Pod", gk: schema.GroupKind{Kind: "Pod"}, ns: where, name: name, labels: lbls, obj: p, flavor: flavor})
			t += " " + name + "=" + flavor
		}
		return t
	}
	switch kind {
	case "Deployment":
		for i, n := 0, r.Intn(3); i < n; i++ {
			name := fmt.Sprintf("rs%d", i)
			lbls := map[string]string{"app": "a", "rs": name}
			var ro map[string]interface{}
			var rt string
			switch c := r.Intn(10); {
			case c < 2:
				ro, rt = Parse(rsCurrentText), "current"
			case c < 5:
				ro, rt = genKindPoint(r, 1)
				ro["apiVersion"] = "apps/v1"
			case c < 7:
				ro, rt = buildGeneric(r, gk{"apps/v1", "ReplicaSet"}, pick(r, "absent", "absent", "set"), pick(r, "equal", "different", "absent"), nil)
			default:
				ro, _ = genKindPoint(r, 1)
				ro["apiVersion"] = "apps/v1"
				rt = "broken"
			}
			decorate(ro, ns, name, lbls)
			rt += " " + putSelector(r, ro, "rs", name, r.Intn(6) > 0)
			if strings.HasPrefix(rt, "broken") {
				if r.Intn(2) == 0 {
					rt += " " + computeBreaker(r, ro)
				} else {
					var t string
					ro, t = statusMutant(r, ro, "status", "spec")
					rt += t
				}
			}
			sc.add(&centry{bucket: "ReplicaSet", gk: schema.GroupKind{Group: "apps", Kind: "ReplicaSet"}, ns: ns, name: name, labels: lbls, obj: ro, flavor: rt})
			sc.tag += " | " + name + "(" + rt + "):" + addPods(r.Intn(3), lbls, ns)
		}
		if r.Intn(4) == 0 { // a ReplicaSet of somebody else
			ro := Parse(rsCurrentText)
			decorate(ro, ns, "foreign", map[string]string{"app": "b"})
			setPath(ro, "spec.selector", matchLabels("app", "b"))
			sc.add(&centry{bucket: "ReplicaSet", gk: schema.GroupKind{Group: "apps", Kind: "ReplicaSet"}, ns: ns, name: "foreign", labels: map[string]string{"app": "b"}, obj: ro, flavor: "foreign"})
		}
	default:
		sc.tag += " |" + addPods(r.Intn(4), map[string]string{"app": "a"}, ns)
	}
	if r.Intn(3) == 0 {
		addPods(1, map[string]string{"app": "b"}, ns) // not selected: other label
	}
	if r.Intn(4) == 0 {
		addPods(1, map[string]string{"app": "a"}, "elsewhere") // not selected: other namespace
	}
	r.Shuffle(len(sc.cluster.entries), func(i, j int) {
		sc.cluster.entries[i], sc.cluster.entries[j] = sc.cluster.entries[j], sc.cluster.entries[i]
	})
	if r.Intn(9) == 0 {
		b := pick(r, "Pod", "Pod", "ReplicaSet")
		c := 1 + r.Intn(3)
		sc.cluster.listErr[b] = c
		sc.tag += fmt.Sprintf(" list(%s)=%s", b, lerrName[c])
	}
	sc.byID = r.Intn(10) < 7
	if sc.byID {
		switch r.Intn(12) {
		case 0:
			sc.cluster.getErr = 1 + r.Intn(3)
			sc.tag += " get=" + lerrName[sc.cluster.getErr]
		case 1:
			sc.topAbsent = true
			sc.tag += " top-absent"
		}
	}
	return sc
}

const rsCurrentText = `{"apiVersion":"apps/v1","kind":"ReplicaSet","metadata":{"name":"r","generation":1},
 "spec":{"replicas":2},
 "status":{"observedGeneration":1,"replicas":2,"fullyLabeledReplicas":2,"readyReplicas":2,"availableReplicas":2,
   "conditions":[{"type":"ReplicaFailure","status":"False"}]}}`

const stsText = `{"apiVersion":"apps/v1","kind":"StatefulSet","metadata":{"name":"top","namespace":"ns","generation":3},
 "spec":{"replicas":2,"selector":{"matchLabels":{"app":"a"}},"updateStrategy":{"type":"RollingUpdate"}},
 "status":{"observedGeneration":3,"replicas":2,"readyReplicas":1,"currentReplicas":2,"updatedReplicas":2,"currentRevision":"r1","updateRevision":"r1"}}`

const rsTopText = `{"apiVersion":"apps/v1","kind":"ReplicaSet","metadata":{"name":"top","namespace":"ns","generation":1,"labels":{"app":"a","rs":"top"}},
 "spec":{"replicas":2,"selector":{"matchLabels":{"app":"a"}}},
 "status":{"observedGeneration":1,"replicas":2,"fullyLabeledReplicas":2,"readyReplicas":1,"availableReplicas":1}}`

const deployText = `{"apiVersion":"apps/v1","kind":"Deployment","metadata":{"name":"top","namespace":"ns","generation":2},
 "spec":{"replicas":2,"selector":{"matchLabels":{"app":"a"}},"progressDeadlineSeconds":600},
 "status":{"observedGeneration":2,"replicas":2,"updatedReplicas":2,"readyReplicas":1,"availableReplicas":1,
   "conditions":[{"type":"Progressing","status":"True","reason":"ReplicaSetUpdated"},{"type":"Available","status":"True"}]}}`

// readerCorpus: fixed scenarios first — the two seeded reader defects this
// stream was added for, the documented override, and the error paths.
func readerCorpus() []*scenario {
	mk := func(tag, topText string, mod func(top map[string]interface{}), pods []string, more func(sc *scenario)) *scenario {
		sc := &scenario{tag: "corpus " + tag, cluster: &fakeCluster{listErr: map[string]int{}}, byID: true}
		obj := Parse(topText)
		if mod != nil {
			mod(obj)
		}
		u := &unstructured.Unstructured{Object: obj}
		sc.top = &centry{bucket: u.GetKind(), gk: u.GroupVersionKind().GroupKind(), ns: u.GetNamespace(), name: u.GetName(), obj: obj, flavor: "corpus"}
		for i, pb := range pods {
			p := podBase(pb)
			name := fmt.Sprintf("p%d", i)
			lbls := map[string]string{"app": "a", "rs": "top"}
			decorate(p, "ns", name, lbls)
			sc.add(&centry{bucket: "Pod", gk: schema.GroupKind{Kind: "Pod"}, ns: "ns", name: name, labels: lbls, obj: p, flavor: pb})
		}
		if more != nil {
			more(sc)
		}
		return sc
	}
	del := func(o map[string]interface{}) { setPath(o, "metadata.deletionTimestamp", pastTS()) }
	rsChild := func(sc *scenario, mod func(map[string]interface{})) {
		ro := Parse(rsTopText)
		setPath(ro, "metadata.name", "rs0")
		if mod != nil {
			mod(ro)
		}
		sc.add(&centry{bucket: "ReplicaSet", gk: schema.GroupKind{Group: "apps", Kind: "ReplicaSet"}, ns: "ns", name: "rs0",
			labels: map[string]string{"app": "a", "rs": "top"}, obj: ro, flavor: "rs-child"})
	}
	return []*scenario{
		mk("terminating StatefulSet, crash-looping pod", stsText, del, []string{"pod-running-ready", "pod-running-notready"}, nil),
		mk("terminating ReplicaSet, pod unschedulable beyond the window", rsTopText, del, []string{"pod-pending-unsched-old"}, nil),
		mk("ReplicaSet with a string for status.conditions, crash-looping pod", rsTopText,
			func(o map[string]interface{}) { setPath(o, "status.conditions", "x") }, []string{"pod-running-notready"}, nil),
		mk("StatefulSet with a float64 generation, unschedulable pod", stsText,
			func(o map[string]interface{}) { setPath(o, "metadata.generation", float64(3)) }, []string{"pod-pending-unsched-old", "pod-running-ready"}, nil),
		mk("Deployment owning a malformed ReplicaSet with a crash-looping pod", deployText, nil, []string{"pod-running-notready"},
			func(sc *scenario) {
				rsChild(sc, func(o map[string]interface{}) { setPath(o, "status.conditions", []interface{}{"notamap"}) })
			}),
		mk("StatefulSet behind its generation, crash-looping pod (documented override)", stsText,
			func(o map[string]interface{}) { setPath(o, "status.observedGeneration", int64(2)) }, []string{"pod-running-notready", "pod-pending-unsched-old", "pod-running-ready"}, nil),
		mk("StatefulSet in progress, pod unschedulable inside the window", stsText, nil, []string{"pod-pending-unsched-new"}, nil),
		mk("StatefulSet Current, crash-looping pod", stsText,
			func(o map[string]interface{}) { setPath(o, "status.readyReplicas", int64(2)) }, []string{"pod-running-notready"}, nil),
		mk("StatefulSet with a true Stalled condition, healthy pods", stsText,
			func(o map[string]interface{}) {
				setPath(o, "status.conditions", []interface{}{cond("Stalled", "True", "R")})
			}, []string{"pod-running-ready"}, nil),
		mk("terminating Deployment, ReplicaSet in progress with a failed pod", deployText, del, []string{"pod-running-notready"},
			func(sc *scenario) { rsChild(sc, nil) }),
		mk("terminating StatefulSet without selector", stsText, func(o map[string]interface{}) {
			del(o)
			delete(o["spec"].(map[string]interface{}), "selector")
		}, []string{"pod-running-notready"}, nil),
		mk("Deployment, ReplicaSet list answers NotFound", deployText, nil, nil,
			func(sc *scenario) { rsChild(sc, nil); sc.cluster.listErr["ReplicaSet"] = lNotFound }),
		mk("ReplicaSet, Pod list fails with a context error", rsTopText, nil, []string{"pod-running-ready"},
			func(sc *scenario) { sc.cluster.listErr["Pod"] = lCtx }),
		mk("Deployment, Pod list fails with a context error below a ReplicaSet", deployText, nil, []string{"pod-running-ready"},
			func(sc *scenario) { rsChild(sc, nil); sc.cluster.listErr["Pod"] = lCtx }),
		mk("Deployment, Pod list fails", deployText, nil, []string{"pod-running-ready"},
			func(sc *scenario) { rsChild(sc, nil); sc.cluster.listErr["Pod"] = lErr }),
		mk("extensions/v1beta1 Deployment goes through the generic reader", deployText,
			func(o map[string]interface{}) { o["apiVersion"] = "extensions/v1beta1" }, []string{"pod-running-notready"}, nil),
		mk("StatefulSet looked up by identifier but absent", stsText, nil, nil, func(sc *scenario) { sc.topAbsent = true }),
		mk("StatefulSet looked up by identifier, Get fails", stsText, nil, nil, func(sc *scenario) { sc.cluster.getErr = lErr }),
		mk("StatefulSet looked up by identifier, Get cancelled", stsText, nil, nil, func(sc *scenario) { sc.cluster.getErr = lCtx }),
	}
}

var readerGVKs = []schema.GroupVersionKind{
	{Version: "v1", Kind: "Service"}, {Version: "v1", Kind: "Pod"}, {Version: "v1", Kind: "Secret"},
	{Version: "v1", Kind: "PersistentVolumeClaim"}, {Version: "v1", Kind: "ConfigMap"},
	{Group: "apps", Version: "v1", Kind: "StatefulSet"}, {Group: "apps", Version: "v1", Kind: "DaemonSet"},
	{Group: "apps", Version: "v1", Kind: "Deployment"}, {Group: "apps", Version: "v1", Kind: "ReplicaSet"},
	{Group: "extensions", Version: "v1beta1", Kind: "DaemonSet"}, {Group: "extensions", Version: "v1beta1", Kind: "Deployment"},
	{Group: "extensions", Version: "v1beta1", Kind: "ReplicaSet"},
	{Group: "policy", Version: "v1", Kind: "PodDisruptionBudget"}, {Group: "batch", Version: "v1", Kind: "CronJob"},
	{Group: "batch", Version: "v1", Kind: "Job"},
	{Group: "apiextensions.k8s.io", Version: "v1", Kind: "CustomResourceDefinition"},
	{Group: "example.com", Version: "v1", Kind: "Widget"},
	// not registered on purpose: example.com/Deployment, core Deployment, batch/Pod, the empty kind
}

// runScenario executes the real default status reader on the scenario and
// renders the case.
func runScenario(sc *scenario, sum *emit.Summary) (term, text string) {
	mapper := testutil.NewFakeRESTMapper(readerGVKs...)
	reader := statusreaders.NewDefaultStatusReader(mapper)
	fc := sc.cluster
	if !sc.topAbsent {
		fc.entries = append(fc.entries, sc.top)
	}
	// expectations are taken from the cluster with the top stored or not: the
	// top is never a generated resource of itself (labels differ)
	tree := fc.expect(sc.top, readerKindOf(sc.top.obj))

	// keep own copies of everything handed to the code under test
	before := CopyObj(sc.top.obj)
	stored := make([]map[string]interface{}, len(fc.entries))
	for i, e := range fc.entries {
		stored[i] = CopyObj(e.obj)
	}
	ctx := context.Background()
	arg := &unstructured.Unstructured{Object: sc.top.obj}
	forObject := func() (*event.ResourceStatus, error) { return reader.ReadStatusForObject(ctx, fc, arg) }

	rs, err, pt := callReader(forObject)
	o := robsCoq(rs, err, pt)
	short := robsShort(rs, err, pt)
	resok := pt != "" || resourceOK(rs, tree)
	same := true
	for k := 0; k < 2; k++ {
		rs2, err2, pt2 := callReader(forObject)
		same = same && robsCoq(rs2, err2, pt2) == o
	}

	byid := "None"
	if sc.byID {
		id := object.UnstructuredToObjMetadata(&unstructured.Unstructured{Object: before})
		lk := lOk
		if _, merr := mapper.RESTMapping(id.GroupKind); merr != nil {
			lk = lErr
		} else if fc.getErr != lOk {
			lk = fc.getErr
		} else if sc.topAbsent {
			lk = lNotFound
		}
		byID := func() (*event.ResourceStatus, error) { return reader.ReadStatus(ctx, fc, id) }
		rs3, err3, pt3 := callReader(byID)
		ob := robsCoq(rs3, err3, pt3)
		rs4, err4, pt4 := callReader(byID)
		same = same && robsCoq(rs4, err4, pt4) == ob
		if lk == lOk && pt3 == "" {
			resok = resok && resourceOK(rs3, tree)
		}
		byid = "(Some (" + lerrName[lk] + ", " + ridCoq(id) + ", " + ob + "))"
		short += " | by-id(" + lerrName[lk] + "): " + robsShort(rs3, err3, pt3)
		sum.Count("reader-by-id:" + lerrName[lk])
	}
	unchanged := Same(before, sc.top.obj)
	for i, e := range fc.entries {
		unchanged = unchanged && Same(stored[i], e.obj)
	}
	direct := Observe(CopyObj(before))

	term = "(RC " + tree.coq() + " " + direct.Coq() + " " + o + " " + byid + " " +
		emit.Bool(unchanged) + " " + emit.Bool(same) + " " + emit.Bool(resok) + ")"
	var others []string
	for _, e := range fc.entries {
		if e != sc.top {
			others = append(others, e.bucket+" "+e.name+"["+e.flavor+"] "+Text(e.obj))
		}
	}
	sort.Strings(others)
	text = fmt.Sprintf("reader %s :: top=%s cluster=[%s] compute=%s -> %s", sc.tag, Text(before), strings.Join(others, " ;; "), direct.Short(), short)
	if !unchanged {
		text += " INPUT-MODIFIED"
	}
	if !same {
		text += " NOT-DETERMINISTIC"
	}
	if !resok {
		text += " RESOURCE-FIELD-WRONG"
	}

	// distribution
	rkName := []string{"deployment", "pod-controller", "generic"}[readerKindOf(before)]
	sum.Count("reader-kind:" + rkName)
	st := "panic"
	switch {
	case pt != "":
	case rs == nil:
		st = "nil+error"
	default:
		st = string(rs.Status)
		if podsFailedRE.MatchString(rs.Message) {
			st += "(pods have failed)"
		}
	}
	sum.Count("reader-outcome:" + rkName + ":" + st)
	failedKid := false
	if rs != nil {
		for _, g := range rs.GeneratedResources {
			if g != nil && g.Status == status.FailedStatus {
				failedKid = true
			}
		}
	}
	if rkName != "generic" {
		sum.Count(fmt.Sprintf("reader-cross:compute=%s,failed-generated=%v,sel=%v,list=%s", direct.Short(), failedKid, tree.sel, lerrName[tree.lst]))
	}
	if tree.ambiguous() || direct.Ambiguous {
		sum.ImplFailures = append(sum.ImplFailures, "harness: ambiguous creation timestamp in "+sc.tag)
	}
	return term, text
}

// runReaders adds the reader stream of one check to its summary (call it last:
// it extends Rule, Evaluations and DistinctNontrivial).
func runReaders(r *rand.Rand, pid, tier, outDir string, sum *emit.Summary) error {
	sh := newShard("Cases_"+pid+"_reader", importsReader, "check_reader_"+pid, 260)
	for _, sc := range readerCorpus() {
		term, text := runScenario(sc, sum)
		sh.add(term, text, true)
		sum.Count("reader:corpus")
	}
	n := 760
	if tier == "thorough" {
		n = 9000
	}
	for i := 0; i < n; i++ {
		sc := genScenario(r, pid)
		term, text := runScenario(sc, sum)
		sh.add(term, text, true)
		sum.Count("reader:generated")
	}
	if err := sh.write(outDir, sum); err != nil {
		return err
	}
	sum.Extra["reader_cases"] = len(sh.terms)
	sum.Extra["reader_distinct"] = emit.Distinct(sh.terms, sh.nontr)
	sum.Evaluations += len(sh.terms)
	sum.DistinctNontrivial += emit.Distinct(sh.terms, sh.nontr)
	sum.Rule += "; READER stream: the real statusreaders.NewDefaultStatusReader over an in-memory ClusterReader (Deployment -> ReplicaSets -> Pods, ReplicaSet/StatefulSet -> Pods, " +
		"other kinds through the generic reader), top object from the well-typed generators (kind points, deletion/generation/standard-condition products) and the malformed stream, " +
		"0-3 selected pods each healthy / crash-looping / unschedulable beyond or inside the window / malformed / terminating, foreign pods and ReplicaSets, scripted list/get errors " +
		"(ordinary, NotFound, context), selector accepted or rejected; ReadStatusForObject three times and ReadStatus by identifier twice under recover(), compared with Model/KStatusReader.v"
	return nil
}
