package kstatus

import (
	"fmt"
	"math"
	"math/rand"
	"strings"
)

// setPath sets obj[a][b][c] = v for the dotted path "a.b.c", creating maps.
func setPath(obj map[string]interface{}, dotted string, v interface{}) {
	parts := strings.Split(dotted, ".")
	m := obj
	for _, p := range parts[:len(parts)-1] {
		next, ok := m[p].(map[string]interface{})
		if !ok {
			next = map[string]interface{}{}
			m[p] = next
		}
		m = next
	}
	m[parts[len(parts)-1]] = v
}

func cond(ty, st, reason string) map[string]interface{} {
	c := map[string]interface{}{"type": ty, "status": st}
	if reason != "" {
		c["reason"] = reason
		c["message"] = "msg " + reason
	}
	return c
}

func addConds(obj map[string]interface{}, cs []interface{}) {
	if cs == nil {
		return
	}
	setPath(obj, "status.conditions", cs)
}

// kinds: (apiVersion, kind) of every entry of legacyTypes plus custom kinds
type gk struct{ apiVersion, kind string }

var legacyKinds = []gk{
	{"v1", "Service"}, {"v1", "Pod"}, {"v1", "Secret"}, {"v1", "PersistentVolumeClaim"},
	{"apps/v1", "StatefulSet"}, {"apps/v1", "DaemonSet"}, {"extensions/v1beta1", "DaemonSet"},
	{"apps/v1", "Deployment"}, {"extensions/v1beta1", "Deployment"},
	{"apps/v1", "ReplicaSet"}, {"extensions/v1beta1", "ReplicaSet"},
	{"policy/v1", "PodDisruptionBudget"}, {"batch/v1", "CronJob"}, {"v1", "ConfigMap"},
	{"batch/v1", "Job"}, {"apiextensions.k8s.io/v1", "CustomResourceDefinition"},
}

// kinds that must NOT hit the table: custom kinds, a built-in kind name in a
// foreign group, an unparsable apiVersion, missing kind
var customKinds = []gk{
	{"example.com/v1", "Widget"}, {"example.com/v1", "Deployment"}, {"v1", "Deployment"},
	{"apps/v1/x", "Deployment"}, {"apps/v1", ""}, {"", "Pod"}, {"/", "Service"}, {"batch/v1", "Pod"},
}

var extremeInts = []int64{-1, -5, math.MaxInt32, math.MaxInt32 + 1, 1 << 40, -(1 << 40), math.MaxInt64, math.MinInt64, math.MaxInt64 - 1}

// count value: nil = absent
type cnt *int64

func ci(v int64) cnt { return &v }

// counts draws n count fields. Half of the draws are "near complete": all
// equal to one value in 0..3 with up to two perturbations, so that the
// Current region and its boundary are hit often; the rest is uniform over
// {absent,0,1,2,3}; a small share carries extreme values.
func counts(r *rand.Rand, n int) []cnt {
	out := make([]cnt, n)
	mode := r.Intn(10)
	switch {
	case mode < 5:
		v := int64(r.Intn(4))
		for i := range out {
			out[i] = ci(v)
		}
		for k := r.Intn(3); k > 0; k-- {
			i := r.Intn(n)
			switch r.Intn(4) {
			case 0:
				out[i] = nil
			case 1:
				out[i] = ci(v + 1)
			case 2:
				out[i] = ci(v - 1)
			default:
				out[i] = ci(int64(r.Intn(4)))
			}
		}
	case mode < 9:
		for i := range out {
			if x := r.Intn(5); x < 4 {
				out[i] = ci(int64(x))
			}
		}
	default:
		for i := range out {
			switch r.Intn(3) {
			case 0:
				out[i] = ci(extremeInts[r.Intn(len(extremeInts))])
			case 1:
				out[i] = ci(int64(r.Intn(4)))
			}
		}
	}
	return out
}

func putCounts(obj map[string]interface{}, pathsDotted []string, cs []cnt) string {
	var t []string
	for i, p := range pathsDotted {
		if cs[i] != nil {
			setPath(obj, p, *cs[i])
			t = append(t, fmt.Sprintf("%s=%d", p[strings.LastIndex(p, ".")+1:], *cs[i]))
		}
	}
	return strings.Join(t, " ")
}

func pick(r *rand.Rand, xs ...string) string { return xs[r.Intn(len(xs))] }

// genOK sets generation fields so that the generic generation check passes
// (present and equal, or absent).
func genOK(r *rand.Rand, obj map[string]interface{}, mustBePresent bool) {
	if mustBePresent || r.Intn(3) > 0 {
		g := int64(1 + r.Intn(3))
		setPath(obj, "metadata.generation", g)
		setPath(obj, "status.observedGeneration", g)
	}
}

func shuffle(r *rand.Rand, cs []interface{}) []interface{} {
	r.Shuffle(len(cs), func(i, j int) { cs[i], cs[j] = cs[j], cs[i] })
	return cs
}

var kindPointNames = []string{"Deployment", "ReplicaSet", "StatefulSet", "DaemonSet", "Pod", "Job", "PersistentVolumeClaim", "Service", "CustomResourceDefinition", "PodDisruptionBudget"}

// genKindPoint draws one point of the field grid of kind number i mod 10: no
// generic signal (no deletion, generations equal or absent, no true
// Reconciling/Stalled) so that the kind rule decides.
func genKindPoint(r *rand.Rand, i int) (map[string]interface{}, string) {
	name := kindPointNames[i%len(kindPointNames)]
	obj := map[string]interface{}{"metadata": map[string]interface{}{"name": "x", "namespace": "ns"}}
	var tag string
	switch name {
	case "Deployment":
		obj["apiVersion"], obj["kind"] = pick(r, "apps/v1", "apps/v1", "extensions/v1beta1"), "Deployment"
		genOK(r, obj, r.Intn(2) == 0)
		cs := counts(r, 5)
		tag = putCounts(obj, []string{"spec.replicas", "status.replicas", "status.updatedReplicas", "status.readyReplicas", "status.availableReplicas"}, cs)
		switch r.Intn(4) {
		case 0:
		case 1:
			setPath(obj, "spec.progressDeadlineSeconds", int64(math.MaxInt32))
			tag += " deadline=max"
		default:
			setPath(obj, "spec.progressDeadlineSeconds", int64(600))
			tag += " deadline=600"
		}
		if r.Intn(2) == 0 {
			setPath(obj, "spec.strategy.type", pick(r, "RollingUpdate", "Recreate"))
		}
		var l []interface{}
		switch r.Intn(8) {
		case 0:
		case 1:
			l = append(l, cond("Progressing", "True", "ReplicaSetUpdated"))
		case 2:
			l = append(l, cond("Progressing", "False", "ProgressDeadlineExceeded"))
		case 3:
			l = append(l, cond("Progressing", pick(r, "Unknown", "False"), "NewReplicaSetAvailable"))
		default:
			l = append(l, cond("Progressing", "True", "NewReplicaSetAvailable"))
		}
		switch r.Intn(5) {
		case 0:
		case 1:
			l = append(l, cond("Available", pick(r, "False", "Unknown"), "MinimumReplicasUnavailable"))
		default:
			l = append(l, cond("Available", "True", "MinimumReplicasAvailable"))
		}
		if r.Intn(6) == 0 {
			l = append(l, cond("ReplicaFailure", "True", "FailedCreate"))
		}
		if r.Intn(10) == 0 { // a second Progressing condition (only the loop sees it)
			l = append(l, cond("Progressing", pick(r, "True", "False"), pick(r, "ProgressDeadlineExceeded", "NewReplicaSetAvailable")))
		}
		shuffle(r, l)
		for _, c := range l {
			m := c.(map[string]interface{})
			tag += fmt.Sprintf(" %s=%s/%v", m["type"], m["status"], m["reason"])
		}
		addConds(obj, l)
	case "ReplicaSet":
		obj["apiVersion"], obj["kind"] = pick(r, "apps/v1", "extensions/v1beta1"), "ReplicaSet"
		genOK(r, obj, false)
		cs := counts(r, 5)
		tag = putCounts(obj, []string{"spec.replicas", "status.replicas", "status.fullyLabeledReplicas", "status.readyReplicas", "status.availableReplicas"}, cs)
		switch r.Intn(5) {
		case 0:
			addConds(obj, []interface{}{cond("ReplicaFailure", "True", "FailedCreate")})
			tag += " ReplicaFailure=True"
		case 1:
			addConds(obj, []interface{}{cond("ReplicaFailure", "False", "")})
			tag += " ReplicaFailure=False"
		}
	case "StatefulSet":
		obj["apiVersion"], obj["kind"] = "apps/v1", "StatefulSet"
		genOK(r, obj, r.Intn(2) == 0)
		cs := counts(r, 5)
		tag = putCounts(obj, []string{"spec.replicas", "status.replicas", "status.readyReplicas", "status.currentReplicas", "status.updatedReplicas"}, cs)
		switch r.Intn(6) {
		case 0:
			setPath(obj, "spec.updateStrategy.type", "OnDelete")
			tag += " OnDelete"
		case 1:
		default:
			setPath(obj, "spec.updateStrategy.type", "RollingUpdate")
			tag += " RollingUpdate"
		}
		switch r.Intn(6) {
		case 0, 1:
			p := int64(r.Intn(4))
			setPath(obj, "spec.updateStrategy.rollingUpdate.partition", p)
			tag += fmt.Sprintf(" partition=%d", p)
		case 2:
			setPath(obj, "spec.updateStrategy.rollingUpdate", map[string]interface{}{})
			tag += " rollingUpdate={}"
		case 3:
			if r.Intn(3) == 0 {
				p := []int64{-1, -2, 1 << 40, math.MinInt64, math.MaxInt64}[r.Intn(5)]
				setPath(obj, "spec.updateStrategy.rollingUpdate.partition", p)
				tag += fmt.Sprintf(" partition=%d", p)
			}
		}
		switch r.Intn(4) {
		case 0:
			setPath(obj, "status.currentRevision", "r1")
			setPath(obj, "status.updateRevision", "r2")
			tag += " rev=differ"
		case 1:
			setPath(obj, "status.updateRevision", "r2")
			tag += " rev=onlyUpdate"
		case 2:
		default:
			setPath(obj, "status.currentRevision", "r1")
			setPath(obj, "status.updateRevision", "r1")
			tag += " rev=equal"
		}
	case "DaemonSet":
		obj["apiVersion"], obj["kind"] = pick(r, "apps/v1", "extensions/v1beta1"), "DaemonSet"
		switch r.Intn(8) {
		case 0: // generation fields missing: checkGenerationSet
			tag = "nogen "
		case 1:
			setPath(obj, "metadata.generation", int64(1))
			tag = "noobserved "
		default:
			genOK(r, obj, true)
		}
		if r.Intn(2) == 0 {
			setPath(obj, "spec.updateStrategy.type", pick(r, "RollingUpdate", "RollingUpdate", "OnDelete"))
		}
		cs := counts(r, 5)
		tag += putCounts(obj, []string{"status.desiredNumberScheduled", "status.currentNumberScheduled", "status.updatedNumberScheduled", "status.numberAvailable", "status.numberReady"}, cs)
	case "Pod":
		obj["apiVersion"], obj["kind"] = "v1", "Pod"
		fresh := r.Intn(2) == 0
		switch r.Intn(5) {
		case 0: // no creation timestamp
		default:
			if fresh {
				setPath(obj, "metadata.creationTimestamp", futureTS())
				tag = "fresh "
			} else {
				setPath(obj, "metadata.creationTimestamp", pastTS())
				tag = "old "
			}
		}
		phase := pick(r, "", "Pending", "Pending", "Running", "Running", "Running", "Succeeded", "Failed", "Unknown", "absent")
		if phase != "absent" {
			setPath(obj, "status.phase", phase)
		}
		tag += "phase=" + phase
		var l []interface{}
		switch r.Intn(4) {
		case 0:
			l = append(l, cond("Ready", "True", ""))
		case 1:
			l = append(l, cond("Ready", pick(r, "False", "Unknown"), "ContainersNotReady"))
		}
		switch r.Intn(4) {
		case 0:
			l = append(l, cond("PodScheduled", "False", "Unschedulable"))
		case 1:
			l = append(l, cond("PodScheduled", pick(r, "False", "True", "Unknown"), pick(r, "", "SchedulerError", "Unschedulable")))
		case 2:
			l = append(l, cond("PodScheduled", "True", ""), cond("PodScheduled", "False", "Unschedulable"))
		}
		shuffle(r, l)
		for _, c := range l {
			m := c.(map[string]interface{})
			tag += fmt.Sprintf(" %s=%s/%v", m["type"], m["status"], m["reason"])
		}
		addConds(obj, l)
		if r.Intn(3) > 0 {
			var css []interface{}
			for k := r.Intn(3); k >= 0; k-- {
				reason := pick(r, "CrashLoopBackOff", "ContainerCreating", "ImagePullBackOff", "")
				st := map[string]interface{}{}
				switch r.Intn(4) {
				case 0:
					st["running"] = map[string]interface{}{"startedAt": "t"}
				case 1:
					st["terminated"] = map[string]interface{}{"reason": "CrashLoopBackOff"}
				default:
					wmap := map[string]interface{}{}
					if reason != "" {
						wmap["reason"] = reason
					}
					st["waiting"] = wmap
					tag += " waiting=" + reason
				}
				css = append(css, map[string]interface{}{"name": fmt.Sprintf("c%d", k), "state": st})
			}
			setPath(obj, "status.containerStatuses", css)
		}
	case "Job":
		obj["apiVersion"], obj["kind"] = "batch/v1", "Job"
		genOK(r, obj, false)
		cs := counts(r, 5)
		tag = putCounts(obj, []string{"spec.parallelism", "spec.completions", "status.succeeded", "status.active", "status.failed"}, cs)
		switch r.Intn(3) {
		case 0:
			setPath(obj, "status.startTime", pastTS())
			tag += " started"
		case 1:
			setPath(obj, "status.startTime", "")
			tag += " startTime=empty"
		}
		var l []interface{}
		if r.Intn(2) == 0 {
			l = append(l, cond("Complete", pick(r, "True", "False", "Unknown"), ""))
		}
		if r.Intn(2) == 0 {
			l = append(l, cond("Failed", pick(r, "True", "False", "Unknown"), "BackoffLimitExceeded"))
		}
		if r.Intn(4) == 0 {
			l = append(l, cond("Suspended", "True", ""))
		}
		shuffle(r, l)
		for _, c := range l {
			m := c.(map[string]interface{})
			tag += fmt.Sprintf(" %s=%s", m["type"], m["status"])
		}
		addConds(obj, l)
	case "PersistentVolumeClaim":
		obj["apiVersion"], obj["kind"] = "v1", "PersistentVolumeClaim"
		phase := pick(r, "Bound", "Bound", "Pending", "Lost", "", "bound", "absent")
		if phase != "absent" {
			setPath(obj, "status.phase", phase)
		}
		tag = "phase=" + phase
	case "Service":
		obj["apiVersion"], obj["kind"] = "v1", "Service"
		ty := pick(r, "LoadBalancer", "LoadBalancer", "ClusterIP", "NodePort", "ExternalName", "loadbalancer", "absent")
		if ty != "absent" {
			setPath(obj, "spec.type", ty)
		}
		ip := pick(r, "10.0.0.1", "", "None", "absent")
		if ip != "absent" {
			setPath(obj, "spec.clusterIP", ip)
		}
		tag = "type=" + ty + " clusterIP=" + ip
	case "CustomResourceDefinition":
		obj["apiVersion"], obj["kind"] = pick(r, "apiextensions.k8s.io/v1", "apiextensions.k8s.io/v1beta1"), "CustomResourceDefinition"
		genOK(r, obj, false)
		var l []interface{}
		for k := r.Intn(4); k > 0; k-- {
			switch r.Intn(3) {
			case 0:
				l = append(l, cond("NamesAccepted", pick(r, "True", "False", "Unknown"), pick(r, "NoConflicts", "MultipleNamesNotAllowed")))
			case 1:
				l = append(l, cond("Established", pick(r, "True", "False", "False", "Unknown"), pick(r, "Installing", "InitialNamesAccepted", "NotAccepted", "")))
			default:
				l = append(l, cond("Terminating", pick(r, "True", "False"), ""))
			}
		}
		for _, c := range l {
			m := c.(map[string]interface{})
			tag += fmt.Sprintf(" %s=%s/%v", m["type"], m["status"], m["reason"])
		}
		addConds(obj, l)
	case "PodDisruptionBudget":
		k := []gk{{"policy/v1", "PodDisruptionBudget"}, {"v1", "Secret"}, {"v1", "ConfigMap"}, {"batch/v1", "CronJob"}}[r.Intn(4)]
		obj["apiVersion"], obj["kind"] = k.apiVersion, k.kind
		genOK(r, obj, false)
		if r.Intn(2) == 0 {
			addConds(obj, []interface{}{cond("Ready", pick(r, "False", "Unknown", "True"), "")})
			tag = "with-Ready-condition"
		}
		name = k.kind
	}
	return obj, name + " " + tag
}

var stdTypes = []string{"Reconciling", "Stalled", "Ready"}
var truthValues = []string{"True", "False", "Unknown"}

// kindStatus gives obj a kind-specific status that, by itself, would make the
// kind rule report something specific (so that precedence is visible).
func withKind(r *rand.Rand, k gk) map[string]interface{} {
	var obj map[string]interface{}
	// take a kind point of the matching built-in kind when there is one
	for i, n := range kindPointNames {
		if n == k.kind {
			obj, _ = genKindPoint(r, i)
			break
		}
	}
	if obj == nil {
		obj = map[string]interface{}{"metadata": map[string]interface{}{"name": "x"}}
	}
	if k.apiVersion != "" {
		obj["apiVersion"] = k.apiVersion
	} else {
		delete(obj, "apiVersion")
	}
	if k.kind != "" {
		obj["kind"] = k.kind
	} else {
		delete(obj, "kind")
	}
	return obj
}

var deletionChoices = []string{"absent", "empty", "set", "int", "null"}
var generationChoices = []string{"absent", "gen-only", "observed-only", "equal", "different", "gen-float", "observed-string", "observed-null",
	// boundary values (seed C07f: a present observed generation of 0 read as "absent")
	"observed-zero", "gen-zero", "both-zero", "observed-ahead", "big-different", "negative-equal"}

func applyDeletion(obj map[string]interface{}, choice string) {
	md, _ := obj["metadata"].(map[string]interface{})
	if md == nil {
		md = map[string]interface{}{}
		obj["metadata"] = md
	}
	switch choice {
	case "absent":
		delete(md, "deletionTimestamp")
	case "empty":
		md["deletionTimestamp"] = ""
	case "set":
		md["deletionTimestamp"] = pastTS()
	case "int":
		md["deletionTimestamp"] = int64(5)
	case "null":
		md["deletionTimestamp"] = nil
	}
}

func applyGeneration(obj map[string]interface{}, choice string) {
	md := obj["metadata"].(map[string]interface{})
	delete(md, "generation")
	if st, ok := obj["status"].(map[string]interface{}); ok {
		delete(st, "observedGeneration")
	}
	switch choice {
	case "absent":
	case "gen-only":
		md["generation"] = int64(2)
	case "observed-only":
		setPath(obj, "status.observedGeneration", int64(2))
	case "equal":
		md["generation"] = int64(2)
		setPath(obj, "status.observedGeneration", int64(2))
	case "different":
		md["generation"] = int64(3)
		setPath(obj, "status.observedGeneration", int64(2))
	case "gen-float":
		md["generation"] = float64(2)
		setPath(obj, "status.observedGeneration", int64(2))
	case "observed-string":
		md["generation"] = int64(2)
		setPath(obj, "status.observedGeneration", "2")
	case "observed-null":
		md["generation"] = int64(2)
		setPath(obj, "status.observedGeneration", nil)
	case "observed-zero":
		md["generation"] = int64(2)
		setPath(obj, "status.observedGeneration", int64(0))
	case "gen-zero":
		md["generation"] = int64(0)
		setPath(obj, "status.observedGeneration", int64(2))
	case "both-zero":
		md["generation"] = int64(0)
		setPath(obj, "status.observedGeneration", int64(0))
	case "observed-ahead":
		md["generation"] = int64(2)
		setPath(obj, "status.observedGeneration", int64(3))
	case "big-different":
		md["generation"] = int64(1<<53 + 1)
		setPath(obj, "status.observedGeneration", int64(1<<53))
	case "negative-equal":
		md["generation"] = int64(-1)
		setPath(obj, "status.observedGeneration", int64(-1))
	}
}

// stdConds inserts the given standard conditions, in order, among the
// object's own conditions at random positions (relative order kept).
func insertStd(r *rand.Rand, obj map[string]interface{}, std []interface{}) {
	var own []interface{}
	if st, ok := obj["status"].(map[string]interface{}); ok {
		own, _ = st["conditions"].([]interface{})
	}
	if len(std) == 0 {
		return
	}
	out := make([]interface{}, 0, len(own)+len(std))
	i, j := 0, 0
	for i < len(own) || j < len(std) {
		if j >= len(std) || (i < len(own) && r.Intn(2) == 0) {
			out = append(out, own[i])
			i++
		} else {
			out = append(out, std[j])
			j++
		}
	}
	setPath(obj, "status.conditions", out)
}

func stdTag(std []interface{}) string {
	s := "["
	for i, c := range std {
		m := c.(map[string]interface{})
		if i > 0 {
			s += ","
		}
		s += fmt.Sprintf("%s=%s", m["type"], m["status"])
	}
	return s + "]"
}

// genGeneric draws one C07 point at random from the full cross product.
func genGeneric(r *rand.Rand) (map[string]interface{}, string) {
	var k gk
	if r.Intn(3) == 0 {
		k = customKinds[r.Intn(len(customKinds))]
	} else {
		k = legacyKinds[r.Intn(len(legacyKinds))]
	}
	del := deletionChoices[[]int{0, 0, 0, 1, 2, 3, 4}[r.Intn(7)]]
	gen := generationChoices[[]int{0, 3, 3, 3, 1, 2, 4, 4, 5, 6, 7, 8, 9, 10, 11, 12, 13}[r.Intn(17)]]
	var std []interface{}
	for n := r.Intn(4); n > 0; n-- {
		st := truthValues[r.Intn(3)]
		if r.Intn(12) == 0 {
			st = pick(r, "", "true", "Maybe")
		}
		std = append(std, cond(stdTypes[r.Intn(3)], st, "R"))
	}
	return buildGeneric(r, k, del, gen, std)
}

func buildGeneric(r *rand.Rand, k gk, del, gen string, std []interface{}) (map[string]interface{}, string) {
	obj := withKind(r, k)
	applyGeneration(obj, gen)
	applyDeletion(obj, del)
	insertStd(r, obj, std)
	return obj, fmt.Sprintf("%s/%s deletion=%s generation=%s std=%s", k.apiVersion, k.kind, del, gen, stdTag(std))
}
