package kstatus

import (
	"fmt"
	"math/rand"

	"verifharness/emit"
)

const imports = "From CliUtils Require Import Base.Json Model.KStatus Corr.CorrKStatus Corr.CorrC09 Corr.CorrC07 Corr.CorrC08."

// witnessC09 is the former panic witness (unchecked assertions in
// getCrashLoopingContainers): a Running, not-Ready Pod whose
// containerStatuses entries are not maps / have wrongly typed fields.
func witnessesC09() []base {
	return []base{
		{"witness-containerStatuses-string", Parse(`{"apiVersion":"v1","kind":"Pod","metadata":{"name":"p"},
			"status":{"phase":"Running","containerStatuses":["x"]}}`)},
		{"witness-containerStatuses-name-int", Parse(`{"apiVersion":"v1","kind":"Pod","metadata":{"name":"p"},
			"status":{"phase":"Running","containerStatuses":[{"name":1,"state":{"waiting":{"reason":"CrashLoopBackOff"}}}]}}`)},
		{"witness-containerStatuses-state-string", Parse(`{"apiVersion":"v1","kind":"Pod","metadata":{"name":"p"},
			"status":{"phase":"Running","containerStatuses":[{"name":"c","state":"waiting"},{"name":"d","state":{"waiting":"x"}},{"name":"e","state":{"waiting":{"reason":7}}}]}}`)},
	}
}

type recorder struct {
	sh  *shard
	sum *emit.Summary
}

func (rc *recorder) observe(tag, cls string, obj map[string]interface{}, nontrivial bool) Obs {
	o := Observe(obj)
	rc.sh.add(KCase(obj, o), caseText(tag, obj, o), nontrivial)
	rc.sum.Count("class:" + cls)
	rc.sum.Count("outcome:" + o.Short())
	if o.Ambiguous {
		rc.sum.ImplFailures = append(rc.sum.ImplFailures, "harness: ambiguous creation timestamp in "+tag)
	}
	return o
}

// RunC09: former witnesses, every base, the systematic malformed stream, a
// random multi-mutation stream, and the well-typed C07/C08 streams.
func RunC09(seed int64, tier, outDir string) (*emit.Summary, error) {
	r := rand.New(rand.NewSource(seed))
	sum := emit.NewSummary("C09", seed, tier)
	rc := &recorder{sh: newShard("Cases_C09", imports, "check_C09", 700), sum: sum}
	for _, b := range witnessesC09() {
		rc.observe("witness "+b.name, "witness", b.obj, true)
	}
	bases := Bases()
	for _, b := range bases {
		rc.observe("base "+b.name, "base", b.obj, true)
	}
	// systematic: quick takes every node x every replacement of every base
	nSys := 0
	for _, b := range bases {
		for _, m := range systematicMutants(b) {
			rc.observe(m.tag, m.cls, m.obj, true)
			nSys++
		}
	}
	nRand := 600
	nTyped := 500
	if tier == "thorough" {
		nRand, nTyped = 12000, 8000
	}
	for i := 0; i < nRand; i++ {
		m := randomMutant(r, bases[r.Intn(len(bases))])
		rc.observe(m.tag, m.cls, m.obj, true)
	}
	// well-typed stream shared with C07 / C08
	for i := 0; i < nTyped; i++ {
		var obj map[string]interface{}
		var tag string
		if i%2 == 0 {
			obj, tag = genGeneric(r)
		} else {
			obj, tag = genKindPoint(r, i/2)
		}
		rc.observe("typed "+tag, "typed", obj, true)
	}
	if err := rc.sh.write(outDir, sum); err != nil {
		return nil, err
	}
	sum.Evaluations = len(rc.sh.terms)
	sum.DistinctNontrivial = emit.Distinct(rc.sh.terms, rc.sh.nontr)
	sum.Rule = "every case is status.Compute on one object under recover(), input deep-copied before and compared after, called twice; " +
		"non-trivial = all (each case is a distinct object reaching the status rules); distinct = distinct Coq case terms. " +
		"Streams: former panic witnesses; one well-typed base per branch family of every kind; systematic malformed stream = every node of every base " +
		"replaced by every other JSON type/value of a fixed list and every key removed; seeded random multi-replacements; seeded well-typed C07/C08 points"
	sum.Extra["systematic_malformed_cases"] = nSys
	sum.Extra["bases"] = len(bases)
	mid := rc.sh.files[0].Text
	sum.Samples = []any{mid[0], mid[len(mid)/2], rc.sh.files[len(rc.sh.files)-1].Text[0]}
	_ = fmt.Sprint
	return sum, nil
}
