package kstatus

import (
	"fmt"
	"math/rand"
	"strings"

	"sigs.k8s.io/cli-utils/pkg/kstatus/status"
	"verifharness/emit"
)

// probeCorpus: the shapes that delimit the acceptance set of
// runtime.DefaultUnstructuredConverter.FromUnstructured into
// status.ObjWithConditions (DESIGN 5.3).
func probeCorpus() []string {
	return []string{
		`{}`, `{"status":null}`, `{"status":{}}`, `{"status":"s"}`, `{"status":[]}`, `{"status":7}`, `{"status":true}`, `{"status":1.5}`,
		`{"status":{"conditions":null}}`, `{"status":{"conditions":[]}}`, `{"status":{"conditions":"s"}}`, `{"status":{"conditions":""}}`,
		`{"status":{"conditions":{}}}`, `{"status":{"conditions":{"type":"Ready"}}}`, `{"status":{"conditions":7}}`, `{"status":{"conditions":false}}`,
		`{"status":{"conditions":[null]}}`, `{"status":{"conditions":["x"]}}`, `{"status":{"conditions":[7]}}`, `{"status":{"conditions":[[]]}}`,
		`{"status":{"conditions":[{}]}}`, `{"status":{"conditions":[{"type":null,"status":null,"reason":null,"message":null}]}}`,
		`{"status":{"conditions":[{"type":"Ready","status":"Maybe","reason":"r","message":"m"}]}}`,
		`{"status":{"conditions":[{"type":7}]}}`, `{"status":{"conditions":[{"type":"T","status":true}]}}`,
		`{"status":{"conditions":[{"type":"T","status":"True","reason":1.5}]}}`, `{"status":{"conditions":[{"type":"T","status":"True","message":["m"]}]}}`,
		`{"status":{"conditions":[{"type":"T","status":"True","message":{"a":"b"}}]}}`,
		`{"status":{"conditions":[{"Type":"Ready","Status":"True"}]}}`, `{"status":{"conditions":[{"type":"Ready","status":"True","unknown":{"x":[1,2]},"lastTransitionTime":5}]}}`,
		`{"status":{"conditions":[{"type":"A","status":"True"},null,{"type":"B"}]}}`, `{"status":{"conditions":[{"type":"A","status":"True"},"x",{"type":"B"}]}}`,
		`{"metadata":"str","status":{"conditions":[{"type":"Ready","status":"False"}]}}`, `{"Status":{"conditions":"ignored"}}`,
		`{"status":{"Conditions":"ignored","conditions":[{"type":"A"}]}}`, `{"status":{"conditions":[{"type":"","status":""}]}}`,
	}
}

func probeCase(obj map[string]interface{}) (term, text string) {
	out, panicked := "None", false
	short := "error"
	func() {
		defer func() {
			if e := recover(); e != nil {
				panicked, short = true, fmt.Sprint("PANIC ", e)
			}
		}()
		o, err := status.GetObjectWithConditions(CopyObj(obj))
		if err == nil {
			var qs4, ts []string
			for _, c := range o.Status.Conditions {
				qs4 = append(qs4, "("+qs(c.Type)+", "+qs(string(c.Status))+", "+qs(c.Reason)+", "+qs(c.Message)+")")
				ts = append(ts, c.Type+"="+string(c.Status))
			}
			out = "(Some " + emit.List(qs4) + ")"
			short = "[" + strings.Join(ts, ",") + "]"
		}
	}()
	return "(PC " + JV(obj) + " " + out + " " + emit.Bool(panicked) + ")", "probe " + Text(obj) + " -> " + short
}

const imports = "From CliUtils Require Import Base.Json Model.KStatus Corr.CorrKStatus Corr.CorrC09."

// witnessC09 is the former panic witness (unchecked assertions in
// getCrashLoopingContainers): a Running, not-Ready Pod whose
// containerStatuses entries are not maps / have wrongly typed fields.
func witnessesC09() []base {
	return []base{
		{"witness-containerStatuses-string", Parse(`{"apiVersion":"v1","kind":"Pod","metadata":{"name":"p"},
			"status":{"phase":"Running","containerStatuses":["x"]}}`)},
		{"witness-containerStatuses-name-int", Parse(`{"apiVersion":"v1","kind":"Pod","metadata":{"name":"p"},
			"status":{"phase":"Running","containerStatuses":[{"name":1,"state":{"waiting":{"reason":"CrashLoopBackOff"}}}]}}`)},
		{"witness-containerStatuses-state-string", Parse(`{"apiVersion":"v1","kind":"Pod","metadata":{"name":"p"},
			"status":{"phase":"Running","containerStatuses":[{"name":"c","state":"waiting"},{"name":"d","state":{"waiting":"x"}},{"name":"e","state":{"waiting":{"reason":7}}}]}}`)},
	}
}

type recorder struct {
	sh  *shard
	sum *emit.Summary
}

func (rc *recorder) observe(tag, cls string, obj map[string]interface{}, nontrivial bool) Obs {
	o := Observe(obj)
	rc.sh.add(KCase(obj, o), caseText(tag, obj, o), nontrivial)
	rc.sum.Count("class:" + cls)
	rc.sum.Count("outcome:" + o.Short())
	if o.Ambiguous {
		rc.sum.ImplFailures = append(rc.sum.ImplFailures, "harness: ambiguous creation timestamp in "+tag)
	}
	return o
}

// RunC09: former witnesses, every base, the systematic malformed stream, a
// random multi-mutation stream, and the well-typed C07/C08 streams.
func RunC09(seed int64, tier, outDir string) (*emit.Summary, error) {
	r := rand.New(rand.NewSource(seed))
	sum := emit.NewSummary("C09", seed, tier)
	rc := &recorder{sh: newShard("Cases_C09", imports, "check_C09", 700), sum: sum}
	for _, b := range witnessesC09() {
		rc.observe("witness "+b.name, "witness", b.obj, true)
	}
	bases := Bases()
	for _, b := range bases {
		rc.observe("base "+b.name, "base", b.obj, true)
	}
	// systematic: quick takes every node x every replacement of every base
	nSys := 0
	for _, b := range bases {
		for _, m := range systematicMutants(b) {
			rc.observe(m.tag, m.cls, m.obj, true)
			nSys++
		}
	}
	nRand := 600
	nTyped := 500
	if tier == "thorough" {
		nRand, nTyped = 12000, 8000
	}
	for i := 0; i < nRand; i++ {
		m := randomMutant(r, bases[r.Intn(len(bases))])
		rc.observe(m.tag, m.cls, m.obj, true)
	}
	// well-typed stream shared with C07 / C08
	for i := 0; i < nTyped; i++ {
		var obj map[string]interface{}
		var tag string
		if i%2 == 0 {
			obj, tag = genGeneric(r)
		} else {
			obj, tag = genKindPoint(r, i/2)
		}
		rc.observe("typed "+tag, "typed", obj, true)
	}
	// Pods with several containers in assorted waiting/running/terminated
	// states (the crash-loop scan walks the whole list; its message names every
	// crash-looping container in list order)
	nPods := 150
	if tier == "thorough" {
		nPods = 3000
	}
	for i := 0; i < nPods; i++ {
		obj, tag := genMultiContainerPod(r)
		rc.observe("pod "+tag, "pod-containers", obj, true)
	}
	if err := rc.sh.write(outDir, sum); err != nil {
		return nil, err
	}
	// converter probe: fixed corpus + every systematic mutant under .status of the condition-bearing bases
	psh := newShard("Cases_C09_probe", imports, "check_probe", 700)
	for _, t := range probeCorpus() {
		term, text := probeCase(Parse(t))
		psh.add(term, text, true)
		sum.Count("probe:corpus")
	}
	for _, b := range bases {
		for _, m := range systematicMutants(b) {
			if strings.Contains(m.tag, " .status") {
				term, text := probeCase(m.obj)
				psh.add(term, text, true)
				sum.Count("probe:malformed-status")
			}
		}
	}
	if err := psh.write(outDir, sum); err != nil {
		return nil, err
	}
	rc.sh.terms = append(rc.sh.terms, psh.terms...)
	rc.sh.nontr = append(rc.sh.nontr, psh.nontr...)
	sum.Evaluations = len(rc.sh.terms)
	sum.DistinctNontrivial = emit.Distinct(rc.sh.terms, rc.sh.nontr)
	sum.Rule = "every case is status.Compute on one object under recover(), input deep-copied before and compared after, called six times with all results compared; " +
		"non-trivial = all (each case is a distinct object reaching the status rules); distinct = distinct Coq case terms. " +
		"Streams: former panic witnesses; one well-typed base per branch family of every kind; systematic malformed stream = every node of every base " +
		"replaced by every other JSON type/value of a fixed list and every key removed; seeded random multi-replacements; seeded well-typed C07/C08 points; Running not-Ready Pods with 2-6 containers in mixed states"
	sum.Extra["systematic_malformed_cases"] = nSys
	sum.Extra["bases"] = len(bases)
	mid := rc.sh.files[0].Text
	sum.Samples = []any{mid[0], mid[len(mid)/2], rc.sh.files[len(rc.sh.files)-1].Text[0]}
	_ = fmt.Sprint
	if err := runReaders(r, "C09", tier, outDir, sum); err != nil {
		return nil, err
	}
	return sum, nil
}

// genMultiContainerPod: a Running Pod that is not Ready with 2..6 container
// statuses, most of them waiting in CrashLoopBackOff, the rest running,
// terminated, waiting for another reason or without state.
func genMultiContainerPod(r *rand.Rand) (map[string]interface{}, string) {
	names := []string{"app", "proxy", "metrics", "sync", "init-db", "log"}
	r.Shuffle(len(names), func(i, j int) { names[i], names[j] = names[j], names[i] })
	n := 2 + r.Intn(5)
	var css []interface{}
	tag := ""
	for k := 0; k < n; k++ {
		st := map[string]interface{}{}
		switch r.Intn(8) {
		case 0:
			st["running"] = map[string]interface{}{"startedAt": "t"}
			tag += " run"
		case 1:
			st["terminated"] = map[string]interface{}{"reason": "Error"}
			tag += " term"
		case 2:
			st["waiting"] = map[string]interface{}{"reason": "ContainerCreating"}
			tag += " creating"
		case 3:
			tag += " empty"
		default:
			st["waiting"] = map[string]interface{}{"reason": "CrashLoopBackOff"}
			tag += " crash"
		}
		css = append(css, map[string]interface{}{"name": names[k], "state": st})
	}
	obj := map[string]interface{}{
		"apiVersion": "v1", "kind": "Pod",
		"metadata": map[string]interface{}{"name": "p", "namespace": "ns", "generation": int64(1)},
		"status": map[string]interface{}{"phase": "Running", "containerStatuses": css},
	}
	if r.Intn(3) == 0 {
		addConds(obj, []interface{}{cond("Ready", "False", "ContainersNotReady")})
		tag += " Ready=False"
	}
	return obj, "multi-container" + tag
}
