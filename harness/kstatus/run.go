package kstatus

import (
	"fmt"
	"strings"
	"time"

	"k8s.io/apimachinery/pkg/apis/meta/v1/unstructured"
	"sigs.k8s.io/cli-utils/pkg/kstatus/status"
	"verifharness/emit"
)

// Obs is the projected observation of one status.Compute call.
type Obs struct {
	Class     int // 0 result, 1 error, 2 panic
	Status    string
	Conds     [][2]string // (Type, Status) of Result.Conditions
	Reason    string      // of the first result condition (Augment model input)
	Message   string
	Unchanged bool
	Same      bool
	W         bool // creation timestamp inside the schedule window (clock input)
	Ambiguous bool // creation timestamp too close to now: w would be racy
	PanicText string
}

func computeOnce(obj map[string]interface{}) (class int, res *status.Result, errText, panicText string) {
	defer func() {
		if e := recover(); e != nil {
			class, res, panicText = 2, nil, fmt.Sprint(e)
		}
	}()
	r, err := status.Compute(&unstructured.Unstructured{Object: obj})
	if err != nil {
		return 1, nil, err.Error(), ""
	}
	if r == nil {
		return 1, nil, "nil result without error", ""
	}
	return 0, r, "", ""
}

func window(obj map[string]interface{}) (w, ambiguous bool) {
	defer func() {
		if e := recover(); e != nil {
			w, ambiguous = false, true
		}
	}()
	ct := (&unstructured.Unstructured{Object: obj}).GetCreationTimestamp().Time
	if ct.IsZero() {
		return false, false
	}
	d := time.Until(ct)
	if d > -30*time.Minute && d < 30*time.Minute {
		return d > 0, true
	}
	return d > 0, false
}

// Observe runs Compute six times on obj under recover(), comparing obj with a
// deep copy taken before.
func Observe(obj map[string]interface{}) Obs {
	before := CopyObj(obj)
	var o Obs
	o.W, o.Ambiguous = window(before)
	c1, r1, e1, p1 := computeOnce(obj)
	o.Unchanged = Same(before, obj)
	c2, r2, e2, _ := computeOnce(obj)
	o.Unchanged = o.Unchanged && Same(before, obj)
	o.Same = c1 == c2 && e1 == e2 && Same(r1, r2)
	// further repetitions: an answer that depends on map iteration order or
	// other hidden state shows up only now and then
	for k := 0; k < 4 && o.Same; k++ {
		ck, rk, ek, _ := computeOnce(obj)
		o.Same = c1 == ck && e1 == ek && Same(r1, rk)
		o.Unchanged = o.Unchanged && Same(before, obj)
	}
	o.Class, o.PanicText = c1, p1
	if r1 != nil {
		o.Status = string(r1.Status)
		for i, c := range r1.Conditions {
			o.Conds = append(o.Conds, [2]string{string(c.Type), string(c.Status)})
			if i == 0 {
				o.Reason, o.Message = c.Reason, c.Message
			}
		}
	}
	return o
}

func qs(s string) string {
	var b strings.Builder
	coqStr(&b, s)
	return b.String()
}

func (o Obs) Coq() string {
	switch o.Class {
	case 1:
		return "OErr"
	case 2:
		return "OPanic"
	}
	cs := make([]string, len(o.Conds))
	for i, c := range o.Conds {
		cs[i] = "(" + qs(c[0]) + ", " + qs(c[1]) + ")"
	}
	return "(OOk " + qs(o.Status) + " " + emit.List(cs) + ")"
}

func (o Obs) Short() string {
	switch o.Class {
	case 1:
		return "error"
	case 2:
		return "PANIC(" + o.PanicText + ")"
	}
	s := o.Status
	for _, c := range o.Conds {
		s += " " + c[0] + "=" + c[1]
	}
	return s
}

// KCase renders `KC input w obs unchanged same`.
func KCase(obj map[string]interface{}, o Obs) string {
	return "(KC " + JV(obj) + " " + emit.Bool(o.W) + " " + o.Coq() + " " + emit.Bool(o.Unchanged) + " " + emit.Bool(o.Same) + ")"
}

func caseText(tag string, obj map[string]interface{}, o Obs) string {
	t := fmt.Sprintf("%s %s w=%v -> %s", tag, Text(obj), o.W, o.Short())
	if !o.Unchanged {
		t += " INPUT-MODIFIED"
	}
	if !o.Same {
		t += " NOT-DETERMINISTIC"
	}
	return t
}

// shard collects cases into files of bounded size.
type shard struct {
	prefix, imports, check string
	max                    int
	files                  []*emit.CaseFile
	terms                  []string
	nontr                  []bool
}

func newShard(prefix, imports, check string, max int) *shard {
	return &shard{prefix: prefix, imports: imports, check: check, max: max}
}

func (s *shard) add(term, text string, nontrivial bool) {
	if len(s.files) == 0 || len(s.files[len(s.files)-1].Cases) >= s.max {
		s.files = append(s.files, &emit.CaseFile{
			Name:    fmt.Sprintf("%s_%02d", s.prefix, len(s.files)),
			Imports: s.imports,
			// NB: no numeric scope may be opened here: the driver parses `Print Bad` and
			// nat literals must print without a %nat suffix.
			Prelude: "Local Open Scope string_scope.",
			Check:   s.check})
	}
	s.files[len(s.files)-1].Add(term, text)
	s.terms = append(s.terms, term)
	s.nontr = append(s.nontr, nontrivial)
}

func (s *shard) write(dir string, sum *emit.Summary) error {
	for _, f := range s.files {
		if err := f.Write(dir, sum); err != nil {
			return err
		}
	}
	return nil
}
