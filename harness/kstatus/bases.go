package kstatus

import (
	"time"
)

// Timestamps at least an hour away from now, so that the Pod grace window
// boolean is unambiguous.
func pastTS() string   { return time.Now().Add(-3 * time.Hour).UTC().Format(time.RFC3339) }
func futureTS() string { return time.Now().Add(3 * time.Hour).UTC().Format(time.RFC3339) }

type base struct {
	name string
	obj  map[string]interface{}
}

// Bases returns well-typed objects of every kind in legacyTypes plus custom
// kinds, chosen so that together they reach every branch of the per-kind
// rules (in particular the deep ones: crash-loop inspection, unschedulable
// window, partition roll-out, revision comparison, CRD condition loop).
func Bases() []base {
	past, future := pastTS(), futureTS()
	j := func(name, text string) base { return base{name, Parse(text)} }
	return []base{
		j("deploy-current", `{"apiVersion":"apps/v1","kind":"Deployment","metadata":{"name":"d","namespace":"ns","generation":2,"creationTimestamp":"`+past+`"},
		 "spec":{"replicas":2,"progressDeadlineSeconds":600,"strategy":{"type":"RollingUpdate"}},
		 "status":{"observedGeneration":2,"replicas":2,"updatedReplicas":2,"readyReplicas":2,"availableReplicas":2,
		   "conditions":[{"type":"Progressing","status":"True","reason":"NewReplicaSetAvailable","message":"m"},{"type":"Available","status":"True","reason":"MinimumReplicasAvailable"}]}}`),
		j("deploy-nodeadline", `{"apiVersion":"extensions/v1beta1","kind":"Deployment","metadata":{"name":"d","generation":1},
		 "spec":{"replicas":1},
		 "status":{"observedGeneration":1,"replicas":1,"updatedReplicas":1,"readyReplicas":1,"availableReplicas":1,
		   "conditions":[{"type":"Available","status":"True"}]}}`),
		j("deploy-deadline", `{"apiVersion":"apps/v1","kind":"Deployment","metadata":{"name":"d","generation":1},
		 "spec":{"replicas":3,"progressDeadlineSeconds":5},
		 "status":{"observedGeneration":1,"replicas":3,"updatedReplicas":1,
		   "conditions":[{"type":"Available","status":"False"},{"type":"Progressing","status":"False","reason":"ProgressDeadlineExceeded","message":"x"}]}}`),
		j("rs-current", `{"apiVersion":"apps/v1","kind":"ReplicaSet","metadata":{"name":"r","generation":1},
		 "spec":{"replicas":2},
		 "status":{"observedGeneration":1,"replicas":2,"fullyLabeledReplicas":2,"readyReplicas":2,"availableReplicas":2,
		   "conditions":[{"type":"ReplicaFailure","status":"False"}]}}`),
		j("sts-current", `{"apiVersion":"apps/v1","kind":"StatefulSet","metadata":{"name":"s","generation":3},
		 "spec":{"replicas":2,"updateStrategy":{"type":"RollingUpdate"}},
		 "status":{"observedGeneration":3,"replicas":2,"readyReplicas":2,"currentReplicas":2,"updatedReplicas":2,"currentRevision":"r1","updateRevision":"r1"}}`),
		j("sts-partition", `{"apiVersion":"apps/v1","kind":"StatefulSet","metadata":{"name":"s","generation":3},
		 "spec":{"replicas":3,"updateStrategy":{"type":"RollingUpdate","rollingUpdate":{"partition":1}}},
		 "status":{"observedGeneration":3,"replicas":3,"readyReplicas":3,"currentReplicas":1,"updatedReplicas":2,"currentRevision":"r1","updateRevision":"r2"}}`),
		j("ds-current", `{"apiVersion":"apps/v1","kind":"DaemonSet","metadata":{"name":"ds","generation":1},
		 "spec":{"updateStrategy":{"type":"RollingUpdate"}},
		 "status":{"observedGeneration":1,"desiredNumberScheduled":2,"currentNumberScheduled":2,"updatedNumberScheduled":2,"numberAvailable":2,"numberReady":2}}`),
		j("pod-running-notready", `{"apiVersion":"v1","kind":"Pod","metadata":{"name":"p","creationTimestamp":"`+past+`"},
		 "status":{"phase":"Running","conditions":[{"type":"Ready","status":"False","reason":"ContainersNotReady"}],
		   "containerStatuses":[{"name":"c1","state":{"waiting":{"reason":"CrashLoopBackOff"}}},{"name":"c2","state":{"running":{"startedAt":"x"}}}]}}`),
		j("pod-running-ready", `{"apiVersion":"v1","kind":"Pod","metadata":{"name":"p","creationTimestamp":"`+past+`"},
		 "status":{"phase":"Running","conditions":[{"type":"Ready","status":"True"}],"containerStatuses":[{"name":"c1","state":{"running":{}}}]}}`),
		j("pod-pending-unsched-old", `{"apiVersion":"v1","kind":"Pod","metadata":{"name":"p","creationTimestamp":"`+past+`"},
		 "status":{"phase":"Pending","conditions":[{"type":"PodScheduled","status":"False","reason":"Unschedulable","message":"no nodes"}]}}`),
		j("pod-pending-unsched-new", `{"apiVersion":"v1","kind":"Pod","metadata":{"name":"p","creationTimestamp":"`+future+`"},
		 "status":{"phase":"Pending","conditions":[{"type":"PodScheduled","status":"False","reason":"Unschedulable"}]}}`),
		j("pod-succeeded", `{"apiVersion":"v1","kind":"Pod","metadata":{"name":"p"},"status":{"phase":"Succeeded"}}`),
		j("job-running", `{"apiVersion":"batch/v1","kind":"Job","metadata":{"name":"j","generation":1},
		 "spec":{"parallelism":2,"completions":4},
		 "status":{"startTime":"`+past+`","active":2,"succeeded":1,"failed":0,"conditions":[{"type":"Complete","status":"False"},{"type":"Failed","status":"False"}]}}`),
		j("job-failed", `{"apiVersion":"batch/v1","kind":"Job","metadata":{"name":"j"},
		 "status":{"failed":3,"conditions":[{"type":"Failed","status":"True","reason":"BackoffLimitExceeded"}]}}`),
		j("pvc-bound", `{"apiVersion":"v1","kind":"PersistentVolumeClaim","metadata":{"name":"c"},"status":{"phase":"Bound"}}`),
		j("svc-lb", `{"apiVersion":"v1","kind":"Service","metadata":{"name":"s"},"spec":{"type":"LoadBalancer","clusterIP":"10.0.0.1"}}`),
		j("crd-established", `{"apiVersion":"apiextensions.k8s.io/v1","kind":"CustomResourceDefinition","metadata":{"name":"x.y","generation":1},
		 "status":{"conditions":[{"type":"NamesAccepted","status":"True","reason":"NoConflicts"},{"type":"Established","status":"True","reason":"InitialNamesAccepted"}]}}`),
		j("crd-installing", `{"apiVersion":"apiextensions.k8s.io/v1","kind":"CustomResourceDefinition","metadata":{"name":"x.y"},
		 "status":{"conditions":[{"type":"Established","status":"False","reason":"Installing"}]}}`),
		j("pdb", `{"apiVersion":"policy/v1","kind":"PodDisruptionBudget","metadata":{"name":"p","generation":1},"status":{"observedGeneration":1,"disruptionsAllowed":1}}`),
		j("configmap", `{"apiVersion":"v1","kind":"ConfigMap","metadata":{"name":"c"},"data":{"k":"v"}}`),
		j("custom-ready", `{"apiVersion":"example.com/v1","kind":"Widget","metadata":{"name":"w","generation":4},
		 "status":{"observedGeneration":4,"conditions":[{"type":"Other","status":"True"},{"type":"Ready","status":"False","reason":"r","message":"m"}]}}`),
		j("custom-stalled", `{"apiVersion":"example.com/v1","kind":"Widget","metadata":{"name":"w"},
		 "status":{"conditions":[{"type":"Reconciling","status":"False"},{"type":"Stalled","status":"True","reason":"r","message":"m"}]}}`),
		j("custom-deleting", `{"apiVersion":"example.com/v1","kind":"Widget","metadata":{"name":"w","deletionTimestamp":"`+past+`"}}`),
	}
}
