package kstatus

import (
	"fmt"
	"math/rand"
	"sort"
)

// node addresses a value inside a JSON-shaped tree.
type step struct {
	key string
	idx int // -1 for map keys
}
type path []step

func (p path) String() string {
	s := ""
	for _, st := range p {
		if st.idx >= 0 {
			s += fmt.Sprintf("[%d]", st.idx)
		} else {
			s += "." + st.key
		}
	}
	return s
}

// paths lists every node below the root in a deterministic order.
func paths(v interface{}, prefix path, out *[]path) {
	switch x := v.(type) {
	case map[string]interface{}:
		keys := make([]string, 0, len(x))
		for k := range x {
			keys = append(keys, k)
		}
		sort.Strings(keys)
		for _, k := range keys {
			p := append(append(path{}, prefix...), step{k, -1})
			*out = append(*out, p)
			paths(x[k], p, out)
		}
	case []interface{}:
		for i := range x {
			p := append(append(path{}, prefix...), step{"", i})
			*out = append(*out, p)
			paths(x[i], p, out)
		}
	}
}

func getAt(root interface{}, p path) interface{} {
	cur := root
	for _, st := range p {
		if st.idx >= 0 {
			cur = cur.([]interface{})[st.idx]
		} else {
			cur = cur.(map[string]interface{})[st.key]
		}
	}
	return cur
}

// setAt returns a deep copy of root with the node at p replaced (or removed).
func setAt(root map[string]interface{}, p path, val interface{}, remove bool) map[string]interface{} {
	cp := CopyObj(root)
	var parent interface{} = cp
	for _, st := range p[:len(p)-1] {
		if st.idx >= 0 {
			parent = parent.([]interface{})[st.idx]
		} else {
			parent = parent.(map[string]interface{})[st.key]
		}
	}
	last := p[len(p)-1]
	if last.idx >= 0 {
		l := parent.([]interface{})
		if remove {
			// removing a list element needs the grandparent; replace it with null instead
			l[last.idx] = nil
		} else {
			l[last.idx] = val
		}
	} else {
		m := parent.(map[string]interface{})
		if remove {
			delete(m, last.key)
		} else {
			m[last.key] = val
		}
	}
	return cp
}

// every JSON type, with the values that matter to the code under test
func replacements() []interface{} {
	return []interface{}{
		nil, true, int64(7), int64(0), float64(1.5), float64(2), "x", "", "True",
		[]interface{}{}, []interface{}{"x"}, []interface{}{nil}, []interface{}{map[string]interface{}{}},
		[]interface{}{int64(3), map[string]interface{}{"type": int64(1)}},
		map[string]interface{}{}, map[string]interface{}{"a": "b"},
	}
}

func kindOf(v interface{}) string {
	switch v.(type) {
	case nil:
		return "null"
	case bool:
		return "bool"
	case int64:
		return "int"
	case float64:
		return "float"
	case string:
		return "string"
	case []interface{}:
		return "list"
	case map[string]interface{}:
		return "map"
	}
	return "?"
}

type mutant struct {
	tag string
	obj map[string]interface{}
	cls string // original-type>replacement-type
}

// systematicMutants: every node of every base replaced by every value of
// replacements() whose type or value differs, and every map key removed.
func systematicMutants(b base) []mutant {
	var ps []path
	paths(b.obj, nil, &ps)
	var out []mutant
	for _, p := range ps {
		orig := getAt(b.obj, p)
		for _, r := range replacements() {
			if Same(orig, r) {
				continue
			}
			out = append(out, mutant{
				tag: fmt.Sprintf("malformed %s %s:=%s", b.name, p, Text(r)),
				obj: setAt(b.obj, p, Copy(r), false),
				cls: kindOf(orig) + ">" + kindOf(r)})
		}
		if p[len(p)-1].idx < 0 {
			out = append(out, mutant{
				tag: fmt.Sprintf("malformed %s %s removed", b.name, p),
				obj: setAt(b.obj, p, nil, true),
				cls: kindOf(orig) + ">absent"})
		}
	}
	return out
}

// randomMutant applies 2..4 random replacements (later ones may land inside
// earlier replacements).
func randomMutant(r *rand.Rand, b base) mutant {
	obj := CopyObj(b.obj)
	n := 2 + r.Intn(3)
	tag := "malformed-random " + b.name
	reps := replacements()
	for i := 0; i < n; i++ {
		var ps []path
		paths(obj, nil, &ps)
		if len(ps) == 0 {
			break
		}
		p := ps[r.Intn(len(ps))]
		v := reps[r.Intn(len(reps))]
		obj = setAt(obj, p, Copy(v), false)
		tag += fmt.Sprintf(" %s:=%s", p, Text(v))
	}
	return mutant{tag: tag, obj: obj, cls: "random-multi"}
}
