(* Shared by the C07 / C08 / C09 correspondence files: the observation of one
   status.Compute call and its comparison with the model. *)
From Coq Require Import List Bool ZArith String.
From CliUtils Require Import Corr.CorrLib Base.Json Model.KStatus.
Import ListNotations.
Local Open Scope string_scope.

(* what the harness saw: (result, nil) with Status and the (Type, Status) of
   each result condition | (nil, err) | a panic caught by recover() *)
Inductive obs :=
| OOk (st : string) (cs : list (string * string))
| OErr
| OPanic.

(* input tree, window boolean, observation, input unchanged by the call,
   second call on the same input gave the same answer *)
Inductive kcase := KC (input : jv) (w : bool) (o : obs) (unchanged same : bool).

Definition status_name (s : status) : string :=
  match s with
  | InProgress => "InProgress" | Failed => "Failed" | Current => "Current"
  | Terminating => "Terminating" | NotFound => "NotFound" | Unknown => "Unknown"
  end.

Definition pair_eqb (a b : string * string) : bool :=
  String.eqb (fst a) (fst b) && String.eqb (snd a) (snd b).

Definition obs_eqb (a b : obs) : bool :=
  match a, b with
  | OOk s cs, OOk s' cs' => String.eqb s s' && list_eqb pair_eqb cs cs'
  | OErr, OErr => true
  | OPanic, OPanic => true
  | _, _ => false
  end.

Definition obs_of_outcome (o : outcome) : obs :=
  match o with
  | Ok s cs => OOk (status_name s) cs
  | Err => OErr
  end.

Definition agree_compute (c : kcase) : bool :=
  let '(KC input w o _ _) := c in obs_eqb (obs_of_outcome (compute input w)) o.

(* the result shape demanded by C09, on the observation alone *)
Definition shape_ok (st : string) (cs : list (string * string)) : bool :=
  if st =? "InProgress" then list_eqb pair_eqb cs [("Reconciling", "True")]
  else if st =? "Failed" then list_eqb pair_eqb cs [("Stalled", "True")]
  else if (st =? "Current") || (st =? "Terminating") then list_eqb pair_eqb cs []
  else false.

Definition obs_wellformed (o : obs) : bool :=
  match o with
  | OOk st cs => shape_ok st cs
  | OErr => true
  | OPanic => false
  end.

Definition obs_status (o : obs) : string :=
  match o with OOk st _ => st | OErr => "error" | OPanic => "panic" end.
