(* Supplementary plan-level check for C11 (monitor only: the pipeline model has
   no apply-time mutation): an object is invalid, and named by a validation
   error, exactly when one of its dependency annotations (depends-on or
   apply-time-mutation) is malformed, duplicated or refers outside the set.
   The generated sets are acyclic, so there is no other source of invalidity. *)
From Coq Require Import List Bool Arith.
From CliUtils Require Import Corr.CorrLib.
Import ListNotations.

Inductive pcase := PCase (n : nat) (bad invalid named : list nat) (panicked : bool).

Definition check_plan (c : pcase) : nat :=
  match c with
  | PCase n bad invalid named panicked =>
      let ok := negb panicked && set_eq_nat bad invalid && set_eq_nat bad named
                && forallb (fun i => Nat.ltb i n) invalid in
      code ok ok
  end.
