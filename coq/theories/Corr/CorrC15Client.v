(* Correspondence and monitor for the inventory CLIENT stream of C15: the real
   inventory.ClusterClient (Merge / Replace / GetClusterObjs) over a stateful
   fake API server, against Model/InvClientStore.v. *)
From Coq Require Import List Bool Arith String Ascii.
From CliUtils Require Import Corr.CorrLib Base.Strings Model.IdCodec Model.ObjSet
     Model.InvClientStore Corr.CorrC15.
Import ListNotations.

(* one operation and everything observed around it *)
Record cstep := mkCStep {
  cs_kind : opkind;
  cs_dry : dry;
  cs_objs : list oid;                  (* the apply set handed to the client *)
  cs_err : bool;                       (* the operation returned an error *)
  cs_reqs : list req;                  (* mutating requests the server received, in order *)
  cs_keys : option (list string);      (* data keys of the stored inventory object afterwards; None = no object *)
  cs_prune : list oid;                 (* the set Merge returned *)
  cs_get : result (list oid);          (* GetClusterObjs afterwards: what the next run loads *)
  cs_list : result (option (list oid)) (* ListClusterInventoryObjs afterwards: its entry for the inventory
                                          object (None = no entry); Err also when it lists anything else *)
}.

(* status policy, the inventory an earlier run left (one key per id, written
   without validation), its keys and GetClusterObjs before the first operation *)
Inductive clcase :=
| CClient (p : policy) (init : istore) (keys0 : option (list string)) (get0 : result (list oid))
          (steps : list cstep).

Definition req_eqb (a b : req) : bool :=
  match a, b with
  | RCreate, RCreate | RUpdate, RUpdate | RPatch, RPatch | RDelete, RDelete | ROther, ROther => true
  | _, _ => false
  end.

Definition mem_str (x : string) (l : list string) := existsb (String.eqb x) l.
Definition strs_eqb (a b : list string) : bool :=
  Nat.eqb (List.length a) (List.length b) && forallb (fun x => mem_str x b) a && forallb (fun x => mem_str x a) b.
Definition okeys_eqb := option_eqb strs_eqb.

(* Load returns one identifier per key, in map order *)
Definition bag_eqb (a b : list oid) : bool := Nat.eqb (List.length a) (List.length b) && set_eq_id a b.
Definition res_bag_eqb (a b : result (list oid)) : bool := res_eqb bag_eqb a b.

(* ---- agreement with the model: every projection of every step ------------- *)
Fixpoint model_client (p : policy) (s : istore) (steps : list cstep) : bool :=
  match steps with
  | [] => true
  | c :: t =>
      let r := client_op (cs_kind c) p (cs_dry c) s (cs_objs c) in
      Bool.eqb (oc_err r) (cs_err c)
      && list_eqb req_eqb (oc_reqs r) (cs_reqs c)
      && okeys_eqb (stored_keys (oc_store r)) (cs_keys c)
      && set_eq_id (oc_prune r) (cs_prune c)
      && res_bag_eqb (client_get (oc_store r)) (cs_get c)
      && res_eqb (option_eqb bag_eqb) (client_list (oc_store r)) (cs_list c)
      && model_client p (oc_store r) t
  end.

(* ---- the property, on the observations alone ------------------------------
   `clean`: no '_' in any field = the identifier can be encoded
   (C15_storable_iff).  An operation must fail exactly when a member of its
   apply set cannot be encoded (or the stored inventory cannot be read; a
   dry-run Replace does nothing for any argument); a failed operation and a
   dry-run have sent no mutating request and left the stored keys alone; after
   an accepted operation the next run loads exactly the intended set, one key
   per identifier, written with at most one create (first run) or update. *)
Definition clean_set (ids : list oid) : bool := forallb id_wf ids.

Definition mon_step (pre : result (list oid)) (prekeys : option (list string)) (c : cstep) : bool :=
  let skipped := match cs_kind c with OReplace => is_dry (cs_dry c) | OMerge => false end in
  Bool.eqb (cs_err c) (negb skipped && (negb (clean_set (cs_objs c)) || negb (is_ok pre)))
  && (if cs_err c || is_dry (cs_dry c)
      then match cs_reqs c with [] => true | _ => false end
           && okeys_eqb prekeys (cs_keys c) && res_bag_eqb pre (cs_get c)
      else match pre, cs_get c with
           | Ok cl, Ok l =>
               let expected := match cs_kind c with OMerge => cl ++ cs_objs c | OReplace => cs_objs c end in
               set_eq_id l expected
               && match cs_reqs c, prekeys with
                  | [], _ => okeys_eqb prekeys (cs_keys c) && bag_eqb cl l
                  | [RCreate], None | [RUpdate], Some _ =>
                      nodup_id l
                      && match cs_keys c with
                         | Some ks => Nat.eqb (List.length ks) (List.length l) && nodup_str ks
                         | None => false
                         end
                  | _, _ => false
                  end
           | _, _ => false
           end).

(* listing the inventories reads the same object the next run loads: no object = no entry, an
   unreadable object is an error of the call (never an empty or partial entry), a readable one
   is listed with exactly what GetClusterObjs returns *)
Definition mon_list (c : cstep) : bool :=
  match cs_keys c, cs_get c, cs_list c with
  | None, _, Ok None => true
  | Some _, Ok l, Ok (Some l') => bag_eqb l l'
  | Some _, Err, Err => true
  | _, _, _ => false
  end.

Fixpoint mon_steps_client (pre : result (list oid)) (prekeys : option (list string)) (steps : list cstep) : bool :=
  match steps with
  | [] => true
  | c :: t => mon_step pre prekeys c && mon_list c && mon_steps_client (cs_get c) (cs_keys c) t
  end.

(* before the first operation: no object = the empty inventory; an object is
   unreadable or accounts for every key *)
Definition mon_initial (keys0 : option (list string)) (get0 : result (list oid)) : bool :=
  match keys0, get0 with
  | None, Ok [] => true
  | None, _ => false
  | Some ks, Ok l => Nat.eqb (List.length l) (List.length ks)
  | Some _, Err => true
  end.

Definition check_client (c : clcase) : nat :=
  match c with
  | CClient p init keys0 get0 steps =>
      code (okeys_eqb (stored_keys init) keys0 && res_bag_eqb (client_get init) get0
            && model_client p init steps)
           (mon_initial keys0 get0 && mon_steps_client get0 keys0 steps)
  end.
