(* Correspondence and monitors for C17. *)
From Coq Require Import List Bool Arith NArith ZArith String.
From CliUtils Require Import Corr.CorrLib Model.Engine Model.Aggregator Model.Collector.
Import ListNotations.

(* structural equality of the observables (stricter than rs_equal) *)
Fixpoint rs_eqb (a b : rstatus) {struct a} : bool :=
  match a, b with
  | RS i s m g e l, RS i' s' m' g' e' l' =>
      Nat.eqb i i' && status_eqb s s' && String.eqb m m'
      && option_eqb Z.eqb g g' && option_eqb String.eqb e e'
      && (fix go (l l' : list rstatus) {struct l} : bool :=
            match l, l' with
            | [], [] => true
            | x :: t, y :: t' => rs_eqb x y && go t t'
            | _, _ => false
            end) l l'
  end.

Definition err_eqb (a b : err) : bool :=
  match a, b with
  | ECanceled, ECanceled | EDeadline, EDeadline => true
  | EOther x, EOther y => Nat.eqb x y
  | _, _ => false
  end.

Definition item_eqb (a b : item) : bool :=
  match a, b with
  | Upd x, Upd y => rs_eqb x y
  | Err x, Err y => err_eqb x y
  | Close, Close => true
  | _, _ => false
  end.

(* ---- engine ------------------------------------------------------------- *)
Definition pdata := (option err * option nat * list (nat * reading))%type.

Definition rd (l : list (nat * reading)) (i : nat) : reading :=
  match find (fun x => Nat.eqb (fst x) i) l with
  | Some x => snd x
  | None => RErr (EOther 0)
  end.

Definition mk_poll (d : pdata) : poll :=
  let '(s, c, l) := d in mkPoll s c (rd l).

(* ids, error of validateIdentifiers / the reader factory, scripted rounds;
   observed: items tagged with the round that produced the status object,
   number of successful ReadStatus calls per started round, first non-context
   error the scripted environment returned to the engine *)
Inductive ecase :=
| ECase (ids : list nat) (pre : option err) (polls : list pdata)
        (obs : list (nat * item)) (reads : list nat) (fatal : option err).

Definition is_updb (it : item) : bool := match it with Upd _ => true | _ => false end.

Definition grammar_b (items : list item) (fatal : option err) : bool :=
  match rev items with
  | Close :: Err e :: r =>
      forallb is_updb r && match fatal with Some f => err_eqb e f | None => false end
  | Close :: r => forallb is_updb r && match fatal with None => true | Some _ => false end
  | _ => false
  end.

Definition wf_b (ids : list nat) (polls : list pdata) : bool :=
  forallb (fun d : pdata =>
             let '(_, _, l) := d in
             forallb (fun i => match rd l i with RStatus r => Nat.eqb (rs_id r) i | RErr _ => true end) ids)
          polls.

Definition expected_b (p : poll) (old : option rstatus) (j : nat) : list item :=
  match p_read p j with
  | RStatus r => if changed old r then [Upd r] else []
  | RErr _ => []
  end.

Fixpoint tags_sorted (l : list nat) : bool :=
  match l with
  | a :: ((b :: _) as t) => Nat.leb a b && tags_sorted t
  | _ => true
  end.

(* the change-detection rule, re-evaluated on the implementation's own
   stream: for round k and identifier j, the updates for j in round k are
   [reading] if j was read in that round and the reading differs from the last
   update the implementation itself emitted for j before round k, else none *)
Definition rule_round (ids : list nat) (polls : list pdata) (obs : list (nat * item))
           (k nread : nat) : bool :=
  let p := mk_poll (nth k polls (None, None, [])) in
  let before := map snd (filter (fun x => Nat.ltb (fst x) k && is_updb (snd x)) obs) in
  let evs := map snd (filter (fun x => Nat.eqb (fst x) k && is_updb (snd x)) obs) in
  let processed := firstn nread ids in
  let mentioned := ids ++ flat_map (fun it => match it with Upd r => [rs_id r] | _ => [] end) evs in
  forallb (fun j =>
             list_eqb item_eqb (filter (upd_for j) evs)
                      (if existsb (Nat.eqb j) processed
                       then expected_b p (last_emitted before j) j else []))
          mentioned.

Fixpoint rule_rounds (ids : list nat) (polls : list pdata) (obs : list (nat * item))
         (k : nat) (reads : list nat) : bool :=
  match reads with
  | [] => true
  | n :: t => rule_round ids polls obs k n && rule_rounds ids polls obs (S k) t
  end.

Definition mon_engine (c : ecase) : bool :=
  let '(ECase ids pre polls obs reads fatal) := c in
  let items := map snd obs in
  let upd_tags := map fst (filter (fun x => is_updb (snd x)) obs) in
  grammar_b items fatal &&
  match pre with
  | Some e => list_eqb item_eqb items [Err e; Close]
  | None =>
      (* errors of the polling loop: context errors are never reported *)
      forallb (fun it => match it with Err e => negb (is_ctx_err e) | _ => true end) items &&
      if wf_b ids polls then
        tags_sorted upd_tags && forallb (fun t => Nat.ltb t (List.length reads)) upd_tags
        && rule_rounds ids polls obs 0 reads
      else true
  end.

Definition check_engine (c : ecase) : nat :=
  let '(ECase ids pre polls obs reads fatal) := c in
  code (list_eqb item_eqb (run (mkSc ids pre (map mk_poll polls))) (map snd obs))
       (mon_engine c).

(* ---- aggregator: one case = one status list with the results for the six
   desired statuses in the order of all_status -------------------------------- *)
Definition all_statuses := [InProgress; Failed; Current; Terminating; NotFound; Unknown].

Definition has (x : status) (l : list status) : bool := existsb (status_eqb x) l.
Definition rule (l : list status) (d : status) : status :=
  if has Failed l then Failed
  else if has Unknown l then Unknown
  else if forallb (fun s => status_eqb s d) l then d
  else InProgress.

Definition check_agg (c : list status * list status) : nat :=
  let '(l, out) := c in
  code (list_eqb status_eqb (map (aggregate l) all_statuses) out)
       (list_eqb status_eqb (map (rule l) all_statuses) out
        && list_eqb status_eqb (map (rule (rev l)) all_statuses) out).

(* ---- collector ------------------------------------------------------------ *)
Definition etype_eqb (a b : etype) : bool :=
  match a, b with TUpdate, TUpdate | TError, TError | TSync, TSync => true | _, _ => false end.

Inductive ccase :=
| CCase (ids : list nat) (es : list cevent)
        (statuses : list rstatus) (last : etype) (error : option err) (results : list err).

Definition mon_collector (c : ccase) : bool :=
  let '(CCase ids es sts last error results) := c in
  let keys := map rs_id sts in
  let mentioned := ids ++ flat_map (fun e => match e with CUpdate r => [rs_id r] | _ => [] end) es in
  nodup_nat keys && tags_sorted keys
  && forallb (fun r => match last_update es (rs_id r) with
                       | Some x => rs_eqb x r
                       | None => existsb (Nat.eqb (rs_id r)) ids && rs_eqb r (unknown_rs (rs_id r))
                       end) sts
  && forallb (fun j => existsb (Nat.eqb j) keys) mentioned
  && option_eqb err_eqb error (last_error es)
  && etype_eqb last (match rev es with [] => TUpdate | e :: _ => cevent_type e end)
  && list_eqb err_eqb results (flat_map (fun e => match e with CError x => [x] | _ => [] end) es).

Definition check_collector (c : ccase) : nat :=
  let '(CCase ids es sts last error results) := c in
  let st := c_run ids es in
  let o := latest_observation st in
  code (list_eqb rs_eqb (o_statuses o) sts && etype_eqb (o_last o) last
        && option_eqb err_eqb (o_err o) error && list_eqb err_eqb (c_results st) results)
       (mon_collector c).
