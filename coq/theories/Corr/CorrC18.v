(* Correspondence and monitor for C18.
   agree   = the models of jsonpath.Get/Set and ApplyTimeMutator.Mutate give
             the implementation's observed result;
   monitor = the property stated directly on the implementation's before /
             after trees with its own navigation ([nav]) and its own
             "equal outside the path" ([eq_outside]); it does not call
             jget / jput / jset / mutate. *)
From Coq Require Import List Bool Arith NArith ZArith String Ascii.
From CliUtils Require Import Corr.CorrLib Base.StrReplace Model.JsonPath Model.Mutator.
Import ListNotations.
Local Open Scope string_scope.

(* cheap string terms for generated files: byte runs as binary numbers *)
Definition bN (l : list N) : string :=
  fold_right (fun n s => String (ascii_of_N n) s) EmptyString l.
Definition sc (l : list string) : string := String.concat "" l.

Fixpoint tv_eqb (a b : tv) : bool :=
  match a, b with
  | TNull, TNull => true
  | TBool x, TBool y => Bool.eqb x y
  | TInt x, TInt y => Z.eqb x y
  | TFlt m e, TFlt m' e' => Z.eqb m m' && Z.eqb e e'
  | TStr x, TStr y => String.eqb x y
  | TArr la, TArr lb =>
      (fix go (la lb : list tv) : bool :=
         match la, lb with
         | [], [] => true
         | x :: ra, y :: rb => tv_eqb x y && go ra rb
         | _, _ => false
         end) la lb
  | TObj ka, TObj kb =>
      (fix go (ka kb : list (string * tv)) : bool :=
         match ka, kb with
         | [], [] => true
         | (k, x) :: ra, (k', y) :: rb => String.eqb k k' && tv_eqb x y && go ra rb
         | _, _ => false
         end) ka kb
  | _, _ => false
  end.

Definition tvl_eqb := list_eqb tv_eqb.

(* ---- the monitor's own view of a tree -------------------------------------- *)
Definition nav1 (s : seg) (t : tv) : option tv :=
  match s, t with
  | Key k, TObj kv => option_map snd (find (fun kx => String.eqb (fst kx) k) kv)
  | Idx n, TArr l => nth_error l n
  | _, _ => None
  end.
Fixpoint nav (p : path) (t : tv) : option tv :=
  match p with
  | [] => Some t
  | s :: p' => match nav1 s t with Some c => nav p' c | None => None end
  end.

(* a and b are the same tree except possibly below path p *)
Fixpoint eq_outside (p : path) (a b : tv) : bool :=
  match p with
  | [] => true
  | Key k :: p' =>
      match a, b with
      | TObj ka, TObj kb =>
          (fix go (ka kb : list (string * tv)) : bool :=
             match ka, kb with
             | [], [] => true
             | (k1, x) :: ra, (k2, y) :: rb =>
                 String.eqb k1 k2 &&
                 (if String.eqb k k1 then eq_outside p' x y else tv_eqb x y) && go ra rb
             | _, _ => false
             end) ka kb
      | _, _ => false
      end
  | Idx n :: p' =>
      match a, b with
      | TArr la, TArr lb =>
          (fix go (i : nat) (la lb : list tv) : bool :=
             match la, lb with
             | [], [] => true
             | x :: ra, y :: rb =>
                 (if Nat.eqb i n then eq_outside p' x y else tv_eqb x y) && go (S i) ra rb
             | _, _ => false
             end) 0 la lb
      | _, _ => false
      end
  end.

Definition opt_tv_eqb := option_eqb tv_eqb.

(* ---- jsonpath level ---------------------------------------------------------- *)
(* nb / rbn: number of values the implementation's Get returned on the tree
   before / after (99 = Get returned an error);
   errc: 0 no error, 1 unsupported value type, 2 yaml refused the text, 3 other *)
Inductive setcase :=
| CSet (p : path) (v before : tv) (nb n errc : nat) (after : tv) (rbn : nat) (rb : list tv)
| CGet (p : path) (t : tv) (n : nat) (vs : list tv).

Definition get_agrees (p : path) (t : tv) (n : nat) (vs : list tv) : bool :=
  match jget_c p t with
  | GetOk ws => Nat.eqb n (List.length ws) && tvl_eqb ws vs
  | GetErr => Nat.eqb n 99
  end.

Definition agree_set (c : setcase) : bool :=
  match c with
  | CGet p t n vs => get_agrees p t n vs
  | CSet p v before nb n errc after rbn rb =>
      (match jset p v before with
       | SetOk t' n' => Nat.eqb errc 0 && Nat.eqb n n' && tv_eqb after t'
       | SetErr JEUnsupported => Nat.eqb errc 1 && tv_eqb after before
       | SetErr JERoot => false
       end)
      && (match jget_c p before with
          | GetOk ws => Nat.eqb nb (List.length ws)
          | GetErr => Nat.eqb nb 99
          end)
      && get_agrees p after rbn rb
  end.

Definition mon_set (c : setcase) : bool :=
  match c with
  | CGet p t n vs =>
      match nav p t with
      | Some x => Nat.eqb n 1 && tvl_eqb vs [x]
      | None => Nat.eqb n 0
      end
  | CSet p v before nb n errc after rbn rb =>
      let cnt := match nav p before with Some _ => 1 | None => 0 end in
      Nat.eqb nb cnt &&
      (if negb (Nat.eqb errc 0)
       then (* an error is only acceptable for a value Set cannot carry; the
               object must be untouched *)
            tv_eqb after before && Nat.eqb errc 1 && negb (settable v)
       else if Nat.eqb n 0
       then Nat.eqb cnt 0 && tv_eqb after before
       else Nat.eqb n 1 && Nat.eqb cnt 1 && settable v &&
            Nat.eqb rbn 1 && tvl_eqb rb [v] &&                 (* get after set *)
            opt_tv_eqb (nav p after) (Some v) &&
            eq_outside p before after)                         (* frame *)
  end.

Definition check_set (c : setcase) : nat := code (agree_set c) (mon_set c).

(* ---- mutator level ----------------------------------------------------------- *)
(* errc: 0 none, 1 annotation, 2 self-reference, 3 mapping, 4 get source,
   5 target read, 6 source read, 7 token type, 8 write, 9 unclassified.
   applied: what the real ApplyTask did with the object: 0 not observed,
   1 apply-failed event + recorded as failed + nothing sent, 2 anything else *)
Inductive mutcase :=
| CMut (self : ref) (a : annot) (before : tv)
       (scopes : list (string * string * bool))
       (cache : list (ref * tv * bool)) (cluster : list (ref * tv))
       (rend : list (tv * string))
       (errc : nat) (mutated : bool) (after : tv) (applied : nat).

Definition errc_of (e : option merr) : nat :=
  match e with
  | None => 0 | Some MEAnnotation => 1 | Some MESelfRef => 2 | Some MEMapping => 3
  | Some MEGetSource => 4 | Some METargetRead => 5 | Some MESourceRead => 6
  | Some METokenType => 7 | Some MEWrite => 8
  end.

Fixpoint scope_of (tab : list (string * string * bool)) (r : ref) : option bool :=
  match tab with
  | [] => None
  | (g, k, b) :: rest =>
      if String.eqb g (r_group r) && String.eqb k (r_kind r) then Some b else scope_of rest r
  end.
Fixpoint cache_of (tab : list (ref * tv * bool)) (r : ref) : option (tv * bool) :=
  match tab with
  | [] => None
  | (r', t, b) :: rest => if ref_eqb r r' then Some (t, b) else cache_of rest r
  end.
Fixpoint cluster_of (tab : list (ref * tv)) (r : ref) : option tv :=
  match tab with
  | [] => None
  | (r', t) :: rest => if ref_eqb r r' then Some t else cluster_of rest r
  end.
Fixpoint render_of (tab : list (tv * string)) (v : tv) : string :=
  match tab with
  | [] => ""
  | (w, s) :: rest => if tv_eqb v w then s else render_of rest v
  end.

Definition agree_mut (c : mutcase) : bool :=
  match c with
  | CMut self a before scopes cache cluster rend errc mutated after applied =>
      let e := mkEnv (scope_of scopes) (cache_of cache) (cluster_of cluster) in
      let r := mutate (render_of rend) e self a before in
      Nat.eqb (errc_of (m_err r)) errc && Bool.eqb (m_mutated r) mutated &&
      tv_eqb (m_tree r) after &&
      (match apply_object (render_of rend) e self a before with
       | ApplyFailed _ => orb (Nat.eqb applied 1) (Nat.eqb applied 0)
       | Applied _ => orb (Nat.eqb applied 2) (Nat.eqb applied 0)
       end)
  end.

(* the monitor's own, direct reading of the property for one substitution *)
Definition mon_count (mp : mpath) (t : tv) : option tv :=
  match mp with
  | MOpaque => None
  | MPath p => nav p t
  end.

Definition mon_source (scopes : list (string * string * bool))
           (cache : list (ref * tv * bool)) (cluster : list (ref * tv)) (self r : ref)
  : bool * ref * option tv :=  (* mapped?, resolved reference, object *)
  match scope_of scopes r with
  | None => (false, r, None)
  | Some namespaced =>
      let r' := if namespaced && String.eqb (r_ns r) ""
                then mkRef (r_group r) (r_kind r) (r_name r) (r_ns self) else r in
      let obj := if String.eqb (r_name r') "" || String.eqb (r_kind r') "" then None
                 else match cache_of cache r' with
                      | Some (t, true) => Some t
                      | _ => cluster_of cluster r'
                      end in
      (true, r', obj)
  end.

Definition mon_one (self : ref) (sub : subst) (before after : tv)
           (scopes : list (string * string * bool))
           (cache : list (ref * tv * bool)) (cluster : list (ref * tv))
           (rend : list (tv * string)) (errc : nat) (mutated : bool) : bool :=
  let '(mapped, r', src) := mon_source scopes cache cluster self (s_src sub) in
  let tval := mon_count (s_tpath sub) before in
  let sval := match src with Some s => mon_count (s_spath sub) s | None => None end in
  let rejected := negb (Nat.eqb errc 0) && tv_eqb after before in
  if negb mapped || ref_eqb self r' then rejected
  else match src, tval, sval with
       | Some _, Some tv0, Some sv =>
           let newv :=
             if String.eqb (s_token sub) "" then Some sv
             else match tv0 with
                  | TStr s => Some (TStr (replace_all s (s_token sub)
                                            (value_to_string (render_of rend) sv)))
                  | _ => None
                  end in
           match newv, s_tpath sub with
           | Some nv, MPath tp =>
               if settable nv
               then Nat.eqb errc 0 && mutated &&
                    opt_tv_eqb (nav tp after) (Some nv) && eq_outside tp before after
               else rejected
           | _, _ => rejected
           end
       | _, _, _ => rejected
       end.

Definition mon_mut (c : mutcase) : bool :=
  match c with
  | CMut self a before scopes cache cluster rend errc mutated after applied =>
      (* an object whose mutation failed is never applied *)
      (Nat.eqb errc 0 || Nat.eqb applied 0 || Nat.eqb applied 1) &&
      match a with
      | ANone => Nat.eqb errc 0 && negb mutated && tv_eqb after before
      | ABad => negb (Nat.eqb errc 0) && tv_eqb after before
      | ASubs [] => Nat.eqb errc 0 && negb mutated && tv_eqb after before
      | ASubs [sub] => mon_one self sub before after scopes cache cluster rend errc mutated
      | ASubs (sub :: _) =>
          (* several substitutions: a resolved self reference anywhere must be refused;
             the rest is covered by [agree] *)
          if existsb (fun s => let '(_, r', _) := mon_source scopes cache cluster self (s_src s)
                               in ref_eqb self r')
                     (match a with ASubs l => l | _ => [] end)
          then negb (Nat.eqb errc 0) else true
      end
  end.

Definition check_mut (c : mutcase) : nat := code (agree_mut c) (mon_mut c).
