(* Shared helpers for generated correspondence files. *)
From Coq Require Import List Bool Arith NArith ZArith String Ascii.
Import ListNotations.

(* check codes: 0 = model and implementation agree and the monitor holds;
   1 = they differ but the monitor still holds on the implementation's
   observation; 2 = the monitor fails (the observation violates the
   property) although the model agrees; 3 = both. *)
Definition code (agree monitor : bool) : nat :=
  (if agree then 0 else 1) + (if monitor then 0 else 2).

Fixpoint bad_from {C} (check : C -> nat) (i : nat) (l : list C) : list (nat * nat) :=
  match l with
  | [] => []
  | c :: t =>
      let k := check c in
      if Nat.eqb k 0 then bad_from check (S i) t else (i, k) :: bad_from check (S i) t
  end.
Definition bad_indices {C} (check : C -> nat) (l : list C) : list (nat * nat) :=
  bad_from check 0 l.

Definition bytes_str (l : list nat) : string :=
  fold_right (fun n s => String (ascii_of_nat n) s) EmptyString l.

Fixpoint list_eqb {A} (eqb : A -> A -> bool) (a b : list A) : bool :=
  match a, b with
  | [], [] => true
  | x :: a', y :: b' => eqb x y && list_eqb eqb a' b'
  | _, _ => false
  end.

Fixpoint ins_nat (x : nat) (l : list nat) : list nat :=
  match l with
  | [] => [x]
  | h :: t => if Nat.leb x h then x :: l else h :: ins_nat x t
  end.
Definition sort_nat (l : list nat) : list nat := fold_right ins_nat [] l.

Fixpoint ins_N (x : N) (l : list N) : list N :=
  match l with
  | [] => [x]
  | h :: t => if N.leb x h then x :: l else h :: ins_N x t
  end.
Definition sort_N (l : list N) : list N := fold_right ins_N [] l.

Fixpoint nodup_sorted_N (l : list N) : list N :=
  match l with
  | [] => []
  | x :: t => match t with
              | [] => [x]
              | y :: _ => if N.eqb x y then nodup_sorted_N t else x :: nodup_sorted_N t
              end
  end.

Definition subset_nat (a b : list nat) : bool :=
  forallb (fun x => existsb (Nat.eqb x) b) a.
Definition set_eq_nat (a b : list nat) : bool := subset_nat a b && subset_nat b a.

Fixpoint nodup_nat (l : list nat) : bool :=
  match l with
  | [] => true
  | x :: t => negb (existsb (Nat.eqb x) t) && nodup_nat t
  end.

Fixpoint assoc_str (tab : list (nat * string)) (n : nat) : string :=
  match tab with
  | [] => EmptyString
  | (k, s) :: t => if Nat.eqb k n then s else assoc_str t n
  end.

Definition option_eqb {A} (eqb : A -> A -> bool) (a b : option A) : bool :=
  match a, b with
  | None, None => true
  | Some x, Some y => eqb x y
  | _, _ => false
  end.
