(* Correspondence and monitor for C20. *)
From Coq Require Import List Bool Arith.
From CliUtils Require Import Corr.CorrLib Model.Stats Model.Printer.
Import ListNotations.

Definition action_eqb (a b : action) : bool :=
  match a, b with
  | AcApply, AcApply | AcPrune, AcPrune | AcDelete, AcDelete | AcWait, AcWait
  | AcInventory, AcInventory => true
  | _, _ => false
  end.
Definition akind_eqb (a b : akind) : bool :=
  match a, b with KApply, KApply | KPrune, KPrune | KDelete, KDelete => true | _, _ => false end.
Definition astatus_eqb (a b : astatus) : bool :=
  match a, b with
  | StPending, StPending | StSuccessful, StSuccessful | StSkipped, StSkipped | StFailed, StFailed => true
  | _, _ => false
  end.
Definition wstatus_eqb (a b : wstatus) : bool :=
  match a, b with
  | WPending, WPending | WSuccessful, WSuccessful | WSkipped, WSkipped
  | WTimeout, WTimeout | WFailed, WFailed => true
  | _, _ => false
  end.
Definition kstatus_eqb (a b : kstatus) : bool :=
  match a, b with
  | KInProgress, KInProgress | KFailed, KFailed | KCurrent, KCurrent
  | KTerminating, KTerminating | KNotFound, KNotFound | KUnknown, KUnknown => true
  | _, _ => false
  end.
Definition counts_eqb (a b : counts) : bool :=
  Nat.eqb (c_count a) (c_count b) && Nat.eqb (c_succ a) (c_succ b) && Nat.eqb (c_skip a) (c_skip b)
  && Nat.eqb (c_fail a) (c_fail b) && option_eqb Nat.eqb (c_timeout a) (c_timeout b).
Definition line_eqb (a b : line) : bool :=
  match a, b with
  | LValidation x, LValidation y => list_eqb Nat.eqb x y
  | LAct k i s h, LAct k' i' s' h' => akind_eqb k k' && Nat.eqb i i' && astatus_eqb s s' && Bool.eqb h h'
  | LWait i s, LWait i' s' => Nat.eqb i i' && wstatus_eqb s s'
  | LStatus i s, LStatus i' s' => Nat.eqb i i' && kstatus_eqb s s'
  | LError, LError => true
  | LGroup x f c, LGroup x' f' c' => action_eqb x x' && Bool.eqb f f' && option_eqb counts_eqb c c'
  | LSummary x c, LSummary x' c' => action_eqb x x' && counts_eqb c c'
  | _, _ => false
  end.
Definition result_eqb (a b : result) : bool :=
  match a, b with
  | ROk, ROk | RErrEvent, RErrEvent | RErrResult, RErrResult | RErrFormat, RErrFormat
  | RPanic, RPanic => true
  | _, _ => false
  end.

(* a case: status printing flag, the events fed to the printer; observed: the
   output lines (each parsed with encoding/json and projected), whether every
   output line was a JSON object with a timestamp and only known keys, the
   classified return value *)
Inductive pcase := PCase (ps : bool) (es : list event) (lines : list line) (all_json : bool) (res : result).

(* ---- monitor: recomputed from the events alone, without the Stats model;
   counts and the error/no-error result depend on the statuses only, never on
   whether an actuation event carries an error --------------------------------- *)
Definition n_act (k : akind) (st : astatus) (es : list event) : nat :=
  List.length (filter (fun e => match e with
                                | EAct k' _ st' _ => akind_eqb k k' && astatus_eqb st st'
                                | _ => false end) es).
Definition n_wait (st : wstatus) (es : list event) : nat :=
  List.length (filter (fun e => match e with EWait _ st' => wstatus_eqb st st' | _ => false end) es).

Definition expect_counts (a : action) (es : list event) : option counts :=
  match a with
  | AcApply | AcPrune | AcDelete =>
      let k := match a with AcApply => KApply | AcPrune => KPrune | _ => KDelete end in
      let s := n_act k StSuccessful es in let sk := n_act k StSkipped es in let f := n_act k StFailed es in
      Some (mkCounts (s + sk + f) s sk f None)
  | AcWait =>
      let s := n_wait WSuccessful es in let sk := n_wait WSkipped es in
      let f := n_wait WFailed es in let t := n_wait WTimeout es in
      Some (mkCounts (s + sk + f + t) s sk f (Some t))
  | AcInventory => None
  end.

Definition wf_event (e : event) : bool :=
  match e with
  | EError b => b
  | EValidation [] => false
  | EAct _ _ StPending _ => false
  | _ => true
  end.

(* walk the events (all individually well formed) and the output together *)
Fixpoint mon_walk (ps : bool) (before es : list event) (ls : list line) : bool :=
  match es with
  | [] =>
      (* summary: per counted action with a non-zero counter, in the fixed order *)
      list_eqb line_eqb ls
        (flat_map (fun a => match expect_counts a before with
                            | Some c => if Nat.eqb (c_count c) 0 then [] else [LSummary a c]
                            | None => [] end) [AcApply; AcPrune; AcDelete; AcWait])
  | e :: t =>
      match e with
      | EInit _ => mon_walk ps (before ++ [e]) t ls
      | EStatus i s =>
          if ps then match ls with
                     | LStatus i' s' :: r => Nat.eqb i i' && kstatus_eqb s s' && mon_walk ps (before ++ [e]) t r
                     | _ => false end
          else mon_walk ps (before ++ [e]) t ls
      | EError _ => match ls with [LError] => true | _ => false end   (* last line, nothing after *)
      | EValidation ids =>
          match ls with
          | LValidation ids' :: r => list_eqb Nat.eqb ids ids' && mon_walk ps (before ++ [e]) t r
          | _ => false end
      | EAct k i s h =>
          match ls with
          | LAct k' i' s' h' :: r => akind_eqb k k' && Nat.eqb i i' && astatus_eqb s s' && Bool.eqb h h' && mon_walk ps (before ++ [e]) t r
          | _ => false end
      | EWait i s =>
          match ls with
          | LWait i' s' :: r => Nat.eqb i i' && wstatus_eqb s s' && mon_walk ps (before ++ [e]) t r
          | _ => false end
      | EGroup _ a fin =>
          match ls with
          | LGroup a' fin' c :: r =>
              action_eqb a a' && Bool.eqb fin fin'
              && option_eqb counts_eqb c (if fin then expect_counts a before else None)
              && mon_walk ps (before ++ [e]) t r
          | _ => false end
      end
  end.

Definition is_fail (e : event) : bool :=
  match e with
  | EAct _ _ StFailed _ | EWait _ WFailed | EWait _ WTimeout => true
  | _ => false
  end.

Definition mon_print (c : pcase) : bool :=
  let '(PCase ps es ls all_json res) := c in
  all_json &&
  if forallb wf_event es then
    mon_walk ps [] es ls
    && Bool.eqb (negb (result_eqb res ROk))
                (existsb (fun e => match e with EError _ => true | _ => false end) es || existsb is_fail es)
    && negb (result_eqb res RPanic) && negb (result_eqb res RErrFormat)
  else true.

Definition check_print (c : pcase) : nat :=
  let '(PCase ps es ls all_json res) := c in
  let '(mls, mres) := print ps es in
  code (list_eqb line_eqb mls ls && result_eqb mres res) (mon_print c).
