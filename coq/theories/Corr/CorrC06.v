(* Correspondence and monitor for C06 over nat identifiers.
   A case is a scripted wait phase run on the real taskrunner.WaitTask:
   the condition, the ids of the task, the actuation table registered on the
   Manager before the phase, the cache content before the phase, the inputs
   after Start, and what the implementation did: the wait events of every
   step (head = Start), the final Manager record of every id of the universe,
   whether the task signalled completion on the TaskChannel. *)
From Coq Require Import List Bool Arith NArith ZArith.
From CliUtils Require Import Corr.CorrLib Model.ObjSet Model.ActuationTable Model.WaitTask.
Import ListNotations.

Inductive c06case :=
| WCase (c : cond) (ids : list nat) (tbl : list (rec nat)) (cache0 : list (nat * cobs))
        (inputs : list (input nat))
        (events : list (list (nat * wstatus)))
        (final : list (nat * option (rec nat)))
        (completed panicked : bool).

(* ---- model side -------------------------------------------------------- *)
Definition build_table (tbl : list (rec nat)) : table nat := fold_left (set_status Nat.eqb) tbl [].
Definition build_cache (l : list (nat * cobs)) : nat -> cobs :=
  fold_left (fun ca p => cache_put Nat.eqb ca (fst p) (snd p)) l cache_empty.

Definition rec_eqb (a b : rec nat) : bool :=
  Nat.eqb (r_id a) (r_id b) && strategy_eqb (r_str a) (r_str b) && actuation_eqb (r_act a) (r_act b)
  && reconcile_eqb (r_rec a) (r_rec b) && N.eqb (r_uid a) (r_uid b) && Z.eqb (r_gen a) (r_gen b).
Definition ev_eqb (a b : nat * wstatus) : bool := Nat.eqb (fst a) (fst b) && wstatus_eqb (snd a) (snd b).

Definition model_run (c : cond) (ids : list nat) (tbl : list (rec nat)) (cache0 : list (nat * cobs))
           (inputs : list (input nat)) :=
  run Nat.eqb c ids (init (build_table tbl) (build_cache cache0)) (Start :: inputs).

Definition agree (k : c06case) : bool :=
  match k with
  | WCase c ids tbl cache0 inputs events final completed panicked =>
      let '(s, evs) := model_run c ids tbl cache0 inputs in
      negb panicked
      && list_eqb (list_eqb ev_eqb) evs events
      && forallb (fun p => option_eqb rec_eqb (lookup Nat.eqb (st_table s) (fst p)) (snd p)) final
      && Bool.eqb (st_done s) completed
  end.

(* ---- monitor: the property, on the implementation's observation -------- *)
Definition inb (x : nat) (l : list nat) := existsb (Nat.eqb x) l.

(* the record of i: the last one registered for it *)
Definition m_rec (tbl : list (rec nat)) (i : nat) : option (rec nat) :=
  find (fun r => Nat.eqb (r_id r) i) (rev tbl).

(* latest observation: association list, newest first *)
Fixpoint m_obs (ca : list (nat * cobs)) (i : nat) : cobs :=
  match ca with
  | [] => mkObs KUnknown false 0%N 0%Z
  | (k, o) :: t => if Nat.eqb k i then o else m_obs t i
  end.

Definition m_is (o : cobs) (s : kstatus) : bool := kstatus_eqb (o_status o) s.
(* "replaced": both UIDs known and different *)
Definition m_replaced (r : option (rec nat)) (o : cobs) : bool :=
  match r with
  | None => false
  | Some r => negb (N.eqb (r_uid r) 0) && o_has o && negb (N.eqb (o_uid o) 0)
              && negb (N.eqb (r_uid r) (o_uid o))
  end.
(* observed generation (0 without a body) not older than the applied one *)
Definition m_fresh (r : option (rec nat)) (o : cobs) : bool :=
  Z.leb (match r with Some r => r_gen r | None => 0%Z end) (if o_has o then o_gen o else 0%Z).

(* the phase condition as the property states it (necessary for Successful) *)
Definition m_holds (c : cond) (r : option (rec nat)) (o : cobs) : bool :=
  match c with
  | AllCurrent => m_is o KCurrent && m_fresh r o && negb (m_replaced r o)
  | AllNotFound => m_is o KNotFound || m_replaced r o
  end.
(* ... and in the form that is also sufficient (freshness is vacuous for the
   records AddSuccessfulDelete writes, whose generation is 0) *)
Definition m_holds_suff (c : cond) (r : option (rec nat)) (o : cobs) : bool :=
  match c with
  | AllCurrent => m_is o KCurrent && m_fresh r o && negb (m_replaced r o)
  | AllNotFound => m_replaced r o || (m_is o KNotFound && m_fresh r o)
  end.

(* actuation failed or skipped, for the strategy the phase waits for *)
Definition m_act_skipped (c : cond) (r : option (rec nat)) : bool :=
  match r with
  | None => false
  | Some r =>
      strategy_eqb (r_str r) (match c with AllCurrent => SApply | AllNotFound => SDelete end)
      && (actuation_eqb (r_act r) AFailed || actuation_eqb (r_act r) ASkipped)
  end.
Definition m_act_bad (r : option (rec nat)) : bool :=
  match r with
  | None => false
  | Some r => actuation_eqb (r_act r) AFailed || actuation_eqb (r_act r) ASkipped
  end.

Fixpoint m_last (evs : list (nat * wstatus)) (i : nat) (acc : option wstatus) : option wstatus :=
  match evs with
  | [] => acc
  | (j, w) :: t => m_last t i (if Nat.eqb j i then Some w else acc)
  end.
Definition m_last_is (evs : list (nat * wstatus)) (i : nat) (w : wstatus) : bool :=
  match m_last evs i None with Some w' => wstatus_eqb w w' | None => false end.

Definition count_ev (i : nat) (evs : list (nat * wstatus)) : nat :=
  List.length (filter (fun e => Nat.eqb (fst e) i) evs).

Definition none_pending (ids : list nat) (past : list (nat * wstatus)) : bool :=
  forallb (fun i => negb (m_last_is past i WPending)) ids.

(* every Successful event is justified by the latest observation *)
Definition m_success_sound (c : cond) (tbl : list (rec nat)) (ca : list (nat * cobs))
           (e : list (nat * wstatus)) : bool :=
  forallb (fun ev => negb (wstatus_eqb (snd ev) WSuccessful)
                     || m_holds c (m_rec tbl (fst ev)) (m_obs ca (fst ev))) e.

(* every Pending or Failed event is justified as well *)
Definition m_nonsuccess_sound (c : cond) (tbl : list (rec nat)) (ca : list (nat * cobs))
           (e : list (nat * wstatus)) : bool :=
  forallb (fun ev => negb (wstatus_eqb (snd ev) WPending || wstatus_eqb (snd ev) WFailed)
                     || negb (m_holds_suff c (m_rec tbl (fst ev)) (m_obs ca (fst ev)))) e.

Definition m_start (c : cond) (ids : list nat) (tbl : list (rec nat)) (ca : list (nat * cobs))
           (e : list (nat * wstatus)) : bool :=
  forallb (fun ev => inb (fst ev) ids) e
  && forallb (fun i => Nat.eqb (count_ev i e) 1) ids
  && m_success_sound c tbl ca e
  && m_nonsuccess_sound c tbl ca e
  && forallb (fun ev => negb (wstatus_eqb (snd ev) WTimeout)) e
  (* failed / skipped actuation <-> Skipped *)
  && forallb (fun i => negb (m_act_skipped c (m_rec tbl i)) || m_last_is e i WSkipped) ids
  && forallb (fun ev => negb (wstatus_eqb (snd ev) WSkipped) || m_act_bad (m_rec tbl (fst ev))) e.

Definition m_update (c : cond) (ids : list nat) (tbl : list (rec nat)) (ca : list (nat * cobs))
           (past : list (nat * wstatus)) (i : nat) (e : list (nat * wstatus)) : bool :=
  let r := m_rec tbl i in
  let o := m_obs ca i in
  Nat.leb (List.length e) 1
  && forallb (fun ev => Nat.eqb (fst ev) i && inb i ids
                        && (wstatus_eqb (snd ev) WPending || wstatus_eqb (snd ev) WSuccessful
                            || wstatus_eqb (snd ev) WFailed)) e
  && m_success_sound c tbl ca e
  (* skipped objects never produce another event *)
  && (negb (m_last_is past i WSkipped) || nil_b e)
  (* reported failed, condition holds now -> reported reconciled *)
  && (negb (m_last_is past i WFailed && m_holds_suff c r o) || list_eqb ev_eqb e [(i, WSuccessful)])
  (* still pending (or timed out), condition holds now -> reported reconciled *)
  && (negb ((m_last_is past i WPending || m_last_is past i WTimeout) && inb i ids && m_holds_suff c r o)
      || list_eqb ev_eqb e [(i, WSuccessful)])
  (* reported reconciled, condition no longer holds -> reported pending again
     (failed when an applied object was replaced) *)
  && (negb (m_last_is past i WSuccessful && negb (m_holds_suff c r o))
      || list_eqb ev_eqb e [(i, if is_current c && m_replaced r o then WFailed else WPending)])
  (* Pending / Failed are reported only while the condition does not hold *)
  && m_nonsuccess_sound c tbl ca e
  (* an event reports a CHANGE: an object last reported reconciled is not reported
     reconciled again, one last reported pending not pending again (a consumer that
     counts reconciled objects would count it twice) *)
  && (negb (m_last_is past i WSuccessful) || forallb (fun ev => negb (wstatus_eqb (snd ev) WSuccessful)) e)
  && (negb (m_last_is past i WPending) || forallb (fun ev => negb (wstatus_eqb (snd ev) WPending)) e).

Definition m_timeout (ids : list nat) (past : list (nat * wstatus)) (ended : bool)
           (e : list (nat * wstatus)) : bool :=
  if ended then nil_b e
  else
    nodup_nat (map fst e)
    && forallb (fun ev => wstatus_eqb (snd ev) WTimeout && inb (fst ev) ids
                          && m_last_is past (fst ev) WPending) e
    && forallb (fun i => negb (m_last_is past i WPending) || inb i (map fst e)) ids.

(* walks the inputs together with the observed per-step events; returns
   (all step checks hold, the phase has ended, all events in order) *)
Fixpoint m_steps (c : cond) (ids : list nat) (tbl : list (rec nat)) (ca : list (nat * cobs))
         (past : list (nat * wstatus)) (ended : bool)
         (ins : list (input nat)) (evs : list (list (nat * wstatus)))
  : bool * bool * list (nat * wstatus) :=
  match ins, evs with
  | [], [] => (true, ended, past)
  | x :: ins', e :: evs' =>
      match x with
      | Start => (false, ended, past)
      | Update i o =>
          let ca' := (i, o) :: ca in
          let past' := past ++ e in
          let ok := m_update c ids tbl ca' past i e in
          let '(ok', en, all) := m_steps c ids tbl ca' past' (ended || none_pending ids past') ins' evs' in
          (ok && ok', en, all)
      | Timeout =>
          let ok := m_timeout ids past ended e in
          let '(ok', en, all) := m_steps c ids tbl ca (past ++ e) true ins' evs' in
          (ok && ok', en, all)
      | Cancel =>
          let '(ok', en, all) := m_steps c ids tbl ca past true ins' evs' in
          (nil_b e && ok', en, all)
      end
  | _, _ => (false, ended, past)
  end.

Definition same_actuation (a b : rec nat) : bool :=
  Nat.eqb (r_id a) (r_id b) && strategy_eqb (r_str a) (r_str b) && actuation_eqb (r_act a) (r_act b)
  && N.eqb (r_uid a) (r_uid b) && Z.eqb (r_gen a) (r_gen b).

(* final table: reconcile status = last event for the ids of the task;
   nothing else changed anywhere *)
Definition m_final (ids : list nat) (tbl : list (rec nat)) (all : list (nat * wstatus))
           (final : list (nat * option (rec nat))) : bool :=
  forallb (fun i => inb i (map fst final)) ids
  && forallb (fun p =>
       let i := fst p in
       match snd p, m_rec tbl i with
       | None, None => true
       | Some r, Some r0 =>
           same_actuation r r0
           && (if inb i ids
               then match m_last all i None with
                    | Some w => reconcile_eqb (r_rec r) (rec_of w)
                    | None => false
                    end
               else reconcile_eqb (r_rec r) (r_rec r0))
       | _, _ => false
       end) final
  && forallb (fun i => match m_last all i None with Some _ => true | None => false end) ids.

Definition monitor (k : c06case) : bool :=
  match k with
  | WCase c ids tbl cache0 inputs events final completed panicked =>
      negb panicked &&
      match events with
      | [] => false
      | e0 :: evs =>
          let ca := rev cache0 in
          let '(ok, ended, all) := m_steps c ids tbl ca e0 (none_pending ids e0) inputs evs in
          m_start c ids tbl ca e0 && ok && Bool.eqb completed ended && m_final ids tbl all final
      end
  end.

Definition check (k : c06case) : nat := code (agree k) (monitor k).
