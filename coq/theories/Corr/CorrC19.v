(* Correspondence and monitor for C19 over nat identifiers. *)
From Coq Require Import List Bool Arith NArith ZArith String.
From CliUtils Require Import Corr.CorrLib Model.ObjSet Model.ActuationTable.
Import ListNotations.

Inductive setcase :=
| SUnion (a b out : list nat) (unchanged panicked : bool)
| SInter (a b out : list nat) (unchanged panicked : bool)
| SDiff (a b out : list nat) (unchanged panicked : bool)
| SEqual (a b : list nat) (out out2 unchanged panicked : bool)
| SHash (a b : list nat) (ha hb : N) (unchanged panicked : bool)
| SContains (a : list nat) (x : nat) (out unchanged panicked : bool)
| SUnique (a out_sorted : list nat) (unchanged panicked : bool)
| SRemove (a : list nat) (x : nat) (out : list nat) (panicked : bool)
| SStringMap (a out_sorted : list nat) (err unchanged panicked : bool).

Definition nl_eqb := list_eqb Nat.eqb.
Definition inb (x : nat) (l : list nat) := existsb (Nat.eqb x) l.

(* monitors: the property itself, stated on the implementation's output,
   independent of the order the model happens to produce *)
Definition mon_binop (spec : bool -> bool -> bool) (a b out : list nat) : bool :=
  nodup_nat out &&
  forallb (fun x => Bool.eqb (inb x out) (spec (inb x a) (inb x b))) (a ++ b ++ out).

Fixpoint count_nat (x : nat) (l : list nat) : nat :=
  match l with [] => 0 | h :: t => (if Nat.eqb h x then 1 else 0) + count_nat x t end.

Definition check_set (strtab : list (nat * string)) (c : setcase) : nat :=
  let str := assoc_str strtab in
  match c with
  | SUnion a b out u p =>
      code (nl_eqb (union Nat.eqb a b) out) (negb p && u && mon_binop orb a b out)
  | SInter a b out u p =>
      code (nl_eqb (intersection Nat.eqb a b) out) (negb p && u && mon_binop andb a b out)
  | SDiff a b out u p =>
      code (nl_eqb (diff Nat.eqb a b) out)
           (negb p && u && mon_binop (fun x y => x && negb y) a b out)
  | SEqual a b out out2 u p =>
      code (Bool.eqb (equal Nat.eqb a b) out && Bool.eqb out out2)
           (negb p && u && Bool.eqb out (set_eq_nat a b) && Bool.eqb out2 out)
  | SHash a b ha hb u p =>
      code (N.eqb (hash Nat.eqb str a) ha && N.eqb (hash Nat.eqb str b) hb)
           (negb p && u && (negb (set_eq_nat a b) || N.eqb ha hb))
  | SContains a x out u p =>
      code (Bool.eqb (contains Nat.eqb a x) out) (negb p && u && Bool.eqb out (inb x a))
  | SUnique a out u p =>
      code (nl_eqb (sort_nat (unique Nat.eqb a)) out)
           (negb p && u && nodup_nat out && set_eq_nat out a)
  | SRemove a x out p =>
      code (nl_eqb (remove Nat.eqb a x) out)
           (negb p &&
            forallb (fun y => Nat.eqb (count_nat y out)
                                (count_nat y a - (if Nat.eqb x y then 1 else 0))) (x :: a ++ out))
  | SStringMap a out err u p =>
      (* the universe has no id that cannot be stored, so the round trip must
         succeed and give back the same set *)
      code (negb err && nl_eqb (sort_nat (unique Nat.eqb a)) out)
           (negb p && u && negb err && nodup_nat out && set_eq_nat out a)
  end.

(* ---- table ------------------------------------------------------------- *)
Definition strategy_eq := strategy_eqb.
Definition obs_eqb (a b : obs nat) : bool :=
  match a, b with
  | ObUnit, ObUnit => true
  | ObErr x, ObErr y => Bool.eqb x y
  | ObBool x, ObBool y => Bool.eqb x y
  | ObIds x, ObIds y => nl_eqb x y
  | ObUid u x, ObUid v y => N.eqb u v && Bool.eqb x y
  | ObGen g x, ObGen h y => Z.eqb g h && Bool.eqb x y
  | ObUids x, ObUids y => list_eqb N.eqb (nodup_sorted_N (sort_N x)) (nodup_sorted_N (sort_N y))
  | ObStatus f s a r u g, ObStatus f' s' a' r' u' g' =>
      Bool.eqb f f' && strategy_eqb s s' && actuation_eqb a a' && reconcile_eqb r r'
      && N.eqb u u' && Z.eqb g g'
  | ObPanic, ObPanic => true
  | _, _ => false
  end.

(* order-insensitive comparison for the monitor *)
Definition obs_sim (a b : obs nat) : bool :=
  match a, b with
  | ObIds x, ObIds y => nodup_nat y && set_eq_nat x y
  | _, _ => obs_eqb a b
  end.

(* monitor: replay a map-based specification (association list: newest
   binding first, lookups take the first match) against the observations *)
Definition smap := list (nat * rec nat).
Fixpoint sm_get (m : smap) (i : nat) : option (rec nat) :=
  match m with
  | [] => None
  | (k, r) :: t => if Nat.eqb k i then Some r else sm_get t i
  end.
Fixpoint sm_keys (m : smap) (seen : list nat) : list nat :=
  match m with
  | [] => []
  | (k, _) :: t => if inb k seen then sm_keys t seen else k :: sm_keys t (k :: seen)
  end.
Definition sm_filter (m : smap) (f : rec nat -> bool) : list nat :=
  filter (fun k => match sm_get m k with Some r => f r | None => false end) (sm_keys m []).

Definition spec_obs (m : smap) (o : op nat) : smap * obs nat :=
  match o with
  | OpAdd i s a u g => ((i, mkRec i s a RPending u g) :: m, ObUnit)
  | OpSetRec i s =>
      match sm_get m i with
      | Some r => ((i, mkRec i (r_str r) (r_act r) s (r_uid r) (r_gen r)) :: m, ObErr false)
      | None => (m, ObErr true)
      end
  | OpIsAct i s a =>
      (m, ObBool match sm_get m i with
                 | Some r => strategy_eqb (r_str r) s && actuation_eqb (r_act r) a
                 | None => false end)
  | OpIsRec i s =>
      (m, ObBool match sm_get m i with Some r => reconcile_eqb (r_rec r) s | None => false end)
  | OpListAct s a =>
      (m, ObIds (sm_filter m (fun r => strategy_eqb (r_str r) s && actuation_eqb (r_act r) a)))
  | OpListRec s => (m, ObIds (sm_filter m (fun r => reconcile_eqb (r_rec r) s)))
  | OpUid i =>
      (m, match sm_get m i with
          | Some r => ObUid (r_uid r) (strategy_eqb (r_str r) SApply && actuation_eqb (r_act r) ASucceeded)
          | None => ObUid 0%N false end)
  | OpGen i => (m, match sm_get m i with Some r => ObGen (r_gen r) true | None => ObGen 0%Z false end)
  | OpUids =>
      (m, ObUids (map (fun k => match sm_get m k with Some r => r_uid r | None => 0%N end)
                      (sm_filter m (fun r => strategy_eqb (r_str r) SApply
                                             && actuation_eqb (r_act r) ASucceeded
                                             && negb (N.eqb (r_uid r) 0)))))
  | OpStatus i =>
      (m, match sm_get m i with
          | Some r => ObStatus true (r_str r) (r_act r) (r_rec r) (r_uid r) (r_gen r)
          | None => ObStatus false SApply APending RPending 0%N 0%Z end)
  end.

Fixpoint mon_table (m : smap) (ops : list (op nat)) (obsv : list (obs nat)) : bool :=
  match ops, obsv with
  | [], [] => true
  | o :: ops', ob :: obsv' =>
      let '(m', exp) := spec_obs m o in
      obs_sim exp ob && mon_table m' ops' obsv'
  | _, _ => false
  end.

Definition check_table (c : list (op nat) * list (obs nat)) : nat :=
  let '(ops, observed) := c in
  code (list_eqb obs_eqb (snd (run Nat.eqb [] ops)) observed)
       (mon_table [] ops observed).
