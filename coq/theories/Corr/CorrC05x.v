(* C05, extra monitor conjunct of the check (seed C05h): a delete of j that the API server REJECTED, with no accepted
   delete of j anywhere in the run, is never reported as a successful prune/delete of j.  (Otherwise the dependents gate
   of DependencyFilter, which reads these results, lets the dependencies of j go while j is still there: the concrete
   history is corpus section "every error kind" with a 409 on the DELETE.)  Evaluated on the implementation's trace and
   on the model's; monitor-only: not yet a theorem of the model (a rejected delete emits AFail there by construction of
   prune_one).  Kept in its own file so that Corr/CorrPipeline.v and the proofs about mon_C05 are untouched. *)
From Coq Require Import List Bool Arith.
From CliUtils Require Import Model.PipelineTypes Model.Pipeline Corr.CorrPipeline.
Import ListNotations.

Definition c05_rejected_delete (t : list item) : bool :=
  forallb (fun it =>
    match it with
    | IReq (RDelete j _ _) false _ _ =>
        existsb (fun it' => match it' with IReq (RDelete j' _ _) true _ _ => Nat.eqb j j' | _ => false end) t
        || negb (existsb (fun it' => match it' with IEv (EPrune _ j' AOk) => Nat.eqb j j' | _ => false end) t)
    | _ => true
    end) t.

Definition check_C05x := check_with (fun sc c0 out => mon_C05 sc c0 out && c05_rejected_delete (out_trace out)).
