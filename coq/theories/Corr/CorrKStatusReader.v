(* Reader-level correspondence shared by the C07 / C08 / C09 checks: the real
   statusreaders.NewDefaultStatusReader(mapper) over an in-memory cluster
   against Model/KStatusReader.v.

   agree   = the model's ResourceStatus tree equals the observed one
             (identifier, status, Error set, message origin, generated
             resources in order, recursively), for ReadStatusForObject and,
             where taken, ReadStatus by identifier; and status.Compute called
             directly on the same object equals the Compute model.
   monitor = the property at the reader, evaluated on the observations and on
             the input tree, written without the reader model (`read`):
             one monitor per property. *)
From Coq Require Import List Bool Arith ZArith String.
From CliUtils Require Import Corr.CorrLib Base.Json Model.KStatus Model.KStatusReader Corr.CorrKStatus.
Import ListNotations.
Local Open Scope string_scope.

(* ResourceStatus.Message as the harness classifies it: equal to the message
   status.Compute gives for the same object | "<n> pods have failed" |
   "Resource not found" | "" with Error set | anything else *)
Inductive omsg := OMCompute | OMPodsFailed (n : nat) | OMNotFound | OMEmpty | OMOther.

Inductive robs :=
| ROPanic                      (* recover() caught a panic *)
| ROBad                        (* (nil, nil), (result, err) together, or (nil, err) with an ordinary error *)
| RONil                        (* (nil, err) with a context error *)
| RORes (id : rid) (st : string) (err : bool) (msg : omsg) (gen : list robs).

(* tree handed to the reader (with the harness-supplied sel / lst / kids),
   status.Compute called directly on the top object, ReadStatusForObject,
   ReadStatus by identifier (lookup outcome, identifier asked for, result),
   input unchanged, all calls equal, Resource field = the object passed in *)
Inductive rcase :=
  RC (n : node) (direct : obs) (o : robs) (byid : option (lerr * rid * robs))
     (unchanged same resok : bool).

Definition rid_eqb (a b : rid) : bool :=
  let '(a1, a2, a3, a4) := a in
  let '(b1, b2, b3, b4) := b in
  String.eqb a1 b1 && String.eqb a2 b2 && String.eqb a3 b3 && String.eqb a4 b4.

Definition omsg_eqb (a b : omsg) : bool :=
  match a, b with
  | OMCompute, OMCompute | OMNotFound, OMNotFound | OMEmpty, OMEmpty => true
  | OMPodsFailed n, OMPodsFailed m => Nat.eqb n m
  | _, _ => false              (* OMOther equals nothing *)
  end.

Fixpoint robs_eqb (a b : robs) : bool :=
  match a, b with
  | ROPanic, ROPanic | ROBad, ROBad | RONil, RONil => true
  | RORes i s e m g, RORes i' s' e' m' g' =>
      rid_eqb i i' && String.eqb s s' && Bool.eqb e e' && omsg_eqb m m' &&
      (fix go (l l' : list robs) : bool :=
         match l, l' with
         | [], [] => true
         | x :: t, y :: t' => robs_eqb x y && go t t'
         | _, _ => false
         end) g g'
  | _, _ => false
  end.

Definition omsg_of (m : rmsg) : omsg :=
  match m with
  | MsgCompute => OMCompute | MsgPodsFailed n => OMPodsFailed n
  | MsgNotFound => OMNotFound | MsgEmpty => OMEmpty
  end.

Fixpoint robs_of_rres (r : rres) : robs :=
  match r with
  | RRes id s e m gen => RORes id (status_name s) e (omsg_of m) (map robs_of_rres gen)
  end.
Definition robs_of (r : option rres) : robs :=
  match r with Some r => robs_of_rres r | None => RONil end.

Definition agree_reader (c : rcase) : bool :=
  let '(RC n direct o byid _ _ _) := c in
  let m := read_top n in
  obs_eqb (obs_of_outcome (compute (node_obj n) (node_w n))) direct &&
  robs_eqb (robs_of m) o &&
  match byid with
  | None => true
  | Some (lk, id, ob) => robs_eqb (robs_of (by_id lk id m)) ob
  end.

(* ---- monitors --------------------------------------------------------------- *)
Definition ro_ok (o : robs) : bool := match o with ROPanic | ROBad => false | _ => true end.

Definition byid_ok (b : option (lerr * rid * robs)) : bool :=
  match b with None => true | Some (_, _, ob) => ro_ok ob end.

(* the kinds whose reader lists generated resources before it calls Compute
   (written down here from default.go, independently of the model) *)
Definition lists_children (j : jv) : bool :=
  let '(g, k) := group_kind j in
  (g =? "apps") && ((k =? "Deployment") || (k =? "StatefulSet") || (k =? "ReplicaSet")).
Definition pod_controller (j : jv) : bool :=
  let '(g, k) := group_kind j in
  (g =? "apps") && ((k =? "StatefulSet") || (k =? "ReplicaSet")).

(* the generated-resources step cannot have failed *)
Definition listing_passed (n : node) : bool :=
  let '(Node j _ sel lst _) := n in
  negb (lists_children j) || (sel && match lst with LOk => true | _ => false end).

Definition deleting (j : jv) : bool :=
  match nested_string j p_deletion with
  | Found s => negb (s =? "")
  | _ => false
  end.

Definition gen_failed (o : robs) : bool :=
  match o with RORes _ st _ _ _ => st =? "Failed" | _ => false end.

(* C07 at the reader: a deletion timestamp yields Terminating whatever the
   kind and whatever the pods; every other answer of Compute is handed on,
   the one documented exception being InProgress on a ReplicaSet /
   StatefulSet with a Failed pod, which becomes Failed *)
Definition mon_one_C07 (n : node) (direct : obs) (o : robs) : bool :=
  match o with
  | RORes _ st err _ gen =>
      if listing_passed n then
        (if deleting (node_obj n) then (st =? "Terminating") && negb err else true) &&
        match direct with
        | OOk s _ =>
            negb err &&
            (if (s =? "InProgress") && pod_controller (node_obj n) && existsb gen_failed gen
             then st =? "Failed" else st =? s)
        | OErr => true
        | OPanic => false
        end
      else true
  | RONil => true
  | _ => false
  end.

Definition mon_reader_C07 (c : rcase) : bool :=
  let '(RC n direct o byid _ _ _) := c in
  ro_ok o && byid_ok byid && mon_one_C07 n direct o &&
  match byid with
  | Some (LOk, _, ob) => mon_one_C07 n direct ob
  | _ => true
  end.

(* C08 at the reader: Current is never reported unless Compute says Current
   for the object itself (so the no-lag rule carries over) *)
Definition mon_one_C08 (direct : obs) (o : robs) : bool :=
  match o with
  | RORes _ st _ _ _ => if st =? "Current" then obs_eqb direct (OOk "Current" []) else true
  | RONil => true
  | _ => false
  end.

Definition mon_reader_C08 (c : rcase) : bool :=
  let '(RC n direct o byid _ _ _) := c in
  ro_ok o && byid_ok byid && mon_one_C08 direct o &&
  match byid with
  | Some (LOk, _, ob) => mon_one_C08 direct ob
  | _ => true
  end.

(* C09 at the reader: a result or an error, never a panic; a known status;
   the Error field set exactly on Unknown (at every level); a Compute error
   yields Unknown with the error, and so does an unusable selector or a failed
   list call (NotFound for an IsNotFound answer); (nil, err) only for a context
   error; input untouched; equal answers for equal inputs *)
Definition known_status (st : string) : bool :=
  existsb (String.eqb st) ["InProgress"; "Failed"; "Current"; "Terminating"; "NotFound"; "Unknown"].

Fixpoint wf_robs (o : robs) : bool :=
  match o with
  | RORes _ st err _ gen =>
      known_status st && Bool.eqb err (st =? "Unknown") && forallb wf_robs gen
  | _ => false
  end.

(* how the generated-resources step of this object's reader ends *)
Definition listing_class (n : node) : lerr :=
  let '(Node j _ sel lst _) := n in
  if negb (lists_children j) then LOk else if negb sel then LErr else lst.

Definition mon_one_C09 (n : node) (direct : obs) (o : robs) : bool :=
  match listing_class n with
  | LOk =>
      match o with
      | RORes _ st err _ _ =>
          wf_robs o &&
          match direct with
          | OErr => (st =? "Unknown") && err
          | OOk _ _ => negb err
          | OPanic => false
          end
      | RONil => ctx_in n          (* a context error further down *)
      | _ => false
      end
  | LErr =>                        (* unusable selector / failed list call: surfaced, not swallowed *)
      match o with
      | RORes _ st err _ _ => wf_robs o && (st =? "Unknown") && err
      | _ => false
      end
  | LNotFound =>
      match o with
      | RORes _ st err _ _ => (st =? "NotFound") && negb err
      | _ => false
      end
  | LCtx => robs_eqb o RONil
  end.

Definition mon_reader_C09 (c : rcase) : bool :=
  let '(RC n direct o byid unchanged same resok) := c in
  ro_ok o && byid_ok byid && unchanged && same && resok && mon_one_C09 n direct o &&
  match byid with
  | None => true
  | Some (LOk, _, ob) => mon_one_C09 n direct ob
  | Some (LNotFound, id, ob) => robs_eqb ob (RORes id "NotFound" false OMNotFound [])
  | Some (LErr, id, ob) => robs_eqb ob (RORes id "Unknown" true OMEmpty [])
  | Some (LCtx, _, ob) => robs_eqb ob RONil
  end.

Definition check_reader_C07 (c : rcase) : nat := code (agree_reader c) (mon_reader_C07 c).
Definition check_reader_C08 (c : rcase) : nat := code (agree_reader c) (mon_reader_C08 c).
Definition check_reader_C09 (c : rcase) : nat := code (agree_reader c) (mon_reader_C09 c).
