(* C07 correspondence.
   Compute cases: model = implementation; monitor = the precedence rules of
   the property evaluated on the implementation's observation, written
   without the model's `compute`.
   Augment cases: model output tree = observed output tree (key order
   normalised); monitor = frame + stability on the observed trees. *)
From Coq Require Import List Bool ZArith String.
From CliUtils Require Import Corr.CorrLib Base.Json Model.KStatus Corr.CorrKStatus.
Import ListNotations.
Local Open Scope string_scope.

(* ---- structural equality and key-order normalisation -------------------- *)
Fixpoint jv_eqb (a b : jv) : bool :=
  match a, b with
  | JNull, JNull => true
  | JBool x, JBool y => Bool.eqb x y
  | JInt x, JInt y => Z.eqb x y
  | JFloat m e, JFloat m' e' => Z.eqb m m' && Z.eqb e e'
  | JStr x, JStr y => String.eqb x y
  | JArr l, JArr l' =>
      (fix go (l : list jv) (l' : list jv) : bool :=
         match l, l' with
         | [], [] => true
         | x :: t, y :: t' => jv_eqb x y && go t t'
         | _, _ => false
         end) l l'
  | JObj kv, JObj kv' =>
      (fix go (kv : list (string * jv)) (kv' : list (string * jv)) : bool :=
         match kv, kv' with
         | [], [] => true
         | (k, x) :: t, (k', y) :: t' => String.eqb k k' && jv_eqb x y && go t t'
         | _, _ => false
         end) kv kv'
  | _, _ => false
  end.

Fixpoint ins_kv (k : string) (v : jv) (l : list (string * jv)) : list (string * jv) :=
  match l with
  | [] => [(k, v)]
  | (k', v') :: t =>
      match String.compare k k' with
      | Gt => (k', v') :: ins_kv k v t
      | _ => (k, v) :: l
      end
  end.

Fixpoint norm (j : jv) : jv :=
  match j with
  | JArr l => JArr (map norm l)
  | JObj kv =>
      JObj ((fix go (kv : list (string * jv)) : list (string * jv) :=
               match kv with
               | [] => []
               | (k, v) :: t => ins_kv k (norm v) (go t)
               end) kv)
  | _ => j
  end.

Definition jv_same (a b : jv) : bool := jv_eqb (norm a) (norm b).

(* ---- monitor for Compute cases ------------------------------------------ *)
Definition has_status (o : obs) (st : string) : bool :=
  match o with OOk s _ => s =? st | _ => false end.

(* the kinds that have specific rules, as "group/kind" (written down here
   independently of the model's table) *)
Definition builtin_keys : list string :=
  ["Service"; "Pod"; "Secret"; "PersistentVolumeClaim"; "apps/StatefulSet"; "apps/DaemonSet";
   "extensions/DaemonSet"; "apps/Deployment"; "extensions/Deployment"; "apps/ReplicaSet";
   "extensions/ReplicaSet"; "policy/PodDisruptionBudget"; "batch/CronJob"; "ConfigMap"; "batch/Job";
   "apiextensions.k8s.io/CustomResourceDefinition"].

Definition true_std (c : bcond) : bool :=
  ((c_type c =? "Reconciling") || (c_type c =? "Stalled")) && (c_status c =? "True").
Definition decisive_ready (c : bcond) : bool :=
  (c_type c =? "Ready") &&
  ((c_status c =? "True") || (c_status c =? "False") || (c_status c =? "Unknown")).

Definition mon_conditions (input : jv) (o : obs) : bool :=
  match get_object_with_conditions input with
  | None => true
  | Some cs =>
      match find true_std cs with
      | Some c => if c_type c =? "Reconciling" then has_status o "InProgress" else has_status o "Failed"
      | None =>
          if existsb (String.eqb (kind_key input)) builtin_keys then true
          else
            match find decisive_ready cs with
            | Some c => if c_status c =? "True" then obs_eqb o (OOk "Current" [])
                        else has_status o "InProgress"
            | None => obs_eqb o (OOk "Current" [])
            end
      end
  end.

Definition mon_generation (input : jv) (o : obs) : bool :=
  match nested_int64 input p_generation with
  | AErr => true
  | Absent => mon_conditions input o
  | Found g =>
      match nested_int64 input p_observed with
      | AErr => true
      | Absent => mon_conditions input o
      | Found ob => if Z.eqb g ob then mon_conditions input o else has_status o "InProgress"
      end
  end.

Definition mon_C07 (c : kcase) : bool :=
  let '(KC input _ o _ _) := c in
  match o with
  | OPanic => false
  | _ =>
      match nested_string input p_deletion with
      | AErr => true
      | Absent => mon_generation input o
      | Found s => if s =? "" then mon_generation input o else obs_eqb o (OOk "Terminating" [])
      end
  end.

Definition check_C07 (c : kcase) : nat := code (agree_compute c) (mon_C07 c).

(* ---- Augment cases -------------------------------------------------------- *)
(* input, window, formatted time / reason / message seen in the output,
   Compute before, Augment's output tree (None = it returned an error),
   Compute on the output, panicked *)
Inductive acase :=
  AC (input : jv) (w : bool) (t rsn msg : string) (before : obs) (result : option jv)
     (after : obs) (panicked : bool).

Definition keys_of (j : jv) : list string :=
  match j with JObj kv => map fst kv | _ => [] end.
Definition field (j : jv) (k : string) : option jv :=
  match j with JObj kv => lookup k kv | _ => None end.
Definition fields_agree_except (skip : string) (a b : jv) : bool :=
  forallb (fun k => (k =? skip) || option_eqb jv_eqb (field a k) (field b k)) (keys_of a ++ keys_of b).

Definition sub_or_empty (j : jv) (k : string) : jv :=
  match field j k with Some v => v | None => JObj [] end.

Definition entry_type (c : jv) : option string :=
  match c with
  | JObj kv => match lookup "type" kv with Some (JStr s) => Some s | _ => None end
  | _ => None
  end.
Definition foreign (tys : list string) (c : jv) : bool :=
  match entry_type c with
  | Some s => negb (existsb (String.eqb s) tys)
  | None => true
  end.
Definition cond_items (j : jv) : list jv :=
  match field (sub_or_empty j "status") "conditions" with Some (JArr l) => l | _ => [] end.

Definition frame_ok (tys : list string) (input output : jv) : bool :=
  fields_agree_except "status" input output &&
  fields_agree_except "conditions" (sub_or_empty input "status") (sub_or_empty output "status") &&
  list_eqb jv_eqb (filter (foreign tys) (cond_items output)) (filter (foreign tys) (cond_items input)).

Definition obs_types (o : obs) : list string :=
  match o with OOk _ cs => map fst cs | _ => [] end.

Definition mon_augment (c : acase) : bool :=
  let '(AC input _ _ _ _ before result after panicked) := c in
  negb panicked &&
  match result with
  | None => true
  | Some out =>
      frame_ok (obs_types before) input out &&
      String.eqb (obs_status before) (obs_status after) &&
      match before with OOk _ _ => true | _ => false end
  end.

Definition agree_augment (c : acase) : bool :=
  let '(AC input w t rsn msg before result after _) := c in
  obs_eqb (obs_of_outcome (compute input w)) before &&
  match augment input w t rsn msg, result with
  | None, None => true
  | Some m, Some out => jv_same m out && obs_eqb (obs_of_outcome (compute out w)) after
  | _, _ => false
  end.

Definition check_C07_augment (c : acase) : nat := code (agree_augment c) (mon_augment c).
