(* Correspondence and monitors for C15 (identifier codecs). *)
From Coq Require Import List Bool Arith String Ascii.
From CliUtils Require Import Corr.CorrLib Base.Strings Model.IdCodec Model.DependsOnCodec.
Import ListNotations.
Local Open Scope string_scope.

(* strings with bytes outside printable ASCII are emitted in hex *)
Definition hexval (c : ascii) : nat :=
  let n := nat_of_ascii c in if Nat.leb 97 n then n - 87 else n - 48.
Fixpoint hx (s : string) : string :=
  match s with
  | String a (String b r) => String (ascii_of_nat (16 * hexval a + hexval b)) (hx r)
  | _ => EmptyString
  end.

(* a string printed as the concatenation of its tokens *)
Definition zc (l : list string) : string := fold_right append EmptyString l.

Definition res_eqb {A} (eqb : A -> A -> bool) (a b : result A) : bool :=
  match a, b with
  | Ok x, Ok y => eqb x y
  | Err, Err => true
  | _, _ => false
  end.
Definition is_ok {A} (a : result A) : bool := match a with Ok _ => true | Err => false end.

Definition ids_eqb := list_eqb oid_eqb.
Definition mem_id (i : oid) (l : list oid) := existsb (oid_eqb i) l.
Definition subset_id (a b : list oid) := forallb (fun x => mem_id x b) a.
Definition set_eq_id (a b : list oid) := subset_id a b && subset_id b a.
Fixpoint nodup_id (l : list oid) : bool :=
  match l with [] => true | x :: t => negb (mem_id x t) && nodup_id t end.
Fixpoint dedup_id (l : list oid) : list oid :=
  match l with [] => [] | x :: t => if mem_id x t then dedup_id t else x :: dedup_id t end.

(* results that are id sets: Go map order is unspecified *)
Definition res_set_eqb (a b : result (list oid)) : bool := res_eqb set_eq_id a b.

Definition pair_eqb (a b : string * string) := String.eqb (fst a) (fst b) && String.eqb (snd a) (snd b).
Definition mem_pair (p : string * string) (m : smap) := existsb (pair_eqb p) m.
Definition smap_eqb (a b : smap) : bool :=
  Nat.eqb (List.length a) (List.length b) && forallb (fun p => mem_pair p b) a && forallb (fun p => mem_pair p a) b.
Definition data_map (d : cmdata) : smap := match d with DMap m => m | _ => [] end.

Fixpoint nodup_str (l : list string) : bool :=
  match l with [] => true | x :: t => negb (existsb (String.eqb x) t) && nodup_str t end.

(* ---- one identifier through every codec ----------------------------------- *)
Record idobs := mkIdObs {
  ob_key : string;                 (* id.String() *)
  ob_parsed : result oid;          (* object.ParseObjMetadata(key) *)
  ob_smback : result (list oid);   (* FromStringMap({id}.ToStringMap()) *)
  ob_store_err : bool;             (* WrapInventoryObj(template).Store({id}, nil) *)
  ob_written : smap;               (* GetObject() data *)
  ob_loaded : result (list oid);   (* WrapInventoryObj(written).Load() *)
  ob_dfmt : result string;         (* dependson.FormatObjMetadata(id) *)
  ob_dparsed : result oid;         (* dependson.ParseObjMetadata(that), Err if no string *)
  ob_dset : result (list oid)      (* ParseDependencySet(FormatDependencySet({id})) *)
}.

Definition model_idobs (i : oid) : idobs :=
  let (c', err) := cm_store (wrap DAbsent) [i] [] in
  let d := cm_get_object c' in
  mkIdObs (string_of_id i) (parse_id (string_of_id i))
          (from_string_map (to_string_map [i]))
          err (data_map d) (cm_load (wrap d))
          (format_dep i)
          (match format_dep i with Ok s => parse_dep s | Err => Err end)
          (match format_dep_set [i] with Ok s => parse_dep_set s | Err => Err end).

Definition idobs_eqb (a b : idobs) : bool :=
  String.eqb (ob_key a) (ob_key b) && res_eqb oid_eqb (ob_parsed a) (ob_parsed b)
  && res_set_eqb (ob_smback a) (ob_smback b)
  && Bool.eqb (ob_store_err a) (ob_store_err b) && smap_eqb (ob_written a) (ob_written b)
  && res_set_eqb (ob_loaded a) (ob_loaded b)
  && res_eqb String.eqb (ob_dfmt a) (ob_dfmt b) && res_eqb oid_eqb (ob_dparsed a) (ob_dparsed b)
  && res_set_eqb (ob_dset a) (ob_dset b).

(* the property, stated on the implementation's observation.  `clean` ids
   (no '_' in any field) must be accepted and read back; any id must be
   rejected with nothing written, or read back exactly. *)
Definition mon_id (i : oid) (o : idobs) : bool :=
  let clean := id_wf i in
  (negb clean || (res_eqb oid_eqb (ob_parsed o) (Ok i) && res_eqb ids_eqb (ob_smback o) (Ok [i])
                  && negb (ob_store_err o)))
  (* the key of an RBAC-kind identifier carries no ':' (not a legal ConfigMap key character) *)
  && (negb (is_rbac (o_grp i) (o_knd i)) || contains ":" (o_ns i) || negb (contains ":" (ob_key o)))
  (* FromStringMap of the one-key map: an error, or exactly one identifier (the key is never
     dropped silently), and then what ParseObjMetadata reads of that key *)
  && match ob_smback o with
     | Ok l => match ob_parsed o with Ok j => ids_eqb l [j] | Err => false end
     | Err => negb (is_ok (ob_parsed o))
     end
  && (if ob_store_err o
      then match ob_written o with [] => true | _ => false end
      else list_eqb String.eqb (map fst (ob_written o)) [ob_key o]
           && res_eqb ids_eqb (ob_loaded o) (Ok [i]))
  && match ob_dfmt o with
     | Ok _ => res_eqb oid_eqb (ob_dparsed o) (Ok i) && res_eqb ids_eqb (ob_dset o) (Ok [i])
     | Err => String.eqb (o_name i) "" || String.eqb (o_knd i) ""
     end.

Inductive idcase := CName (i : oid) (o : idobs).

Definition check_id (c : idcase) : nat :=
  match c with CName i o => code (idobs_eqb (model_idobs i) o) (mon_id i o) end.

(* ---- inventories: a sequence of Store calls on one wrapper ------------------ *)
Record storestep := mkStep {
  st_ids : list oid;
  st_status : list (oid * string);
  st_err : bool;                   (* Store returned an error *)
  st_written : smap;               (* GetObject() data after the call *)
  st_loaded : result (list oid)    (* fresh wrapper around that object, Load() *)
}.

Inductive invcase :=
| CStore (prior : cmdata) (prior_loaded : result (list oid)) (steps : list storestep)
| CStringMap (ids : list oid) (keys : list string) (back : result (list oid))
| CIdParse (s : string) (parsed : result oid) (restr : result string) (reparsed : result oid).

Fixpoint model_steps (c : cm) (steps : list storestep) : bool :=
  match steps with
  | [] => true
  | s :: t =>
      let (c', err) := cm_store c (st_ids s) (st_status s) in
      let d := cm_get_object c' in
      Bool.eqb err (st_err s) && smap_eqb (data_map d) (st_written s)
      && res_set_eqb (cm_load (wrap d)) (st_loaded s)
      && model_steps c' t
  end.

(* monitor: an accepted Store is read back exactly (same set, one key per
   distinct id); a rejected Store leaves what would be written unchanged *)
Fixpoint mon_steps (prev : smap) (steps : list storestep) : bool :=
  match steps with
  | [] => true
  | s :: t =>
      (if st_err s then smap_eqb prev (st_written s)
       else match st_loaded s with
            | Ok l => set_eq_id l (st_ids s) && nodup_id l
                      && Nat.eqb (List.length (st_written s)) (List.length (dedup_id (st_ids s)))
                      && nodup_str (map fst (st_written s))
            | Err => false
            end)
      && (negb (forallb id_wf (st_ids s)) || negb (st_err s))
      && mon_steps (st_written s) t
  end.

(* loading what an earlier run left: absent data is the empty inventory, a
   data section that is not a string map is an error, and a map is either an
   error or accounts for every key (no key silently dropped) *)
Definition mon_prior (prior : cmdata) (pl : result (list oid)) : bool :=
  match prior, pl with
  | DAbsent, Ok [] => true
  | DAbsent, _ => false
  | DInvalid, Err => true
  | DInvalid, _ => false
  | DMap m, Ok l => Nat.eqb (List.length l) (List.length m)
  | DMap _, Err => true
  end.

Definition check_inv (c : invcase) : nat :=
  match c with
  | CStore prior pl steps =>
      code (res_set_eqb (cm_load (wrap prior)) pl && model_steps (wrap prior) steps)
           (mon_prior prior pl && mon_steps [] steps)
  | CStringMap ids keys back =>
      code (smap_eqb (to_string_map ids) (map (fun k => (k, "")) keys)
            && res_set_eqb (from_string_map (to_string_map ids)) back)
           ((negb (forallb id_wf ids) ||
             match back with Ok l => set_eq_id l ids && nodup_id l | Err => false end)
            (* any set: an error, or one identifier per key of the map *)
            && match back with Ok l => Nat.eqb (List.length l) (List.length keys) | Err => true end)
  | CIdParse s parsed restr reparsed =>
      code (res_eqb oid_eqb (parse_id s) parsed
            && res_eqb String.eqb (match parsed with Ok i => Ok (string_of_id i) | Err => Err end) restr
            && res_eqb oid_eqb (match restr with Ok k => parse_id k | Err => Err end) reparsed)
           (* whatever is read from a key is an id that can be written and read again *)
           (match parsed with
            | Ok i => id_wf i && res_eqb oid_eqb reparsed (Ok i)
            | Err => true
            end)
  end.

(* ---- depends-on -------------------------------------------------------------- *)
Inductive depcase :=
(* Format then Parse of pl ++ formatted ++ pr.  `enc` (computed by the harness
   from the fields alone) = the reference can be encoded: kind and name not
   empty, no '/' or ',' in any field, and neither a group starting nor a name
   ending with white space. *)
| CDep (enc : bool) (i : oid) (pl pr : string) (fmt : result string) (parsed : result oid)
(* Parse of an arbitrary string, then Format of the result; trimmed = strings.TrimSpace(s) *)
| CDepParse (s trimmed : string) (parsed : result oid) (refmt : result string)
| CDepSet (enc : bool) (l : list (string * oid * string)) (fmt : result string) (parsed : result (list oid))
(* norm = the pieces of s trimmed and joined again *)
| CDepSetParse (s norm : string) (parsed : result (list oid)) (refmt : result string)
(* WriteAnnotation on an empty object, then ReadAnnotation of it; and of an object without the annotation *)
| CAnnot (enc : bool) (l : list oid) (written : result string) (read : result (list oid)) (read_absent : result (list oid)).

Definition render (x : string * oid * string) : result string :=
  match x with (pl, i, pr) => match format_dep i with Ok s => Ok (pl ++ s ++ pr) | Err => Err end end.
Fixpoint render_all (l : list (string * oid * string)) : result (list string) :=
  match l with
  | [] => Ok []
  | x :: t => match render x with
              | Err => Err
              | Ok s => match render_all t with Err => Err | Ok ss => Ok (s :: ss) end
              end
  end.
Definition snd3 (x : string * oid * string) : oid := snd (fst x).

(* monitors: Format is "rejected, or round trip" for every reference, and it
   rejects exactly the references that cannot be encoded; whatever Parse
   accepts is given back by Format (unless it contains the set separator) *)
Definition check_dep (c : depcase) : nat :=
  match c with
  | CDep enc i pl pr fmt parsed =>
      code (res_eqb String.eqb (format_dep i) fmt
            && res_eqb oid_eqb (match fmt with Ok s => parse_dep (pl ++ s ++ pr) | Err => Err end) parsed)
           (Bool.eqb (is_ok fmt) enc
            && match fmt with Ok _ => res_eqb oid_eqb parsed (Ok i) | Err => true end)
  | CDepParse s trimmed parsed refmt =>
      code (String.eqb (trim_space s) trimmed && res_eqb oid_eqb (parse_dep s) parsed
            && res_eqb String.eqb (match parsed with Ok i => format_dep i | Err => Err end) refmt)
           (match parsed with
            | Ok i => negb (String.eqb (o_knd i) "") && negb (String.eqb (o_name i) "")
                      && (if contains "," trimmed then negb (is_ok refmt)
                          else res_eqb String.eqb refmt (Ok trimmed))
            | Err => true
            end)
  | CDepSet enc l fmt parsed =>
      code (res_eqb String.eqb (match render_all l with Ok ss => Ok (join "," ss) | Err => Err end) fmt
            && res_eqb ids_eqb (match fmt with Ok s => parse_dep_set s | Err => Err end) parsed)
           (Bool.eqb (is_ok fmt) enc
            && match fmt with Ok _ => res_eqb ids_eqb parsed (Ok (map snd3 l)) | Err => true end)
  | CDepSetParse s norm parsed refmt =>
      code (res_eqb ids_eqb (parse_dep_set s) parsed
            && res_eqb String.eqb (match parsed with Ok l => format_dep_set l | Err => Err end) refmt)
           (match parsed with
            | Ok _ => res_eqb String.eqb refmt (Ok norm)
            | Err => true
            end)
  | CAnnot enc l written read read_absent =>
      code (res_eqb String.eqb (write_annotation l) written
            && res_eqb ids_eqb (match written with Ok s => read_annotation (Some s) | Err => Err end) read
            && res_eqb ids_eqb (read_annotation None) read_absent)
           (res_eqb ids_eqb read_absent (Ok [])
            && Bool.eqb (is_ok written) (enc && match l with [] => false | _ => true end)
            && match written with Ok _ => res_eqb ids_eqb read (Ok l) | Err => true end)
  end.
